(** C12 — lemmas.  Part A: the handler table built by [Layer.__init__] is exactly the
    dictionary of declared (source, tag) pairs. *)
From Coq Require Import List NArith Bool Lia Btauto.
From Whad Require Import C12.Model.
Import ListNotations.
Open Scope N_scope.

(** ** equalities *)
Lemma optN_eqb_eq a b : optN_eqb a b = true <-> a = b.
Proof.
  destruct a, b; simpl; split; intro H; try discriminate; try reflexivity.
  - apply N.eqb_eq in H. congruence.
  - inversion H. apply N.eqb_refl.
Qed.
Lemma name_eqb_eq a b : name_eqb a b = true <-> a = b.
Proof.
  destruct a as [a1 a2], b as [b1 b2]. unfold name_eqb. simpl. rewrite andb_true_iff, N.eqb_eq, optN_eqb_eq.
  split; [intros [-> ->]; reflexivity | intro H; inversion H; auto].
Qed.
Lemma name_eqb_refl a : name_eqb a a = true.
Proof. apply name_eqb_eq. reflexivity. Qed.
Lemma name_eqb_neq a b : name_eqb a b = false <-> a <> b.
Proof.
  split; intro H.
  - intro E. apply name_eqb_eq in E. congruence.
  - destruct (name_eqb a b) eqn:E; [apply name_eqb_eq in E; contradiction | reflexivity].
Qed.
Lemma name_eqb_sym a b : name_eqb a b = name_eqb b a.
Proof.
  destruct (name_eqb a b) eqn:E.
  - apply name_eqb_eq in E. subst. symmetry. apply name_eqb_refl.
  - symmetry. apply name_eqb_neq. apply name_eqb_neq in E. congruence.
Qed.
Lemma key_eqb_eq a b : key_eqb a b = true <-> a = b.
Proof.
  destruct a as [a1 a2], b as [b1 b2]. unfold key_eqb. simpl. rewrite andb_true_iff, !N.eqb_eq.
  split; [intros [-> ->]; reflexivity | intro H; inversion H; auto].
Qed.

(** ** dict *)
Section DictLemmas.
  Context {K V : Type} (eqb : K -> K -> bool).
  Hypothesis eqb_eq : forall a b, eqb a b = true <-> a = b.

  Lemma aget_aset (d : list (K * V)) k v k' :
    aget eqb (aset eqb d k v) k' = if eqb k k' then Some v else aget eqb d k'.
  Proof.
    induction d as [|[k0 v0] d IH]; simpl.
    - reflexivity.
    - destruct (eqb k0 k) eqn:E0; simpl.
      + apply eqb_eq in E0. subst k0. destruct (eqb k k'); reflexivity.
      + rewrite IH. destruct (eqb k0 k') eqn:E1; [|reflexivity].
        apply eqb_eq in E1. subst k0. destruct (eqb k k') eqn:E2; [|reflexivity].
        apply eqb_eq in E2. subst k'. assert (eqb k k = true) by (apply eqb_eq; reflexivity). congruence.
  Qed.
End DictLemmas.

(** ** Part A: handler table *)

(** [ms] lists tag [t] under source [s] *)
Definition ms_has (m : msources) (s : alias) (t : tag) : bool :=
  existsb (fun st => N.eqb (fst st) s && existsb (N.eqb t) (snd st)) m.

Lemma existsb_eqb_app t ts t' :
  existsb (N.eqb t) (ts ++ [t']) = existsb (N.eqb t) ts || N.eqb t t'.
Proof. rewrite existsb_app. simpl. rewrite orb_false_r. reflexivity. Qed.

Lemma ms_add_has m s' t' s t :
  ms_has (ms_add m s' t') s t = ms_has m s t || (N.eqb s' s && N.eqb t' t).
Proof.
  induction m as [|[s0 ts] m IH]; simpl.
  - rewrite !orb_false_r. rewrite (N.eqb_sym t t'). reflexivity.
  - destruct (N.eqb s0 s') eqn:E0; simpl.
    + apply N.eqb_eq in E0. subst s0.
      destruct (N.eqb s' s) eqn:E1; simpl; [|rewrite orb_false_r; reflexivity].
      destruct (existsb (N.eqb t') ts) eqn:E2.
      * destruct (N.eqb t' t) eqn:E3; [|rewrite orb_false_r; reflexivity].
        apply N.eqb_eq in E3. subst t'. rewrite E2. reflexivity.
      * rewrite existsb_eqb_app. rewrite (N.eqb_sym t t').
        btauto.
    + rewrite IH. rewrite orb_assoc. reflexivity.
Qed.

Definition decos_have (ds : list deco) (s : alias) (t : tag) : bool :=
  existsb (fun d => N.eqb (d_src d) s && N.eqb (d_tag d) t) ds.

Lemma decorate_some ds : forall m c,
  exists m', fold_left apply_deco ds (Some (m, c)) = Some (m', c) /\
    forall s t, ms_has m' s t = ms_has m s t || decos_have ds s t.
Proof.
  induction ds as [|d ds IH]; intros m c; simpl.
  - exists m. split; [reflexivity|]. intros. rewrite orb_false_r. reflexivity.
  - destruct (IH (ms_add m (d_src d) (d_tag d)) c) as [m' [H1 H2]].
    exists m'. split; [exact H1|]. intros s t. rewrite H2, ms_add_has, orb_assoc. reflexivity.
Qed.

Lemma decorate_spec ds :
  match decorate ds with
  | None => ds = []
  | Some (m, c) => (exists d r, ds = d :: r /\ c = d_ctx d) /\ forall s t, ms_has m s t = decos_have ds s t
  end.
Proof.
  unfold decorate. destruct ds as [|d ds]; [reflexivity|].
  cbn [fold_left]. change (apply_deco None d) with (Some ([(d_src d, [d_tag d])], d_ctx d)).
  destruct (decorate_some ds [(d_src d, [d_tag d])] (d_ctx d)) as [m' [H1 H2]].
  match goal with |- match ?X with _ => _ end => replace X with (Some (m', d_ctx d)) by (symmetry; exact H1) end.
  split; [exists d, ds; auto|].
  intros s t. rewrite H2. unfold ms_has, decos_have. cbn [existsb fst snd].
  rewrite (N.eqb_sym t (d_tag d)). btauto.
Qed.

Lemma reg_tags_get m s' ts : forall tb s t,
  aget key_eqb (reg_tags m s' ts tb) (s, t)
  = if N.eqb s' s && existsb (N.eqb t) ts then Some m else aget key_eqb tb (s, t).
Proof.
  unfold reg_tags. induction ts as [|t0 ts IH]; intros tb s t; simpl.
  - rewrite andb_false_r. reflexivity.
  - rewrite IH. rewrite (aget_aset key_eqb key_eqb_eq).
    unfold key_eqb at 1. simpl.
    destruct (N.eqb s' s) eqn:E; simpl; [|reflexivity].
    rewrite (N.eqb_sym t t0).
    destruct (existsb (N.eqb t) ts); [rewrite orb_true_r; reflexivity|].
    rewrite orb_false_r. reflexivity.
Qed.

Lemma reg_ms_get m ms : forall tb s t,
  aget key_eqb (fold_left (fun tb st => reg_tags m (fst st) (snd st) tb) ms tb) (s, t)
  = if ms_has ms s t then Some m else aget key_eqb tb (s, t).
Proof.
  induction ms as [|[s0 ts] ms IH]; intros tb s t; simpl; [reflexivity|].
  rewrite IH, reg_tags_get.
  destruct (ms_has ms s t); [rewrite orb_true_r; reflexivity|].
  rewrite orb_false_r. reflexivity.
Qed.

Lemma declares_decos h s t : declares h s t = decos_have (h_decos h) s t.
Proof. reflexivity. Qed.

Lemma reg_method_get tb h s t :
  aget key_eqb (reg_method tb h) (s, t)
  = if declares h s t then Some (h_id h, h_contextual h) else aget key_eqb tb (s, t).
Proof.
  unfold reg_method. pose proof (decorate_spec (h_decos h)) as D.
  destruct (decorate (h_decos h)) as [[m c]|].
  - destruct D as [[d [r [E ->]]] Hh]. rewrite reg_ms_get, Hh, declares_decos.
    unfold h_contextual. rewrite E. reflexivity.
  - rewrite declares_decos, D. reflexivity.
Qed.

Lemma build_handlers_get_gen hs : forall tb acc s t,
  aget key_eqb tb (s, t) = acc ->
  aget key_eqb (fold_left reg_method hs tb) (s, t)
  = fold_left (fun acc h => if declares h s t then Some (h_id h, h_contextual h) else acc) hs acc.
Proof.
  induction hs as [|h hs IH]; intros tb acc s t H; simpl; [exact H|].
  apply IH. rewrite reg_method_get, H. reflexivity.
Qed.

Lemma build_handlers_get hs s t : aget key_eqb (build_handlers hs) (s, t) = spec_declared hs s t.
Proof. apply build_handlers_get_gen. reflexivity. Qed.

Theorem handler_table_exact hs s t : impl_table hs s t = spec_table hs s t.
Proof.
  unfold impl_table, get_handler, spec_table. rewrite !build_handlers_get. reflexivity.
Qed.

(** the loop as it was before the repair loses every tag but the last one *)
Lemma handler_table_v0_refuted :
  exists hs s t, get_handler (build_handlers_v0 hs) s t <> spec_table hs s t.
Proof.
  exists [Hd 0 [Dc 1 2 false; Dc 1 1 false]; Hd 1 [Dc 1 0 false]], 1, 2.
  vm_compute. discriminate.
Qed.

(** ** Part B: structure *)

Section InstInd.
  Context (P : inst -> Prop).
  Hypothesis HI : forall u c nm s ca kids, Forall P kids -> P (Inst u c nm s ca kids).
  Fixpoint inst_ind' (i : inst) : P i :=
    match i with
    | Inst u c nm s ca kids =>
        HI u c nm s ca kids
          ((fix go (l : list inst) : Forall P l :=
              match l with
              | [] => Forall_nil P
              | k :: r => Forall_cons k (inst_ind' k) (go r)
              end) kids)
    end.
End InstInd.

Section ClsInd.
  Context (P : cls -> Prop).
  Hypothesis HC : forall a x hs subs, Forall P subs -> P (Cls a x hs subs).
  Fixpoint cls_ind' (c : cls) : P c :=
    match c with
    | Cls a x hs subs =>
        HC a x hs subs
          ((fix go (l : list cls) : Forall P l :=
              match l with
              | [] => Forall_nil P
              | k :: r => Forall_cons k (cls_ind' k) (go r)
              end) subs)
    end.
End ClsInd.

Section SsInd.
  Context (P : sstate -> Prop).
  Hypothesis HS : forall nm st subs, Forall P subs -> P (SS nm st subs).
  Fixpoint sstate_ind' (s : sstate) : P s :=
    match s with
    | SS nm st subs =>
        HS nm st subs
          ((fix go (l : list sstate) : Forall P l :=
              match l with
              | [] => Forall_nil P
              | k :: r => Forall_cons k (sstate_ind' k) (go r)
              end) subs)
    end.
End SsInd.

(** standalone versions of the inner loops, with their unfolding equations *)
Fixpoint s_loop (l : list inst) (n : name) : option tgt :=
  match l with
  | [] => None
  | k :: r => if inst_ctx k then s_loop r n
              else match s_sub k n with Some t => Some t | None => s_loop r n end
  end.

Lemma s_sub_eq i n :
  s_sub i n =
  if name_eqb n (c_alias (i_cls i), None) then Some (tgt_of i)
  else match find_kid (i_subs i) n with
       | Some k => Some (tgt_of k)
       | None => s_loop (i_subs i) n
       end.
Proof.
  destruct i as [u c nm s ca kids]. cbn [s_sub i_cls i_subs tgt_of i_uid].
  destruct (name_eqb n (c_alias c, None)); [reflexivity|].
  destruct (find_kid kids n); [reflexivity|].
  induction kids as [|k r IH]; [reflexivity|].
  cbn [s_loop]. destruct (inst_ctx k); [exact IH|]. destruct (s_sub k n); [reflexivity|exact IH].
Qed.

Fixpoint g_loop (l : list inst) (n : name) : option tgt * list inst :=
  match l with
  | [] => (None, [])
  | k :: r =>
      if inst_ctx k then let '(x, r') := g_loop r n in (x, k :: r')
      else let '(x, k') := sub_get k n in
           match x with
           | Some t => (Some t, k' :: r)
           | None => let '(y, r') := g_loop r n in (y, k' :: r')
           end
  end.

Lemma sub_get_eq i n :
  sub_get i n =
  let 'Inst u c nm s cache kids := i in
  if name_eqb n (c_alias c, None) then (Some (u, c), i)
  else match aget name_eqb cache n with
  | Some t => (Some t, i)
  | None =>
    match find_kid kids n with
    | Some k => (Some (tgt_of k), i)
    | None =>
      let '(x, kids') := g_loop kids n in
      match x with
      | Some t => (Some t, Inst u c nm s (aset name_eqb cache n t) kids')
      | None => (None, Inst u c nm s cache kids')
      end
    end
  end.
Proof.
  destruct i as [u c nm s ca kids]. cbn [sub_get].
  destruct (name_eqb n (c_alias c, None)); [reflexivity|].
  destruct (aget name_eqb ca n); [reflexivity|].
  destruct (find_kid kids n); [reflexivity|].
  match goal with |- (let '(x, kids') := ?L kids in _) = _ => assert (E : L kids = g_loop kids n) end.
  { induction kids as [|k r IH]; [reflexivity|].
    cbn [g_loop]. rewrite <- IH. reflexivity. }
  rewrite E. reflexivity.
Qed.

Fixpoint c_pop (l : list cls) (u : N) : list inst * N :=
  match l with
  | [] => ([], u)
  | s :: r =>
      if c_ctx s then c_pop r u
      else let '(i, u1) := create s (c_alias s, None) u in
           let '(is, u2) := c_pop r u1 in (i :: is, u2)
  end.

Lemma create_eq c nm u :
  create c nm u = let '(kids, u') := c_pop (c_subs c) (u + 1) in (Inst u c nm None [] kids, u').
Proof.
  destruct c as [a x hs subs]. cbn [create c_subs].
  match goal with |- (let '(kids, u') := ?L subs (u + 1) in _) = _ =>
    assert (E : forall l v, L l v = c_pop l v) end.
  { induction l as [|k r IH]; intro v; [reflexivity|].
    cbn [c_pop]. destruct (c_ctx k); [apply IH|].
    destruct (create k (c_alias k, None) v) as [i u1]. rewrite IH. reflexivity. }
  rewrite E. reflexivity.
Qed.

(** ** Forgetting caches (and layer state): [imap fs fc] rewrites every state with [fs]
    and every cache with [fc]; [erase] forgets caches, [skel] caches and states. *)
Section IMap.
  Context (fs : option N -> option N) (fc : list (name * tgt) -> list (name * tgt)).
  Fixpoint imap (i : inst) : inst :=
    let 'Inst u c nm s ca kids := i in Inst u c nm (fs s) (fc ca) (map imap kids).

  Lemma imap_uid i : i_uid (imap i) = i_uid i. Proof. destruct i; reflexivity. Qed.
  Lemma imap_cls i : i_cls (imap i) = i_cls i. Proof. destruct i; reflexivity. Qed.
  Lemma imap_name i : i_name (imap i) = i_name i. Proof. destruct i; reflexivity. Qed.
  Lemma imap_subs i : i_subs (imap i) = map imap (i_subs i). Proof. destruct i; reflexivity. Qed.
  Lemma imap_tgt i : tgt_of (imap i) = tgt_of i.
  Proof. unfold tgt_of. rewrite imap_uid, imap_cls. reflexivity. Qed.
  Lemma imap_ctx i : inst_ctx (imap i) = inst_ctx i.
  Proof. unfold inst_ctx. rewrite imap_cls. reflexivity. Qed.

  Lemma find_kid_imap l n : find_kid (map imap l) n = option_map imap (find_kid l n).
  Proof.
    induction l as [|k r IH]; [reflexivity|]. cbn [map find_kid]. rewrite imap_name.
    destruct (name_eqb (i_name k) n); [reflexivity|exact IH].
  Qed.

  Lemma get_node_imap p : forall i, get_node (imap i) p = option_map imap (get_node i p).
  Proof.
    induction p as [|x q IH]; intro i; [reflexivity|].
    cbn [get_node]. rewrite imap_subs, find_kid_imap.
    destruct (find_kid (i_subs i) x); [apply IH|reflexivity].
  Qed.

  Lemma map_kid_imap l n f g : (forall k, imap (f k) = g (imap k)) ->
    map imap (map_kid l n f) = map_kid (map imap l) n g.
  Proof.
    intro H. induction l as [|k r IH]; [reflexivity|]. cbn [map map_kid]. rewrite imap_name.
    destruct (name_eqb (i_name k) n); cbn [map]; [rewrite H; reflexivity|rewrite IH; reflexivity].
  Qed.

  Lemma with_subs_imap i l : imap (with_subs i l) = with_subs (imap i) (map imap l).
  Proof. destruct i; reflexivity. Qed.

  Lemma set_node_imap p : forall i v, imap (set_node i p v) = set_node (imap i) p (imap v).
  Proof.
    induction p as [|x q IH]; intros i v; [reflexivity|].
    cbn [set_node]. rewrite with_subs_imap, imap_subs.
    rewrite (map_kid_imap _ _ _ (fun k => set_node k q (imap v))); [reflexivity|].
    intro k. apply IH.
  Qed.

  Lemma set_kid_imap l k : map imap (set_kid l k) = set_kid (map imap l) (imap k).
  Proof.
    induction l as [|x r IH]; [reflexivity|]. cbn [map set_kid]. rewrite !imap_name.
    destruct (name_eqb (i_name x) (i_name k)); cbn [map]; [reflexivity|rewrite IH; reflexivity].
  Qed.

  Lemma del_kid_imap l n : map imap (del_kid l n) = del_kid (map imap l) n.
  Proof.
    induction l as [|x r IH]; [reflexivity|]. cbn [map del_kid]. rewrite imap_name.
    destruct (name_eqb (i_name x) n); cbn [map]; [reflexivity|rewrite IH; reflexivity].
  Qed.

  Lemma live_imap i : live (imap i) = live i.
  Proof.
    induction i as [u c nm s ca kids IH] using inst_ind'. cbn [imap live]. f_equal.
    induction IH as [|k r Hk _ IHr]; [reflexivity|]. cbn [map flat_map]. rewrite Hk, IHr. reflexivity.
  Qed.

  Lemma s_loop_imap l n : Forall (fun k => s_sub (imap k) n = s_sub k n) l ->
    s_loop (map imap l) n = s_loop l n.
  Proof.
    induction 1 as [|k r Hk _ IH]; [reflexivity|]. cbn [map s_loop].
    rewrite imap_ctx, Hk, IH. reflexivity.
  Qed.

  Lemma s_sub_imap i n : s_sub (imap i) n = s_sub i n.
  Proof.
    induction i as [u c nm s ca kids IH] using inst_ind'.
    rewrite !s_sub_eq. rewrite imap_cls, imap_tgt, imap_subs, find_kid_imap.
    destruct (name_eqb n (c_alias (i_cls (Inst u c nm s ca kids)), None)); [reflexivity|].
    cbn [i_subs]. destruct (find_kid kids n); cbn [option_map]; [rewrite imap_tgt; reflexivity|].
    apply s_loop_imap. exact IH.
  Qed.

  Lemma s_full_imap rp : forall rt n, s_full (imap rt) rp n = s_full rt rp n.
  Proof.
    induction rp as [|x rp' IH]; intros rt n; cbn [s_full]; rewrite get_node_imap;
      destruct (get_node rt _); cbn [option_map]; try reflexivity; rewrite s_sub_imap.
    - reflexivity.
    - destruct (s_sub i n); [reflexivity|apply IH].
  Qed.
End IMap.

Definition erase := imap (fun s => s) (fun _ => []).
Definition skel := imap (fun _ => None) (fun _ => []).

Lemma clear_caches_erase i : clear_caches i = erase i.
Proof.
  reflexivity.
Qed.

Lemma imap_imap f1 c1 f2 c2 i :
  imap f1 c1 (imap f2 c2 i) = imap (fun s => f1 (f2 s)) (fun c => c1 (c2 c)) i.
Proof.
  induction i as [u c nm s ca kids IH] using inst_ind'. cbn [imap]. f_equal.
  rewrite map_map. induction IH as [|k r Hk _ IHr]; [reflexivity|]. cbn [map]. rewrite Hk. f_equal. exact IHr.
Qed.

Lemma erase_erase i : erase (erase i) = erase i.
Proof. unfold erase. rewrite imap_imap. reflexivity. Qed.
Lemma skel_erase i : skel (erase i) = skel i.
Proof. unfold erase, skel. rewrite imap_imap. reflexivity. Qed.

Lemma save_erase i : save (erase i) = save i.
Proof.
  induction i as [u c nm s ca kids IH] using inst_ind'. cbn [erase imap save]. f_equal.
  rewrite map_map. induction IH as [|k r Hk _ IHr]; [reflexivity|]. cbn [map]. f_equal; [exact Hk|exact IHr].
Qed.

Lemma with_state_erase i s : erase (with_state i s) = with_state (erase i) s.
Proof. destruct i; reflexivity. Qed.
Lemma with_state_skel i s : skel (with_state i s) = skel i.
Proof. destruct i; reflexivity. Qed.
Lemma cache_set_erase i n t : erase (cache_set i n t) = erase i.
Proof. destruct i; reflexivity. Qed.
Lemma cache_set_skel i n t : skel (cache_set i n t) = skel i.
Proof. destruct i; reflexivity. Qed.

(** lookups only depend on the skeleton *)
Lemma s_sub_skel i n : s_sub (skel i) n = s_sub i n.
Proof. apply s_sub_imap. Qed.
Lemma s_full_skel rt rp n : s_full (skel rt) rp n = s_full rt rp n.
Proof. apply s_full_imap. Qed.
Lemma s_sub_skel_eq i j n : skel i = skel j -> s_sub i n = s_sub j n.
Proof. intro H. rewrite <- (s_sub_skel i), <- (s_sub_skel j), H. reflexivity. Qed.
Lemma s_full_skel_eq r1 r2 rp n : skel r1 = skel r2 -> s_full r1 rp n = s_full r2 rp n.
Proof. intro H. rewrite <- (s_full_skel r1), <- (s_full_skel r2), H. reflexivity. Qed.

(** ** Cache validity: every memoised entry equals the uncached scoped lookup *)
Definition s_fullo (o : option tgt) (i : inst) (n : name) : option tgt :=
  match s_sub i n with Some t => Some t | None => o end.

(** [o n] = what the parent's [get_layer(n)] yields (None for the root) *)
Fixpoint cache_okd (o : name -> option tgt) (i : inst) : Prop :=
  (forall n t, aget name_eqb (i_cache i) n = Some t -> s_fullo (o n) i n = Some t) /\
  (let 'Inst _ _ _ _ _ kids := i in
   (fix all (l : list inst) : Prop :=
      match l with
      | [] => True
      | k :: r => cache_okd (fun n => s_fullo (o n) i n) k /\ all r
      end) kids).

Lemma cache_okd_eq o i :
  cache_okd o i <->
  (forall n t, aget name_eqb (i_cache i) n = Some t -> s_fullo (o n) i n = Some t) /\
  Forall (cache_okd (fun n => s_fullo (o n) i n)) (i_subs i).
Proof.
  destruct i as [u c nm s ca kids]. cbn [cache_okd i_subs i_cache].
  set (i := Inst u c nm s ca kids).
  assert (E : forall l,
    (fix all (l : list inst) : Prop :=
       match l with [] => True | k :: r => cache_okd (fun n => s_fullo (o n) i n) k /\ all r end) l
    <-> Forall (cache_okd (fun n => s_fullo (o n) i n)) l).
  { induction l as [|k r IH]; split; intro H.
    - constructor.
    - exact I.
    - destruct H as [H1 H2]. constructor; [exact H1|apply IH; exact H2].
    - inversion H; subst. split; [assumption|apply IH; assumption]. }
  rewrite E. reflexivity.
Qed.

Lemma cache_okd_ext i : forall o o', (forall n, o n = o' n) -> cache_okd o i -> cache_okd o' i.
Proof.
  induction i as [u c nm s ca kids IH] using inst_ind'. intros o o' E H.
  apply cache_okd_eq in H. apply cache_okd_eq. destruct H as [H1 H2]. split.
  - intros n t Hn. rewrite <- E. apply H1. exact Hn.
  - cbn [i_subs] in *. rewrite Forall_forall in *. intros k Hk.
    apply (IH k Hk (fun n => s_fullo (o n) (Inst u c nm s ca kids) n)); [|apply H2; exact Hk].
    intro n. rewrite E. reflexivity.
Qed.

Lemma s_fullo_skel_eq o i j n : skel i = skel j -> s_fullo o i n = s_fullo o j n.
Proof. intro H. unfold s_fullo. rewrite (s_sub_skel_eq i j n H). reflexivity. Qed.

Lemma erase_skel_eq i j : erase i = erase j -> skel i = skel j.
Proof. intro H. rewrite <- (skel_erase i), <- (skel_erase j), H. reflexivity. Qed.

Lemma cache_okd_erase i : forall o, cache_okd o (erase i).
Proof.
  induction i as [u c nm s ca kids IH] using inst_ind'. intro o.
  apply cache_okd_eq. split.
  - intros n t H. discriminate H.
  - cbn [erase imap i_subs]. rewrite Forall_forall in *. intros k Hk.
    apply in_map_iff in Hk. destruct Hk as [k0 [<- Hk0]]. apply IH. exact Hk0.
Qed.

Definition sub_get_stmt (i : inst) : Prop :=
  forall o n x i', cache_okd o i -> sub_get i n = (x, i') ->
    erase i' = erase i /\ cache_okd o i' /\
    match s_sub i n with Some t => x = Some t | None => x = None \/ x = o n end.

Lemma g_loop_ok l : Forall sub_get_stmt l ->
  forall o n x l', Forall (cache_okd o) l -> g_loop l n = (x, l') ->
    map erase l' = map erase l /\ Forall (cache_okd o) l' /\
    (x = s_loop l n \/ (x = o n /\ x <> None)).
Proof.
  induction 1 as [|k r Hk _ IH]; intros o n x l' Hok E.
  - cbn [g_loop] in E. inversion E; subst. split; [reflexivity|]. split; [constructor|]. left. reflexivity.
  - inversion Hok as [|? ? Hok1 Hok2]; subst. cbn [g_loop s_loop] in *.
    destruct (inst_ctx k).
    + destruct (g_loop r n) as [y r'] eqn:Er.
      destruct (IH o n y r' Hok2 Er) as [A [B D]]. inversion E; subst.
      split; [cbn [map]; rewrite A; reflexivity|]. split; [constructor; assumption|exact D].
    + destruct (sub_get k n) as [xk k'] eqn:Ek.
      destruct (Hk o n xk k' Hok1 Ek) as [A [B D]].
      destruct xk as [t|].
      * inversion E; subst. split; [cbn [map]; rewrite A; reflexivity|].
        split; [constructor; assumption|].
        destruct (s_sub k n) as [t0|].
        -- left. exact D.
        -- right. destruct D as [D|D]; [discriminate D|]. split; [exact D|discriminate].
      * destruct (s_sub k n) as [t0|]; [discriminate D|].
        destruct (g_loop r n) as [y r'] eqn:Er.
        destruct (IH o n y r' Hok2 Er) as [A' [B' D']]. inversion E; subst.
        split; [cbn [map]; rewrite A, A'; reflexivity|]. split; [constructor; assumption|exact D'].
Qed.

Lemma sub_get_ok i : sub_get_stmt i.
Proof.
  induction i as [u c nm s ca kids IH] using inst_ind'.
  intros o n x i' Hok E. rewrite sub_get_eq in E. rewrite s_sub_eq.
  pose proof Hok as Hok'. apply cache_okd_eq in Hok'. destruct Hok' as [Hc Hk].
  cbn [i_cls i_subs i_cache tgt_of i_uid] in *.
  destruct (name_eqb n (c_alias c, None)) eqn:E1.
  { inversion E; subst. split; [reflexivity|]. split; [exact Hok|reflexivity]. }
  destruct (aget name_eqb ca n) as [t|] eqn:E2.
  { inversion E; subst. split; [reflexivity|]. split; [exact Hok|].
    specialize (Hc n t E2). unfold s_fullo in Hc. rewrite s_sub_eq in Hc.
    cbn [i_cls i_subs tgt_of i_uid] in Hc. rewrite E1 in Hc.
    destruct (find_kid kids n) as [k|].
    - exact (eq_sym Hc).
    - destruct (s_loop kids n); [exact (eq_sym Hc)|]. right. exact (eq_sym Hc). }
  destruct (find_kid kids n) as [k|] eqn:E3.
  { inversion E; subst. split; [reflexivity|]. split; [exact Hok|reflexivity]. }
  destruct (g_loop kids n) as [y kids'] eqn:E4.
  set (i0 := Inst u c nm s ca kids) in *.
  destruct (g_loop_ok kids IH (fun n => s_fullo (o n) i0 n) n y kids' Hk E4) as [A [B D]].
  assert (S0 : s_sub i0 n = s_loop kids n).
  { rewrite s_sub_eq. unfold i0. cbn [i_cls i_subs]. rewrite E1, E3. reflexivity. }
  assert (R : match s_loop kids n with Some t => y = Some t | None => y = None \/ y = o n end).
  { destruct D as [D|[D1 D2]].
    - rewrite D. destruct (s_loop kids n); [reflexivity|left; reflexivity].
    - unfold s_fullo in D1. rewrite S0 in D1. destruct (s_loop kids n); [exact D1|right; exact D1]. }
  assert (Hsk : forall ca', skel (Inst u c nm s ca' kids') = skel i0).
  { intro ca'. unfold i0. cbn [skel imap]. f_equal.
    assert (M : map skel kids' = map skel (map erase kids')) by (rewrite map_map; apply map_ext; intro; rewrite skel_erase; reflexivity).
    rewrite M, A, map_map. apply map_ext. intro. apply skel_erase. }
  assert (Hkids : forall ca', Forall (cache_okd (fun n0 => s_fullo (o n0) (Inst u c nm s ca' kids') n0)) kids').
  { intro ca'. rewrite Forall_forall in *. intros k Hin.
    apply (cache_okd_ext k (fun n0 => s_fullo (o n0) i0 n0)); [|apply B; exact Hin].
    intro n0. symmetry. apply s_fullo_skel_eq. apply Hsk. }
  destruct y as [t|]; inversion E; subst x i'.
  - split; [unfold i0; cbn [erase imap]; f_equal; exact A|]. split; [|exact R].
    apply cache_okd_eq. cbn [i_cache i_subs]. split; [|apply Hkids].
    intros n0 t0 H0. rewrite (aget_aset name_eqb name_eqb_eq) in H0.
    rewrite (s_fullo_skel_eq _ _ i0 _ (Hsk _)).
    destruct (name_eqb n n0) eqn:E5.
    + apply name_eqb_eq in E5. subst n0. inversion H0; subst t0.
      unfold s_fullo. rewrite S0. destruct (s_loop kids n).
      * symmetry. exact R.
      * destruct R as [R|R]; [discriminate R|]. symmetry. exact R.
    + apply Hc. exact H0.
  - split; [unfold i0; cbn [erase imap]; f_equal; exact A|]. split; [|exact R].
    apply cache_okd_eq. cbn [i_cache i_subs]. split; [|apply Hkids].
    intros n0 t0 H0. rewrite (s_fullo_skel_eq _ _ i0 _ (Hsk _)). apply Hc. exact H0.
Qed.

(** ** Paths *)
Lemma find_kid_in l n k : find_kid l n = Some k -> In k l /\ i_name k = n.
Proof.
  induction l as [|x r IH]; [discriminate|]. cbn [find_kid].
  destruct (name_eqb (i_name x) n) eqn:E; intro H.
  - inversion H; subst. split; [left; reflexivity|apply name_eqb_eq; exact E].
  - destruct (IH H). split; [right; assumption|assumption].
Qed.

Lemma map_kid_id l n f : (forall k, find_kid l n = Some k -> f k = k) -> map_kid l n f = l.
Proof.
  induction l as [|x r IH]; intro H; [reflexivity|]. cbn [map_kid find_kid] in *.
  destruct (name_eqb (i_name x) n).
  - rewrite H; reflexivity.
  - rewrite IH; [reflexivity|exact H].
Qed.

Lemma with_subs_id i : with_subs i (i_subs i) = i.
Proof. destruct i; reflexivity. Qed.

Lemma set_node_id p : forall i j, get_node i p = Some j -> set_node i p j = i.
Proof.
  induction p as [|x q IH]; intros i j H; cbn [get_node set_node] in *.
  - inversion H. reflexivity.
  - rewrite map_kid_id; [apply with_subs_id|].
    intros k Hk. rewrite Hk in H. apply IH. exact H.
Qed.

Lemma set_node_skel p i j j' : get_node i p = Some j -> skel j' = skel j -> skel (set_node i p j') = skel i.
Proof.
  intros H E. unfold skel. rewrite set_node_imap. fold skel. rewrite E.
  apply set_node_id. unfold skel. rewrite get_node_imap, H. reflexivity.
Qed.

Lemma set_node_erase p i j j' : get_node i p = Some j -> erase j' = erase j -> erase (set_node i p j') = erase i.
Proof.
  intros H E. unfold erase. rewrite set_node_imap. fold erase. rewrite E.
  apply set_node_id. unfold erase. rewrite get_node_imap, H. reflexivity.
Qed.

Lemma get_node_erase_eq r1 r2 p : erase r1 = erase r2 ->
  option_map erase (get_node r1 p) = option_map erase (get_node r2 p).
Proof. intro H. unfold erase. rewrite <- !get_node_imap. fold erase. rewrite H. reflexivity. Qed.

Lemma get_node_snoc p : forall i x,
  get_node i (p ++ [x]) = match get_node i p with Some j => find_kid (i_subs j) x | None => None end.
Proof.
  induction p as [|y q IH]; intros i x; cbn [app get_node].
  - destruct (find_kid (i_subs i) x); reflexivity.
  - destruct (find_kid (i_subs i) y); [apply IH|reflexivity].
Qed.

(** the value of the parent's lookup, seen from the layer at path [p] below [i] *)
Fixpoint outer_f (o : name -> option tgt) (i : inst) (p : path) : name -> option tgt :=
  match p with
  | [] => o
  | x :: q => match find_kid (i_subs i) x with
              | Some k => outer_f (fun n => s_fullo (o n) i n) k q
              | None => o
              end
  end.

Lemma outer_f_snoc p : forall o i j x k n,
  get_node i p = Some j -> find_kid (i_subs j) x = Some k ->
  outer_f o i (p ++ [x]) n = s_fullo (outer_f o i p n) j n.
Proof.
  induction p as [|y q IH]; intros o i j x k n H1 H2; cbn [app outer_f get_node] in *.
  - inversion H1; subst. rewrite H2. reflexivity.
  - destruct (find_kid (i_subs i) y) as [k0|]; [|discriminate]. eapply IH; eassumption.
Qed.

Lemma s_full_outer rp : forall rt i n, get_node rt (rev rp) = Some i ->
  s_full rt rp n = s_fullo (outer_f (fun _ => None) rt (rev rp) n) i n.
Proof.
  induction rp as [|x rp' IH]; intros rt i n H; cbn [s_full rev] in *; rewrite H.
  - reflexivity.
  - rewrite get_node_snoc in H. destruct (get_node rt (rev rp')) as [j|] eqn:Ej; [|discriminate].
    unfold s_fullo at 1. destruct (s_sub i n); [reflexivity|].
    rewrite (outer_f_snoc _ _ _ j x i n Ej H). apply IH. exact Ej.
Qed.

Lemma outer_parent x rp' rt i n : get_node rt (rev (x :: rp')) = Some i ->
  outer_f (fun _ => None) rt (rev (x :: rp')) n = s_full rt rp' n.
Proof.
  cbn [rev]. intro H. rewrite get_node_snoc in H.
  destruct (get_node rt (rev rp')) as [j|] eqn:Ej; [|discriminate].
  rewrite (outer_f_snoc _ _ _ j x i n Ej H). symmetry. apply s_full_outer. exact Ej.
Qed.

Lemma cache_okd_node p : forall o i j, cache_okd o i -> get_node i p = Some j -> cache_okd (outer_f o i p) j.
Proof.
  induction p as [|x q IH]; intros o i j Hok H; cbn [get_node outer_f] in *.
  - inversion H; subst. exact Hok.
  - destruct (find_kid (i_subs i) x) as [k|] eqn:Ek; [|discriminate].
    apply cache_okd_eq in Hok. destruct Hok as [_ Hk]. rewrite Forall_forall in Hk.
    apply IH; [|exact H]. apply Hk. apply (find_kid_in _ _ _ Ek).
Qed.

Lemma outer_f_skel p : forall o o' i i' n, (forall m, o m = o' m) -> skel i = skel i' ->
  outer_f o i p n = outer_f o' i' p n.
Proof.
  induction p as [|x q IH]; intros o o' i i' n Eo Es; cbn [outer_f].
  - apply Eo.
  - assert (F : option_map skel (find_kid (i_subs i) x) = option_map skel (find_kid (i_subs i') x)).
    { unfold skel. rewrite <- !find_kid_imap, <- !imap_subs. fold skel. rewrite Es. reflexivity. }
    destruct (find_kid (i_subs i) x) as [k|], (find_kid (i_subs i') x) as [k'|]; try discriminate F.
    + inversion F. apply IH; [|assumption]. intro m. rewrite Eo. apply s_fullo_skel_eq. exact Es.
    + apply Eo.
Qed.

Lemma map_kid_forall (P Q : inst -> Prop) l x f k :
  find_kid l x = Some k -> Forall P l -> (forall z, P z -> Q z) -> (P k -> Q (f k)) ->
  Forall Q (map_kid l x f).
Proof.
  intros Ek Hl HPQ Hf. revert Ek. induction Hl as [|y r Hy Hr IHr]; intro Ek; [constructor|].
  cbn [map_kid find_kid] in *. destruct (name_eqb (i_name y) x).
  - inversion Ek; subst y. constructor; [apply Hf; exact Hy|].
    rewrite Forall_forall in *. intros z Hz. apply HPQ. apply Hr. exact Hz.
  - constructor; [apply HPQ; exact Hy|apply IHr; exact Ek].
Qed.

Lemma set_node_ok p : forall o i j j',
  cache_okd o i -> get_node i p = Some j -> skel j' = skel j ->
  cache_okd (outer_f o i p) j' -> cache_okd o (set_node i p j').
Proof.
  induction p as [|x q IH]; intros o i j j' Hok H Es Hj; cbn [get_node set_node outer_f] in *.
  - exact Hj.
  - destruct (find_kid (i_subs i) x) as [k|] eqn:Ek; [|discriminate].
    assert (Hsk : skel (with_subs i (map_kid (i_subs i) x (fun k0 => set_node k0 q j'))) = skel i).
    { change (skel (set_node i (x :: q) j') = skel i). apply (set_node_skel (x :: q) i j j'); [|exact Es].
      cbn [get_node]. rewrite Ek. exact H. }
    apply cache_okd_eq in Hok. destruct Hok as [Hc Hk].
    apply cache_okd_eq. split.
    + destruct i as [u c nm s ca kids]. cbn [with_subs i_cache] in *. intros n t Hn.
      rewrite (s_fullo_skel_eq _ _ _ _ Hsk). apply Hc. exact Hn.
    + destruct i as [u c nm s ca kids]. cbn [with_subs i_subs] in *.
      set (i0 := Inst u c nm s ca kids) in *.
      set (i1 := Inst u c nm s ca (map_kid kids x (fun k0 => set_node k0 q j'))) in *.
      assert (Eo : forall m, s_fullo (o m) i0 m = s_fullo (o m) i1 m).
      { intro m. apply s_fullo_skel_eq. symmetry. exact Hsk. }
      apply (map_kid_forall (cache_okd (fun n => s_fullo (o n) i0 n)) _ kids x _ k Ek Hk).
      * intros z Hz. apply (cache_okd_ext _ (fun n => s_fullo (o n) i0 n)); [exact Eo|exact Hz].
      * intro Hy. apply (cache_okd_ext _ (fun n => s_fullo (o n) i0 n)); [exact Eo|].
        apply (IH _ k j j' Hy H Es Hj).
Qed.

Lemma cache_set_ok o j n t : cache_okd o j -> s_fullo (o n) j n = Some t -> cache_okd o (cache_set j n t).
Proof.
  intros Hok Hn. apply cache_okd_eq in Hok. destruct Hok as [Hc Hk].
  assert (Hsk : skel (cache_set j n t) = skel j) by apply cache_set_skel.
  apply cache_okd_eq. split.
  - intros n0 t0 H0. rewrite (s_fullo_skel_eq _ _ _ _ Hsk).
    destruct j as [u c nm s ca kids]. cbn [cache_set i_cache] in *.
    rewrite (aget_aset name_eqb name_eqb_eq) in H0. destruct (name_eqb n n0) eqn:E.
    + apply name_eqb_eq in E. subst n0. inversion H0; subst. exact Hn.
    + apply Hc. exact H0.
  - destruct j as [u c nm s ca kids]. cbn [cache_set i_subs] in *.
    rewrite Forall_forall in *. intros k Hin.
    apply (cache_okd_ext _ (fun n0 => s_fullo (o n0) (Inst u c nm s ca kids) n0)); [|apply Hk; exact Hin].
    intro m. apply s_fullo_skel_eq. symmetry. exact Hsk.
Qed.

Definition cache_ok (rt : inst) : Prop := cache_okd (fun _ => None) rt.

(** ** [get_layer] returns what the uncached scoped lookup returns, and keeps caches valid *)
Lemma full_get_ok rp : forall rt n x rt',
  cache_ok rt -> full_get rt rp n = (x, rt') ->
  x = s_full rt rp n /\ erase rt' = erase rt /\ cache_ok rt'.
Proof.
  unfold cache_ok. induction rp as [|y rp' IH]; intros rt n x rt' Hok E.
  - cbn [full_get s_full rev] in *. cbn [get_node] in *.
    destruct (sub_get rt n) as [x0 i'] eqn:Es.
    destruct (sub_get_ok rt _ n x0 i' Hok Es) as [A [B R]]. cbn [set_node] in E.
    destruct x0 as [t|]; inversion E; subst.
    + split; [|split; assumption]. destruct (s_sub rt n); [exact R|].
      destruct R as [R|R]; discriminate R.
    + split; [|split; assumption]. destruct (s_sub rt n); [discriminate R|reflexivity].
  - remember (y :: rp') as rp eqn:Erp.
    assert (U : s_full rt rp n = match get_node rt (rev rp) with
                                 | None => None
                                 | Some i => match s_sub i n with Some t => Some t | None => s_full rt rp' n end
                                 end) by (subst rp; reflexivity).
    assert (F : full_get rt rp n =
      match get_node rt (rev rp) with
      | None => (None, rt)
      | Some i =>
        let '(x, i') := sub_get i n in
        let rt1 := set_node rt (rev rp) i' in
        match x with
        | Some t => (Some t, rt1)
        | None =>
            let '(y, rt2) := full_get rt1 rp' n in
            match y with
            | Some t => (Some t, match get_node rt2 (rev rp) with
                                 | Some j => set_node rt2 (rev rp) (cache_set j n t)
                                 | None => rt2 end)
            | None => (None, rt2)
            end
        end
      end) by (subst rp; reflexivity).
    rewrite F in E. rewrite U. clear F U.
    destruct (get_node rt (rev rp)) as [i|] eqn:Ei.
    2:{ inversion E; subst. split; [reflexivity|]. split; [reflexivity|exact Hok]. }
    destruct (sub_get i n) as [x0 i'] eqn:Es.
    pose proof (cache_okd_node _ _ _ _ Hok Ei) as Hi.
    destruct (sub_get_ok i _ n x0 i' Hi Es) as [A [B R]].
    assert (Hsk : skel i' = skel i) by (apply erase_skel_eq; exact A).
    pose proof (set_node_ok _ _ _ _ _ Hok Ei Hsk B) as Hok1.
    pose proof (set_node_erase _ _ _ _ Ei A) as He1.
    assert (Op : outer_f (fun _ => None) rt (rev rp) n = s_full rt rp' n).
    { subst rp. eapply outer_parent. exact Ei. }
    cbv zeta in E.
    destruct x0 as [t|].
    + inversion E; subst x rt'. split; [|split; assumption].
      destruct (s_sub i n); [exact R|]. destruct R as [R|R]; [discriminate R|]. rewrite R. exact Op.
    + assert (Sn : s_sub i n = None) by (destruct (s_sub i n); [discriminate R|reflexivity]).
      rewrite Sn.
      destruct (full_get (set_node rt (rev rp) i') rp' n) as [y0 rt2] eqn:Ef.
      destruct (IH _ n y0 rt2 Hok1 Ef) as [Y [He2 Hok2]].
      assert (Y' : y0 = s_full rt rp' n).
      { rewrite Y. apply s_full_skel_eq. apply erase_skel_eq. exact He1. }
      destruct y0 as [t|]; inversion E; subst x rt'.
      * split; [exact Y'|].
        assert (Hg : option_map erase (get_node rt2 (rev rp)) = Some (erase i)).
        { rewrite (get_node_erase_eq rt2 rt); [rewrite Ei; reflexivity|]. rewrite He2. exact He1. }
        destruct (get_node rt2 (rev rp)) as [j|] eqn:Ej; [|discriminate Hg].
        cbn [option_map] in Hg. inversion Hg as [Hj].
        split.
        -- rewrite (set_node_erase _ _ j); [rewrite He2; exact He1|exact Ej|apply cache_set_erase].
        -- apply (set_node_ok _ _ _ j); [exact Hok2|exact Ej|apply cache_set_skel|].
           apply cache_set_ok; [apply cache_okd_node; assumption|].
           unfold s_fullo. rewrite (s_sub_skel_eq j i n (erase_skel_eq _ _ Hj)), Sn.
           assert (Op2 : outer_f (fun _ => None) rt2 (rev rp) n = s_full rt2 rp' n).
           { subst rp. eapply outer_parent. exact Ej. }
           rewrite Op2, Y'. apply s_full_skel_eq. apply erase_skel_eq. rewrite He2. exact He1.
      * split; [exact Y'|]. split; [rewrite He2; exact He1|exact Hok2].
Qed.

(** ** Counting live objects that satisfy a test *)
Section Counting.
  Local Open Scope nat_scope.
  Context (f : N * name -> bool).

  Definition b2n (b : bool) : nat := if b then 1 else 0.
  Definition lcnt (i : inst) : nat := length (filter f (live i)).
  Fixpoint lcntL (l : list inst) : nat :=
    match l with [] => 0 | k :: r => lcnt k + lcntL r end.

  Lemma filter_flat_map_len l : length (filter f (flat_map live l)) = lcntL l.
  Proof.
    induction l as [|k r IH]; [reflexivity|]. cbn [flat_map lcntL].
    rewrite filter_app, app_length, IH. reflexivity.
  Qed.

  Lemma lcnt_inst u c nm s ca kids : lcnt (Inst u c nm s ca kids) = b2n (f (u, nm)) + lcntL kids.
  Proof.
    unfold lcnt. cbn [live filter]. destruct (f (u, nm)); cbn [length b2n];
      rewrite filter_flat_map_len; reflexivity.
  Qed.

  Lemma lcnt_eq i : lcnt i = b2n (f (i_uid i, i_name i)) + lcntL (i_subs i).
  Proof. destruct i. apply lcnt_inst. Qed.

  Lemma lcnt_with_subs i l : lcnt (with_subs i l) = b2n (f (i_uid i, i_name i)) + lcntL l.
  Proof. destruct i. apply lcnt_inst. Qed.

  Lemma lcntL_app a b : lcntL (a ++ b) = lcntL a + lcntL b.
  Proof. induction a as [|k r IH]; [reflexivity|]. cbn [app lcntL]. rewrite IH. lia. Qed.

  Lemma lcnt_live_imap fs fc i : lcnt (imap fs fc i) = lcnt i.
  Proof. unfold lcnt. rewrite live_imap. reflexivity. Qed.

  Lemma set_kid_replace l k k' : find_kid l (i_name k') = Some k ->
    lcntL (set_kid l k') + lcnt k = lcntL l + lcnt k'.
  Proof.
    induction l as [|x r IH]; [discriminate|]. cbn [find_kid set_kid].
    destruct (name_eqb (i_name x) (i_name k')); intro H.
    - inversion H; subst. cbn [lcntL]. lia.
    - cbn [lcntL]. specialize (IH H). lia.
  Qed.

  Lemma set_kid_append l k' : find_kid l (i_name k') = None -> set_kid l k' = l ++ [k'].
  Proof.
    induction l as [|x r IH]; [reflexivity|]. cbn [find_kid set_kid].
    destruct (name_eqb (i_name x) (i_name k')); [discriminate|]. intro H. rewrite IH; [reflexivity|exact H].
  Qed.

  Lemma del_kid_cnt l n k : find_kid l n = Some k -> lcntL (del_kid l n) + lcnt k = lcntL l.
  Proof.
    induction l as [|x r IH]; [discriminate|]. cbn [find_kid del_kid].
    destruct (name_eqb (i_name x) n); intro H.
    - inversion H; subst. cbn [lcntL]. lia.
    - cbn [lcntL]. specialize (IH H). lia.
  Qed.

  Lemma map_kid_cnt l x g k : find_kid l x = Some k ->
    lcntL (map_kid l x g) + lcnt k = lcntL l + lcnt (g k).
  Proof.
    induction l as [|y r IH]; [discriminate|]. cbn [find_kid map_kid].
    destruct (name_eqb (i_name y) x); intro H.
    - inversion H; subst. cbn [lcntL]. lia.
    - cbn [lcntL]. specialize (IH H). lia.
  Qed.

  Lemma find_kid_cnt_le l n k : find_kid l n = Some k -> lcnt k <= lcntL l.
  Proof. intro H. pose proof (del_kid_cnt l n k H). lia. Qed.

  Lemma set_node_cnt p : forall r j v, get_node r p = Some j ->
    lcnt (set_node r p v) + lcnt j = lcnt r + lcnt v.
  Proof.
    induction p as [|x q IH]; intros r j v H; cbn [get_node set_node] in *.
    - inversion H; subst. lia.
    - destruct (find_kid (i_subs r) x) as [k|] eqn:Ek; [|discriminate].
      rewrite lcnt_with_subs, (lcnt_eq r).
      pose proof (map_kid_cnt (i_subs r) x (fun k0 => set_node k0 q v) k Ek).
      pose proof (IH k j v H). lia.
  Qed.

  Lemma get_node_cnt_le p : forall r j, get_node r p = Some j -> lcnt j <= lcnt r.
  Proof.
    induction p as [|x q IH]; intros r j H; cbn [get_node] in *.
    - inversion H; subst. lia.
    - destruct (find_kid (i_subs r) x) as [k|] eqn:Ek; [|discriminate].
      pose proof (IH k j H). pose proof (find_kid_cnt_le _ _ _ Ek). rewrite (lcnt_eq r). lia.
  Qed.
End Counting.

(** headers are preserved by [set_node] below the root of the replacement *)
Lemma set_node_hdr p : forall r j v, get_node r p = Some j ->
  i_uid v = i_uid j -> i_cls v = i_cls j -> i_name v = i_name j ->
  i_uid (set_node r p v) = i_uid r /\ i_cls (set_node r p v) = i_cls r /\ i_name (set_node r p v) = i_name r.
Proof.
  destruct p as [|x q]; intros r j v H H1 H2 H3; cbn [get_node set_node] in *.
  - inversion H; subst. auto.
  - destruct r; cbn [with_subs]. auto.
Qed.

Lemma set_node_root_hdr p r j v : get_node r p = Some j -> i_cls v = i_cls j -> i_name v = i_name j ->
  i_cls (set_node r p v) = i_cls r /\ i_name (set_node r p v) = i_name r.
Proof.
  destruct p as [|x q]; cbn [get_node set_node]; intros H A B.
  - inversion H; subst. auto.
  - destruct r as [a1 a2 a3 a4 a5 a6]. cbn. auto.
Qed.

(** tests on live objects: by name, by uid *)
Definition fn (n : name) (x : N * name) : bool := name_eqb (snd x) n.
Definition fu (u : N) (x : N * name) : bool := N.eqb (fst x) u.

(** ** [create] *)
Lemma create_hdr c nm u : i_uid (fst (create c nm u)) = u /\ i_cls (fst (create c nm u)) = c
  /\ i_name (fst (create c nm u)) = nm /\ i_cache (fst (create c nm u)) = [] /\ i_state (fst (create c nm u)) = None.
Proof. rewrite create_eq. destruct (c_pop (c_subs c) (u + 1)). cbn. auto. Qed.

Definition create_stmt (c : cls) : Prop :=
  forall nm u, let '(i, u') := create c nm u in
    erase i = i /\ (u < u')%N /\
    (forall n, snd n <> None -> lcnt (fn n) i = b2n (name_eqb nm n)) /\
    (forall v, lcnt (fu v) i = b2n ((u <=? v)%N && (v <? u')%N)).

Lemma c_pop_ok l : Forall create_stmt l -> forall u,
  let '(kids, u') := c_pop l u in
    map erase kids = kids /\ (u <= u')%N /\
    (forall n, snd n <> None -> lcntL (fn n) kids = 0%nat) /\
    (forall v, lcntL (fu v) kids = b2n ((u <=? v)%N && (v <? u')%N)).
Proof.
  induction 1 as [|c r Hc _ IH]; intro u; cbn [c_pop].
  - split; [reflexivity|]. split; [lia|]. split; [reflexivity|].
    intro v. destruct (u <=? v)%N eqn:E1, (v <? u)%N eqn:E2; try reflexivity.
    apply N.leb_le in E1. apply N.ltb_lt in E2. lia.
  - destruct (c_ctx c); [apply IH|].
    specialize (Hc (c_alias c, None) u). destruct (create c (c_alias c, None) u) as [i u1].
    specialize (IH u1). destruct (c_pop r u1) as [is u2].
    destruct Hc as [A1 [A2 [A3 A4]]]. destruct IH as [B1 [B2 [B3 B4]]].
    split; [cbn [map]; rewrite A1, B1; reflexivity|]. split; [lia|]. split.
    + intros n Hn. cbn [lcntL]. rewrite A3, B3 by exact Hn.
      destruct n as [a [k|]]; [|contradiction]. unfold name_eqb. cbn. rewrite andb_false_r. reflexivity.
    + intro v. cbn [lcntL]. rewrite A4, B4.
      destruct (u <=? v)%N eqn:E1, (v <? u1)%N eqn:E2, (u1 <=? v)%N eqn:E3, (v <? u2)%N eqn:E4; cbn;
        try reflexivity;
        repeat match goal with
        | H : (_ <=? _)%N = true |- _ => apply N.leb_le in H
        | H : (_ <=? _)%N = false |- _ => apply N.leb_gt in H
        | H : (_ <? _)%N = true |- _ => apply N.ltb_lt in H
        | H : (_ <? _)%N = false |- _ => apply N.ltb_ge in H
        end; lia.
Qed.

Lemma create_ok c : create_stmt c.
Proof.
  induction c as [a x hs subs IH] using cls_ind'. intros nm u. rewrite create_eq. cbn [c_subs].
  pose proof (c_pop_ok subs IH (u + 1)) as H. destruct (c_pop subs (u + 1)) as [kids u'].
  destruct H as [A1 [A2 [A3 A4]]].
  split; [cbn [erase imap]; f_equal; exact A1|]. split; [lia|]. split.
  - intros n Hn. rewrite lcnt_inst, A3 by exact Hn. unfold fn. cbn [snd]. lia.
  - intro v. rewrite lcnt_inst, A4. unfold fu. cbn [fst].
    destruct (u =? v)%N eqn:E0, (u + 1 <=? v)%N eqn:E1, (v <? u')%N eqn:E2, (u <=? v)%N eqn:E3; cbn;
      try reflexivity;
      repeat match goal with
      | H : (_ =? _)%N = true |- _ => apply N.eqb_eq in H
      | H : (_ =? _)%N = false |- _ => apply N.eqb_neq in H
      | H : (_ <=? _)%N = true |- _ => apply N.leb_le in H
      | H : (_ <=? _)%N = false |- _ => apply N.leb_gt in H
      | H : (_ <? _)%N = true |- _ => apply N.ltb_lt in H
      | H : (_ <? _)%N = false |- _ => apply N.ltb_ge in H
      end; lia.
Qed.

(** ** what a successful sub-tree lookup returns is a live object carrying that name *)
Lemma s_loop_some l n t : s_loop l n = Some t -> exists k, In k l /\ s_sub k n = Some t.
Proof.
  induction l as [|k r IH]; [discriminate|]. cbn [s_loop].
  destruct (inst_ctx k).
  - intro H. destruct (IH H) as [k0 [A B]]. exists k0. split; [right; exact A|exact B].
  - destruct (s_sub k n) eqn:E.
    + intro H. inversion H; subst. exists k. split; [left; reflexivity|exact E].
    + intro H. destruct (IH H) as [k0 [A B]]. exists k0. split; [right; exact A|exact B].
Qed.

Lemma live_kid k i : In k (i_subs i) -> incl (live k) (live i).
Proof.
  destruct i as [u c nm s ca kids]. cbn [i_subs live]. intros H x Hx. right.
  apply in_flat_map. exists k. split; assumption.
Qed.

Lemma live_self i : In (i_uid i, i_name i) (live i).
Proof. destruct i. left. reflexivity. Qed.

Lemma s_sub_live i : forall n t, s_sub i n = Some t ->
  exists nm, In (fst t, nm) (live i) /\ (nm = n \/ snd n = None).
Proof.
  induction i as [u c nm s ca kids IH] using inst_ind'. intros n t H.
  rewrite s_sub_eq in H. cbn [i_cls i_subs] in H.
  destruct (name_eqb n (c_alias c, None)) eqn:E1.
  { inversion H; subst. exists nm. split; [left; reflexivity|]. right.
    apply name_eqb_eq in E1. subst n. reflexivity. }
  destruct (find_kid kids n) as [k|] eqn:E2.
  { inversion H; subst. destruct (find_kid_in _ _ _ E2) as [A B]. exists (i_name k). split; [|left; exact B].
    apply (live_kid k (Inst u c nm s ca kids) A). apply live_self. }
  destruct (s_loop_some _ _ _ H) as [k [A B]].
  rewrite Forall_forall in IH. destruct (IH k A n t B) as [nm' [C D]].
  exists nm'. split; [|exact D]. apply (live_kid k (Inst u c nm s ca kids) A). exact C.
Qed.

Lemma get_node_live p : forall r j, get_node r p = Some j -> incl (live j) (live r).
Proof.
  induction p as [|x q IH]; intros r j H; cbn [get_node] in *.
  - inversion H; subst. apply incl_refl.
  - destruct (find_kid (i_subs r) x) as [k|] eqn:Ek; [|discriminate].
    apply (incl_tran (IH k j H)). apply live_kid. apply (find_kid_in _ _ _ Ek).
Qed.

Lemma s_full_live rp : forall rt n t, s_full rt rp n = Some t ->
  exists nm, In (fst t, nm) (live rt) /\ (nm = n \/ snd n = None).
Proof.
  induction rp as [|x rp' IH]; intros rt n t H; cbn [s_full] in H;
    destruct (get_node rt _) as [i|] eqn:Ei; try discriminate.
  - destruct (s_sub i n) eqn:Es; [|discriminate]. inversion H; subst.
    destruct (s_sub_live _ _ _ Es) as [nm [A B]]. exists nm. split; [|exact B].
    apply (get_node_live _ _ _ Ei). exact A.
  - destruct (s_sub i n) eqn:Es.
    + inversion H; subst. destruct (s_sub_live _ _ _ Es) as [nm [A B]]. exists nm. split; [|exact B].
      apply (get_node_live _ _ _ Ei). exact A.
    + apply IH. exact H.
Qed.

Lemma lcnt_pos_in f i : (0 < lcnt f i)%nat <-> exists x, In x (live i) /\ f x = true.
Proof.
  unfold lcnt. split.
  - intro H. destruct (filter f (live i)) as [|x r] eqn:E; [cbn in H; lia|].
    exists x. apply filter_In. rewrite E. left. reflexivity.
  - intros [x Hx]. apply filter_In in Hx. destruct (filter f (live i)); [contradiction|cbn; lia].
Qed.

(** ** Adding a freshly named contextual instance keeps every cache valid *)
Inductive nokey (n : name) : inst -> Prop :=
| NK u c nm s ca kids : aget name_eqb ca n = None -> Forall (nokey n) kids -> nokey n (Inst u c nm s ca kids).

Lemma nokey_inv n i : nokey n i -> aget name_eqb (i_cache i) n = None /\ Forall (nokey n) (i_subs i).
Proof. intro H. inversion H; subst. cbn. auto. Qed.

Lemma cache_okd_except n0 i : forall o o', (forall n, n <> n0 -> o n = o' n) -> nokey n0 i ->
  cache_okd o i -> cache_okd o' i.
Proof.
  induction i as [u c nm s ca kids IH] using inst_ind'. intros o o' E Hn H.
  apply nokey_inv in Hn. destruct Hn as [Hn1 Hn2]. cbn [i_cache i_subs] in *.
  apply cache_okd_eq in H. destruct H as [H1 H2]. apply cache_okd_eq. cbn [i_cache i_subs] in *. split.
  - intros n t Hg. assert (n <> n0) by (intro; subst; congruence).
    rewrite <- E by assumption. apply H1. exact Hg.
  - rewrite Forall_forall in *. intros k Hk.
    apply (IH k Hk (fun n => s_fullo (o n) (Inst u c nm s ca kids) n)); [|apply Hn2; exact Hk|apply H2; exact Hk].
    intros n Hne. rewrite E by exact Hne. reflexivity.
Qed.

Lemma in_lcntL_le f k l : In k l -> (lcnt f k <= lcntL f l)%nat.
Proof.
  induction l as [|x r IH]; [contradiction|]. intros [->|H]; cbn [lcntL]; [lia|]. specialize (IH H). lia.
Qed.

Lemma s_sub_none_of_cnt i n : snd n <> None -> lcnt (fn n) i = 0%nat -> s_sub i n = None.
Proof.
  intros Hs Hc. destruct (s_sub i n) as [t|] eqn:E; [|reflexivity]. exfalso.
  destruct (s_sub_live _ _ _ E) as [nm [A [B|B]]]; [|contradiction].
  assert (0 < lcnt (fn n) i)%nat; [|lia]. apply lcnt_pos_in. exists (fst t, nm). split; [exact A|].
  unfold fn. cbn [snd]. subst. apply name_eqb_refl.
Qed.

Lemma nokey_from_ok n0 i : snd n0 <> None -> forall o, cache_okd o i -> o n0 = None ->
  lcnt (fn n0) i = 0%nat -> nokey n0 i.
Proof.
  intro Hs. induction i as [u c nm s ca kids IH] using inst_ind'. intros o H Ho Hc.
  set (i0 := Inst u c nm s ca kids) in *.
  pose proof (s_sub_none_of_cnt i0 n0 Hs Hc) as Sn.
  apply cache_okd_eq in H. destruct H as [H1 H2]. cbn [i_cache i_subs] in *. constructor.
  - destruct (aget name_eqb ca n0) as [t|] eqn:E; [|reflexivity]. exfalso.
    specialize (H1 n0 t E). unfold s_fullo in H1. rewrite Sn, Ho in H1. discriminate.
  - rewrite Forall_forall in *. intros k Hk.
    apply (IH k Hk (fun n => s_fullo (o n) i0 n)); [apply H2; exact Hk| |].
    + unfold s_fullo. rewrite Sn. exact Ho.
    + pose proof (in_lcntL_le (fn n0) k kids Hk). unfold i0 in Hc. rewrite lcnt_inst in Hc. lia.
Qed.

Lemma find_kid_app a b n :
  find_kid (a ++ b) n = match find_kid a n with Some k => Some k | None => find_kid b n end.
Proof.
  induction a as [|x r IH]; [reflexivity|]. cbn [app find_kid].
  destruct (name_eqb (i_name x) n); [reflexivity|exact IH].
Qed.

Lemma s_loop_app a b n :
  s_loop (a ++ b) n = match s_loop a n with Some t => Some t | None => s_loop b n end.
Proof.
  induction a as [|x r IH]; [reflexivity|]. cbn [app s_loop].
  destruct (inst_ctx x); [exact IH|]. destruct (s_sub x n); [reflexivity|exact IH].
Qed.

Lemma s_sub_eq' i n :
  s_sub i n =
  if name_eqb n (c_alias (i_cls i), None) then Some (tgt_of i)
  else match option_map tgt_of (find_kid (i_subs i) n) with
       | Some t => Some t
       | None => s_loop (i_subs i) n
       end.
Proof. rewrite s_sub_eq. destruct (find_kid (i_subs i) n); reflexivity. Qed.

Lemma find_kid_map_kid_tgt l x g n :
  (forall k, find_kid l x = Some k -> i_name (g k) = i_name k /\ tgt_of (g k) = tgt_of k) ->
  option_map tgt_of (find_kid (map_kid l x g) n) = option_map tgt_of (find_kid l n).
Proof.
  induction l as [|y r IH]; intro H; [reflexivity|]. cbn [map_kid find_kid] in *.
  destruct (name_eqb (i_name y) x) eqn:E.
  - destruct (H y eq_refl) as [A B]. cbn [find_kid]. rewrite A.
    destruct (name_eqb (i_name y) n); [cbn; rewrite B; reflexivity|reflexivity].
  - cbn [find_kid]. destruct (name_eqb (i_name y) n); [reflexivity|apply IH; exact H].
Qed.

Lemma s_loop_map_kid l x g n :
  (forall k, find_kid l x = Some k -> inst_ctx (g k) = inst_ctx k /\ s_sub (g k) n = s_sub k n) ->
  s_loop (map_kid l x g) n = s_loop l n.
Proof.
  induction l as [|y r IH]; intro H; [reflexivity|]. cbn [map_kid find_kid] in *.
  destruct (name_eqb (i_name y) x) eqn:E.
  - destruct (H y eq_refl) as [A B]. cbn [s_loop]. rewrite A, B. reflexivity.
  - cbn [s_loop]. rewrite IH by exact H. reflexivity.
Qed.

Section AddKid.
  Context (ni : inst).
  Hypothesis ni_ctx : inst_ctx ni = true.

  Definition add_kid (r : inst) (p : path) (par : inst) : inst :=
    set_node r p (with_subs par (i_subs par ++ [ni])).

  Lemma add_kid_hdr p r par : get_node r p = Some par ->
    i_uid (add_kid r p par) = i_uid r /\ i_cls (add_kid r p par) = i_cls r /\ i_name (add_kid r p par) = i_name r.
  Proof.
    intro H. apply (set_node_hdr p r par); [exact H| | |]; destruct par; reflexivity.
  Qed.

  Lemma s_sub_add n : n <> i_name ni -> forall p r par, get_node r p = Some par ->
    s_sub (add_kid r p par) n = s_sub r n.
  Proof.
    intro Hn. induction p as [|x q IH]; intros r par H; unfold add_kid in *; cbn [get_node set_node] in *.
    - inversion H; subst par. rewrite !s_sub_eq'. destruct r as [u c nm s ca kids]. cbn [with_subs i_cls i_subs tgt_of i_uid].
      destruct (name_eqb n (c_alias c, None)); [reflexivity|].
      rewrite find_kid_app, s_loop_app. cbn [find_kid s_loop]. rewrite ni_ctx.
      assert (E : name_eqb (i_name ni) n = false) by (apply name_eqb_neq; congruence). rewrite E.
      destruct (find_kid kids n); [reflexivity|]. cbn [option_map]. destruct (s_loop kids n); reflexivity.
    - destruct (find_kid (i_subs r) x) as [k|] eqn:Ek; [|discriminate].
      rewrite !s_sub_eq'. destruct r as [u c nm s ca kids]. cbn [with_subs i_cls i_subs tgt_of i_uid] in *.
      destruct (name_eqb n (c_alias c, None)); [reflexivity|].
      rewrite find_kid_map_kid_tgt, s_loop_map_kid; [reflexivity| |].
      + intros k0 Hk0. rewrite Ek in Hk0. inversion Hk0; subst k0.
        destruct (add_kid_hdr q k par H) as [A [B C]]. unfold add_kid in *.
        split; [unfold inst_ctx; rewrite B; reflexivity|]. apply IH. exact H.
      + intros k0 Hk0. rewrite Ek in Hk0. inversion Hk0; subst k0.
        destruct (add_kid_hdr q k par H) as [A [B C]]. unfold add_kid in *.
        split; [exact C|]. unfold tgt_of. rewrite A, B. reflexivity.
  Qed.

  Lemma add_kid_ok : erase ni = ni -> forall p o o' r par,
    cache_okd o r -> get_node r p = Some par -> (forall n, n <> i_name ni -> o n = o' n) ->
    nokey (i_name ni) r -> cache_okd o' (add_kid r p par).
  Proof.
    intro Hni. induction p as [|x q IH]; intros o o' r par Hok H Eo Hnk.
    - cbn [get_node] in H. inversion H; subst par.
      assert (Ss : forall n, n <> i_name ni -> s_fullo (o n) r n = s_fullo (o' n) (add_kid r [] r) n).
      { intros n Hn. unfold s_fullo. rewrite (s_sub_add n Hn [] r r eq_refl), Eo by exact Hn. reflexivity. }
      unfold add_kid in *. cbn [set_node] in *.
      apply nokey_inv in Hnk. destruct Hnk as [Hn1 Hn2].
      apply cache_okd_eq in Hok. destruct Hok as [H1 H2].
      apply cache_okd_eq. destruct r as [u c nm s ca kids]. cbn [with_subs i_cache i_subs] in *. split.
      + intros n t Hg. assert (n <> i_name ni) by (intro; subst; congruence).
        rewrite <- Ss by assumption. apply H1. exact Hg.
      + apply Forall_app. split.
        * rewrite Forall_forall in *. intros k Hk.
          apply (cache_okd_except (i_name ni) k (fun n => s_fullo (o n) (Inst u c nm s ca kids) n));
            [exact Ss|apply Hn2; exact Hk|apply H2; exact Hk].
        * constructor; [|constructor]. rewrite <- Hni. apply cache_okd_erase.
    - cbn [get_node] in H. destruct (find_kid (i_subs r) x) as [k|] eqn:Ek; [|discriminate].
      assert (Ss : forall n, n <> i_name ni -> s_fullo (o n) r n = s_fullo (o' n) (add_kid r (x :: q) par) n).
      { intros n Hn. unfold s_fullo. rewrite (s_sub_add n Hn (x :: q) r par), Eo; [reflexivity|exact Hn|].
        cbn [get_node]. rewrite Ek. exact H. }
      unfold add_kid in *. cbn [set_node] in *.
      apply nokey_inv in Hnk. destruct Hnk as [Hn1 Hn2].
      apply cache_okd_eq in Hok. destruct Hok as [H1 H2].
      apply cache_okd_eq. destruct r as [u c nm s ca kids]. cbn [with_subs i_cache i_subs] in *. split.
      + intros n t Hg. assert (n <> i_name ni) by (intro; subst; congruence).
        rewrite <- Ss by assumption. apply H1. exact Hg.
      + set (i0 := Inst u c nm s ca kids) in *.
        apply (map_kid_forall (fun z => cache_okd (fun n => s_fullo (o n) i0 n) z /\ nokey (i_name ni) z) _ kids x _ k Ek).
        * rewrite Forall_forall in *. intros z Hz. split; [apply H2|apply Hn2]; exact Hz.
        * intros z [Hz1 Hz2]. apply (cache_okd_except (i_name ni) z (fun n => s_fullo (o n) i0 n)); assumption.
        * intros [Hz1 Hz2]. apply (IH (fun n => s_fullo (o n) i0 n) _ k par Hz1 H Ss Hz2).
  Qed.
End AddKid.

(** ** [load] *)
Definition alloc (cs : list (N * N)) (a k : N) : Prop :=
  exists c, aget N.eqb cs a = Some c /\ k <= c.

Lemma bump_alloc cs a k : alloc (bump cs a k) a k.
Proof.
  unfold bump, alloc. destruct (aget N.eqb cs a) as [v|] eqn:E.
  - destruct (N.ltb v k) eqn:El.
    + exists k. rewrite (aget_aset N.eqb N.eqb_eq), N.eqb_refl. split; [reflexivity|lia].
    + exists v. apply N.ltb_ge in El. auto.
  - exists k. rewrite (aget_aset N.eqb N.eqb_eq), N.eqb_refl. split; [reflexivity|lia].
Qed.

Lemma bump_mono cs a k a' k' : alloc cs a' k' -> alloc (bump cs a k) a' k'.
Proof.
  intros [c [H1 H2]]. unfold bump, alloc. destruct (aget N.eqb cs a) as [v|] eqn:E.
  - destruct (N.ltb v k) eqn:El; [|exists c; auto].
    rewrite (aget_aset N.eqb N.eqb_eq). destruct (N.eqb a a') eqn:Ea; [|exists c; auto].
    apply N.eqb_eq in Ea. subst a'. rewrite E in H1. inversion H1; subst c.
    apply N.ltb_lt in El. exists k. split; [reflexivity|lia].
  - rewrite (aget_aset N.eqb N.eqb_eq). destruct (N.eqb a a') eqn:Ea; [|exists c; auto].
    apply N.eqb_eq in Ea. subst a'. congruence.
Qed.

Fixpoint l_go (l : list sstate) (i : inst) (u : N) (cs : list (N * N)) : lres :=
  match l with
  | [] => LOk i u cs
  | cs0 :: r =>
    let snm := s_name cs0 in
    match snd snm with
    | None =>
        if name_eqb snm (c_alias (i_cls i), None) then
          match load cs0 i u cs with LOk i' u' cs' => l_go r i' u' cs' | LRaise e => LRaise e end
        else match aget name_eqb (i_cache i) snm with
        | Some _ => LRaise OutsideModel
        | None =>
          match find_kid (i_subs i) snm with
          | Some k =>
              match load cs0 k u cs with
              | LOk k' u' cs' => l_go r (with_subs i (set_kid (i_subs i) k')) u' cs'
              | LRaise e => LRaise e
              end
          | None => LRaise OutsideModel
          end
        end
    | Some num =>
        match find_cls (c_subs (i_cls i)) (fst snm) with
        | None => LRaise KeyError
        | Some c =>
            let '(k, u1) := create c snm u in
            match load cs0 k u1 (bump cs (fst snm) num) with
            | LOk k' u' cs' => l_go r (with_subs i (set_kid (i_subs i) k')) u' cs'
            | LRaise e => LRaise e
            end
        end
    end
  end.

Lemma load_eq s i u cs :
  load s i u cs =
  let 'SS nm st subs := s in
  if negb (name_eqb nm (i_name i)) then LRaise AssertionError
  else l_go subs (with_state i (merge_state (i_state i) st)) u cs.
Proof.
  destruct s as [nm st subs]. cbn [load].
  destruct (negb (name_eqb nm (i_name i))); [reflexivity|].
  generalize (with_state i (merge_state (i_state i) st)) as j. generalize u as v. generalize cs as cz.
  induction subs as [|cs0 r IH]; intros cz v j; [reflexivity|].
  cbn [l_go]. destruct (snd (s_name cs0)).
  - destruct (find_cls (c_subs (i_cls j)) (fst (s_name cs0))); [|reflexivity].
    destruct (create c (s_name cs0) v) as [k u1]. destruct (load cs0 k u1 _); [apply IH|reflexivity].
  - destruct (name_eqb (s_name cs0) (c_alias (i_cls j), None)).
    + destruct (load cs0 j v cz); [apply IH|reflexivity].
    + destruct (aget name_eqb (i_cache j) (s_name cs0)); [reflexivity|].
      destruct (find_kid (i_subs j) (s_name cs0)) as [k0|]; [|reflexivity].
      destruct (load cs0 k0 v cz); [apply IH|reflexivity].
Qed.

Section SCount.
  Local Open Scope nat_scope.
  (** occurrences of a name in a saved state *)
  Fixpoint scnt (n : name) (s : sstate) : nat :=
    let 'SS nm _ subs := s in
    b2n (name_eqb nm n) +
    (fix go (l : list sstate) : nat := match l with [] => 0 | x :: r => scnt n x + go r end) subs.
  Fixpoint scntL (n : name) (l : list sstate) : nat :=
    match l with [] => 0 | x :: r => scnt n x + scntL n r end.
  Lemma scnt_eq n nm st subs : scnt n (SS nm st subs) = b2n (name_eqb nm n) + scntL n subs.
  Proof.
    cbn [scnt]. f_equal. induction subs as [|x r IH]; [reflexivity|]. cbn [scntL]. rewrite IH. reflexivity.
  Qed.
End SCount.

Definition in_range (a v b : N) : bool := (a <=? v) && (v <? b).

Lemma in_range_split a b c v : a <= b -> b <= c ->
  (b2n (in_range a v b) + b2n (in_range b v c))%nat = b2n (in_range a v c).
Proof.
  intros H1 H2. unfold in_range.
  destruct (a <=? v) eqn:E1, (v <? b) eqn:E2, (b <=? v) eqn:E3, (v <? c) eqn:E4; cbn; try reflexivity;
    repeat match goal with
    | H : (_ <=? _) = true |- _ => apply N.leb_le in H
    | H : (_ <=? _) = false |- _ => apply N.leb_gt in H
    | H : (_ <? _) = true |- _ => apply N.ltb_lt in H
    | H : (_ <? _) = false |- _ => apply N.ltb_ge in H
    end; lia.
Qed.

Definition same_hdr (i' i : inst) : Prop :=
  i_uid i' = i_uid i /\ i_cls i' = i_cls i /\ i_name i' = i_name i.

Definition load_post (subs : list sstate) (i : inst) (u : N) (cs : list (N * N))
  (i' : inst) (u' : N) (cs' : list (N * N)) : Prop :=
  same_hdr i' i /\ (erase i = i -> erase i' = i') /\ u <= u' /\
  (forall n, snd n <> None -> (lcnt (fn n) i' <= lcnt (fn n) i + scntL n subs)%nat) /\
  (forall v, (lcnt (fu v) i' <= lcnt (fu v) i + b2n (in_range u v u'))%nat) /\
  (forall a k, alloc cs a k -> alloc cs' a k) /\
  (forall a k, (0 < lcnt (fn (a, Some k)) i')%nat -> (0 < lcnt (fn (a, Some k)) i)%nat \/ alloc cs' a k).

Definition load_stmt (s : sstate) : Prop :=
  forall i u cs i' u' cs', load s i u cs = LOk i' u' cs' ->
    let 'SS _ _ subs := s in load_post subs i u cs i' u' cs'.

Lemma with_state_hdr i s : same_hdr (with_state i s) i.
Proof. destruct i. cbn. repeat split. Qed.
Lemma with_state_live i s : live (with_state i s) = live i.
Proof. destruct i. reflexivity. Qed.
Lemma with_state_cache i s : i_cache (with_state i s) = i_cache i.
Proof. destruct i. reflexivity. Qed.
Lemma with_state_subs i s : i_subs (with_state i s) = i_subs i.
Proof. destruct i. reflexivity. Qed.
Lemma with_subs_hdr i l : same_hdr (with_subs i l) i.
Proof. destruct i. cbn. repeat split. Qed.

Lemma erase_fix_subs i : erase i = i -> map erase (i_subs i) = i_subs i /\ i_cache i = [].
Proof. destruct i as [u c nm s ca kids]. cbn [erase imap i_subs i_cache]. intro H. inversion H. rewrite !H1, !H2. auto. Qed.

Lemma erase_fix_with_subs i l : erase i = i -> map erase l = l -> erase (with_subs i l) = with_subs i l.
Proof.
  destruct i as [u c nm s ca kids]. cbn [erase imap with_subs]. intros H Hl. inversion H. rewrite Hl, !H1. reflexivity.
Qed.

Lemma set_kid_cnt_le f l k' : (lcntL f (set_kid l k') <= lcntL f l + lcnt f k')%nat.
Proof.
  destruct (find_kid l (i_name k')) as [k|] eqn:E.
  - pose proof (set_kid_replace f l k k' E). lia.
  - rewrite (set_kid_append l k' E), lcntL_app. cbn [lcntL]. lia.
Qed.

Lemma set_kid_erase l k : map erase (set_kid l k) = set_kid (map erase l) (erase k).
Proof. apply set_kid_imap. Qed.
Lemma del_kid_erase l n : map erase (del_kid l n) = del_kid (map erase l) n.
Proof. apply del_kid_imap. Qed.
Lemma erase_subs i : i_subs (erase i) = map erase (i_subs i).
Proof. apply imap_subs. Qed.
Lemma erase_with_subs i l : erase (with_subs i l) = with_subs (erase i) (map erase l).
Proof. apply with_subs_imap. Qed.
Lemma erase_set_node p i v : erase (set_node i p v) = set_node (erase i) p (erase v).
Proof. apply set_node_imap. Qed.
Lemma get_node_erase p i : get_node (erase i) p = option_map erase (get_node i p).
Proof. apply get_node_imap. Qed.
Lemma find_kid_erase l n : find_kid (map erase l) n = option_map erase (find_kid l n).
Proof. apply find_kid_imap. Qed.
Lemma live_erase i : live (erase i) = live i.
Proof. apply live_imap. Qed.
Lemma erase_hdr i : i_uid (erase i) = i_uid i /\ i_cls (erase i) = i_cls i /\ i_name (erase i) = i_name i.
Proof. unfold erase. rewrite imap_uid, imap_cls, imap_name. auto. Qed.

Lemma l_go_ok l : Forall load_stmt l -> forall i u cs i' u' cs',
  l_go l i u cs = LOk i' u' cs' -> load_post l i u cs i' u' cs'.
Proof.
  induction 1 as [|cs0 r Hcs _ IH]; intros i u cs i' u' cs' E; cbn [l_go] in E.
  - inversion E; subst. unfold load_post, same_hdr. repeat split; auto; try lia; intros; cbn [scntL]; try lia.
  - destruct cs0 as [snm sst ssubs]. cbn [s_name] in E. unfold load_stmt in Hcs.
    assert (Step : forall j uj cj, same_hdr j i -> (erase i = i -> erase j = j) -> u <= uj ->
              (forall n, snd n <> None -> (lcnt (fn n) j <= lcnt (fn n) i + scnt n (SS snm sst ssubs))%nat) ->
              (forall v, (lcnt (fu v) j <= lcnt (fu v) i + b2n (in_range u v uj))%nat) ->
              (forall a k, alloc cs a k -> alloc cj a k) ->
              (forall a k, (0 < lcnt (fn (a, Some k)) j)%nat -> (0 < lcnt (fn (a, Some k)) i)%nat \/ alloc cj a k) ->
              l_go r j uj cj = LOk i' u' cs' -> load_post (SS snm sst ssubs :: r) i u cs i' u' cs').
    { intros j uj cj [J1 [J2 J3]] Je Ju Jn Jv Jm Jb Ej.
      destruct (IH j uj cj i' u' cs' Ej) as [[K1 [K2 K3]] [Ke [Ku [Kn [Kv [Km Kb]]]]]].
      unfold load_post, same_hdr. split; [repeat split; congruence|]. split; [auto|]. split; [lia|]. split; [|split; [|split]].
      - intros n Hn. specialize (Jn n Hn). specialize (Kn n Hn). cbn [scntL]. lia.
      - intro v. specialize (Jv v). specialize (Kv v).
        pose proof (in_range_split u uj u' v Ju Ku). lia.
      - intros a k Ha. apply Km. apply Jm. exact Ha.
      - intros a k Hp. destruct (Kb a k Hp) as [Hj|Hj]; [|right; exact Hj].
        destruct (Jb a k Hj) as [Hi|Hi]; [left; exact Hi|right; apply Km; exact Hi]. }
    destruct (snd snm) as [kk|] eqn:Esn.
    + (* contextual entry *)
      destruct (find_cls (c_subs (i_cls i)) (fst snm)) as [c|]; [|discriminate].
      pose proof (create_ok c snm u) as Hc. pose proof (create_hdr c snm u) as Hh.
      destruct (create c snm u) as [k u1]. cbn [fst] in Hh. destruct Hc as [C1 [C2 [C3 C4]]].
      destruct (load (SS snm sst ssubs) k u1 (bump cs (fst snm) kk)) as [k' u2 c2|] eqn:El; [|discriminate].
      destruct (Hcs k u1 _ k' u2 c2 El) as [[L1 [L2 L3]] [Le [Lu [Ln [Lv [Lm Lb]]]]]].
      apply (Step (with_subs i (set_kid (i_subs i) k')) u2 c2); [| | | | | | |exact E].
      * eapply (with_subs_hdr i).
      * intro He. destruct (erase_fix_subs i He) as [He1 He2]. apply erase_fix_with_subs; [exact He|].
        rewrite set_kid_erase, He1, (Le C1). reflexivity.
      * lia.
      * intros n Hn. rewrite lcnt_with_subs, (lcnt_eq (fn n) i).
        pose proof (set_kid_cnt_le (fn n) (i_subs i) k'). specialize (Ln n Hn). rewrite (C3 n Hn) in Ln.
        rewrite scnt_eq. lia.
      * intro v. rewrite lcnt_with_subs, (lcnt_eq (fu v) i).
        pose proof (set_kid_cnt_le (fu v) (i_subs i) k'). specialize (Lv v). rewrite (C4 v) in Lv.
        fold (in_range u v u1) in Lv. pose proof (in_range_split u u1 u2 v (N.lt_le_incl _ _ C2) Lu). lia.
      * intros a k0 Ha. apply Lm. apply bump_mono. exact Ha.
      * intros a k0 Hp. rewrite lcnt_with_subs in Hp. rewrite (lcnt_eq (fn (a, Some k0)) i).
        pose proof (set_kid_cnt_le (fn (a, Some k0)) (i_subs i) k') as Hle.
        destruct (lcnt (fn (a, Some k0)) k') eqn:Ek'; [left; lia|].
        destruct (Lb a k0) as [Hk|Hk]; [lia| |right; exact Hk].
        rewrite C3 in Hk by discriminate. destruct (name_eqb snm (a, Some k0)) eqn:En; [|cbn in Hk; lia].
        apply name_eqb_eq in En. subst snm. cbn [snd fst] in *. inversion Esn; subst kk.
        right. apply Lm. apply bump_alloc.
    + (* static entry *)
      destruct (name_eqb snm (c_alias (i_cls i), None)).
      * destruct (load (SS snm sst ssubs) i u cs) as [j uj cj|] eqn:El; [|discriminate].
        destruct (Hcs i u cs j uj cj El) as [Lh [Le [Lu [Ln [Lv [Lm Lb]]]]]].
        apply (Step j uj cj); [exact Lh|exact Le|exact Lu| |exact Lv|exact Lm|exact Lb|exact E].
        intros n Hn. specialize (Ln n Hn). rewrite scnt_eq. lia.
      * destruct (aget name_eqb (i_cache i) snm); [discriminate|].
        destruct (find_kid (i_subs i) snm) as [k|] eqn:Ek; [|discriminate].
        destruct (load (SS snm sst ssubs) k u cs) as [k' u2 c2|] eqn:El; [|discriminate].
        destruct (Hcs k u cs k' u2 c2 El) as [[L1 [L2 L3]] [Le [Lu [Ln [Lv [Lm Lb]]]]]].
        destruct (find_kid_in _ _ _ Ek) as [Kin Knm].
        assert (Ek' : find_kid (i_subs i) (i_name k') = Some k) by (rewrite L3, Knm; exact Ek).
        apply (Step (with_subs i (set_kid (i_subs i) k')) u2 c2); [| | | | | | |exact E].
        -- eapply (with_subs_hdr i).
        -- intro He. destruct (erase_fix_subs i He) as [He1 He2]. apply erase_fix_with_subs; [exact He|].
           rewrite set_kid_erase, He1.
           assert (Hek : erase k = k).
           { rewrite <- He1 in Kin. apply in_map_iff in Kin. destruct Kin as [k0 [<- _]]. apply erase_erase. }
           rewrite (Le Hek). reflexivity.
        -- exact Lu.
        -- intros n Hn. rewrite lcnt_with_subs, (lcnt_eq (fn n) i).
           pose proof (set_kid_replace (fn n) _ _ _ Ek'). specialize (Ln n Hn). rewrite scnt_eq. lia.
        -- intro v. rewrite lcnt_with_subs, (lcnt_eq (fu v) i).
           pose proof (set_kid_replace (fu v) _ _ _ Ek'). specialize (Lv v). lia.
        -- exact Lm.
        -- intros a k0 Hp. rewrite lcnt_with_subs in Hp. rewrite (lcnt_eq (fn (a, Some k0)) i).
           pose proof (set_kid_replace (fn (a, Some k0)) _ _ _ Ek') as Hr.
           pose proof (find_kid_cnt_le (fn (a, Some k0)) _ _ _ Ek) as Hle.
           destruct (lcnt (fn (a, Some k0)) k') eqn:Ek''; [left; lia|].
           destruct (Lb a k0) as [Hk|Hk]; [lia|left; lia|right; exact Hk].
Qed.

Lemma load_ok s : load_stmt s.
Proof.
  induction s as [nm st subs IH] using sstate_ind'. intros i u cs i' u' cs' E.
  rewrite load_eq in E. destruct (negb (name_eqb nm (i_name i))); [discriminate|].
  destruct (l_go_ok subs IH _ _ _ _ _ _ E) as [[H1 [H2 H3]] [He [Hu [Hn [Hv [Hm Hb]]]]]].
  pose proof (with_state_hdr i (merge_state (i_state i) st)) as [W1 [W2 W3]].
  unfold load_post, same_hdr. split; [repeat split; congruence|]. split.
  - intro Hi. apply He. rewrite with_state_erase, Hi. reflexivity.
  - split; [exact Hu|]. split; [|split; [|split; [exact Hm|]]].
    + intros n Hn'. specialize (Hn n Hn'). unfold lcnt in *. rewrite with_state_live in Hn. exact Hn.
    + intro v. specialize (Hv v). unfold lcnt in *. rewrite with_state_live in Hv. exact Hv.
    + intros a k Hp. specialize (Hb a k Hp). unfold lcnt in *. rewrite with_state_live in Hb. exact Hb.
Qed.

Lemma erase_eq_facts x y : erase x = erase y ->
  i_cls x = i_cls y /\ i_name x = i_name y /\ map erase (i_subs x) = map erase (i_subs y) /\
  live x = live y /\ save x = save y.
Proof.
  intro H. destruct (erase_hdr x) as [_ [A B]]. destruct (erase_hdr y) as [_ [A' B']].
  split; [congruence|]. split; [congruence|]. split; [rewrite <- !erase_subs, H; reflexivity|].
  split; [rewrite <- (live_erase x), <- (live_erase y), H; reflexivity|].
  rewrite <- (save_erase x), <- (save_erase y), H. reflexivity.
Qed.

(** ** Invariant of the implementation model *)
Record Inv (s : st) : Prop := mkInv {
  inv_cache : cache_ok (root s);
  inv_bound : forall a k, (0 < lcnt (fn (a, Some k)) (root s))%nat -> alloc (counts s) a k;
  inv_uniq : forall a k, (lcnt (fn (a, Some k)) (root s) <= 1)%nat;
  inv_rootname : snd (i_name (root s)) = None;
  inv_suniq : forall sv, saved s = Some sv -> forall a k, (scnt (a, Some k) sv <= 1)%nat;
  inv_uid_lt : forall v, (0 < lcnt (fu v) (root s))%nat -> v < next_uid s;
  inv_uid_uniq : forall v, (lcnt (fu v) (root s) <= 1)%nat
}.

Lemma Inv_emit s e : Inv s -> Inv (emit s e).
Proof. intros [A B C D E F G]. constructor; assumption. Qed.

Lemma scnt_save n i : scnt n (save i) = lcnt (fn n) i.
Proof.
  induction i as [u c nm s ca kids IH] using inst_ind'. cbn [save]. rewrite scnt_eq, lcnt_inst.
  unfold fn at 1. cbn [snd]. f_equal.
  induction IH as [|k r Hk _ IHr]; [reflexivity|]. cbn [map scntL lcntL]. rewrite Hk, IHr. reflexivity.
Qed.

Lemma with_state_ok o i s : cache_okd o i -> cache_okd o (with_state i s).
Proof.
  intro H. apply cache_okd_eq in H. destruct H as [H1 H2].
  assert (Hsk : skel (with_state i s) = skel i) by apply with_state_skel.
  apply cache_okd_eq. rewrite with_state_cache, with_state_subs. split.
  - intros n t Hg. rewrite (s_fullo_skel_eq _ _ _ _ Hsk). apply H1. exact Hg.
  - rewrite Forall_forall in *. intros k Hk.
    apply (cache_okd_ext _ (fun n => s_fullo (o n) i n)); [|apply H2; exact Hk].
    intro m. apply s_fullo_skel_eq. symmetry. exact Hsk.
Qed.

Lemma alloc_mono cs a k a' k' : alloc cs a' k' -> k = next_count cs a -> alloc (aset N.eqb cs a k) a' k'.
Proof.
  intros [c [H1 H2]] Hk. unfold alloc. rewrite (aget_aset N.eqb N.eqb_eq).
  destruct (N.eqb a a') eqn:E.
  - apply N.eqb_eq in E. subst a'. exists k. split; [reflexivity|].
    unfold next_count in Hk. rewrite H1 in Hk. lia.
  - exists c. auto.
Qed.

Lemma next_count_fresh cs a : ~ alloc cs a (next_count cs a).
Proof. intros [c [H1 H2]]. unfold next_count in H2. rewrite H1 in H2. lia. Qed.

Lemma name_cnt_self i : (1 <= lcnt (fn (i_name i)) i)%nat.
Proof. rewrite lcnt_eq. unfold fn at 1. cbn [snd]. rewrite name_eqb_refl. cbn. lia. Qed.

Lemma init_Inv c : Inv (init c).
Proof.
  unfold init. pose proof (create_ok c (c_alias c, None) 0) as H.
  destruct (create c (c_alias c, None) 0) as [r u] eqn:Ec. destruct H as [A [B [C D]]].
  constructor; cbn [root counts saved next_uid].
  - unfold cache_ok. rewrite <- A. apply cache_okd_erase.
  - intros a k Hp. rewrite C in Hp by discriminate. unfold name_eqb in Hp. cbn in Hp. rewrite andb_false_r in Hp. cbn in Hp. lia.
  - intros a k. rewrite C by discriminate. unfold name_eqb. cbn. rewrite andb_false_r. cbn. lia.
  - destruct (create_hdr c (c_alias c, None) 0) as [_ [_ [Hn _]]]. rewrite Ec in Hn. cbn [fst] in Hn. rewrite Hn. reflexivity.
  - discriminate.
  - intros v Hp. rewrite D in Hp. destruct ((0 <=? v) && (v <? u)) eqn:E; [|cbn in Hp; lia].
    apply andb_true_iff in E. destruct E as [_ E]. apply N.ltb_lt in E. exact E.
  - intro v. rewrite D. destruct ((0 <=? v) && (v <? u)); cbn; lia.
Qed.

Lemma Inv_step s o : Inv s -> Inv (impl_step s o).
Proof.
  intros HI. pose proof HI as [Ic Ib Iu Irn Isu Iul Iuu].
  destruct o as [p a|p n|p dst t|p v| | |]; unfold impl_step; cbn [step_gen].
  - (* OInst *)
    destruct (get_node (root s) p) as [par|] eqn:Ep; [|apply Inv_emit; exact HI].
    destruct (find_cls (c_subs (i_cls par)) a) as [c|] eqn:Ec; [|apply Inv_emit; exact HI].
    destruct (c_ctx c) eqn:Ex; cbn [negb]; [|apply Inv_emit; exact HI].
    set (k := next_count (counts s) a).
    pose proof (create_ok c (a, Some k) (next_uid s)) as Hc. pose proof (create_hdr c (a, Some k) (next_uid s)) as Hh.
    destruct (create c (a, Some k) (next_uid s)) as [ni u']. cbn [fst] in Hh.
    destruct Hh as [Hh1 [Hh2 [Hh3 _]]]. destruct Hc as [C1 [C2 [C3 C4]]].
    assert (Fr : lcnt (fn (a, Some k)) (root s) = 0%nat).
    { destruct (lcnt (fn (a, Some k)) (root s)) eqn:E; [reflexivity|]. exfalso.
      apply (next_count_fresh (counts s) a). apply Ib. fold k. lia. }
    assert (Fk : find_kid (i_subs par) (i_name ni) = None).
    { destruct (find_kid (i_subs par) (i_name ni)) as [kd|] eqn:E; [|reflexivity]. exfalso.
      destruct (find_kid_in _ _ _ E) as [_ Hn]. pose proof (name_cnt_self kd) as H1.
      pose proof (find_kid_cnt_le (fn (i_name kd)) _ _ _ E) as H2.
      pose proof (get_node_cnt_le (fn (i_name kd)) _ _ _ Ep) as H3.
      rewrite (lcnt_eq _ par) in H3. rewrite Hn, Hh3 in *. lia. }
    rewrite (set_kid_append _ _ Fk).
    assert (Cnt : forall f, lcnt f (set_node (root s) p (with_subs par (i_subs par ++ [ni]))) = (lcnt f (root s) + lcnt f ni)%nat).
    { intro f. pose proof (set_node_cnt f p (root s) par (with_subs par (i_subs par ++ [ni])) Ep) as H.
      rewrite lcnt_with_subs, lcntL_app in H. cbn [lcntL] in H. rewrite (lcnt_eq f par) in H. lia. }
    constructor; cbn [root counts saved next_uid].
    + assert (Hctx : inst_ctx ni = true) by (unfold inst_ctx; rewrite Hh2; exact Ex).
      apply (add_kid_ok ni Hctx C1 p (fun _ => None) (fun _ => None) (root s) par Ic Ep); [reflexivity|].
      rewrite Hh3. apply (nokey_from_ok (a, Some k) (root s)) with (o := fun _ => None);
        [discriminate|exact Ic|reflexivity|exact Fr].
    + intros a' k' Hp. rewrite Cnt, C3 in Hp by discriminate.
      destruct (name_eqb (a, Some k) (a', Some k')) eqn:E.
      * apply name_eqb_eq in E. inversion E; subst a' k'. exists k.
        rewrite (aget_aset N.eqb N.eqb_eq), N.eqb_refl. split; [reflexivity|lia].
      * apply alloc_mono; [|reflexivity]. apply Ib. cbn [b2n] in Hp. lia.
    + intros a' k'. rewrite Cnt, C3 by discriminate.
      destruct (name_eqb (a, Some k) (a', Some k')) eqn:E.
      * apply name_eqb_eq in E. inversion E; subst a' k'. rewrite Fr. cbn. lia.
      * specialize (Iu a' k'). cbn [b2n]. lia.
    + destruct (with_subs_hdr par (i_subs par ++ [ni])) as [_ [W2 W3]].
      destruct (set_node_root_hdr p (root s) par _ Ep W2 W3) as [_ R2]. rewrite R2. exact Irn.
    + exact Isu.
    + intros v Hp. rewrite Cnt, C4 in Hp.
      destruct ((next_uid s <=? v) && (v <? u')) eqn:E.
      * apply andb_true_iff in E. destruct E as [_ E]. apply N.ltb_lt in E. exact E.
      * cbn [b2n] in Hp. assert (v < next_uid s) by (apply Iul; lia). lia.
    + intro v. rewrite Cnt, C4. specialize (Iuu v).
      destruct ((next_uid s <=? v) && (v <? u')) eqn:E; cbn [b2n]; [|lia].
      destruct (lcnt (fu v) (root s)) eqn:E2; [lia|]. exfalso.
      assert (v < next_uid s) by (apply Iul; lia).
      apply andb_true_iff in E. destruct E as [E _]. apply N.leb_le in E. lia.
  - (* ODestroy *)
    destruct (get_node (root s) p) as [par|] eqn:Ep; [|apply Inv_emit; exact HI].
    destruct (find_kid (i_subs par) n) as [kd|] eqn:Ek; [|apply Inv_emit; exact HI].
    apply Inv_emit.
    assert (Cnt : forall f, (lcnt f (clear_caches (set_node (root s) p (with_subs par (del_kid (i_subs par) n)))) <= lcnt f (root s))%nat).
    { intro f. change (clear_caches ?x) with (erase x). unfold erase. rewrite lcnt_live_imap.
      pose proof (set_node_cnt f p (root s) par (with_subs par (del_kid (i_subs par) n)) Ep) as H.
      rewrite lcnt_with_subs in H. pose proof (del_kid_cnt f _ _ _ Ek). rewrite (lcnt_eq f par) in H. lia. }
    constructor; cbn [with_root root counts saved next_uid].
    + change (clear_caches ?x) with (erase x). apply cache_okd_erase.
    + intros a k Hp. apply Ib. specialize (Cnt (fn (a, Some k))). lia.
    + intros a k. specialize (Cnt (fn (a, Some k))). specialize (Iu a k). lia.
    + change (clear_caches ?x) with (erase x).
      destruct (erase_hdr (set_node (root s) p (with_subs par (del_kid (i_subs par) n)))) as [_ [_ Q]]. rewrite Q.
      destruct (with_subs_hdr par (del_kid (i_subs par) n)) as [_ [W2 W3]].
      destruct (set_node_root_hdr p (root s) par _ Ep W2 W3) as [_ R2]. rewrite R2. exact Irn.
    + exact Isu.
    + intros v Hp. apply Iul. specialize (Cnt (fu v)). lia.
    + intro v. specialize (Cnt (fu v)). specialize (Iuu v). lia.
  - (* OSend *)
    destruct (get_node (root s) p) as [src|] eqn:Ep; [|apply Inv_emit; exact HI].
    destruct (full_get (root s) (rev p) dst) as [x r'] eqn:Ef.
    destruct (full_get_ok _ _ _ _ _ Ic Ef) as [_ [He Hc]].
    apply Inv_emit.
    assert (Cnt : forall f, lcnt f r' = lcnt f (root s)).
    { intro f. unfold lcnt. rewrite <- (live_erase r'), He, live_erase. reflexivity. }
    destruct (erase_eq_facts _ _ He) as [_ [Qn _]].
    constructor; cbn [with_root root counts saved next_uid]; try assumption; try (rewrite Qn; exact Irn);
      intros; rewrite ?Cnt in *; auto.
  - (* OSet *)
    destruct (get_node (root s) p) as [i|] eqn:Ep; [|apply Inv_emit; exact HI].
    apply Inv_emit.
    assert (Cnt : forall f, lcnt f (set_node (root s) p (with_state i (Some v))) = lcnt f (root s)).
    { intro f. pose proof (set_node_cnt f p (root s) i (with_state i (Some v)) Ep) as H.
      unfold lcnt in *. rewrite with_state_live in H. lia. }
    destruct (with_state_hdr i (Some v)) as [_ [W2 W3]].
    destruct (set_node_root_hdr p (root s) i _ Ep W2 W3) as [_ R2].
    constructor; cbn [with_root root counts saved next_uid]; try assumption; try (rewrite R2; exact Irn);
      try (intros; rewrite ?Cnt in *; auto; fail).
    apply (set_node_ok _ _ _ i); [exact Ic|exact Ep|apply with_state_skel|].
    apply with_state_ok. apply cache_okd_node; assumption.
  - (* OSave *)
    constructor; cbn [root counts saved next_uid]; try assumption.
    intros sv Hs a k. inversion Hs; subst sv. rewrite scnt_save. apply Iu.
  - (* OLoad *)
    destruct (saved s) as [sv|] eqn:Es; [|apply Inv_emit; exact HI].
    pose proof (create_ok (i_cls (root s)) (i_name (root s)) (next_uid s)) as Hc.
    pose proof (create_hdr (i_cls (root s)) (i_name (root s)) (next_uid s)) as Hh.
    destruct (create (i_cls (root s)) (i_name (root s)) (next_uid s)) as [fresh u1]. cbn [fst] in Hh.
    destruct Hh as [_ [_ [Hh3 _]]]. destruct Hc as [C1 [C2 [C3 C4]]].
    destruct (load sv fresh u1 (counts s)) as [r' u2 cs'|] eqn:El; [|apply Inv_emit; exact HI].
    pose proof (load_ok sv fresh u1 (counts s) r' u2 cs' El) as Hl.
    pose proof El as El2. rewrite load_eq in El2.
    destruct sv as [nm st subs]. destruct Hl as [[_ [_ Lh]] [Le [Lu [Ln [Lv [Lm Lb]]]]]].
    destruct (name_eqb nm (i_name fresh)) eqn:En; cbn [negb] in El2; [|discriminate]. clear El2.
    assert (Nb : forall a k, (lcnt (fn (a, Some k)) r' <= scnt (a, Some k) (SS nm st subs))%nat).
    { intros a k. specialize (Ln (a, Some k)). rewrite C3, scnt_eq in * by discriminate.
      rewrite Hh3 in En. apply name_eqb_eq in En. subst nm. apply Ln. discriminate. }
    assert (F0 : forall a k, lcnt (fn (a, Some k)) fresh = 0%nat).
    { intros a k. rewrite C3 by discriminate. destruct (i_name (root s)) as [ra rk]. cbn [snd] in Irn. subst rk.
      unfold name_eqb. cbn. rewrite andb_false_r. reflexivity. }
    constructor; cbn [root counts saved next_uid].
    + unfold cache_ok. rewrite <- (Le C1). apply cache_okd_erase.
    + intros a k Hp. destruct (Lb a k Hp) as [H|H]; [rewrite F0 in H; lia|exact H].
    + intros a k. specialize (Nb a k). specialize (Isu _ eq_refl a k). lia.
    + rewrite Lh, Hh3. exact Irn.
    + exact Isu.
    + intros v Hp. specialize (Lv v). rewrite C4 in Lv. fold (in_range (next_uid s) v u1) in Lv.
      rewrite (in_range_split _ _ _ v (N.lt_le_incl _ _ C2) Lu) in Lv.
      unfold in_range in Lv. destruct ((next_uid s <=? v) && (v <? u2)) eqn:E; [|cbn [b2n] in Lv; lia].
      apply andb_true_iff in E. destruct E as [_ E]. apply N.ltb_lt in E. exact E.
    + intro v. specialize (Lv v). rewrite C4 in Lv. fold (in_range (next_uid s) v u1) in Lv.
      rewrite (in_range_split _ _ _ v (N.lt_le_incl _ _ C2) Lu) in Lv.
      destruct (in_range (next_uid s) v u2); cbn [b2n] in Lv; lia.
  - (* ORestart *)
    pose proof (create_ok (i_cls (root s)) (i_name (root s)) (next_uid s)) as Hc.
    pose proof (create_hdr (i_cls (root s)) (i_name (root s)) (next_uid s)) as Hh.
    destruct (create (i_cls (root s)) (i_name (root s)) (next_uid s)) as [fresh u1]. cbn [fst] in Hh.
    destruct Hh as [_ [_ [Hh3 _]]]. destruct Hc as [C1 [C2 [C3 C4]]].
    assert (F0 : forall a k, lcnt (fn (a, Some k)) fresh = 0%nat).
    { intros a k. rewrite C3 by discriminate. destruct (i_name (root s)) as [ra rk]. cbn [snd] in Irn. subst rk.
      unfold name_eqb. cbn. rewrite andb_false_r. reflexivity. }
    constructor; cbn [root counts saved next_uid].
    + unfold cache_ok. rewrite <- C1. apply cache_okd_erase.
    + intros a k Hp. rewrite F0 in Hp. lia.
    + intros a k. rewrite F0. lia.
    + rewrite Hh3. exact Irn.
    + exact Isu.
    + intros v Hp. rewrite C4 in Hp. destruct ((next_uid s <=? v) && (v <? u1)) eqn:E; [|cbn [b2n] in Hp; lia].
      apply andb_true_iff in E. destruct E as [_ E]. apply N.ltb_lt in E. exact E.
    + intro v. rewrite C4. destruct ((next_uid s <=? v) && (v <? u1)); cbn [b2n]; lia.
Qed.

(** ** Refinement: the implementation model and the cache-free dictionary router produce
    the same observations *)
Definition Rel (a b : st) : Prop :=
  erase (root a) = erase (root b) /\ counts a = counts b /\ next_uid a = next_uid b /\
  saved a = saved b /\ trace a = trace b.

Lemma Rel_emit a b e : Rel a b -> Rel (emit a e) (emit b e).
Proof. intros [A [B [C [D E]]]]. unfold Rel, emit. cbn. rewrite E. auto. Qed.

Lemma rel_get_node r1 r2 p : erase r1 = erase r2 ->
  (get_node r1 p = None /\ get_node r2 p = None) \/
  (exists x y, get_node r1 p = Some x /\ get_node r2 p = Some y /\ erase x = erase y).
Proof.
  intro H. pose proof (get_node_erase_eq r1 r2 p H) as G.
  destruct (get_node r1 p) as [x|], (get_node r2 p) as [y|]; cbn in G; try discriminate.
  - right. exists x, y. inversion G. auto.
  - left. auto.
Qed.

Lemma rel_find_kid l1 l2 n : map erase l1 = map erase l2 ->
  (find_kid l1 n = None /\ find_kid l2 n = None) \/
  (exists x y, find_kid l1 n = Some x /\ find_kid l2 n = Some y /\ erase x = erase y).
Proof.
  intro H. assert (G : option_map erase (find_kid l1 n) = option_map erase (find_kid l2 n)).
  { rewrite <- !find_kid_erase, H. reflexivity. }
  destruct (find_kid l1 n) as [x|], (find_kid l2 n) as [y|]; cbn in G; try discriminate.
  - right. exists x, y. inversion G. auto.
  - left. auto.
Qed.

Lemma Rel_step a b o : Rel a b -> cache_ok (root a) -> Rel (impl_step a o) (spec_step b o).
Proof.
  intros HR Hc. pose proof HR as [Hr [Hcn [Hu [Hs Ht]]]].
  destruct (erase_eq_facts _ _ Hr) as [Rc [Rn [_ [Rl Rs]]]].
  destruct o as [p al|p n|p dst t|p v| | |]; unfold impl_step, spec_step; cbn [step_gen].
  - (* OInst *)
    destruct (rel_get_node _ _ p Hr) as [[E1 E2]|[x [y [E1 [E2 E3]]]]]; rewrite E1, E2; [apply Rel_emit; exact HR|].
    destruct (erase_eq_facts _ _ E3) as [Xc [Xn [Xs _]]]. rewrite <- Xc.
    destruct (find_cls (c_subs (i_cls x)) al) as [c|]; [|apply Rel_emit; exact HR].
    destruct (c_ctx c); cbn [negb]; [|rewrite Rl; apply Rel_emit; exact HR].
    rewrite <- Hcn, <- Hu. destruct (create c (al, Some (next_count (counts a) al)) (next_uid a)) as [ni u'].
    assert (Er : erase (set_node (root a) p (with_subs x (set_kid (i_subs x) ni)))
               = erase (set_node (root b) p (with_subs y (set_kid (i_subs y) ni)))).
    { rewrite !erase_set_node, !erase_with_subs, !set_kid_erase, Hr, E3, Xs. reflexivity. }
    unfold Rel. cbn [root counts next_uid saved trace]. split; [exact Er|]. split; [reflexivity|].
    split; [reflexivity|]. split; [exact Hs|].
    rewrite Ht. f_equal. f_equal. rewrite <- live_erase, Er, live_erase. reflexivity.
  - (* ODestroy *)
    destruct (rel_get_node _ _ p Hr) as [[E1 E2]|[x [y [E1 [E2 E3]]]]]; rewrite E1, E2; [apply Rel_emit; exact HR|].
    destruct (erase_eq_facts _ _ E3) as [Xc [Xn [Xs _]]].
    destruct (rel_find_kid _ _ n Xs) as [[F1 F2]|[k1 [k2 [F1 [F2 _]]]]]; rewrite F1, F2; [apply Rel_emit; exact HR|].
    assert (Er : erase (clear_caches (set_node (root a) p (with_subs x (del_kid (i_subs x) n))))
               = erase (set_node (root b) p (with_subs y (del_kid (i_subs y) n)))).
    { change (clear_caches ?z) with (erase z). rewrite erase_erase.
      rewrite !erase_set_node, !erase_with_subs, !del_kid_erase, Hr, E3, Xs. reflexivity. }
    unfold Rel, emit, with_root. cbn [root counts next_uid saved trace]. split; [exact Er|].
    split; [exact Hcn|]. split; [exact Hu|]. split; [exact Hs|].
    rewrite Ht. f_equal. f_equal. rewrite <- live_erase, Er, live_erase. reflexivity.
  - (* OSend *)
    destruct (rel_get_node _ _ p Hr) as [[E1 E2]|[x [y [E1 [E2 E3]]]]]; rewrite E1, E2; [apply Rel_emit; exact HR|].
    destruct (erase_eq_facts _ _ E3) as [Xc [Xn _]].
    destruct (full_get (root a) (rev p) dst) as [r1 a'] eqn:Ef.
    destruct (full_get_ok _ _ _ _ _ Hc Ef) as [X1 [X2 X3]].
    unfold spec_lookup.
    assert (Ex : r1 = s_full (root b) (rev p) dst).
    { rewrite X1. apply s_full_skel_eq. apply erase_skel_eq. exact Hr. }
    unfold Rel, emit, with_root. cbn [root counts next_uid saved trace]. split; [rewrite X2; exact Hr|].
    split; [exact Hcn|]. split; [exact Hu|]. split; [exact Hs|].
    rewrite Ht, Ex. f_equal. f_equal. unfold deliver.
    destruct (s_full (root b) (rev p) dst) as [[u c]|]; [|reflexivity].
    rewrite handler_table_exact, Xn. reflexivity.
  - (* OSet *)
    destruct (rel_get_node _ _ p Hr) as [[E1 E2]|[x [y [E1 [E2 E3]]]]]; rewrite E1, E2; [apply Rel_emit; exact HR|].
    unfold Rel, emit, with_root. cbn [root counts next_uid saved trace].
    split; [rewrite !erase_set_node, !with_state_erase, Hr, E3; reflexivity|].
    split; [exact Hcn|]. split; [exact Hu|]. split; [exact Hs|]. rewrite Ht. reflexivity.
  - (* OSave *)
    unfold Rel. cbn [root counts next_uid saved trace]. rewrite Rs, Ht. auto.
  - (* OLoad *)
    rewrite <- Hs. destruct (saved a) as [sv|]; [|apply Rel_emit; exact HR].
    rewrite <- Rc, <- Rn, <- Hu, <- Hcn.
    destruct (create (i_cls (root a)) (i_name (root a)) (next_uid a)) as [fresh u1].
    destruct (load sv fresh u1 (counts a)) as [r' u2 cs'|]; [|apply Rel_emit; exact HR].
    unfold Rel. cbn [root counts next_uid saved trace]. rewrite Ht. auto.
  - (* ORestart *)
    rewrite <- Rc, <- Rn, <- Hu.
    destruct (create (i_cls (root a)) (i_name (root a)) (next_uid a)) as [fresh u1].
    unfold Rel. cbn [root counts next_uid saved trace]. rewrite Ht. auto.
Qed.

Lemma run_sim ops : forall a b, Rel a b -> Inv a ->
  Rel (fold_left impl_step ops a) (fold_left spec_step ops b) /\ Inv (fold_left impl_step ops a).
Proof.
  induction ops as [|o ops IH]; intros a b HR HI; cbn [fold_left]; [auto|].
  apply IH; [apply Rel_step; [exact HR|apply HI]|apply Inv_step; exact HI].
Qed.

Lemma Rel_refl a : Rel a a.
Proof. unfold Rel. auto. Qed.

Lemma impl_run_Inv c ops : Inv (impl_run c ops).
Proof. apply (run_sim ops (init c) (init c) (Rel_refl _) (init_Inv c)). Qed.

Theorem refinement c ops : trace (impl_run c ops) = trace (spec_run c ops).
Proof. apply (run_sim ops (init c) (init c) (Rel_refl _) (init_Inv c)). Qed.

(** ** Property-level consequences *)

(** what the reference says a send delivers *)
Definition declared_deliveries (rt : inst) (p : path) (dst : name) (t : tag) : list delivery :=
  match get_node rt p with
  | None => []
  | Some src => deliver src (s_full rt (rev p) dst) t spec_table
  end.

Lemma send_event s p dst t : Inv s ->
  trace (impl_step s (OSend p dst t)) =
  match get_node (root s) p with
  | None => ESkip
  | Some _ => ESend (declared_deliveries (root s) p dst t)
  end :: trace s.
Proof.
  intro HI. unfold impl_step, declared_deliveries. cbn [step_gen].
  destruct (get_node (root s) p) as [src|]; [|reflexivity].
  destruct (full_get (root s) (rev p) dst) as [x r'] eqn:Ef.
  destruct (full_get_ok _ _ _ _ _ (inv_cache _ HI) Ef) as [X _]. subst x.
  cbn [emit with_root trace]. f_equal. f_equal. unfold deliver.
  destruct (s_full (root s) (rev p) dst) as [[u c]|]; [|reflexivity].
  rewrite handler_table_exact. reflexivity.
Qed.

Lemma routes_exactly c ops p dst t :
  let s := impl_run c ops in
  trace (impl_step s (OSend p dst t)) =
  match get_node (root s) p with
  | None => ESkip
  | Some _ => ESend (declared_deliveries (root s) p dst t)
  end :: trace s.
Proof. apply send_event. apply impl_run_Inv. Qed.

Lemma declared_at_most_one rt p dst t : (length (declared_deliveries rt p dst t) <= 1)%nat.
Proof.
  unfold declared_deliveries, deliver. destruct (get_node rt p); [|cbn; lia].
  destruct (s_full rt (rev p) dst) as [[u c]|]; [|cbn; lia].
  destruct (spec_table (c_handlers c) (fst (i_name i)) t) as [[h x]|]; cbn; lia.
Qed.

Lemma declared_shape rt p dst t u h sa : In (u, h, sa) (declared_deliveries rt p dst t) ->
  exists src cl x, get_node rt p = Some src /\ s_full rt (rev p) dst = Some (u, cl) /\
    spec_table (c_handlers cl) (fst (i_name src)) t = Some (h, x) /\
    sa = (if x then Some (i_name src) else None).
Proof.
  unfold declared_deliveries, deliver. destruct (get_node rt p) as [src|]; [|contradiction].
  destruct (s_full rt (rev p) dst) as [[u0 cl]|]; [|contradiction].
  destruct (spec_table (c_handlers cl) (fst (i_name src)) t) as [[h0 x]|] eqn:Et; [|contradiction].
  intros [H|[]]. inversion H; subst. exists src, cl, x. repeat split; try reflexivity. exact Et.
Qed.

(** deliveries only reach live objects, and an instance name reaches the object carrying it *)
Lemma delivered_is_live rt p dst t u h sa : In (u, h, sa) (declared_deliveries rt p dst t) ->
  exists nm, In (u, nm) (live rt) /\ (nm = dst \/ snd dst = None).
Proof.
  intro H. destruct (declared_shape _ _ _ _ _ _ _ H) as [src [cl [x [_ [Hs _]]]]].
  apply (s_full_live _ _ _ _ Hs).
Qed.

Lemma len_le1_eq {A} (l : list A) x y : (length l <= 1)%nat -> In x l -> In y l -> x = y.
Proof.
  destruct l as [|a [|b r]]; cbn; intros H Hx Hy; try lia; try contradiction.
  destruct Hx as [->|[]], Hy as [->|[]]. reflexivity.
Qed.

Lemma unique_named s a k u1 u2 : Inv s ->
  In (u1, (a, Some k)) (live (root s)) -> In (u2, (a, Some k)) (live (root s)) -> u1 = u2.
Proof.
  intros HI H1 H2. pose proof (inv_uniq _ HI a k) as Hu. unfold lcnt in Hu.
  assert (E : (u1, (a, Some k)) = (u2, (a, Some k))).
  { apply (len_le1_eq _ _ _ Hu); apply filter_In; (split; [assumption|unfold fn; cbn [snd]; apply name_eqb_refl]). }
  inversion E. reflexivity.
Qed.

Definition is_inst_name (n : name) : bool := match snd n with Some _ => true | None => false end.

Lemma NoDup_of_counts (l : list (N * name)) :
  (forall n, is_inst_name n = true -> (length (filter (fn n) l) <= 1)%nat) ->
  NoDup (filter is_inst_name (map snd l)).
Proof.
  induction l as [|[u n] r IH]; intro H; cbn [map filter snd]; [constructor|].
  assert (Hr : forall m, is_inst_name m = true -> (length (filter (fn m) r) <= 1)%nat).
  { intros m Hm. specialize (H m Hm). cbn [filter] in H. destruct (fn m (u, n)); cbn [length] in H; lia. }
  destruct (is_inst_name n) eqn:E; [|apply IH; exact Hr].
  constructor; [|apply IH; exact Hr].
  intro Hin. apply filter_In in Hin. destruct Hin as [Hin _]. apply in_map_iff in Hin.
  destruct Hin as [[u' n'] [E1 Hin]]. cbn [snd] in E1. subst n'.
  specialize (H n E). cbn [filter] in H. unfold fn at 1 in H. cbn [snd] in H. rewrite name_eqb_refl in H.
  cbn [length] in H.
  assert (In (u', n) (filter (fn n) r)) by (apply filter_In; split; [exact Hin|unfold fn; cbn [snd]; apply name_eqb_refl]).
  destruct (filter (fn n) r); [contradiction|cbn [length] in H; lia].
Qed.

Lemma live_names_unique c ops :
  NoDup (filter is_inst_name (map snd (live (root (impl_run c ops))))).
Proof.
  apply NoDup_of_counts. intros [a [k|]] Hn; [|discriminate].
  apply (inv_uniq _ (impl_run_Inv c ops)).
Qed.

(** ** destroyed objects never come back *)
Definition dead (v : N) (s : st) : Prop := v < next_uid s /\ lcnt (fu v) (root s) = 0%nat.

Lemma dead_step v s o : Inv s -> dead v s -> dead v (impl_step s o).
Proof.
  intros HI [Hv Hz]. pose proof HI as [Ic _ _ _ _ _ _].
  destruct o as [p a|p n|p dst t|p x| | |]; unfold impl_step; cbn [step_gen].
  - destruct (get_node (root s) p) as [par|] eqn:Ep; [|split; assumption].
    destruct (find_cls (c_subs (i_cls par)) a) as [c|]; [|split; assumption].
    destruct (c_ctx c); cbn [negb]; [|split; assumption].
    pose proof (create_ok c (a, Some (next_count (counts s) a)) (next_uid s)) as Hc.
    destruct (create c (a, Some (next_count (counts s) a)) (next_uid s)) as [ni u'].
    destruct Hc as [_ [C2 [_ C4]]]. split; cbn [root next_uid]; [lia|].
    pose proof (set_node_cnt (fu v) p (root s) par (with_subs par (set_kid (i_subs par) ni)) Ep) as H.
    rewrite lcnt_with_subs in H. pose proof (set_kid_cnt_le (fu v) (i_subs par) ni) as H2.
    rewrite (lcnt_eq (fu v) par) in H. rewrite C4 in H2.
    assert ((next_uid s <=? v) && (v <? u') = false).
    { apply andb_false_iff. left. apply N.leb_gt. exact Hv. }
    rewrite H0 in H2. cbn [b2n] in H2. lia.
  - destruct (get_node (root s) p) as [par|] eqn:Ep; [|split; assumption].
    destruct (find_kid (i_subs par) n) as [kd|] eqn:Ek; [|split; assumption].
    split; cbn [emit with_root root next_uid]; [exact Hv|].
    change (clear_caches ?z) with (erase z). unfold erase. rewrite lcnt_live_imap.
    pose proof (set_node_cnt (fu v) p (root s) par (with_subs par (del_kid (i_subs par) n)) Ep) as H.
    rewrite lcnt_with_subs in H. pose proof (del_kid_cnt (fu v) _ _ _ Ek). rewrite (lcnt_eq (fu v) par) in H. lia.
  - destruct (get_node (root s) p) as [src|] eqn:Ep; [|split; assumption].
    destruct (full_get (root s) (rev p) dst) as [y r'] eqn:Ef.
    destruct (full_get_ok _ _ _ _ _ Ic Ef) as [_ [He _]].
    split; cbn [emit with_root root next_uid]; [exact Hv|].
    unfold lcnt. rewrite <- (live_erase r'), He, live_erase. exact Hz.
  - destruct (get_node (root s) p) as [i|] eqn:Ep; [|split; assumption].
    split; cbn [emit with_root root next_uid]; [exact Hv|].
    pose proof (set_node_cnt (fu v) p (root s) i (with_state i (Some x)) Ep) as H.
    unfold lcnt in *. rewrite with_state_live in H. lia.
  - split; assumption.
  - destruct (saved s) as [sv|]; [|split; assumption].
    pose proof (create_ok (i_cls (root s)) (i_name (root s)) (next_uid s)) as Hc.
    destruct (create (i_cls (root s)) (i_name (root s)) (next_uid s)) as [fresh u1].
    destruct Hc as [_ [C2 [_ C4]]].
    destruct (load sv fresh u1 (counts s)) as [r' u2 cs'|] eqn:El; [|split; assumption].
    pose proof (load_ok sv fresh u1 (counts s) r' u2 cs' El) as Hl. destruct sv as [nm st subs].
    destruct Hl as [_ [_ [Lu [_ [Lv _]]]]]. split; cbn [root next_uid]; [lia|].
    specialize (Lv v). rewrite C4 in Lv. fold (in_range (next_uid s) v u1) in Lv.
    rewrite (in_range_split _ _ _ v (N.lt_le_incl _ _ C2) Lu) in Lv.
    assert (in_range (next_uid s) v u2 = false).
    { unfold in_range. apply andb_false_iff. left. apply N.leb_gt. exact Hv. }
    rewrite H in Lv. cbn [b2n] in Lv. lia.
  - pose proof (create_ok (i_cls (root s)) (i_name (root s)) (next_uid s)) as Hc.
    destruct (create (i_cls (root s)) (i_name (root s)) (next_uid s)) as [fresh u1].
    destruct Hc as [_ [C2 [_ C4]]]. split; cbn [root next_uid]; [lia|].
    rewrite C4. assert ((next_uid s <=? v) && (v <? u1) = false).
    { apply andb_false_iff. left. apply N.leb_gt. exact Hv. }
    rewrite H. reflexivity.
Qed.

Lemma dead_run v ops : forall s, Inv s -> dead v s -> dead v (fold_left impl_step ops s).
Proof.
  induction ops as [|o ops IH]; intros s HI Hd; cbn [fold_left]; [exact Hd|].
  apply IH; [apply Inv_step; exact HI|apply dead_step; assumption].
Qed.

Lemma in_live_cnt v nm i : In (v, nm) (live i) -> (1 <= lcnt (fu v) i)%nat.
Proof.
  intro H. assert (0 < lcnt (fu v) i)%nat; [|lia]. apply lcnt_pos_in.
  exists (v, nm). split; [exact H|]. unfold fu. cbn [fst]. apply N.eqb_refl.
Qed.

Lemma destroy_kills s p n par kd v nm : Inv s ->
  get_node (root s) p = Some par -> find_kid (i_subs par) n = Some kd -> In (v, nm) (live kd) ->
  dead v (impl_step s (ODestroy p n)).
Proof.
  intros HI Ep Ek Hin. unfold impl_step. cbn [step_gen]. rewrite Ep, Ek.
  pose proof (in_live_cnt _ _ _ Hin) as H1.
  pose proof (inv_uid_uniq _ HI v) as H2.
  split; cbn [emit with_root root next_uid].
  - apply (inv_uid_lt _ HI). pose proof (find_kid_cnt_le (fu v) _ _ _ Ek).
    pose proof (get_node_cnt_le (fu v) _ _ _ Ep). rewrite (lcnt_eq (fu v) par) in H0. lia.
  - change (clear_caches ?z) with (erase z). unfold erase. rewrite lcnt_live_imap.
    pose proof (set_node_cnt (fu v) p (root s) par (with_subs par (del_kid (i_subs par) n)) Ep) as H.
    rewrite lcnt_with_subs in H. pose proof (del_kid_cnt (fu v) _ _ _ Ek). rewrite (lcnt_eq (fu v) par) in H. lia.
Qed.

Lemma destroyed_never_live c ops1 p n ops2 par kd v nm :
  get_node (root (impl_run c ops1)) p = Some par -> find_kid (i_subs par) n = Some kd ->
  In (v, nm) (live kd) ->
  forall nm', ~ In (v, nm') (live (root (impl_run c (ops1 ++ ODestroy p n :: ops2)))).
Proof.
  intros Ep Ek Hin nm' Hl. unfold impl_run in *. rewrite fold_left_app in Hl. cbn [fold_left] in Hl.
  pose proof (impl_run_Inv c ops1) as HI. unfold impl_run in HI.
  pose proof (destroy_kills _ _ _ _ _ _ _ HI Ep Ek Hin) as Hd.
  pose proof (dead_run v ops2 _ (Inv_step _ (ODestroy p n) HI) Hd) as [_ Hz].
  pose proof (in_live_cnt _ _ _ Hl). lia.
Qed.

Lemma instance_addressing c ops p a k t u h sa u' :
  let s := impl_run c ops in
  In (u, h, sa) (declared_deliveries (root s) p (a, Some k) t) ->
  In (u, (a, Some k)) (live (root s)) /\
  (In (u', (a, Some k)) (live (root s)) -> u' = u).
Proof.
  intros s H. destruct (delivered_is_live _ _ _ _ _ _ _ H) as [nm [A [B|B]]]; [|discriminate B].
  subst nm. split; [exact A|]. intro A'. apply (unique_named s a k u' u (impl_run_Inv c ops) A' A).
Qed.

(** ** save / load identity *)
Definition is_static (c : cls) : bool := negb (c_ctx c).
Definition statics (c : cls) : list cls := filter is_static (c_subs c).

(** LAYERS is a dictionary (sibling aliases distinct) and a non-contextual sub-layer does not
    carry its parent's alias (it could not be addressed from its parent) *)
Inductive wf_cls : cls -> Prop :=
| WF a x hs subs :
    NoDup (map c_alias subs) ->
    (forall sc, In sc subs -> c_ctx sc = false -> c_alias sc <> a) ->
    Forall wf_cls subs -> wf_cls (Cls a x hs subs).

(** shape of a live object: one instance per non-contextual sub-class, in LAYERS order, then
    the contextual instances (distinct names, classes taken from LAYERS) *)
Inductive conf : inst -> Prop :=
| CF u c nm s ca S D :
    Forall2 (fun sc k => i_cls k = sc /\ i_name k = (c_alias sc, None) /\ conf k) (statics c) S ->
    Forall (fun k => exists a j sc, i_name k = (a, Some j) /\ find_cls (c_subs c) a = Some sc /\
                                    c_ctx sc = true /\ i_cls k = sc /\ conf k) D ->
    NoDup (map i_name D) ->
    conf (Inst u c nm s ca (S ++ D)).

Definition fresh_of (k : inst) (c : cls) (nm : name) : Prop := exists u, k = fst (create c nm u).

Lemma c_pop_fresh l : forall u,
  Forall2 (fun sc k => fresh_of k sc (c_alias sc, None)) (filter is_static l) (fst (c_pop l u)).
Proof.
  induction l as [|s r IH]; intro u; cbn [c_pop filter]; [constructor|].
  unfold is_static at 1. destruct (c_ctx s); cbn [negb]; [apply IH|].
  destruct (create s (c_alias s, None) u) as [i u1] eqn:E. specialize (IH u1).
  destruct (c_pop r u1) as [is u2]. cbn [fst] in *. constructor; [|exact IH].
  exists u. rewrite E. reflexivity.
Qed.

Lemma fresh_shape k c nm : fresh_of k c nm ->
  exists u F, k = Inst u c nm None [] F /\
    Forall2 (fun sc k => fresh_of k sc (c_alias sc, None)) (statics c) F.
Proof.
  intros [u ->]. rewrite create_eq. pose proof (c_pop_fresh (c_subs c) (u + 1)) as H.
  destruct (c_pop (c_subs c) (u + 1)) as [F u']. cbn [fst] in *. exists u, F. split; [reflexivity|exact H].
Qed.

Definition loaded_as (s l : inst) : Prop :=
  save l = save s /\ conf l /\ i_name l = i_name s /\ i_cls l = i_cls s.

Definition lsi_stmt (i : inst) : Prop :=
  conf i -> wf_cls (i_cls i) -> forall f, fresh_of f (i_cls i) (i_name i) ->
  forall u cs, exists r' u' cs', load (save i) f u cs = LOk r' u' cs' /\ loaded_as i r'.

Lemma find_kid_none_notin l n : (forall k, In k l -> i_name k <> n) -> find_kid l n = None.
Proof.
  induction l as [|x r IH]; intro H; [reflexivity|]. cbn [find_kid].
  destruct (name_eqb (i_name x) n) eqn:E.
  - apply name_eqb_eq in E. exfalso. apply (H x); [left; reflexivity|exact E].
  - apply IH. intros k Hk. apply H. right. exact Hk.
Qed.

Lemma find_kid_skip l k r n : (forall x, In x l -> i_name x <> n) -> i_name k = n ->
  find_kid (l ++ k :: r) n = Some k.
Proof.
  intros H Hk. rewrite find_kid_app, (find_kid_none_notin l n H). cbn [find_kid].
  rewrite Hk, name_eqb_refl. reflexivity.
Qed.

Lemma set_kid_skip l k r k' : (forall x, In x l -> i_name x <> i_name k') -> i_name k = i_name k' ->
  set_kid (l ++ k :: r) k' = l ++ k' :: r.
Proof.
  intros H Hk. induction l as [|x l IH]; cbn [app set_kid].
  - rewrite Hk, name_eqb_refl. reflexivity.
  - destruct (name_eqb (i_name x) (i_name k')) eqn:E.
    + apply name_eqb_eq in E. exfalso. apply (H x); [left; reflexivity|exact E].
    + rewrite IH; [reflexivity|]. intros y Hy. apply H. right. exact Hy.
Qed.

Lemma save_name i : s_name (save i) = i_name i.
Proof. destruct i. reflexivity. Qed.

Lemma Forall2_impl_in {A B} (R R' : A -> B -> Prop) l1 l2 :
  Forall2 R l1 l2 -> (forall a b, In a l1 -> In b l2 -> R a b -> R' a b) -> Forall2 R' l1 l2.
Proof.
  induction 1 as [|a b l1 l2 Hab _ IH]; intro H; constructor.
  - apply H; [left; reflexivity|left; reflexivity|exact Hab].
  - apply IH. intros x y Hx Hy. apply H; right; assumption.
Qed.

Lemma NoDup_map_filter {A B} (f : A -> B) (g : A -> bool) l :
  NoDup (map f l) -> NoDup (map f (filter g l)).
Proof.
  induction l as [|x r IH]; cbn [map filter]; intro H; [constructor|].
  inversion H as [|? ? Hn Hr]; subst. destruct (g x); cbn [map]; [|apply IH; exact Hr].
  constructor; [|apply IH; exact Hr].
  intro Hin. apply Hn. apply in_map_iff in Hin. destruct Hin as [y [E Hy]].
  apply filter_In in Hy. apply in_map_iff. exists y. split; [exact E|apply Hy].
Qed.

Lemma find_cls_in l a c : find_cls l a = Some c -> In c l /\ c_alias c = a.
Proof.
  induction l as [|x r IH]; [discriminate|]. cbn [find_cls].
  destruct (N.eqb (c_alias x) a) eqn:E; intro H.
  - inversion H; subst. split; [left; reflexivity|apply N.eqb_eq; exact E].
  - destruct (IH H). split; [right; assumption|assumption].
Qed.

Section Phases.
  Context (c : cls).

  Lemma static_phase : forall scs S F,
    Forall2 (fun sc k => i_cls k = sc /\ i_name k = (c_alias sc, None) /\ lsi_stmt k /\ conf k /\ wf_cls sc) scs S ->
    Forall2 (fun sc k => fresh_of k sc (c_alias sc, None)) scs F ->
    NoDup (map c_alias scs) ->
    (forall sc, In sc scs -> c_alias sc <> c_alias c) ->
    forall L u0 nm st rest u cs,
      (forall x, In x L -> exists a, i_name x = (a, None) /\ ~ In a (map c_alias scs)) ->
      exists L' u' cs',
        l_go (map save S ++ rest) (Inst u0 c nm st [] (L ++ F)) u cs
        = l_go rest (Inst u0 c nm st [] (L ++ L')) u' cs' /\
        Forall2 loaded_as S L'.
  Proof.
    intros scs0 S0 F H. revert F. induction H as [|sc s scs S Hs _ IH]; intros F HF Hnd Hself L u0 nm st rest u cs HL.
    - inversion HF; subst. exists [], u, cs. split; [reflexivity|constructor].
    - inversion HF as [|? fk ? F' Hfk HF']; subst. clear HF.
      inversion Hnd as [|? ? Hnin Hnd']; subst.
      destruct Hs as [Hc [Hn [Hlsi [Hconf Hwf]]]].
      cbn [map app l_go]. rewrite save_name, Hn. cbn [snd i_cls i_cache i_subs aget].
      assert (E1 : name_eqb (c_alias sc, None) (c_alias c, None) = false).
      { apply name_eqb_neq. intro E. inversion E. apply (Hself sc); [left; reflexivity|assumption]. }
      rewrite E1.
      destruct (fresh_shape _ _ _ Hfk) as [uf [Ff [Efk _]]].
      assert (Nfk : i_name fk = (c_alias sc, None)) by (rewrite Efk; reflexivity).
      assert (HLn : forall x, In x L -> i_name x <> (c_alias sc, None)).
      { intros x Hx E. destruct (HL x Hx) as [a [Ea Ha]]. rewrite Ea in E. inversion E; subst a.
        apply Ha. left. reflexivity. }
      rewrite (find_kid_skip L fk F' _ HLn Nfk).
      assert (Hfr : fresh_of fk (i_cls s) (i_name s)) by (rewrite Hc, Hn; exact Hfk).
      rewrite <- Hc in Hwf.
      destruct (Hlsi Hconf Hwf fk Hfr u cs) as [k' [u1 [cs1 [El [La [Lb [Lc Ld]]]]]]].
      rewrite El. cbn [with_subs].
      rewrite (set_kid_skip L fk F' k'); [|rewrite Lc, Hn; exact HLn|rewrite Lc, Hn; exact Nfk].
      replace (L ++ k' :: F') with ((L ++ [k']) ++ F') by (rewrite <- app_assoc; reflexivity).
      destruct (IH F' HF' Hnd' (fun sc0 H0 => Hself sc0 (or_intror H0)) (L ++ [k']) u0 nm st rest u1 cs1) as [L' [u' [cs' [E2 HL']]]].
      { intros x Hx. apply in_app_or in Hx. destruct Hx as [Hx|[Hx|[]]].
        - destruct (HL x Hx) as [a [Ea Ha]]. exists a. split; [exact Ea|]. intro Hin. apply Ha. right. exact Hin.
        - subst x. exists (c_alias sc). split; [rewrite Lc, Hn; reflexivity|exact Hnin]. }
      exists (k' :: L'), u', cs'. split.
      + rewrite E2. rewrite <- app_assoc. reflexivity.
      + constructor; [|exact HL']. unfold loaded_as. auto.
  Qed.

  Lemma dyn_phase : forall D,
    Forall (fun k => (exists a j sc, i_name k = (a, Some j) /\ find_cls (c_subs c) a = Some sc /\
                        c_ctx sc = true /\ i_cls k = sc /\ conf k) /\ lsi_stmt k /\ wf_cls (i_cls k)) D ->
    NoDup (map i_name D) ->
    forall L u0 nm st rest u cs,
      (forall x k, In x L -> In k D -> i_name x <> i_name k) ->
      exists D' u' cs',
        l_go (map save D ++ rest) (Inst u0 c nm st [] L) u cs
        = l_go rest (Inst u0 c nm st [] (L ++ D')) u' cs' /\
        Forall2 loaded_as D D'.
  Proof.
    induction 1 as [|k D Hk _ IH]; intros Hnd L u0 nm st rest u cs HL.
    - exists [], u, cs. rewrite app_nil_r. split; [reflexivity|constructor].
    - inversion Hnd as [|? ? Hnin Hnd']; subst.
      destruct Hk as [[a [j [sc [Hn [Hf [Hctx [Hc Hconf]]]]]]] [Hlsi Hwf]].
      cbn [map app l_go]. rewrite save_name, Hn. cbn [snd fst i_cls i_subs]. rewrite Hf.
      destruct (create sc (a, Some j) u) as [kf u1] eqn:Ec.
      assert (Hfr : fresh_of kf (i_cls k) (i_name k)).
      { exists u. rewrite Hc, Hn, Ec. reflexivity. }
      destruct (Hlsi Hconf Hwf kf Hfr u1 (bump cs a j)) as [k' [u2 [cs2 [El [La [Lb [Lc Ld]]]]]]].
      rewrite El. cbn [with_subs].
      rewrite set_kid_append.
      2:{ apply find_kid_none_notin. intros x Hx. rewrite Lc. apply HL; [exact Hx|left; reflexivity]. }
      destruct (IH Hnd' (L ++ [k']) u0 nm st rest u2 cs2) as [D' [u' [cs' [E2 HD']]]].
      { intros x y Hx Hy. apply in_app_or in Hx. destruct Hx as [Hx|[Hx|[]]].
        - apply HL; [exact Hx|right; exact Hy].
        - subst x. rewrite Lc. intro E. apply Hnin. rewrite E. apply in_map. exact Hy. }
      exists (k' :: D'), u', cs'. split.
      + rewrite E2. rewrite <- app_assoc. reflexivity.
      + constructor; [|exact HD']. unfold loaded_as. auto.
  Qed.
End Phases.

Lemma wf_cls_inv c : wf_cls c ->
  NoDup (map c_alias (c_subs c)) /\
  (forall sc, In sc (c_subs c) -> c_ctx sc = false -> c_alias sc <> c_alias c) /\
  Forall wf_cls (c_subs c).
Proof. intro H. inversion H; subst. cbn. auto. Qed.

Lemma Forall2_names_eq D D' : Forall2 loaded_as D D' -> map i_name D' = map i_name D.
Proof. induction 1 as [|a b l1 l2 [_ [_ [H _]]] _ IH]; [reflexivity|]. cbn [map]. rewrite H, IH. reflexivity. Qed.
Lemma Forall2_save_eq D D' : Forall2 loaded_as D D' -> map save D' = map save D.
Proof. induction 1 as [|a b l1 l2 [H _] _ IH]; [reflexivity|]. cbn [map]. rewrite H, IH. reflexivity. Qed.

Lemma Forall2_in_l_static (scs : list cls) S (P : inst -> Prop) :
  Forall2 (fun sc k => i_cls k = sc /\ i_name k = (c_alias sc, None) /\ P k) scs S ->
  forall s0, In s0 S -> exists sc, i_name s0 = (c_alias sc, None).
Proof.
  induction 1 as [|sc s scs0 S0 [_ [B _]] _ IH]; intros s0 Hin; [contradiction|].
  destruct Hin as [<-|Hin]; [exists sc; exact B|apply IH; exact Hin].
Qed.

Lemma lsi i : lsi_stmt i.
Proof.
  induction i as [ui c nm st ca kids IH] using inst_ind'.
  intros Hconf Hwf f Hfr u cs. cbn [i_cls i_name] in *.
  inversion Hconf as [? ? ? ? ? S D HS HD HN]; subst.
  destruct (wf_cls_inv c Hwf) as [W1 [W2 W3]].
  destruct (fresh_shape _ _ _ Hfr) as [u0 [F [-> HF]]].
  apply Forall_app in IH. destruct IH as [IHS IHD].
  rewrite Forall_forall in IHS, IHD, W3.
  rewrite load_eq. cbn [save i_name i_state]. rewrite name_eqb_refl. cbn [negb with_state].
  rewrite map_app.
  assert (HS' : Forall2 (fun sc k => i_cls k = sc /\ i_name k = (c_alias sc, None) /\ lsi_stmt k /\ conf k /\ wf_cls sc) (statics c) S).
  { apply (Forall2_impl_in _ _ _ _ HS). intros sc k Hsc Hk [A [B C]].
    apply filter_In in Hsc. destruct Hsc as [Hsc _]. repeat split; auto. }
  assert (Hself : forall sc, In sc (statics c) -> c_alias sc <> c_alias c).
  { intros sc Hsc. apply filter_In in Hsc. destruct Hsc as [Hsc Hx]. apply W2; [exact Hsc|].
    unfold is_static in Hx. destruct (c_ctx sc); [discriminate|reflexivity]. }
  destruct (static_phase c _ _ _ HS' HF (NoDup_map_filter _ _ _ W1) Hself [] u0 nm (merge_state None st) (map save D) u cs)
    as [L' [u1 [cs1 [E1 HL']]]]; [intros x []|].
  cbn [app] in E1. rewrite E1.
  assert (HD' : Forall (fun k => (exists a j sc, i_name k = (a, Some j) /\ find_cls (c_subs c) a = Some sc /\
                        c_ctx sc = true /\ i_cls k = sc /\ conf k) /\ lsi_stmt k /\ wf_cls (i_cls k)) D).
  { rewrite Forall_forall in *. intros k Hk. pose proof (HD k Hk) as Hd. split; [exact Hd|]. split; [apply IHD; exact Hk|].
    destruct Hd as [a [j [sc [_ [Hf [_ [Hc _]]]]]]]. rewrite Hc. apply W3. apply (find_cls_in _ _ _ Hf). }
  destruct (dyn_phase c D HD' HN L' u0 nm (merge_state None st) [] u1 cs1) as [D' [u2 [cs2 [E2 HDl]]]].
  { intros x k Hx Hk E. rewrite Forall_forall in HD. destruct (HD k Hk) as [a [j [_ [Hn _]]]].
    assert (Hin : In (i_name x) (map i_name L')) by (apply in_map; exact Hx).
    rewrite (Forall2_names_eq _ _ HL') in Hin. apply in_map_iff in Hin. destruct Hin as [s0 [Es0 Hs0]].
    destruct (Forall2_in_l_static _ _ _ HS s0 Hs0) as [sc Hsc]. rewrite Hsc in Es0. rewrite <- Es0, Hn in E. discriminate E. }
  rewrite app_nil_r in E2. rewrite E2. cbn [l_go].
  exists (Inst u0 c nm (merge_state None st) [] (L' ++ D')), u2, cs2. split; [reflexivity|].
  unfold loaded_as. cbn [save i_name i_cls]. split; [|split; [|auto]].
  - f_equal; [destruct st; reflexivity|]. rewrite !map_app, (Forall2_save_eq _ _ HL'), (Forall2_save_eq _ _ HDl). reflexivity.
  - constructor.
    + clear - HS HL'. revert L' HL'. induction HS as [|sc s scs S0 [A [B C]] _ IH]; intros L' HL'; inversion HL'; subst; constructor.
      * destruct H1 as [_ [Hc [Hn Hcl]]]. rewrite Hcl, Hn. auto.
      * apply IH. assumption.
    + clear - HD HDl. revert D' HDl. induction HD as [|k D0 Hk _ IH]; intros D' HDl; inversion HDl; subst; constructor.
      * destruct H1 as [_ [Hc [Hn Hcl]]]. destruct Hk as [a [j [sc [K1 [K2 [K3 [K4 _]]]]]]].
        exists a, j, sc. rewrite Hn, Hcl. auto.
      * apply IH. assumption.
    + rewrite (Forall2_names_eq _ _ HDl). exact HN.
Qed.

(** [conf] only depends on the skeleton *)
Lemma map_skel_Forall2 A B : map skel A = map skel B -> Forall2 (fun a b => skel a = skel b) A B.
Proof.
  revert B. induction A as [|a A IH]; intros [|b B] H; cbn [map] in H; try discriminate; constructor.
  - injection H as H1 H2. exact H1.
  - apply IH. injection H as H1 H2. exact H2.
Qed.

Lemma skel_hdr i : i_uid (skel i) = i_uid i /\ i_cls (skel i) = i_cls i /\ i_name (skel i) = i_name i.
Proof. unfold skel. rewrite imap_uid, imap_cls, imap_name. auto. Qed.

Lemma skel_eq_hdr i j : skel i = skel j -> i_uid i = i_uid j /\ i_cls i = i_cls j /\ i_name i = i_name j.
Proof.
  intro H. destruct (skel_hdr i) as [A [B C]]. destruct (skel_hdr j) as [A' [B' C']].
  rewrite H in *. split; [congruence|]. split; congruence.
Qed.

Lemma conf_skel_eq i : forall j, skel i = skel j -> conf i -> conf j.
Proof.
  induction i as [u c nm s ca kids IH] using inst_ind'. intros [u' c' nm' s' ca' kids'] H Hc.
  cbn [skel imap] in H. inversion H; subst u' c' nm'. clear H. rename H4 into Hk.
  inversion Hc as [? ? ? ? ? S D HS HD HN]; subst.
  rewrite map_app in Hk. symmetry in Hk. apply map_eq_app in Hk. destruct Hk as [S' [D' [-> [ES ED]]]].
  apply Forall_app in IH. destruct IH as [IHS IHD]. rewrite Forall_forall in IHS, IHD.
  apply map_skel_Forall2 in ES. apply map_skel_Forall2 in ED.
  constructor.
  - clear - HS ES IHS. revert S' ES. induction HS as [|sc k scs S0 Hs _ IH]; intros S' ES;
      inversion ES as [|? k' ? S1 Hkk HSS]; subst; constructor.
    + destruct Hs as [A [B C]]. destruct (skel_eq_hdr _ _ Hkk) as [_ [Hc Hn]]. rewrite Hc, Hn.
      split; [exact A|]. split; [exact B|]. apply (IHS k); [left; reflexivity|symmetry; exact Hkk|exact C].
    + apply IH; [|assumption]. intros z Hz. apply IHS. right. exact Hz.
  - clear - HD ED IHD. revert D' ED. induction HD as [|k D0 Hk _ IH]; intros D' ED;
      inversion ED as [|? k' ? D1 Hkk HDD]; subst; constructor.
    + destruct Hk as [a [j [sc [K1 [K2 [K3 [K4 K5]]]]]]].
      destruct (skel_eq_hdr _ _ Hkk) as [_ [Hc Hn]]. exists a, j, sc. rewrite Hc, Hn.
      repeat split; auto. apply (IHD k); [left; reflexivity|symmetry; exact Hkk|exact K5].
    + apply IH; [|assumption]. intros z Hz. apply IHD. right. exact Hz.
  - assert (E : map i_name D' = map i_name D); [|rewrite E; exact HN].
    clear - ED. induction ED as [|a b A B Hab _ IH]; [reflexivity|]. cbn [map].
    destruct (skel_eq_hdr _ _ Hab) as [_ [_ Hn]]. rewrite Hn, IH. reflexivity.
Qed.

Lemma create_conf c : forall nm u, conf (fst (create c nm u)).
Proof.
  induction c as [a x hs subs IH] using cls_ind'. intros nm u.
  destruct (fresh_shape (fst (create (Cls a x hs subs) nm u)) (Cls a x hs subs) nm (ex_intro _ u eq_refl)) as [u0 [F [E HF]]].
  rewrite E. rewrite <- (app_nil_r F). constructor; [|constructor|constructor].
  cbn [c_subs] in *. rewrite Forall_forall in IH.
  apply (Forall2_impl_in _ _ _ _ HF). intros sc k Hsc _ [uk ->].
  apply filter_In in Hsc. destruct Hsc as [Hsc _].
  destruct (create_hdr sc (c_alias sc, None) uk) as [_ [A [B _]]]. split; [exact A|]. split; [exact B|].
  apply IH. exact Hsc.
Qed.

Lemma map_kid_app l1 l2 x g :
  map_kid (l1 ++ l2) x g =
  match find_kid l1 x with Some _ => map_kid l1 x g ++ l2 | None => l1 ++ map_kid l2 x g end.
Proof.
  induction l1 as [|y r IH]; [reflexivity|]. cbn [app map_kid find_kid].
  destruct (name_eqb (i_name y) x); [reflexivity|]. rewrite IH. destruct (find_kid r x); reflexivity.
Qed.

Lemma map_kid_names l x g : (forall k, find_kid l x = Some k -> i_name (g k) = i_name k) ->
  map i_name (map_kid l x g) = map i_name l.
Proof.
  induction l as [|y r IH]; intro H; [reflexivity|]. cbn [map_kid find_kid map] in *.
  destruct (name_eqb (i_name y) x); cbn [map]; [rewrite H; reflexivity|rewrite IH; [reflexivity|exact H]].
Qed.

Lemma map_kid_forall2 {A} (R : A -> inst -> Prop) scs l x g k :
  Forall2 R scs l -> find_kid l x = Some k -> (forall sc, R sc k -> R sc (g k)) ->
  Forall2 R scs (map_kid l x g).
Proof.
  intros H. revert k. induction H as [|sc y scs l Hy Hl IH]; intros k Ek Hg; [constructor|].
  cbn [map_kid find_kid] in *. destruct (name_eqb (i_name y) x).
  - inversion Ek; subst y. constructor; [apply Hg; exact Hy|exact Hl].
  - constructor; [exact Hy|apply (IH k Ek Hg)].
Qed.

Lemma find_kid_some_app l1 l2 x k : find_kid (l1 ++ l2) x = Some k ->
  find_kid l1 x = Some k \/ (find_kid l1 x = None /\ find_kid l2 x = Some k).
Proof. rewrite find_kid_app. destruct (find_kid l1 x); auto. Qed.

Lemma conf_set_node p : forall r j v, conf r -> get_node r p = Some j -> conf v ->
  i_cls v = i_cls j -> i_name v = i_name j -> conf (set_node r p v).
Proof.
  induction p as [|x q IH]; intros r j v Hc Hg Hv E1 E2; cbn [get_node set_node] in *; [exact Hv|].
  destruct (find_kid (i_subs r) x) as [k|] eqn:Ek; [|discriminate].
  inversion Hc as [u c nm s ca S D HS HD HN]; subst r. cbn [i_subs with_subs] in *.
  assert (Hh : forall k0, get_node k0 q = Some j -> i_cls (set_node k0 q v) = i_cls k0 /\ i_name (set_node k0 q v) = i_name k0).
  { intros k0 H0. destruct q as [|y q']; cbn [get_node set_node] in *.
    - inversion H0; subst. auto.
    - destruct k0 as [a1 a2 a3 a4 a5 a6]; cbn [with_subs i_cls i_name]. auto. }
  rewrite map_kid_app. destruct (find_kid_some_app _ _ _ _ Ek) as [E|[E1' E]]; rewrite ?E, ?E1'.
  - constructor; [|exact HD|exact HN].
    apply (map_kid_forall2 _ _ _ _ _ k HS E). intros sc [A [B C]].
    destruct (Hh k Hg) as [H1 H2]. rewrite H1, H2. split; [exact A|]. split; [exact B|].
    apply (IH k j v C Hg Hv E1 E2).
  - constructor; [exact HS| |].
    + apply (map_kid_forall _ _ D x _ k E HD); [auto|].
      intros [a [jn [sc [K1 [K2 [K3 [K4 K5]]]]]]]. destruct (Hh k Hg) as [H1 H2].
      exists a, jn, sc. rewrite H1, H2. repeat split; auto. apply (IH k j v K5 Hg Hv E1 E2).
    + rewrite map_kid_names; [exact HN|]. intros k0 Hk0. rewrite E in Hk0. inversion Hk0; subst k0.
      apply (Hh k Hg).
Qed.

(** shape invariant of a run *)
Definition CInv (c : cls) (s : st) : Prop :=
  conf (root s) /\ i_cls (root s) = c /\ i_name (root s) = (c_alias c, None) /\
  (forall sv, saved s = Some sv ->
     exists r0, sv = save r0 /\ conf r0 /\ i_cls r0 = c /\ i_name r0 = (c_alias c, None)).

Definition static_ok (o : op) : Prop :=
  match o with ODestroy _ n => snd n <> None | _ => True end.

Lemma find_kid_none_all l n : find_kid l n = None -> forall k, In k l -> i_name k <> n.
Proof.
  induction l as [|x r IH]; intros H k Hk; [contradiction|]. cbn [find_kid] in H.
  destruct (name_eqb (i_name x) n) eqn:E; [discriminate|]. destruct Hk as [<-|Hk].
  - apply name_eqb_neq. exact E.
  - apply IH; assumption.
Qed.

Lemma del_kid_app_skip l1 l2 n : (forall k, In k l1 -> i_name k <> n) -> del_kid (l1 ++ l2) n = l1 ++ del_kid l2 n.
Proof.
  induction l1 as [|x r IH]; intro H; [reflexivity|]. cbn [app del_kid].
  destruct (name_eqb (i_name x) n) eqn:E.
  - apply name_eqb_eq in E. exfalso. apply (H x); [left; reflexivity|exact E].
  - rewrite IH; [reflexivity|]. intros k Hk. apply H. right. exact Hk.
Qed.

Lemma del_kid_incl l n : incl (del_kid l n) l.
Proof.
  induction l as [|x r IH]; [apply incl_refl|]. cbn [del_kid].
  destruct (name_eqb (i_name x) n); [apply incl_tl, incl_refl|].
  intros y [<-|Hy]; [left; reflexivity|right; apply IH; exact Hy].
Qed.

Lemma del_kid_nodup l n : NoDup (map i_name l) -> NoDup (map i_name (del_kid l n)).
Proof.
  induction l as [|x r IH]; intro H; [constructor|]. cbn [del_kid map] in *.
  inversion H as [|? ? Hn Hr]; subst. destruct (name_eqb (i_name x) n); [exact Hr|].
  cbn [map]. constructor; [|apply IH; exact Hr].
  intro Hin. apply Hn. apply in_map_iff in Hin. destruct Hin as [y [E Hy]].
  apply in_map_iff. exists y. split; [exact E|apply (del_kid_incl r n); exact Hy].
Qed.

Lemma conf_subs_inv i : conf i -> exists S D, i_subs i = S ++ D /\
  Forall2 (fun sc k => i_cls k = sc /\ i_name k = (c_alias sc, None) /\ conf k) (statics (i_cls i)) S /\
  Forall (fun k => exists a j sc, i_name k = (a, Some j) /\ find_cls (c_subs (i_cls i)) a = Some sc /\
                                  c_ctx sc = true /\ i_cls k = sc /\ conf k) D /\
  NoDup (map i_name D).
Proof. intro H. inversion H; subst. cbn. exists S, D. auto. Qed.

Lemma conf_with_subs i S D :
  Forall2 (fun sc k => i_cls k = sc /\ i_name k = (c_alias sc, None) /\ conf k) (statics (i_cls i)) S ->
  Forall (fun k => exists a j sc, i_name k = (a, Some j) /\ find_cls (c_subs (i_cls i)) a = Some sc /\
                                  c_ctx sc = true /\ i_cls k = sc /\ conf k) D ->
  NoDup (map i_name D) -> conf (with_subs i (S ++ D)).
Proof. destruct i as [a1 a2 a3 a4 a5 a6]. cbn. intros. constructor; assumption. Qed.

Lemma static_names_none (scs : list cls) S (P : inst -> Prop) n :
  Forall2 (fun sc k => i_cls k = sc /\ i_name k = (c_alias sc, None) /\ P k) scs S ->
  snd n <> None -> forall k, In k S -> i_name k <> n.
Proof.
  intros H Hn k Hk E. destruct (Forall2_in_l_static _ _ _ H k Hk) as [sc Hsc].
  rewrite Hsc in E. subst n. apply Hn. reflexivity.
Qed.

Lemma NoDup_app_snoc {A} (l : list A) x : NoDup l -> ~ In x l -> NoDup (l ++ [x]).
Proof.
  induction l as [|y r IH]; intros H Hx; cbn [app]; [constructor; [intros []|constructor]|].
  inversion H as [|? ? Hn Hr]; subst. constructor.
  - intro Hin. apply in_app_or in Hin. destruct Hin as [Hin|[<-|[]]]; [contradiction|]. apply Hx. left. reflexivity.
  - apply IH; [exact Hr|]. intro Hin. apply Hx. right. exact Hin.
Qed.

Lemma conf_get_node p : forall r j, conf r -> get_node r p = Some j -> conf j.
Proof.
  induction p as [|x q IH]; intros r j Hc H; cbn [get_node] in H.
  - inversion H; subst. exact Hc.
  - destruct (find_kid (i_subs r) x) as [k0|] eqn:Ek; [|discriminate].
    destruct (conf_subs_inv _ Hc) as [S [D [E [HS [HD _]]]]]. rewrite E in Ek.
    destruct (find_kid_in _ _ _ Ek) as [Hin _]. apply in_app_or in Hin. destruct Hin as [Hin|Hin].
    + apply (IH k0); [|exact H]. clear - HS Hin. induction HS as [|? ? ? ? [_ [_ C]] _ IH']; [contradiction|].
      destruct Hin as [<-|Hin]; [exact C|apply IH'; exact Hin].
    + rewrite Forall_forall in HD. destruct (HD k0 Hin) as [? [? [? [_ [_ [_ [_ C]]]]]]]. apply (IH k0 _ C H).
Qed.

Lemma CInv_step c s o : wf_cls c -> Inv s -> CInv c s -> static_ok o -> CInv c (impl_step s o).
Proof.
  intros Hwf HI [Hcf [Hcl [Hnm Hsv]]] Hso. pose proof HI as [Ic Ib _ _ _ _ _].
  destruct o as [p a|p n|p dst t|p v| | |]; unfold impl_step; cbn [step_gen].
  - (* OInst *)
    destruct (get_node (root s) p) as [par|] eqn:Ep; [|repeat split; assumption].
    destruct (find_cls (c_subs (i_cls par)) a) as [sc|] eqn:Ec; [|repeat split; assumption].
    destruct (c_ctx sc) eqn:Ex; cbn [negb]; [|repeat split; assumption].
    set (k := next_count (counts s) a).
    pose proof (create_hdr sc (a, Some k) (next_uid s)) as Hh. pose proof (create_conf sc (a, Some k) (next_uid s)) as Hcn.
    destruct (create sc (a, Some k) (next_uid s)) as [ni u']. cbn [fst] in *.
    destruct Hh as [_ [Hh2 [Hh3 _]]].
    assert (Fr : lcnt (fn (a, Some k)) (root s) = 0%nat).
    { destruct (lcnt (fn (a, Some k)) (root s)) eqn:E; [reflexivity|]. exfalso.
      apply (next_count_fresh (counts s) a). apply Ib. fold k. lia. }
    assert (Fk : find_kid (i_subs par) (i_name ni) = None).
    { destruct (find_kid (i_subs par) (i_name ni)) as [kd|] eqn:E; [|reflexivity]. exfalso.
      destruct (find_kid_in _ _ _ E) as [_ Hn]. pose proof (name_cnt_self kd) as H1.
      pose proof (find_kid_cnt_le (fn (i_name kd)) _ _ _ E) as H2.
      pose proof (get_node_cnt_le (fn (i_name kd)) _ _ _ Ep) as H3.
      rewrite (lcnt_eq _ par) in H3. rewrite Hn, Hh3 in *. lia. }
    rewrite (set_kid_append _ _ Fk).
    pose proof (conf_get_node p _ _ Hcf Ep) as Hpar.
    destruct (conf_subs_inv _ Hpar) as [S [D [E [HS [HD HN]]]]].
    assert (Hnew : conf (with_subs par (i_subs par ++ [ni]))).
    { rewrite E, <- app_assoc. apply conf_with_subs; [exact HS| |].
      - apply Forall_app. split; [exact HD|]. constructor; [|constructor].
        exists a, k, sc. repeat split; auto.
      - rewrite map_app. cbn [map]. apply NoDup_app_snoc; [exact HN|].
        intro Hin. apply in_map_iff in Hin. destruct Hin as [y [Ey Hy]].
        apply (find_kid_none_all _ _ Fk y); [rewrite E; apply in_or_app; right; exact Hy|exact Ey]. }
    assert (Hhdr : i_cls (with_subs par (i_subs par ++ [ni])) = i_cls par /\ i_name (with_subs par (i_subs par ++ [ni])) = i_name par)
      by (destruct par as [a1 a2 a3 a4 a5 a6]; cbn; auto).
    destruct Hhdr as [Hh1 Hh4].
    destruct (set_node_root_hdr p (root s) par _ Ep Hh1 Hh4) as [R1 R2].
    split; cbn [root saved]; [apply (conf_set_node p _ par); assumption|].
    split; [rewrite R1; exact Hcl|]. split; [rewrite R2; exact Hnm|exact Hsv].
  - (* ODestroy *)
    cbn [static_ok] in Hso.
    destruct (get_node (root s) p) as [par|] eqn:Ep; [|repeat split; assumption].
    destruct (find_kid (i_subs par) n) as [kd|] eqn:Ek; [|repeat split; assumption].
    pose proof (conf_get_node p _ _ Hcf Ep) as Hpar.
    destruct (conf_subs_inv _ Hpar) as [S [D [E [HS [HD HN]]]]].
    assert (Hnew : conf (with_subs par (del_kid (i_subs par) n))).
    { rewrite E, del_kid_app_skip; [|apply (static_names_none _ _ _ n HS Hso)].
      apply conf_with_subs; [exact HS| |apply del_kid_nodup; exact HN].
      rewrite Forall_forall in *. intros y Hy. apply HD. apply (del_kid_incl D n). exact Hy. }
    assert (Hhdr : i_cls (with_subs par (del_kid (i_subs par) n)) = i_cls par /\ i_name (with_subs par (del_kid (i_subs par) n)) = i_name par)
      by (destruct par as [a1 a2 a3 a4 a5 a6]; cbn; auto).
    destruct Hhdr as [Hh1 Hh4].
    destruct (set_node_root_hdr p (root s) par _ Ep Hh1 Hh4) as [R1 R2].
    set (r1 := set_node (root s) p (with_subs par (del_kid (i_subs par) n))) in *.
    assert (Q : conf (erase r1) /\ i_cls (erase r1) = c /\ i_name (erase r1) = (c_alias c, None)).
    { destruct (erase_hdr r1) as [_ [Q1 Q2]]. rewrite Q1, Q2, R1, R2.
      split; [|split; assumption].
      apply (conf_skel_eq r1); [symmetry; apply skel_erase|].
      apply (conf_set_node p _ par); assumption. }
    destruct Q as [Q0 [Q1 Q2]]. unfold CInv. cbn [emit with_root root saved]. change (clear_caches r1) with (erase r1). split; [exact Q0|]. split; [exact Q1|]. split; [exact Q2|exact Hsv].
  - (* OSend *)
    destruct (get_node (root s) p) as [src|] eqn:Ep; [|repeat split; assumption].
    destruct (full_get (root s) (rev p) dst) as [x r'] eqn:Ef.
    destruct (full_get_ok _ _ _ _ _ Ic Ef) as [_ [He _]].
    destruct (erase_eq_facts _ _ He) as [Q1 [Q2 _]].
    unfold CInv. cbn [emit with_root root saved].
    split; [apply (conf_skel_eq (root s)); [symmetry; apply erase_skel_eq; exact He|exact Hcf]|].
    split; [rewrite Q1; exact Hcl|]. split; [rewrite Q2; exact Hnm|exact Hsv].
  - (* OSet *)
    destruct (get_node (root s) p) as [i|] eqn:Ep; [|repeat split; assumption].
    destruct (with_state_hdr i (Some v)) as [_ [W2 W3]].
    destruct (set_node_root_hdr p (root s) i _ Ep W2 W3) as [R1 R2].
    unfold CInv. cbn [emit with_root root saved].
    split; [|split; [rewrite R1; exact Hcl|split; [rewrite R2; exact Hnm|exact Hsv]]].
    apply (conf_skel_eq (root s)); [|exact Hcf]. symmetry. apply (set_node_skel p _ i); [exact Ep|apply with_state_skel].
  - (* OSave *)
    unfold CInv. cbn [root saved]. split; [exact Hcf|]. split; [exact Hcl|]. split; [exact Hnm|].
    intros sv H. inversion H; subst sv. exists (root s). auto.
  - (* OLoad *)
    destruct (saved s) as [sv|] eqn:Es;
      [|unfold CInv; cbn [emit root saved]; rewrite Es; repeat split; assumption].
    destruct (Hsv sv eq_refl) as [r0 [-> [C0 [C1 C2]]]].
    destruct (create (i_cls (root s)) (i_name (root s)) (next_uid s)) as [fresh u1] eqn:Ec.
    assert (Hfr : fresh_of fresh (i_cls r0) (i_name r0)).
    { exists (next_uid s). replace (i_cls r0) with (i_cls (root s)) by congruence.
      replace (i_name r0) with (i_name (root s)) by congruence. rewrite Ec. reflexivity. }
    rewrite <- C1 in Hwf.
    destruct (lsi r0 C0 Hwf fresh Hfr u1 (counts s)) as [r' [u2 [cs' [El [_ [La [Lb Lc]]]]]]].
    rewrite El. unfold CInv. cbn [root saved]. split; [exact La|]. split; [rewrite Lc; exact C1|].
    split; [rewrite Lb; exact C2|]. intros sv H. inversion H; subst sv. exists r0. auto.
  - (* ORestart *)
    pose proof (create_conf (i_cls (root s)) (i_name (root s)) (next_uid s)) as Hcn.
    pose proof (create_hdr (i_cls (root s)) (i_name (root s)) (next_uid s)) as Hh.
    destruct (create (i_cls (root s)) (i_name (root s)) (next_uid s)) as [fresh u1]. cbn [fst] in *.
    destruct Hh as [_ [A [B _]]]. unfold CInv. cbn [root saved].
    split; [exact Hcn|]. split; [rewrite A; exact Hcl|]. split; [rewrite B; exact Hnm|exact Hsv].
Qed.

Lemma init_CInv c : CInv c (init c).
Proof.
  unfold init. pose proof (create_conf c (c_alias c, None) 0) as Hc.
  pose proof (create_hdr c (c_alias c, None) 0) as Hh.
  destruct (create c (c_alias c, None) 0) as [r u]. cbn [fst] in *. destruct Hh as [_ [A [B _]]].
  unfold CInv. cbn [root saved]. repeat split; auto. discriminate.
Qed.

Lemma run_CInv c ops : wf_cls c -> Forall static_ok ops -> forall s, Inv s -> CInv c s ->
  CInv c (fold_left impl_step ops s).
Proof.
  intros Hwf H. induction H as [|o ops Ho _ IH]; intros s HI HC; cbn [fold_left]; [exact HC|].
  apply IH; [apply Inv_step; exact HI|apply CInv_step; assumption].
Qed.

(** saving a reachable stack and loading the result into a freshly built stack of the same
    classes reproduces the saved state *)
Theorem load_save_id c ops : wf_cls c -> Forall static_ok ops ->
  let s := impl_run c ops in
  exists r' l,
    trace (impl_step (impl_step s OSave) OLoad)
    = ELoad l (save r') :: ESave (save (root s)) :: trace s /\
    save r' = save (root s).
Proof.
  intros Hwf Hso s.
  pose proof (impl_run_Inv c ops) as HI. fold s in HI.
  pose proof (run_CInv c ops Hwf Hso (init c) (init_Inv c) (init_CInv c)) as HC.
  change (fold_left impl_step ops (init c)) with s in HC.
  destruct HC as [Hcf [Hcl [Hnm _]]].
  unfold impl_step at 2. cbn [step_gen]. unfold impl_step. cbn [step_gen saved root next_uid counts trace].
  destruct (create (i_cls (root s)) (i_name (root s)) (next_uid s)) as [fresh u1] eqn:Ec.
  assert (Hfr : fresh_of fresh (i_cls (root s)) (i_name (root s))) by (exists (next_uid s); rewrite Ec; reflexivity).
  rewrite <- Hcl in Hwf.
  destruct (lsi (root s) Hcf Hwf fresh Hfr u1 (counts s)) as [r' [u2 [cs' [El [La _]]]]].
  rewrite El. exists r', (live r'). cbn [trace]. split; [reflexivity|exact La].
Qed.

(** decidable forms of the hypotheses *)
Lemma nodupb_sound l : nodupb l = true -> NoDup l.
Proof.
  induction l as [|x r IH]; intro H; [constructor|]. cbn [nodupb] in H.
  apply andb_true_iff in H. destruct H as [H1 H2]. constructor; [|apply IH; exact H2].
  intro Hin. apply negb_true_iff in H1. assert (existsb (N.eqb x) r = true); [|congruence].
  apply existsb_exists. exists x. split; [exact Hin|apply N.eqb_refl].
Qed.

Lemma wf_clsb_sound c : wf_clsb c = true -> wf_cls c.
Proof.
  induction c as [a x hs subs IH] using cls_ind'. intro H. cbn [wf_clsb] in H.
  apply andb_true_iff in H. destruct H as [H H3]. apply andb_true_iff in H. destruct H as [H1 H2].
  constructor.
  - apply nodupb_sound. exact H1.
  - intros sc Hin Hx E. rewrite forallb_forall in H2. specialize (H2 sc Hin). rewrite Hx in H2.
    cbn in H2. apply negb_true_iff in H2. apply N.eqb_neq in H2. contradiction.
  - induction IH as [|k r Hk _ IHr]; [constructor|].
    apply andb_true_iff in H3. destruct H3 as [A B]. constructor; [apply Hk; exact A|].
    apply IHr; [| |exact B].
    + cbn [map nodupb] in H1. apply andb_true_iff in H1. apply H1.
    + cbn [forallb] in H2. apply andb_true_iff in H2. apply H2.
Qed.

Lemma static_okb_sound ops : forallb static_okb ops = true -> Forall static_ok ops.
Proof.
  intro H. rewrite forallb_forall in H. apply Forall_forall. intros o Ho. specialize (H o Ho).
  destruct o; cbn in *; auto. destruct (snd n); [discriminate|discriminate H].
Qed.

(** ** Layer classes deriving from other layer classes *)
Lemma insert_id_in x l y : In y (insert_id x l) <-> y = x \/ In y l.
Proof.
  induction l as [|z r IH]; cbn [insert_id].
  - split; [intros [<-|[]]; auto|intros [->|[]]; left; reflexivity].
  - destruct (N.ltb x z); [cbn [In]; split; [intros [<-|H]; auto|intros [->|H]; auto]|].
    destruct (N.eqb x z) eqn:E.
    + apply N.eqb_eq in E. subst z. cbn [In]. split; [auto|intros [->|H]; auto].
    + cbn [In]. rewrite IH. split; [intros [H|[H|H]]; auto|intros [H|[H|H]]; auto].
Qed.

Lemma sort_ids_in l y : In y (sort_ids l) <-> In y l.
Proof.
  induction l as [|x r IH]; [reflexivity|]. cbn [sort_ids fold_right]. fold (sort_ids r).
  rewrite insert_id_in, IH. cbn [In]. split; intros [H|H]; auto.
Qed.

Lemma find_hd_some l i h : find_hd l i = Some h -> In h l /\ h_id h = i.
Proof.
  induction l as [|x r IH]; [discriminate|]. cbn [find_hd]. destruct (N.eqb (h_id x) i) eqn:E; intro H.
  - inversion H; subst. split; [left; reflexivity|apply N.eqb_eq; exact E].
  - destruct (IH H). split; [right; assumption|assumption].
Qed.

Lemma visible_some chain i h : visible chain i = Some h ->
  h_id h = i /\ exists own, In own chain /\ In h own.
Proof.
  induction chain as [|own r IH]; [discriminate|]. cbn [visible].
  destruct (find_hd own i) as [h0|] eqn:E; intro H.
  - inversion H; subst h0. destruct (find_hd_some _ _ _ E) as [A B]. split; [exact B|].
    exists own. split; [left; reflexivity|exact A].
  - destruct (IH H) as [A [o [B C]]]. split; [exact A|]. exists o. split; [right; exact B|exact C].
Qed.

(** the methods [__init__] registers are exactly the definitions [getattr] resolves to *)
Lemma effective_in chain h : In h (effective chain) <-> visible chain (h_id h) = Some h.
Proof.
  unfold effective. rewrite in_flat_map. split.
  - intros [i [_ Hi]]. destruct (visible chain i) as [h0|] eqn:E; [|contradiction].
    destruct Hi as [<-|[]]. destruct (visible_some _ _ _ E) as [A _]. rewrite A. exact E.
  - intro H. exists (h_id h). rewrite H. split; [|left; reflexivity].
    apply sort_ids_in. destruct (visible_some _ _ _ H) as [_ [own [A B]]].
    apply in_flat_map. exists own. split; [exact A|apply in_map; exact B].
Qed.

(** a definition in the class itself hides the base classes' definitions of that name *)
Lemma override_hides own rest ho hb :
  find_hd own (h_id hb) = Some ho -> In hb (effective (own :: rest)) -> hb = ho.
Proof.
  intros H Hin. apply effective_in in Hin. cbn [visible] in Hin. rewrite H in Hin. inversion Hin. reflexivity.
Qed.

Lemma inherited_visible own rest i : find_hd own i = None -> visible (own :: rest) i = visible rest i.
Proof. intro H. cbn [visible]. rewrite H. reflexivity. Qed.

Lemma spec_declared_cases hs s t : forall acc,
  let r := fold_left (fun acc h => if declares h s t then Some (h_id h, h_contextual h) else acc) hs acc in
  (r = acc /\ forall h, In h hs -> declares h s t = false) \/
  (exists h, In h hs /\ declares h s t = true /\ r = Some (h_id h, h_contextual h)).
Proof.
  induction hs as [|h0 hs IH]; intro acc; cbn [fold_left].
  - left. split; [reflexivity|intros h []].
  - destruct (declares h0 s t) eqn:E.
    + destruct (IH (Some (h_id h0, h_contextual h0))) as [[A B]|[h [A [B C]]]].
      * right. exists h0. split; [left; reflexivity|]. split; [exact E|exact A].
      * right. exists h. split; [right; exact A|]. split; [exact B|exact C].
    + destruct (IH acc) as [[A B]|[h [A [B C]]]].
      * left. split; [exact A|]. intros h [<-|H]; [exact E|apply B; exact H].
      * right. exists h. split; [right; exact A|]. split; [exact B|exact C].
Qed.

(** soundness: the handler selected for a derived class is the VISIBLE definition of a
    method that declares the pair (or the default tag of that source when no visible method
    declares the pair) *)
Lemma derived_handler_sound chain s t m x :
  get_handler (build_handlers (effective chain)) s t = Some (m, x) ->
  exists h, visible chain m = Some h /\ x = h_contextual h /\
    (declares h s t = true \/
     (declares h s 0 = true /\ forall h', In h' (effective chain) -> declares h' s t = false)).
Proof.
  intro H. change (impl_table (effective chain) s t = Some (m, x)) in H.
  rewrite handler_table_exact in H. unfold spec_table, spec_declared in H.
  destruct (spec_declared_cases (effective chain) s t None) as [[A B]|[h [A [B C]]]]; cbv zeta in *.
  - rewrite A in H. destruct (spec_declared_cases (effective chain) s 0 None) as [[A' _]|[h [A' [B' C']]]]; cbv zeta in *.
    + rewrite A' in H. discriminate.
    + rewrite C' in H. inversion H; subst. exists h. split; [apply effective_in; exact A'|]. split; [reflexivity|].
      right. split; [exact B'|exact B].
  - rewrite C in H. inversion H; subst. exists h. split; [apply effective_in; exact A|]. split; [reflexivity|left; exact B].
Qed.

(** completeness: a pair declared by a visible definition is routed to a handler declaring it *)
Lemma derived_handler_complete chain s t h :
  visible chain (h_id h) = Some h -> declares h s t = true ->
  exists h', visible chain (h_id h') = Some h' /\ declares h' s t = true /\
    get_handler (build_handlers (effective chain)) s t = Some (h_id h', h_contextual h').
Proof.
  intros Hv Hd. change (get_handler (build_handlers (effective chain)) s t) with (impl_table (effective chain) s t).
  rewrite handler_table_exact. unfold spec_table, spec_declared.
  destruct (spec_declared_cases (effective chain) s t None) as [[A B]|[h' [A [B C]]]]; cbv zeta in *.
  - apply effective_in in Hv. rewrite (B h Hv) in Hd. discriminate.
  - rewrite C. exists h'. split; [apply effective_in; exact A|]. split; [exact B|reflexivity].
Qed.

Lemma handler_table_exact_derived chain s t :
  get_handler (build_handlers (effective chain)) s t = spec_table (effective chain) s t.
Proof. apply handler_table_exact. Qed.

Lemma refinement_derived depth p ls rt ops :
  trace (impl_run (elabc depth p ls rt) ops) = trace (spec_run (elabc depth p ls rt) ops).
Proof. apply refinement. Qed.

(** ** [add] / [remove] only affect the class they are called on and the classes derived from it *)
Lemma aget_aset_other {V} (d : list (N * V)) k v k' : k <> k' -> aget N.eqb (aset N.eqb d k v) k' = aget N.eqb d k'.
Proof. intro H. rewrite (aget_aset N.eqb N.eqb_eq). destruct (N.eqb k k') eqn:E; [apply N.eqb_eq in E; contradiction|reflexivity]. Qed.

Lemma layers_of_aset_other fuel p : forall ls c d c',
  ~ In c (mro_ids fuel p c') -> layers_of fuel p (aset N.eqb ls c d) c' = layers_of fuel p ls c'.
Proof.
  induction fuel as [|f IH]; intros ls c d c' H; [reflexivity|].
  cbn [layers_of mro_ids] in *.
  assert (Hne : c <> c').
  { intro E. apply H. subst c'. destruct (aget N.eqb p c) as [[a x o pre b post]|]; left; reflexivity. }
  rewrite (aget_aset_other ls c d c' Hne).
  destruct (aget N.eqb ls c'); [reflexivity|].
  destruct (aget N.eqb p c') as [[a x o pre [b|] post]|]; try reflexivity.
  apply IH. intro Hin. apply H. right. exact Hin.
Qed.

Lemma setup_step_local p ls st c' :
  ~ In (match st with SAdd c _ => c | SRemove c _ => c end) (mro_ids (S (length p)) p c') ->
  layers_of (S (length p)) p (setup_step p ls st) c' = layers_of (S (length p)) p ls c'.
Proof.
  intro H. destruct st as [c sub|c sub]; unfold setup_step.
  - apply layers_of_aset_other. exact H.
  - destruct (layers_of (S (length p)) p ls c) as [d|]; [|reflexivity].
    destruct (aget N.eqb d (alias_of p sub)); [|reflexivity]. apply layers_of_aset_other. exact H.
Qed.

(** ... and on the class itself they do what a dictionary assignment / deletion does, starting
    from the inherited dictionary *)
Lemma setup_add_self p ls c sub :
  layers_of (S (length p)) p (setup_step p ls (SAdd c sub)) c
  = Some (aset N.eqb (match layers_of (S (length p)) p ls c with Some d => d | None => [] end) (alias_of p sub) sub).
Proof. unfold setup_step. cbn [layers_of]. rewrite (aget_aset N.eqb N.eqb_eq), N.eqb_refl. reflexivity. Qed.

(** ** the counter owner is shared along a hierarchy *)
Lemma mro_ids_suffix fuel p : forall c1 c2, In c2 (mro_ids fuel p c1) ->
  exists fuel' l1, mro_ids fuel p c1 = l1 ++ mro_ids fuel' p c2 /\ mro_ids fuel' p c2 <> [].
Proof.
  induction fuel as [|f IH]; intros c1 c2 H; [contradiction|].
  cbn [mro_ids] in *. destruct (aget N.eqb p c1) as [[a x o pre b post]|] eqn:E.
  - destruct H as [<-|H].
    + exists (S f), []. cbn [mro_ids app]. rewrite E. split; [reflexivity|discriminate].
    + destruct b as [j|]; [|contradiction]. destruct (IH j c2 H) as [f' [l1 [A B]]].
      exists f', (c1 :: l1). rewrite A. split; [reflexivity|exact B].
  - destruct H as [<-|[]]. exists (S f), []. cbn [mro_ids app]. rewrite E. split; [reflexivity|discriminate].
Qed.

Lemma mro_ids_head fuel p c : mro_ids fuel p c <> [] -> exists r, mro_ids fuel p c = c :: r.
Proof.
  destruct fuel; cbn [mro_ids]; [intro H; contradiction H; reflexivity|].
  destruct (aget N.eqb p c) as [[a x o pre b post]|]; eauto.
Qed.

Lemma last_app_ne {A} (l1 l2 : list A) d d' : l2 <> [] -> last (l1 ++ l2) d = last l2 d'.
Proof.
  intro H. induction l1 as [|x r IH]; cbn [app].
  - destruct l2 as [|y l2]; [contradiction H; reflexivity|]. clear H. revert y.
    induction l2 as [|z l2 IH2]; intro y; [reflexivity|]. cbn [last] in *. apply IH2.
  - cbn [last]. destruct (r ++ l2) eqn:E; [|exact IH].
    apply app_eq_nil in E. destruct E as [_ E]. contradiction.
Qed.

(** a class of the MRO that carries the same alias has the same counter owner: base and derived
    classes with one alias share one counter, whatever mixins or differently-aliased classes sit
    between them *)
Lemma owner_shared fuel p c1 c2 :
  In c2 (mro_ids fuel p c1) -> alias_of p c2 = alias_of p c1 ->
  exists fuel', owner_in p (alias_of p c1) (mro_ids fuel p c1) c1
              = owner_in p (alias_of p c2) (mro_ids fuel' p c2) c2.
Proof.
  intros H Ha. destruct (mro_ids_suffix fuel p c1 c2 H) as [f' [l1 [A B]]].
  exists f'. unfold owner_in. rewrite A, Ha, filter_app. apply last_app_ne.
  destruct (mro_ids_head _ _ _ B) as [r Hr]. rewrite Hr. cbn [filter]. rewrite Ha, N.eqb_refl. discriminate.
Qed.
