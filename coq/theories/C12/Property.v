(** C12 — property theorems only (each closed by [exact]); see Proofs.v.
    [impl_run c ops] is the model of the (repaired) framework run on class tree [c] with the
    operation sequence [ops]; [spec_run] is the reference: scoped dictionary router without
    memoisation + declared-handler dictionary + counter name allocator. *)
From Coq Require Import List NArith Bool.
From Whad Require Import C12.Model C12.Proofs.
Import ListNotations.
Open Scope N_scope.

(** The handler table built by [Layer.__init__] from the decorators is exactly the dictionary
    of declared (source, tag) pairs, with the default-tag fallback of that same source:
    for ALL handler declarations (any number of decorators, tags, sources per method). *)
Theorem C12_handler_table_exact :
  forall (hs : list hdecl) (s t : N),
    get_handler (build_handlers hs) s t = spec_table hs s t.
Proof. exact handler_table_exact. Qed.

(** Refinement, for ALL class trees and ALL operation sequences: every observation
    (deliveries of each send, names/objects live after each instantiate/destroy/load,
    save() outputs) of the implementation model equals the reference's. *)
Theorem C12_refinement :
  forall (c : cls) (ops : list op), trace (impl_run c ops) = trace (spec_run c ops).
Proof. exact refinement. Qed.

(** Exact routing: in any reachable state, a send from the layer at [p] to [dst] with tag [t]
    is delivered to the handler the destination declared for (source alias, tag), else to
    its default handler for that source, with the declared calling convention — and to
    nothing else: the event is exactly [declared_deliveries], a list of at most one call. *)
Theorem C12_routes_exactly_declared_handler :
  forall (c : cls) (ops : list op) (p : list (N * option N)) (dst : N * option N) (t : N),
    let s := impl_run c ops in
    trace (impl_step s (OSend p dst t)) =
    match get_node (root s) p with
    | None => ESkip
    | Some _ => ESend (declared_deliveries (root s) p dst t)
    end :: trace s.
Proof. exact routes_exactly. Qed.

Theorem C12_delivered_at_most_once :
  forall rt p dst t, (length (declared_deliveries rt p dst t) <= 1)%nat.
Proof. exact declared_at_most_one. Qed.

Theorem C12_delivery_is_the_declared_one :
  forall rt p dst t u h sa, In (u, h, sa) (declared_deliveries rt p dst t) ->
    exists src cl x, get_node rt p = Some src /\ s_full rt (rev p) dst = Some (u, cl) /\
      spec_table (c_handlers cl) (fst (i_name src)) t = Some (h, x) /\
      sa = (if x then Some (i_name src) else None).
Proof. exact declared_shape. Qed.

(** Unique live instances: the names of all live contextual instances are pairwise
    distinct, in every reachable state. *)
Theorem C12_live_names_unique :
  forall (c : cls) (ops : list op),
    NoDup (filter is_inst_name (map snd (live (root (impl_run c ops))))).
Proof. exact live_names_unique. Qed.

(** ... so a message addressed to an instance name reaches the one live object carrying it. *)
Theorem C12_instance_addressing :
  forall (c : cls) (ops : list op) p a k t u h sa u',
    let s := impl_run c ops in
    In (u, h, sa) (declared_deliveries (root s) p (a, Some k) t) ->
    In (u, (a, Some k)) (live (root s)) /\
    (In (u', (a, Some k)) (live (root s)) -> u' = u).
Proof. exact instance_addressing. Qed.

(** Destroyed instances are unreachable: deliveries only reach live objects, and no object
    of a destroyed sub-tree is ever live again, whatever happens afterwards. *)
Theorem C12_deliveries_reach_live_objects_only :
  forall rt p dst t u h sa, In (u, h, sa) (declared_deliveries rt p dst t) ->
    exists nm, In (u, nm) (live rt) /\ (nm = dst \/ snd dst = None).
Proof. exact delivered_is_live. Qed.

Theorem C12_destroyed_unreachable :
  forall (c : cls) (ops1 : list op) p n (ops2 : list op) par kd v nm,
    get_node (root (impl_run c ops1)) p = Some par -> find_kid (i_subs par) n = Some kd ->
    In (v, nm) (live kd) ->
    forall nm', ~ In (v, nm') (live (root (impl_run c (ops1 ++ ODestroy p n :: ops2)))).
Proof. exact destroyed_never_live. Qed.

(** The defect repaired by the first fix, on the model of the old loop: registering only the
    last tag of each source does NOT give the declared dictionary. *)
Theorem C12_handler_table_v0_refuted :
  exists hs s t, get_handler (build_handlers_v0 hs) s t <> spec_table hs s t.
Proof. exact handler_table_v0_refuted. Qed.

(** Layer classes deriving from other layer classes.  [chain] = the method dictionaries along
    the MRO (the class itself first); [effective chain] = what [Layer.__init__] iterates over
    ([dir(self)] sorted, [getattr(self, name)] = nearest definition).  For ALL chains: the
    table of the derived class is the dictionary of the pairs declared by the VISIBLE
    definitions; it is a function of the class alone (not of which classes were instantiated
    before). *)
Theorem C12_handler_table_exact_derived :
  forall (chain : list (list hdecl)) (s t : N),
    get_handler (build_handlers (effective chain)) s t = spec_table (effective chain) s t.
Proof. exact handler_table_exact_derived. Qed.

Theorem C12_registered_methods_are_the_visible_definitions :
  forall (chain : list (list hdecl)) (h : hdecl),
    In h (effective chain) <-> visible chain (h_id h) = Some h.
Proof. exact effective_in. Qed.

Theorem C12_override_hides_base_definition :
  forall own rest ho hb, find_hd own (h_id hb) = Some ho -> In hb (effective (own :: rest)) -> hb = ho.
Proof. exact override_hides. Qed.

Theorem C12_derived_handler_sound :
  forall chain s t m x,
    get_handler (build_handlers (effective chain)) s t = Some (m, x) ->
    exists h, visible chain m = Some h /\ x = h_contextual h /\
      (declares h s t = true \/
       (declares h s 0 = true /\ forall h', In h' (effective chain) -> declares h' s t = false)).
Proof. exact derived_handler_sound. Qed.

Theorem C12_derived_handler_complete :
  forall chain s t h, visible chain (h_id h) = Some h -> declares h s t = true ->
    exists h', visible chain (h_id h') = Some h' /\ declares h' s t = true /\
      get_handler (build_handlers (effective chain)) s t = Some (h_id h', h_contextual h').
Proof. exact derived_handler_complete. Qed.

(** ... and the refinement holds for stacks whose class tree results from a class pool with
    inheritance [p] and any [add]/[remove] set-up ([ls] = the LAYERS dictionaries it produced),
    whatever the order in which base and derived classes get instantiated. *)
Theorem C12_refinement_derived :
  forall depth p ls rt (ops : list op),
    trace (impl_run (elabc depth p ls rt) ops) = trace (spec_run (elabc depth p ls rt) ops).
Proof. exact refinement_derived. Qed.

(** [cls.add(sub)] / [cls.remove(sub)] change the sub-layers of [cls] and of the classes derived
    from it only: a class [c'] whose MRO does not contain [cls] (in particular every base class
    of [cls]) keeps its sub-layer dictionary; on [cls] itself [add] is a dictionary assignment
    on (a copy of) the dictionary it inherits. *)
Theorem C12_add_remove_are_local :
  forall p ls st c',
    ~ In (match st with SAdd c _ => c | SRemove c _ => c end) (mro_ids (S (length p)) p c') ->
    layers_of (S (length p)) p (setup_step p ls st) c' = layers_of (S (length p)) p ls c'.
Proof. exact setup_step_local. Qed.

Theorem C12_add_extends_the_inherited_dictionary :
  forall p ls c sub,
    layers_of (S (length p)) p (setup_step p ls (SAdd c sub)) c
    = Some (aset N.eqb (match layers_of (S (length p)) p ls c with Some d => d | None => [] end)
                 (alias_of p sub) sub).
Proof. exact setup_add_self. Qed.

(** The instance counter of a class is kept by [instcount_owner] = the last class of its MRO that
    carries the same alias.  A class of the MRO carrying that alias has the same owner: base and
    derived classes with one alias share one counter, whatever plain mixins (before or after the
    layer base) or differently-aliased classes sit between them - which is what makes the
    per-alias numbering of the model (and [C12_live_names_unique]) apply to such hierarchies;
    [counter_ok] is evaluated on every generated case. *)
Theorem C12_counter_owner_shared :
  forall fuel p c1 c2,
    In c2 (mro_ids fuel p c1) -> alias_of p c2 = alias_of p c1 ->
    exists fuel', owner_in p (alias_of p c1) (mro_ids fuel p c1) c1
                = owner_in p (alias_of p c2) (mro_ids fuel' p c2) c2.
Proof. exact owner_shared. Qed.

(** Non-vacuity for inheritance: base class (methods 0: default of source 1, 1: tag 1 of source 1),
    derived class adds method 2 (tag 2 of source 1) and method 3 (new source 5) and overrides
    method 1 without decorators: tag 2 -> 2, source 5 -> 3, tag 1 -> falls back to 0. *)
Example C12_nonvacuous_derived :
  let base := [Hd 0 [Dc 1 0 false]; Hd 1 [Dc 1 1 false]] in
  let own := [Hd 1 []; Hd 2 [Dc 1 2 false]; Hd 3 [Dc 5 0 true]] in
  let tb := build_handlers (effective [own; base]) in
  map h_id (effective [own; base]) = [0; 1; 2; 3] /\
  get_handler tb 1 2 = Some (2, false) /\ get_handler tb 5 0 = Some (3, true) /\
  get_handler tb 1 1 = Some (0, false) /\ get_handler (build_handlers (effective [base])) 1 2 = Some (0, false).
Proof. cbv zeta. repeat split; vm_compute; reflexivity. Qed.

(** State save/load: for every class tree whose LAYERS are dictionaries and whose static
    sub-layers do not carry their parent's alias, and every operation sequence that destroys
    only contextual instances, saving the reached stack and loading the result into a fresh
    stack of the same classes succeeds and reproduces the saved state. *)
Theorem C12_load_save_id :
  forall (c : cls) (ops : list op), wf_cls c -> Forall static_ok ops ->
    let s := impl_run c ops in
    exists r' l,
      trace (impl_step (impl_step s OSave) OLoad)
      = ELoad l (save r') :: ESave (save (root s)) :: trace s /\
      save r' = save (root s).
Proof. exact load_save_id. Qed.

(** Non-vacuity: a stack with a contextual class (3) instantiated three times (names
    3#0, 3#1, 3#2), the second destroyed; class 2 has a contextual handler 0 declared for
    tags 2 and 1 of source 3 and a default handler 1 for source 3. Tag 1 reaches handler 0
    with the instance name, tag 3 falls back to handler 1, the destroyed name reaches nothing. *)
Example C12_nonvacuous :
  let c := Cls 1 false [] [Cls 2 false [Hd 0 [Dc 3 2 true; Dc 3 1 true]; Hd 1 [Dc 3 0 false]] [];
                           Cls 3 true [] [Cls 4 false [] []]] in
  let ops := [OInst [] 3; OInst [] 3; OInst [] 3; ODestroy [] (3, Some 1);
              OSend [(3, Some 2)] (2, None) 1; OSend [(3, Some 2)] (2, None) 3;
              OSend [] (3, Some 1) 0; OSave; OLoad] in
  wf_cls c /\ Forall static_ok ops /\
  firstn 3 (skipn 4 (rev (trace (impl_run c ops))))
  = [ESend [(1, 0, Some (3, Some 2))]; ESend [(1, 1, None)]; ESend []] /\
  map fst (live (root (impl_run c ops))) = [8; 9; 10; 11; 12; 13] /\
  map snd (live (root (impl_run c ops))) = [(1, None); (2, None); (3, Some 0); (4, None); (3, Some 2); (4, None)].
Proof.
  cbv zeta. split; [apply wf_clsb_sound; vm_compute; reflexivity|].
  split; [apply static_okb_sound; vm_compute; reflexivity|].
  split; [vm_compute; reflexivity|]. split; vm_compute; reflexivity.
Qed.
