(** C12 — property theorems only (each closed by [exact]); see Proofs.v.
    [impl_run c ops] is the model of the (repaired) framework run on class tree [c] with the
    operation sequence [ops]; [spec_run] is the reference: scoped dictionary router without
    memoisation + declared-handler dictionary + counter name allocator. *)
From Coq Require Import List NArith Bool.
From Whad Require Import C12.Model C12.Proofs.
Import ListNotations.
Open Scope N_scope.

(** The handler table built by [Layer.__init__] from the decorators is exactly the dictionary
    of declared (source, tag) pairs, with the default-tag fallback of that same source:
    for ALL handler declarations (any number of decorators, tags, sources per method). *)
Theorem C12_handler_table_exact :
  forall (hs : list hdecl) (s t : N),
    get_handler (build_handlers hs) s t = spec_table hs s t.
Proof. exact handler_table_exact. Qed.

(** Refinement, for ALL class trees and ALL operation sequences: every observation
    (deliveries of each send, names/objects live after each instantiate/destroy/load,
    save() outputs) of the implementation model equals the reference's. *)
Theorem C12_refinement :
  forall (c : cls) (ops : list op), trace (impl_run c ops) = trace (spec_run c ops).
Proof. exact refinement. Qed.

(** Exact routing: in any reachable state, a send from the layer at [p] to [dst] with tag [t]
    is delivered to the handler the destination declared for (source alias, tag), else to
    its default handler for that source, with the declared calling convention — and to
    nothing else: the event is exactly [declared_deliveries], a list of at most one call. *)
Theorem C12_routes_exactly_declared_handler :
  forall (c : cls) (ops : list op) (p : list (N * option N)) (dst : N * option N) (t : N),
    let s := impl_run c ops in
    trace (impl_step s (OSend p dst t)) =
    match get_node (root s) p with
    | None => ESkip
    | Some _ => ESend (declared_deliveries (root s) p dst t)
    end :: trace s.
Proof. exact routes_exactly. Qed.

Theorem C12_delivered_at_most_once :
  forall rt p dst t, (length (declared_deliveries rt p dst t) <= 1)%nat.
Proof. exact declared_at_most_one. Qed.

Theorem C12_delivery_is_the_declared_one :
  forall rt p dst t u h sa, In (u, h, sa) (declared_deliveries rt p dst t) ->
    exists src cl x, get_node rt p = Some src /\ s_full rt (rev p) dst = Some (u, cl) /\
      spec_table (c_handlers cl) (fst (i_name src)) t = Some (h, x) /\
      sa = (if x then Some (i_name src) else None).
Proof. exact declared_shape. Qed.

(** Unique live instances: the names of all live contextual instances are pairwise
    distinct, in every reachable state. *)
Theorem C12_live_names_unique :
  forall (c : cls) (ops : list op),
    NoDup (filter is_inst_name (map snd (live (root (impl_run c ops))))).
Proof. exact live_names_unique. Qed.

(** ... so a message addressed to an instance name reaches the one live object carrying it. *)
Theorem C12_instance_addressing :
  forall (c : cls) (ops : list op) p a k t u h sa u',
    let s := impl_run c ops in
    In (u, h, sa) (declared_deliveries (root s) p (a, Some k) t) ->
    In (u, (a, Some k)) (live (root s)) /\
    (In (u', (a, Some k)) (live (root s)) -> u' = u).
Proof. exact instance_addressing. Qed.

(** Destroyed instances are unreachable: deliveries only reach live objects, and no object
    of a destroyed sub-tree is ever live again, whatever happens afterwards. *)
Theorem C12_deliveries_reach_live_objects_only :
  forall rt p dst t u h sa, In (u, h, sa) (declared_deliveries rt p dst t) ->
    exists nm, In (u, nm) (live rt) /\ (nm = dst \/ snd dst = None).
Proof. exact delivered_is_live. Qed.

Theorem C12_destroyed_unreachable :
  forall (c : cls) (ops1 : list op) p n (ops2 : list op) par kd v nm,
    get_node (root (impl_run c ops1)) p = Some par -> find_kid (i_subs par) n = Some kd ->
    In (v, nm) (live kd) ->
    forall nm', ~ In (v, nm') (live (root (impl_run c (ops1 ++ ODestroy p n :: ops2)))).
Proof. exact destroyed_never_live. Qed.

(** The defect repaired by the first fix, on the model of the old loop: registering only the
    last tag of each source does NOT give the declared dictionary. *)
Theorem C12_handler_table_v0_refuted :
  exists hs s t, get_handler (build_handlers_v0 hs) s t <> spec_table hs s t.
Proof. exact handler_table_v0_refuted. Qed.

(** State save/load: for every class tree whose LAYERS are dictionaries and whose static
    sub-layers do not carry their parent's alias, and every operation sequence that destroys
    only contextual instances, saving the reached stack and loading the result into a fresh
    stack of the same classes succeeds and reproduces the saved state. *)
Theorem C12_load_save_id :
  forall (c : cls) (ops : list op), wf_cls c -> Forall static_ok ops ->
    let s := impl_run c ops in
    exists r' l,
      trace (impl_step (impl_step s OSave) OLoad)
      = ELoad l (save r') :: ESave (save (root s)) :: trace s /\
      save r' = save (root s).
Proof. exact load_save_id. Qed.

(** Non-vacuity: a stack with a contextual class (3) instantiated three times (names
    3#0, 3#1, 3#2), the second destroyed; class 2 has a contextual handler 0 declared for
    tags 2 and 1 of source 3 and a default handler 1 for source 3. Tag 1 reaches handler 0
    with the instance name, tag 3 falls back to handler 1, the destroyed name reaches nothing. *)
Example C12_nonvacuous :
  let c := Cls 1 false [] [Cls 2 false [Hd 0 [Dc 3 2 true; Dc 3 1 true]; Hd 1 [Dc 3 0 false]] [];
                           Cls 3 true [] [Cls 4 false [] []]] in
  let ops := [OInst [] 3; OInst [] 3; OInst [] 3; ODestroy [] (3, Some 1);
              OSend [(3, Some 2)] (2, None) 1; OSend [(3, Some 2)] (2, None) 3;
              OSend [] (3, Some 1) 0; OSave; OLoad] in
  wf_cls c /\ Forall static_ok ops /\
  firstn 3 (skipn 4 (rev (trace (impl_run c ops))))
  = [ESend [(1, 0, Some (3, Some 2))]; ESend [(1, 1, None)]; ESend []] /\
  map fst (live (root (impl_run c ops))) = [8; 9; 10; 11; 12; 13] /\
  map snd (live (root (impl_run c ops))) = [(1, None); (2, None); (3, Some 0); (4, None); (3, Some 2); (4, None)].
Proof.
  cbv zeta. split; [apply wf_clsb_sound; vm_compute; reflexivity|].
  split; [apply static_okb_sound; vm_compute; reflexivity|].
  split; [vm_compute; reflexivity|]. split; vm_compute; reflexivity.
Qed.
