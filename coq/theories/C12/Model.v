(** C12 — executable model of whad/common/stack/layer.py (Layer framework), as repaired
    by the three [fix:] commits of branch verif/C12:
      - the [source]/[instance] decorators and the handler table built by [Layer.__init__],
      - [get_handler] (default-tag fallback), [get_layer] (alias / cache / own layers /
        non-instantiable children / parent, with the memoisation writes),
      - [instantiate] / [create_layer] / [populate] / [destroy] (+ [clear_layer_cache]),
      - [send] / [send_from] (contextual call convention), [save] / [load].
    The declarative reference ("dictionary router", no cache) is in the second half.
    Definitions only; no proofs in this file. *)
From Coq Require Import List NArith Bool.
Import ListNotations.
Open Scope N_scope.

(** ** Names
    An alias is a string without '#' and ':' (abstracted to a number).  A layer name is
    either an alias ["x"] = [(x, None)] or an instance name ["x#k"] = [(x, Some k)].
    Tag 0 is the tag ['default']. *)
Notation alias := N (only parsing).
Notation tag := N (only parsing).
Notation name := (N * option N)%type (only parsing).

Definition optN_eqb (a b : option N) : bool :=
  match a, b with
  | None, None => true
  | Some x, Some y => N.eqb x y
  | _, _ => false
  end.
Definition name_eqb (a b : name) : bool := N.eqb (fst a) (fst b) && optN_eqb (snd a) (snd b).
Definition key_eqb (a b : alias * tag) : bool := N.eqb (fst a) (fst b) && N.eqb (snd a) (snd b).

(** ** Python dict (insertion ordered) as an association list *)
Section Dict.
  Context {K V : Type} (eqb : K -> K -> bool).
  Fixpoint aget (d : list (K * V)) (k : K) : option V :=
    match d with
    | [] => None
    | (k', v) :: r => if eqb k' k then Some v else aget r k
    end.
  (** [d[k] = v]: replace in place, else append *)
  Fixpoint aset (d : list (K * V)) (k : K) (v : V) : list (K * V) :=
    match d with
    | [] => [(k, v)]
    | (k', v') :: r => if eqb k' k then (k', v) :: r else (k', v') :: aset r k v
    end.
End Dict.

(** ** Layer classes *)
(** One application of [@source(src, tag, contextual)] ([@instance] = contextual True). *)
Inductive deco := Dc (d_src : alias) (d_tag : tag) (d_ctx : bool).
Definition d_src (d : deco) := let 'Dc s _ _ := d in s.
Definition d_tag (d : deco) := let 'Dc _ t _ := d in t.
Definition d_ctx (d : deco) := let 'Dc _ _ c := d in c.

(** A method carrying decorators, listed in APPLICATION order (innermost first).
    [h_id] identifies the method; methods are listed in [dir()] order. *)
Inductive hdecl := Hd (h_id : N) (h_decos : list deco).
Definition h_id (h : hdecl) := let 'Hd i _ := h in i.
Definition h_decos (h : hdecl) := let 'Hd _ d := h in d.

(** A class: alias, instantiable() (ContextualLayer), handlers, LAYERS (in dict order). *)
Inductive cls := Cls (c_alias : alias) (c_ctx : bool) (c_handlers : list hdecl) (c_subs : list cls).
Definition c_alias (c : cls) := let 'Cls a _ _ _ := c in a.
Definition c_ctx (c : cls) := let 'Cls _ x _ _ := c in x.
Definition c_handlers (c : cls) := let 'Cls _ _ h _ := c in h.
Definition c_subs (c : cls) := let 'Cls _ _ _ s := c in s.

(** [cls.LAYERS[a]] *)
Fixpoint find_cls (l : list cls) (a : alias) : option cls :=
  match l with
  | [] => None
  | c :: r => if N.eqb (c_alias c) a then Some c else find_cls r a
  end.

(** ** The decorators (layer.py, class [source]) *)
Notation msources := (list (N * list N)) (only parsing).

(** [sources[src] = [tag]] if absent, else append the tag if not yet listed *)
Fixpoint ms_add (m : msources) (s : alias) (t : tag) : msources :=
  match m with
  | [] => [(s, [t])]
  | (s', ts) :: r =>
      if N.eqb s' s then (s', if existsb (N.eqb t) ts then ts else ts ++ [t]) :: r
      else (s', ts) :: ms_add r s t
  end.

(** [source.__call__]: [None] = function without [match_sources]; the contextual flag is
    set only by the first decorator applied. *)
Definition apply_deco (st : option (msources * bool)) (d : deco) : option (msources * bool) :=
  match st with
  | None => Some ([(d_src d, [d_tag d])], d_ctx d)
  | Some (m, c) => Some (ms_add m (d_src d) (d_tag d), c)
  end.
Definition decorate (ds : list deco) : option (msources * bool) := fold_left apply_deco ds None.

(** ** Handler table ([Layer.__init__], "Cache our message handlers") *)
Notation hentry := (N * bool)%type (only parsing).   (* method id, is_contextual *)
Notation htable := (list ((N * N) * (N * bool))) (only parsing).

(** [for tag in tags: handlers['%s:%s' % (source, tag)] = method] *)
Definition reg_tags (m : hentry) (s : alias) (ts : list tag) (tb : htable) : htable :=
  fold_left (fun tb t => aset key_eqb tb (s, t) m) ts tb.
(** [for source in match_sources: ...] *)
Definition reg_method (tb : htable) (h : hdecl) : htable :=
  match decorate (h_decos h) with
  | None => tb
  | Some (ms, c) => fold_left (fun tb st => reg_tags (h_id h, c) (fst st) (snd st) tb) ms tb
  end.
(** [for method in methods: ...] *)
Definition build_handlers (hs : list hdecl) : htable := fold_left reg_method hs [].

(** [get_handler(source, tag)]: exact key, else the ['default'] key of that source *)
Definition get_handler (tb : htable) (s : alias) (t : tag) : option hentry :=
  match aget key_eqb tb (s, t) with
  | Some m => Some m
  | None => aget key_eqb tb (s, 0)
  end.

(** The loop as it was before the repair: the assignment sits after [for tag in tags], so
    only the last tag of each source is registered (kept to state the defect). *)
Definition reg_method_v0 (tb : htable) (h : hdecl) : htable :=
  match decorate (h_decos h) with
  | None => tb
  | Some (ms, c) => fold_left (fun tb st => aset key_eqb tb (fst st, last (snd st) 0) (h_id h, c)) ms tb
  end.
Definition build_handlers_v0 (hs : list hdecl) : htable := fold_left reg_method_v0 hs [].

(** ** Instances *)
(** What [get_layer] returns / what a cache entry holds: the object (uid) and its class. *)
Notation tgt := (N * cls)%type (only parsing).

Inductive inst :=
  Inst (i_uid : N) (i_cls : cls) (i_name : name) (i_state : option N)
       (i_cache : list (name * tgt)) (i_subs : list inst).
Definition i_uid (i : inst) := let 'Inst u _ _ _ _ _ := i in u.
Definition i_cls (i : inst) := let 'Inst _ c _ _ _ _ := i in c.
Definition i_name (i : inst) := let 'Inst _ _ n _ _ _ := i in n.
Definition i_state (i : inst) := let 'Inst _ _ _ s _ _ := i in s.
Definition i_cache (i : inst) := let 'Inst _ _ _ _ c _ := i in c.
Definition i_subs (i : inst) := let 'Inst _ _ _ _ _ k := i in k.
Definition tgt_of (i : inst) : tgt := (i_uid i, i_cls i).
Definition inst_ctx (i : inst) : bool := c_ctx (i_cls i).
Definition with_subs (i : inst) (k : list inst) : inst :=
  let 'Inst u c n s ca _ := i in Inst u c n s ca k.
Definition with_state (i : inst) (s : option N) : inst :=
  let 'Inst u c n _ ca k := i in Inst u c n s ca k.

(** [name in self.layers] / [self.layers[name]] *)
Fixpoint find_kid (l : list inst) (n : name) : option inst :=
  match l with
  | [] => None
  | k :: r => if name_eqb (i_name k) n then Some k else find_kid r n
  end.
(** [self.__layers[k.name] = k] *)
Fixpoint set_kid (l : list inst) (k : inst) : list inst :=
  match l with
  | [] => [k]
  | x :: r => if name_eqb (i_name x) (i_name k) then k :: r else x :: set_kid r k
  end.
(** [del self.__layers[n]] *)
Fixpoint del_kid (l : list inst) (n : name) : list inst :=
  match l with
  | [] => []
  | x :: r => if name_eqb (i_name x) n then r else x :: del_kid r n
  end.
(** apply [f] to the first child named [n] *)
Fixpoint map_kid (l : list inst) (n : name) (f : inst -> inst) : list inst :=
  match l with
  | [] => []
  | x :: r => if name_eqb (i_name x) n then f x :: r else x :: map_kid r n f
  end.

(** A layer object is addressed from the root by the names of the [layers] dictionaries. *)
Notation path := (list (N * option N)) (only parsing).
Fixpoint get_node (i : inst) (p : path) : option inst :=
  match p with
  | [] => Some i
  | x :: q => match find_kid (i_subs i) x with Some k => get_node k q | None => None end
  end.
Fixpoint set_node (i : inst) (p : path) (v : inst) : inst :=
  match p with
  | [] => v
  | x :: q => with_subs i (map_kid (i_subs i) x (fun k => set_node k q v))
  end.

(** ** [Layer.__init__] + [populate]: the object gets its uid ([configure] runs before
    [populate]), then one instance of every non-instantiable sub-class, in LAYERS order. *)
Fixpoint create (c : cls) (nm : name) (u : N) : inst * N :=
  let fix pop (l : list cls) (u : N) : list inst * N :=
    match l with
    | [] => ([], u)
    | s :: r =>
        if c_ctx s then pop r u
        else let '(i, u1) := create s (c_alias s, None) u in
             let '(is, u2) := pop r u1 in (i :: is, u2)
    end in
  let '(kids, u') := pop (c_subs c) (u + 1) in
  (Inst u c nm None [] kids, u').

(** ** [get_layer(name, children_only=True)]: steps 1-4 of [get_layer] with the cache write
    of step 4.  Returns the result and the object with the updated caches. *)
Fixpoint sub_get (i : inst) (n : name) : option tgt * inst :=
  let 'Inst u c nm s cache kids := i in
  if name_eqb n (c_alias c, None) then (Some (u, c), i)            (* name == self.alias *)
  else match aget name_eqb cache n with
  | Some t => (Some t, i)                                           (* in cache *)
  | None =>
    match find_kid kids n with
    | Some k => (Some (tgt_of k), i)                                (* one of our sublayers *)
    | None =>
      let fix loop (l : list inst) : option tgt * list inst :=
        match l with
        | [] => (None, [])
        | k :: r =>
            if inst_ctx k then let '(x, r') := loop r in (x, k :: r')
            else let '(x, k') := sub_get k n in
                 match x with
                 | Some t => (Some t, k' :: r)
                 | None => let '(y, r') := loop r in (y, k' :: r')
                 end
        end in
      let '(x, kids') := loop kids in
      match x with
      | Some t => (Some t, Inst u c nm s (aset name_eqb cache n t) kids')
      | None => (None, Inst u c nm s cache kids')
      end
    end
  end.

Definition cache_set (i : inst) (n : name) (t : tgt) : inst :=
  let 'Inst u c nm s cache kids := i in Inst u c nm s (aset name_eqb cache n t) kids.

(** [get_layer(name)] of the object at path [rev rp] ([rp] = path, nearest name first):
    steps 1-4, then the parent's [get_layer(name)] and the cache write of step 5. *)
Fixpoint full_get (rt : inst) (rp : list name) (n : name) : option tgt * inst :=
  match get_node rt (rev rp) with
  | None => (None, rt)
  | Some i =>
    let '(x, i') := sub_get i n in
    let rt1 := set_node rt (rev rp) i' in
    match x with
    | Some t => (Some t, rt1)
    | None =>
      match rp with
      | [] => (None, rt1)                                           (* parent is None *)
      | _ :: rp' =>
        let '(y, rt2) := full_get rt1 rp' n in
        match y with
        | Some t =>
            (Some t, match get_node rt2 (rev rp) with
                     | Some j => set_node rt2 (rev rp) (cache_set j n t)
                     | None => rt2 end)
        | None => (None, rt2)
        end
      end
    end
  end.

(** [clear_layer_cache] (added by the repair of [destroy]) *)
Fixpoint clear_caches (i : inst) : inst :=
  let 'Inst u c nm s _ kids := i in Inst u c nm s [] (map clear_caches kids).

(** ** save / load *)
Inductive sstate := SS (s_name : name) (s_state : option N) (s_subs : list sstate).
Definition s_name (s : sstate) := let 'SS n _ _ := s in n.

Fixpoint save (i : inst) : sstate :=
  let 'Inst _ _ nm s _ kids := i in SS nm s (map save kids).

(** exception classes *)
Definition AssertionError : N := 1.
Definition KeyError : N := 2.
Definition OutsideModel : N := 3.   (* load() had to search beyond own alias / own layers *)

Inductive lres := LOk (i : inst) (u : N) (cs : list (N * N)) | LRaise (e : N).

(** [state.from_dict(values)]: keys present overwrite *)
Definition merge_state (old new : option N) : option N :=
  match new with Some v => Some v | None => old end.

(** [if getattr(cls, 'INSTCOUNT', -1) < k: setattr(cls, 'INSTCOUNT', k)] (added by the repair
    of [load]: numbering stays ahead of the restored instances) *)
Definition bump (cs : list (N * N)) (a k : N) : list (N * N) :=
  match aget N.eqb cs a with
  | Some v => if N.ltb v k then aset N.eqb cs a k else cs
  | None => aset N.eqb cs a k
  end.

(** [load(state)] on object [i]; [u] = next uid for the contextual layers it creates, [cs] =
    the INSTCOUNT attributes.  [self.get_layer(sublayer)] for a static sub-layer is followed
    as far as: own alias, (cache: empty in a stack that never routed a message), own layers. *)
Fixpoint load (s : sstate) (i : inst) (u : N) (cs : list (N * N)) : lres :=
  let 'SS nm st subs := s in
  if negb (name_eqb nm (i_name i)) then LRaise AssertionError
  else
    let fix go (l : list sstate) (i : inst) (u : N) (cs : list (N * N)) : lres :=
      match l with
      | [] => LOk i u cs
      | cs0 :: r =>
        let snm := s_name cs0 in
        match snd snm with
        | None =>
            if name_eqb snm (c_alias (i_cls i), None) then
              match load cs0 i u cs with LOk i' u' cs' => go r i' u' cs' | LRaise e => LRaise e end
            else match aget name_eqb (i_cache i) snm with
            | Some _ => LRaise OutsideModel
            | None =>
              match find_kid (i_subs i) snm with
              | Some k =>
                  match load cs0 k u cs with
                  | LOk k' u' cs' => go r (with_subs i (set_kid (i_subs i) k')) u' cs'
                  | LRaise e => LRaise e
                  end
              | None => LRaise OutsideModel
              end
            end
        | Some num =>
            match find_cls (c_subs (i_cls i)) (fst snm) with
            | None => LRaise KeyError
            | Some c =>
                let '(k, u1) := create c snm u in
                match load cs0 k u1 (bump cs (fst snm) num) with
                | LOk k' u' cs' => go r (with_subs i (set_kid (i_subs i) k')) u' cs'
                | LRaise e => LRaise e
                end
            end
        end
      end in
    go subs (with_state i (merge_state (i_state i) st)) u cs.

(** ** Operations and observations *)
Inductive op :=
| OInst (p : path) (a : alias)          (* layer at p: self.instantiate(self.LAYERS[a]) *)
| ODestroy (p : path) (n : name)        (* layer at p: self.destroy(self.layers[n]) *)
| OSend (p : path) (dst : name) (t : tag)   (* layer at p: self.send(dst, data, tag=t) *)
| OSet (p : path) (v : N)               (* layer at p: self.state.val = v *)
| OSave                                 (* saved = root.save() *)
| OLoad                                 (* fresh stack of the same classes; root.load(saved) *)
| ORestart.                             (* new interpreter: class counters and the live stack are
                                           gone, the saved state survives; a fresh stack is built *)

(** A handler invocation: (uid of the object, method id, source argument if the handler
    was called with the contextual convention). *)
Notation delivery := (N * N * option (N * option N))%type (only parsing).

(** uid and name of every live object, pre-order *)
Fixpoint live (i : inst) : list (N * name) :=
  let 'Inst u _ nm _ _ kids := i in (u, nm) :: flat_map live kids.

Inductive event :=
| ESkip                                   (* the addressed layer / class does not exist *)
| EInst (r : option name) (l : list (N * name))
| EDestroy (l : list (N * name))
| ESend (d : list delivery)
| ESet
| ESave (s : sstate)
| ELoad (l : list (N * name)) (s : sstate)
| ELoadRaise (e : N)
| ERestart (l : list (N * name)).

Record st := St {
  root : inst;
  counts : list (alias * N);      (* INSTCOUNT of the contextual classes that have one *)
  next_uid : N;
  saved : option sstate;
  trace : list event              (* most recent first *)
}.

Definition emit (s : st) (e : event) : st :=
  St (root s) (counts s) (next_uid s) (saved s) (e :: trace s).
Definition with_root (s : st) (r : inst) : st :=
  St r (counts s) (next_uid s) (saved s) (trace s).

Definition init (c : cls) : st :=
  let '(r, u) := create c (c_alias c, None) 0 in St r [] u None [].

(** [send] -> [send_from]: resolve the destination from the sender, pick the handler for
    (alias part of the sender's name, tag), call it with or without the source name. *)
Definition deliver (src : inst) (x : option tgt) (t : tag) (table : list hdecl -> alias -> tag -> option hentry)
  : list delivery :=
  match x with
  | None => []                                                     (* layer does not exist *)
  | Some (u, c) =>
      match table (c_handlers c) (fst (i_name src)) t with
      | None => []                                                 (* no handler *)
      | Some (hid, ctx) => [(u, hid, if ctx then Some (i_name src) else None)]
      end
  end.

Definition impl_table (hs : list hdecl) := get_handler (build_handlers hs).

Definition next_count (cs : list (alias * N)) (a : alias) : N :=
  match aget N.eqb cs a with Some v => v + 1 | None => 0 end.

(** The parts of a step shared by implementation and reference are parameterised by the
    destination lookup [lk] and the handler table [tb]. *)
Definition step_gen
  (lk : inst -> list name -> name -> option tgt * inst)
  (tb : list hdecl -> alias -> tag -> option hentry)
  (clr : inst -> inst)
  (s : st) (o : op) : st :=
  match o with
  | OInst p a =>
      match get_node (root s) p with
      | None => emit s ESkip
      | Some par =>
        match find_cls (c_subs (i_cls par)) a with
        | None => emit s ESkip
        | Some c =>
          if negb (c_ctx c) then emit s (EInst None (live (root s)))
          else
            let k := next_count (counts s) a in
            let '(ni, u') := create c (a, Some k) (next_uid s) in
            let r' := set_node (root s) p (with_subs par (set_kid (i_subs par) ni)) in
            St r' (aset N.eqb (counts s) a k) u' (saved s)
               (EInst (Some (a, Some k)) (live r') :: trace s)
        end
      end
  | ODestroy p n =>
      match get_node (root s) p with
      | None => emit s ESkip
      | Some par =>
        match find_kid (i_subs par) n with
        | None => emit s ESkip
        | Some _ =>
          let r' := clr (set_node (root s) p (with_subs par (del_kid (i_subs par) n))) in
          emit (with_root s r') (EDestroy (live r'))
        end
      end
  | OSend p dst t =>
      match get_node (root s) p with
      | None => emit s ESkip
      | Some src =>
          let '(x, r') := lk (root s) (rev p) dst in
          emit (with_root s r') (ESend (deliver src x t tb))
      end
  | OSet p v =>
      match get_node (root s) p with
      | None => emit s ESkip
      | Some i => emit (with_root s (set_node (root s) p (with_state i (Some v)))) ESet
      end
  | OSave =>
      St (root s) (counts s) (next_uid s) (Some (save (root s))) (ESave (save (root s)) :: trace s)
  | OLoad =>
      match saved s with
      | None => emit s ESkip
      | Some sv =>
          let '(fresh, u1) := create (i_cls (root s)) (i_name (root s)) (next_uid s) in
          match load sv fresh u1 (counts s) with
          | LOk r' u2 cs' => St r' cs' u2 (saved s) (ELoad (live r') (save r') :: trace s)
          | LRaise e => emit s (ELoadRaise e)
          end
      end
  | ORestart =>
      let '(fresh, u1) := create (i_cls (root s)) (i_name (root s)) (next_uid s) in
      St fresh [] u1 (saved s) (ERestart (live fresh) :: trace s)
  end.

Definition impl_step : st -> op -> st := step_gen full_get impl_table clear_caches.
Definition impl_run (c : cls) (ops : list op) : st := fold_left impl_step ops (init c).

(** ** Reference: dictionary router without cache, declarative handler dictionary *)

(** A handler declares (source, tag) when one of its decorators names them. *)
Definition declares (h : hdecl) (s : alias) (t : tag) : bool :=
  existsb (fun d => N.eqb (d_src d) s && N.eqb (d_tag d) t) (h_decos h).
Definition h_contextual (h : hdecl) : bool :=
  match h_decos h with d :: _ => d_ctx d | [] => false end.
(** the dictionary: (source, tag) -> the (last, in method order) handler declaring it *)
Definition spec_declared (hs : list hdecl) (s : alias) (t : tag) : option hentry :=
  fold_left (fun acc h => if declares h s t then Some (h_id h, h_contextual h) else acc) hs None.
Definition spec_table (hs : list hdecl) (s : alias) (t : tag) : option hentry :=
  match spec_declared hs s t with
  | Some m => Some m
  | None => spec_declared hs s 0
  end.

(** Scoped destination lookup, no memoisation: own alias, own layers, then depth-first
    through the non-instantiable sub-layers; else the same from the parent. *)
Fixpoint s_sub (i : inst) (n : name) : option tgt :=
  let 'Inst u c nm s cache kids := i in
  if name_eqb n (c_alias c, None) then Some (u, c)
  else match find_kid kids n with
  | Some k => Some (tgt_of k)
  | None =>
      (fix loop (l : list inst) : option tgt :=
         match l with
         | [] => None
         | k :: r => if inst_ctx k then loop r
                     else match s_sub k n with Some t => Some t | None => loop r end
         end) kids
  end.

Fixpoint s_full (rt : inst) (rp : list name) (n : name) : option tgt :=
  match get_node rt (rev rp) with
  | None => None
  | Some i =>
    match s_sub i n with
    | Some t => Some t
    | None => match rp with [] => None | _ :: rp' => s_full rt rp' n end
    end
  end.

Definition spec_lookup (rt : inst) (rp : list name) (n : name) : option tgt * inst :=
  (s_full rt rp n, rt).

Definition spec_step : st -> op -> st := step_gen spec_lookup spec_table (fun r => r).
Definition spec_run (c : cls) (ops : list op) : st := fold_left spec_step ops (init c).

(** ** Hypotheses of the save/load theorem, as decidable checks
    (evaluated by the harness on every generated case) *)
Fixpoint nodupb (l : list N) : bool :=
  match l with
  | [] => true
  | x :: r => negb (existsb (N.eqb x) r) && nodupb r
  end.

(** LAYERS is a dict (sibling aliases distinct); a non-contextual sub-layer does not carry its
    parent's alias *)
Fixpoint wf_clsb (c : cls) : bool :=
  let 'Cls a _ _ subs := c in
  nodupb (map c_alias subs) &&
  forallb (fun sc => c_ctx sc || negb (N.eqb (c_alias sc) a)) subs &&
  (fix all (l : list cls) : bool := match l with [] => true | s :: r => wf_clsb s && all r end) subs.

(** only contextual instances are destroyed *)
Definition static_okb (o : op) : bool :=
  match o with
  | ODestroy _ n => match snd n with Some _ => true | None => false end
  | _ => true
  end.

(** ** Layer classes deriving from other layer classes
    [Layer.__init__] scans [dir(self)] (all attribute names of the class and of its bases,
    sorted) and takes [getattr(self, name)] (the definition of the nearest class in the MRO).
    A class is declared by its own methods and its base; [chain] lists the method
    dictionaries along the MRO (own class first). *)
Fixpoint insert_id (x : N) (l : list N) : list N :=
  match l with
  | [] => [x]
  | y :: r => if N.ltb x y then x :: y :: r else if N.eqb x y then y :: r else y :: insert_id x r
  end.
(** sorted list of the distinct names: [dir()] *)
Definition sort_ids (l : list N) : list N := fold_right insert_id [] l.

Fixpoint find_hd (l : list hdecl) (i : N) : option hdecl :=
  match l with
  | [] => None
  | h :: r => if N.eqb (h_id h) i then Some h else find_hd r i
  end.
(** [getattr(self, name)]: first class along the MRO that defines the name *)
Fixpoint visible (chain : list (list hdecl)) (i : N) : option hdecl :=
  match chain with
  | [] => None
  | own :: r => match find_hd own i with Some h => Some h | None => visible r i end
  end.
(** the methods [Layer.__init__] iterates over, in its order *)
Definition effective (chain : list (list hdecl)) : list hdecl :=
  flat_map (fun i => match visible chain i with Some h => [h] | None => [] end)
           (sort_ids (flat_map (map h_id) chain)).

(** ** Class definitions and their set-up
    A class = alias, instantiable?, own methods, base class (another class of the pool).
    The stack structure is built, as in the project, by a sequence of [cls.add(sub)] /
    [cls.remove(sub)] calls executed once the classes exist.  [lstate] holds the LAYERS
    dictionary of every class that has one OF ITS OWN (alias -> class id, insertion order);
    a class without one sees the dictionary of the nearest base class that has one. *)
Inductive cdef :=
  CDf (d_alias : N) (d_ctx : bool) (d_own : list hdecl)
      (d_pre : list (list hdecl))      (* plain mixin classes listed BEFORE the layer base class *)
      (d_base : option N)              (* the layer class it derives from (None: Layer / ContextualLayer) *)
      (d_post : list (list hdecl)).    (* plain mixin classes listed AFTER the layer base class *)
(** A mixin is a plain class (no alias, no LAYERS, no base but [object], used by one class only),
    given by its method dictionary.  For these shapes the C3 linearisation is the concatenation
    [cls :: pre-mixins ++ MRO(layer base) ++ post-mixins]. *)
Inductive sstmt := SAdd (c sub : N) | SRemove (c sub : N).

Fixpoint adel {K V : Type} (eqb : K -> K -> bool) (d : list (K * V)) (k : K) : list (K * V) :=
  match d with
  | [] => []
  | (k', v) :: r => if eqb k' k then r else (k', v) :: adel eqb r k
  end.

(** [getattr(cls, 'LAYERS')] (None: no class of the MRO has the attribute) *)
Fixpoint layers_of (fuel : nat) (p : list (N * cdef)) (ls : list (N * list (N * N))) (c : N)
  : option (list (N * N)) :=
  match fuel with
  | O => None
  | S f =>
    match aget N.eqb ls c with
    | Some d => Some d
    | None => match aget N.eqb p c with
              | Some (CDf _ _ _ _ (Some b) _) => layers_of f p ls b
              | _ => None
              end
    end
  end.

Definition alias_of (p : list (N * cdef)) (c : N) : N :=
  match aget N.eqb p c with Some (CDf a _ _ _ _ _) => a | None => 0 end.

(** [add] / [remove] as repaired: the dictionary edited is the class's own one; when the class
    has none yet it starts from a copy of the inherited one *)
Definition setup_step (p : list (N * cdef)) (ls : list (N * list (N * N))) (st : sstmt)
  : list (N * list (N * N)) :=
  match st with
  | SAdd c sub =>
      let d := match layers_of (S (length p)) p ls c with Some d => d | None => [] end in
      aset N.eqb ls c (aset N.eqb d (alias_of p sub) sub)
  | SRemove c sub =>
      match layers_of (S (length p)) p ls c with
      | None => ls
      | Some d =>
          match aget N.eqb d (alias_of p sub) with
          | None => ls
          | Some _ => aset N.eqb ls c (adel N.eqb d (alias_of p sub))
          end
      end
  end.
Definition run_setup (p : list (N * cdef)) (ls0 : list (N * list (N * N))) (prog : list sstmt) :=
  fold_left (setup_step p) prog ls0.

(** method dictionaries along the MRO of class [id] *)
Fixpoint chain_of (fuel : nat) (p : list (N * cdef)) (id : N) : list (list hdecl) :=
  match fuel with
  | O => []
  | S f =>
    match aget N.eqb p id with
    | None => []
    | Some (CDf _ _ own pre b post) =>
        own :: pre ++ match b with Some j => chain_of f p j | None => [] end ++ post
    end
  end.
Fixpoint mro_ids (fuel : nat) (p : list (N * cdef)) (id : N) : list N :=
  match fuel with
  | O => []
  | S f =>
    match aget N.eqb p id with
    | None => [id]
    | Some (CDf _ _ _ _ b _) => id :: match b with Some j => mro_ids f p j | None => [] end
    end
  end.

(** [instcount_owner]: [[c for c in cls.__mro__ if getattr(c, 'alias', None) == cls.alias][-1]]
    (mixins carry no alias, so only the layer classes of the MRO count) *)
Definition owner_in (p : list (N * cdef)) (a : N) (l : list N) (dflt : N) : N :=
  last (filter (fun i => N.eqb (alias_of p i) a) l) dflt.
Definition owner_of (p : list (N * cdef)) (c : N) : N :=
  owner_in p (alias_of p c) (mro_ids (S (length p)) p c) c.
Definition is_ctx (p : list (N * cdef)) (c : N) : bool :=
  match aget N.eqb p c with Some (CDf _ x _ _ _ _) => x | None => false end.
(** the model numbers instances per alias; the code per counter owner: the same thing when the
    contextual classes that share an alias share their owner (checked on every case) *)
Definition counter_ok (p : list (N * cdef)) : bool :=
  let ctxs := filter (is_ctx p) (map fst p) in
  forallb (fun c1 => forallb (fun c2 =>
     negb (N.eqb (alias_of p c1) (alias_of p c2)) || N.eqb (owner_of p c1) (owner_of p c2)) ctxs) ctxs.

(** the class tree a stack of root class [c] is built from ([depth] bounds the nesting) *)
Fixpoint elabc (depth : nat) (p : list (N * cdef)) (ls : list (N * list (N * N))) (c : N) : cls :=
  match aget N.eqb p c with
  | None => Cls 0 false [] []
  | Some (CDf a x _ _ _ _) =>
      Cls a x (effective (chain_of (S (length p)) p c))
          match depth with
          | O => []
          | S d => map (fun e => elabc d p ls (snd e))
                       match layers_of (S (length p)) p ls c with Some l => l | None => [] end
          end
  end.

(** ** Boolean equalities for the correspondence check *)
Fixpoint list_eqb {A} (eqb : A -> A -> bool) (a b : list A) : bool :=
  match a, b with
  | [], [] => true
  | x :: a', y :: b' => eqb x y && list_eqb eqb a' b'
  | _, _ => false
  end.
Definition live_eqb := list_eqb (fun a b : N * name => N.eqb (fst a) (fst b) && name_eqb (snd a) (snd b)).
Definition optname_eqb (a b : option name) : bool :=
  match a, b with None, None => true | Some x, Some y => name_eqb x y | _, _ => false end.
Definition delivery_eqb (a b : delivery) : bool :=
  let '(u1, h1, s1) := a in let '(u2, h2, s2) := b in N.eqb u1 u2 && N.eqb h1 h2 && optname_eqb s1 s2.
Fixpoint sstate_eqb (a b : sstate) : bool :=
  let 'SS n1 s1 k1 := a in let 'SS n2 s2 k2 := b in
  name_eqb n1 n2 && optN_eqb s1 s2 &&
  (fix go (x y : list sstate) : bool :=
     match x, y with
     | [], [] => true
     | p :: x', q :: y' => sstate_eqb p q && go x' y'
     | _, _ => false
     end) k1 k2.
Definition event_eqb (a b : event) : bool :=
  match a, b with
  | ESkip, ESkip => true
  | EInst r1 l1, EInst r2 l2 => optname_eqb r1 r2 && live_eqb l1 l2
  | EDestroy l1, EDestroy l2 => live_eqb l1 l2
  | ESend d1, ESend d2 => list_eqb delivery_eqb d1 d2
  | ESet, ESet => true
  | ESave s1, ESave s2 => sstate_eqb s1 s2
  | ELoad l1 s1, ELoad l2 s2 => live_eqb l1 l2 && sstate_eqb s1 s2
  | ELoadRaise e1, ELoadRaise e2 => N.eqb e1 e2
  | ERestart l1, ERestart l2 => live_eqb l1 l2
  | _, _ => false
  end.

(** correspondence case: class tree, operations, events observed on the real framework
    (oldest first), objects of the freshly built stack, and whether the generator claims the
    hypotheses of the save/load theorem for this case *)
Definition hyps_hold (t : cls) (ops : list op) : bool := wf_clsb t && forallb static_okb ops.

(** events agree up to the point (if any) where the model declares itself not applicable:
    [ELoadRaise OutsideModel] (load() had to search beyond own alias / own layers; only in
    trees outside [wf_cls]) *)
Fixpoint events_agree (m o : list event) : bool :=
  match m, o with
  | [], [] => true
  | ELoadRaise 3 :: _, _ :: _ => true
  | x :: m', y :: o' => event_eqb x y && events_agree m' o'
  | _, _ => false
  end.

Definition inside_model (c : cls * list op * list event * list (N * (N * option N)) * bool) : bool :=
  let '(t, ops, obs, l0, hy) := c in
  negb (existsb (fun e => match e with ELoadRaise 3 => true | _ => false end) (trace (impl_run t ops))).

Definition check_case (c : cls * list op * list event * list (N * (N * option N)) * bool) : bool :=
  let '(t, ops, obs, l0, hy) := c in
  live_eqb (live (root (init t))) l0 &&
  events_agree (rev (trace (impl_run t ops))) obs &&
  Bool.eqb (hyps_hold t ops) hy &&
  (negb hy || inside_model c).

(** cases: class pool, classes declaring an empty LAYERS of their own, set-up program, root
    class, then as above *)
Definition pcase := (list (N * cdef) * list (N * list (N * N)) * list sstmt * N * list op * list event
                     * list (N * (N * option N)) * bool)%type.
Definition pcase_tree (c : pcase) : cls :=
  let '(p, ls0, prog, rt, ops, obs, l0, hy) := c in elabc 8 p (run_setup p ls0 prog) rt.
Definition pcase_elab (c : pcase) :=
  let '(p, ls0, prog, rt, ops, obs, l0, hy) := c in (pcase_tree c, ops, obs, l0, hy).
Definition check_pcase (c : pcase) : bool :=
  check_case (pcase_elab c) && (let '(p, _, _, _, _, _, _, _) := c in counter_ok p).
Definition inside_model_p (c : pcase) : bool := inside_model (pcase_elab c).

(** the same against the reference (cross-check of the reference itself) *)
Definition check_case_spec (c : cls * list op * list event * list (N * (N * option N)) * bool) : bool :=
  let '(t, ops, obs, l0, hy) := c in
  live_eqb (live (root (init t))) l0 &&
  list_eqb event_eqb (rev (trace (spec_run t ops))) obs.
