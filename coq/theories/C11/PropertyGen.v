(** C11 — tie between the source and the model, as theorems (each closed by [exact]; see
    GenEq.v).  [gen_*] are the definitions of Gen.v, generated from
    whad/ble/stack/l2cap/__init__.py by harness/translators/pyfun.py; the check regenerates
    them on every run and re-checks these statements against the regenerated text. *)
From Coq Require Import List NArith Arith.
From Whad Require Import Lib.Bytes Lib.PyOps C11.Model.
From Whad Require Import C11.Gen C11.GenEq.
Import ListNotations.

(** [L2CAPLayer.get_fragments], translated statement by statement, IS the model's
    [get_fragments] — for every MTU and every data (no side condition). *)
Theorem C11_gen_get_fragments_eq :
  forall (mtu : nat) (data : bytes), gen_get_fragments mtu data = get_fragments mtu data.
Proof. exact gen_get_fragments_eq. Qed.

(** ... and the number of fragments it produces when it splits is the model's [nb_packets]. *)
Theorem C11_gen_nb_packets :
  forall (mtu : nat) (data : bytes),
    mtu < length data -> length (gen_get_fragments mtu data) = nb_packets mtu (length data).
Proof. exact gen_get_fragments_length. Qed.

(** The Gallina operations used by the translation agree with Python on the domain of the
    C11 theorems (no subtraction underflows, [int(a/b)] is applied below 2^53, no division by 0). *)
Theorem C11_gen_get_fragments_domain :
  forall (mtu : nat) (data : bytes),
    2 <= mtu -> (nlen data < 65536)%N -> gen_get_fragments_pre mtu data.
Proof. exact gen_get_fragments_pre_ok. Qed.

(** [on_data_received]: announced length ([unpack('<H', fifo[:2])[0] + 4]) *)
Theorem C11_gen_rx_expected_eq :
  forall (fifo : bytes) (e : nat) (d : bytes),
    2 <= length fifo -> N.to_nat (gen_rx_expected fifo e d) = N.to_nat (un_le16 fifo) + 4.
Proof. exact gen_rx_expected_eq. Qed.

Theorem C11_gen_rx_expected_domain :
  forall (fifo : bytes) (e : nat) (d : bytes), 2 <= length fifo -> gen_rx_expected_pre fifo e d.
Proof. exact gen_rx_expected_pre_ok. Qed.

(** [on_data_received]: completeness tests, start test, delivered prefix, fifo extension *)
Theorem C11_gen_rx_tests_eq :
  forall (fifo : bytes) (e : nat) (d : bytes),
    gen_rx_complete_cont fifo e d = (e <=? length fifo)
    /\ gen_rx_complete_start fifo e d = (e <=? length fifo)
    /\ gen_rx_is_start fifo e d = (2 <=? length d)
    /\ gen_rx_frame_cont fifo e d = firstn e fifo
    /\ gen_rx_frame_start fifo e d = firstn e fifo
    /\ gen_rx_append fifo e d = fifo ++ d.
Proof.
  exact (fun fifo e d =>
    conj (gen_rx_complete_cont_eq fifo e d) (conj (gen_rx_complete_start_eq fifo e d)
    (conj (gen_rx_is_start_eq fifo e d) (conj (gen_rx_frame_cont_eq fifo e d)
    (conj (gen_rx_frame_start_eq fifo e d) (gen_rx_append_eq fifo e d)))))).
Qed.

(** The model's receive step is the hand-written control skeleton [recv_gen] (GenEq.v)
    over the generated arithmetic — for every state and every fragment. *)
Theorem C11_gen_recv_eq : forall (st : rx) (f : frag), recv_gen st f = recv st f.
Proof. exact recv_gen_eq. Qed.

(** Non-vacuity: the generated function really splits (60 bytes at MTU 23: 3 fragments). *)
Example C11_gen_nonvacuous :
  length (gen_get_fragments 23 (repeat 7%N 60)) = 3
  /\ gen_rx_expected [3%N; 0%N; 4%N; 0%N] 0 [] = 7%N.
Proof. split; vm_compute; reflexivity. Qed.
