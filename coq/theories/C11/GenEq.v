(** C11 — the Gallina generated from whad/ble/stack/l2cap/__init__.py by
    harness/translators/pyfun.py (snapshot: Gen.v; regenerated and re-checked against this
    very file on every run) is EQUAL to the hand-written model of Model.v.

    The proofs only unfold the generated definitions and the PyOps operations, so that they
    survive behaviour-preserving rewrites of the Python source and fail on any other. *)
From Coq Require Import List NArith ZArith Arith Bool Lia ZifyBool ZifyN ZifyNat.
From Whad Require Import Lib.Bytes Lib.PyOps C11.Model.
From Whad Require Import C11.Gen.
Import ListNotations.
Ltac Zify.zify_post_hook ::= Z.to_euclidean_division_equations.

(** ** sender: [L2CAPLayer.get_fragments] *)

Lemma succ_mul_slice (k i : nat) (l : bytes) :
  py_slice (i * k) ((i + 1) * k) l = slice (i * k) (S i * k) l.
Proof. rewrite Nat.add_1_r. reflexivity. Qed.

Lemma gen_get_fragments_eq mtu data : gen_get_fragments mtu data = get_fragments mtu data.
Proof.
  unfold gen_get_fragments, get_fragments, nb_packets.
  py_unfold.
  destruct (mtu <? length data); [|reflexivity].
  cbv zeta. cbn [app].
  set (k := mtu - 1). set (q := length data / k).
  replace (if q * k <? length data then q + 1 else q)
    with (if q * k <? length data then S q else q)
    by (destruct (q * k <? length data); lia).
  apply map_ext. intro i. apply succ_mul_slice.
Qed.

(** The generated count of fragments (the first component of the tuple the if statement
    rebinds) is the model's [nb_packets]. *)
Lemma gen_get_fragments_length mtu data :
  mtu < length data -> length (gen_get_fragments mtu data) = nb_packets mtu (length data).
Proof.
  intros H. rewrite gen_get_fragments_eq. unfold get_fragments.
  apply Nat.ltb_lt in H. rewrite H. rewrite map_length, seq_length. reflexivity.
Qed.

(** The translation is faithful to Python on the whole domain of the C11 theorems
    (MTU >= 2 is more than needed: MTU >= 1 and lengths below 2^53). *)
Lemma gen_get_fragments_pre_ok mtu data :
  2 <= mtu -> (nlen data < 65536)%N -> gen_get_fragments_pre mtu data.
Proof.
  intros Hm Hl. unfold gen_get_fragments_pre, nlen, py_truediv_ok, two53 in *. py_unfold.
  destruct (mtu <? length data) eqn:E; [|exact I].
  apply Nat.ltb_lt in E. py_pre_split; lia.
Qed.

(** ** receiver: the arithmetic of [L2CAPLayer.on_data_received] *)

Lemma gen_rx_append_eq fifo e d : gen_rx_append fifo e d = fifo ++ d.
Proof. unfold gen_rx_append. py_arith. Qed.

Lemma gen_rx_complete_cont_eq fifo e d : gen_rx_complete_cont fifo e d = (e <=? length fifo).
Proof. unfold gen_rx_complete_cont. py_arith. Qed.

Lemma gen_rx_complete_start_eq fifo e d : gen_rx_complete_start fifo e d = (e <=? length fifo).
Proof. unfold gen_rx_complete_start. py_arith. Qed.

Lemma gen_rx_frame_cont_eq fifo e d : gen_rx_frame_cont fifo e d = firstn e fifo.
Proof. unfold gen_rx_frame_cont. py_arith. Qed.

Lemma gen_rx_frame_start_eq fifo e d : gen_rx_frame_start fifo e d = firstn e fifo.
Proof. unfold gen_rx_frame_start. py_arith. Qed.

Lemma gen_rx_is_start_eq fifo e d : gen_rx_is_start fifo e d = (2 <=? length d).
Proof. unfold gen_rx_is_start. py_arith. Qed.

Lemma gen_rx_expected_eq fifo e d :
  2 <= length fifo -> N.to_nat (gen_rx_expected fifo e d) = N.to_nat (un_le16 fifo) + 4.
Proof.
  intros H. unfold gen_rx_expected. rewrite py_unpack_le_2 by exact H. lia.
Qed.

Lemma gen_rx_expected_pre_ok fifo e d : 2 <= length fifo -> gen_rx_expected_pre fifo e d.
Proof.
  intros H. unfold gen_rx_expected_pre, py_len. rewrite py_slice_length. lia.
Qed.

(** [Model.recv] re-expressed over the generated pieces: only the control skeleton
    ([fragment and fifo is not None] / [elif] / the two state updates) is hand-written;
    every length test, the announced length and every slice come from the source. *)
Definition recv_gen (st : rx) (f : frag) : list (N * bytes) * rx :=
  let '(fragment, data) := f in
  match fragment, fifo st with
  | true, Some buf =>
      let buf' := gen_rx_append buf (expected st) data in
      if gen_rx_complete_cont buf' (expected st) data
      then (route (gen_rx_frame_cont buf' (expected st) data), {| fifo := None; expected := expected st |})
      else ([], {| fifo := Some buf'; expected := expected st |})
  | _, _ =>
      if gen_rx_is_start [] (expected st) data then
        let exp := N.to_nat (gen_rx_expected data (expected st) data) in
        if gen_rx_complete_start data exp data
        then (route (gen_rx_frame_start data exp data), {| fifo := None; expected := exp |})
        else ([], {| fifo := Some data; expected := exp |})
      else ([], st)
  end.

Lemma recv_gen_eq st f : recv_gen st f = recv st f.
Proof.
  destruct f as [fragment data]. unfold recv_gen, recv.
  assert (Hstart :
    (if gen_rx_is_start [] (expected st) data
     then let exp := N.to_nat (gen_rx_expected data (expected st) data) in
          if gen_rx_complete_start data exp data
          then (route (gen_rx_frame_start data exp data), {| fifo := None; expected := exp |})
          else ([], {| fifo := Some data; expected := exp |})
     else ([], st))
    = (if 2 <=? length data
       then let exp := N.to_nat (un_le16 data) + 4 in
            if exp <=? length data
            then (route (firstn exp data), {| fifo := None; expected := exp |})
            else ([], {| fifo := Some data; expected := exp |})
       else ([], st))).
  { rewrite gen_rx_is_start_eq. destruct (2 <=? length data) eqn:E; [|reflexivity].
    apply Nat.leb_le in E. cbv zeta.
    rewrite (gen_rx_expected_eq data (expected st) data E).
    rewrite gen_rx_complete_start_eq, gen_rx_frame_start_eq. reflexivity. }
  destruct fragment; [destruct (fifo st) as [buf|]|]; try exact Hstart.
  cbv zeta. rewrite gen_rx_append_eq, gen_rx_complete_cont_eq, gen_rx_frame_cont_eq. reflexivity.
Qed.
