(** C11 — executable model of whad/ble/stack/l2cap/__init__.py (L2CAPLayer):
    [get_fragments], [on_att_packet_recv]/[on_smp_packet_recv] (sender) and
    [on_data_received]/[on_l2cap_packet] (receiver), plus the LLID <-> fragment flag
    mapping of whad/ble/stack/llm/__init__.py.  No proofs in this file. *)
From Coq Require Import List NArith Arith Bool.
From Whad Require Import Lib.Bytes.
Import ListNotations.

(** A message between L2CAP and the link layer: (fragment flag, bytes). *)
Definition frag := (bool * bytes)%type.

(** ---- sender ---- *)

(** [get_fragments]: if len(data) > mtu, pieces of (mtu-1) bytes
    ([nb = int(len/(mtu-1))], +1 when [nb*(mtu-1) < len]); else the data itself. *)
Definition nb_packets (mtu len : nat) : nat :=
  let nb := len / (mtu - 1) in
  if nb * (mtu - 1) <? len then S nb else nb.

Definition get_fragments (mtu : nat) (data : bytes) : list bytes :=
  if mtu <? length data then
    map (fun i => slice (i * (mtu - 1)) ((S i) * (mtu - 1)) data)
        (seq 0 (nb_packets mtu (length data)))
  else [data].

(** L2CAP_Hdr(cid=channel, len=len(data)) : len LE16, cid LE16 *)
Definition l2cap_hdr (len : N) (cid : N) : bytes := le16 len ++ le16 cid.

(** [on_att_packet_recv] / [on_smp_packet_recv]: first piece carries the header and
    is sent with fragment=False, the others with fragment=True. *)
Definition send_sdu (mtu : nat) (cid : N) (data : bytes) : list frag :=
  match get_fragments mtu data with
  | [] => []
  | p :: ps => (false, l2cap_hdr (nlen data) cid ++ p) :: map (fun q => (true, q)) ps
  end.

(** Link layer: fragment flag <-> LLID (on_l2cap_send_data / on_data_pdu) *)
Definition llid_of_fragment (f : bool) : N := if f then 1 else 2.
Definition fragment_of_llid (llid : N) : bool := N.eqb llid 1.

(** A link-layer data PDU as the PHY sees it: (LLID, payload).  [on_l2cap_send_data]
    wraps each L2CAP message; [on_data_pdu] unwraps it on the peer. *)
Definition llpdu := (N * bytes)%type.
Definition to_ll (f : frag) : llpdu := (llid_of_fragment (fst f), snd f).
Definition of_ll (p : llpdu) : frag := (fragment_of_llid (fst p), snd p).
Definition send_sdu_ll (mtu : nat) (cid : N) (data : bytes) : list llpdu :=
  map to_ll (send_sdu mtu cid data).

(** ---- receiver ---- *)

Record rx := { fifo : option bytes; expected : nat }.
Definition rx_init : rx := {| fifo := None; expected := 0 |}.

(** What [on_l2cap_packet] hands to the upper layers for a complete frame:
    channel 4 -> ATT, channel 6 -> SMP, only when there is a payload (scapy creates
    no upper layer for an empty payload); other channels deliver nothing upward. *)
Definition route (frame : bytes) : list (N * bytes) :=
  let cid := un_le16 (skipn 2 frame) in
  let payload := skipn 4 frame in
  match payload with
  | [] => []
  | _ => if N.eqb cid 4 then [(4%N, payload)]
         else if N.eqb cid 6 then [(6%N, payload)] else []
  end.

(** [on_data_received(l2cap_data, fragment)] *)
Definition recv (st : rx) (f : frag) : list (N * bytes) * rx :=
  let '(fragment, data) := f in
  match fragment, fifo st with
  | true, Some buf =>
      let buf' := buf ++ data in
      if expected st <=? length buf'
      then (route (firstn (expected st) buf'), {| fifo := None; expected := expected st |})
      else ([], {| fifo := Some buf'; expected := expected st |})
  | _, _ =>
      if 2 <=? length data then
        let exp := N.to_nat (un_le16 data) + 4 in
        if exp <=? length data
        then (route (firstn exp data), {| fifo := None; expected := exp |})
        else ([], {| fifo := Some data; expected := exp |})
      else ([], st)
  end.

Fixpoint recv_all (st : rx) (fs : list frag) : list (N * bytes) * rx :=
  match fs with
  | [] => ([], st)
  | f :: r => let '(o1, st1) := recv st f in
              let '(o2, st2) := recv_all st1 r in (o1 ++ o2, st2)
  end.

(** What the peer's upper layer must see for an SDU sent on [cid]. *)
Definition deliverable (cid : N) (sdu : bytes) : list (N * bytes) :=
  match sdu with
  | [] => []
  | _ => if N.eqb cid 4 then [(4%N, sdu)] else if N.eqb cid 6 then [(6%N, sdu)] else []
  end.

Definition recv_all_ll (st : rx) (ps : list llpdu) : list (N * bytes) * rx :=
  recv_all st (map of_ll ps).

(** ---- correspondence entry points (evaluated by the harness) ---- *)

(** sender case: (mtu, cid, sdu, observed fragments) *)
Fixpoint frags_eqb (a b : list frag) : bool :=
  match a, b with
  | [], [] => true
  | (f1, d1) :: a', (f2, d2) :: b' => Bool.eqb f1 f2 && bytes_eqb d1 d2 && frags_eqb a' b'
  | _, _ => false
  end.

Definition check_send (c : nat * N * bytes * list frag) : bool :=
  let '(mtu, cid, sdu, obs) := c in frags_eqb (send_sdu mtu cid sdu) obs.

Fixpoint outs_eqb (a b : list (N * bytes)) : bool :=
  match a, b with
  | [], [] => true
  | (c1, d1) :: a', (c2, d2) :: b' => N.eqb c1 c2 && bytes_eqb d1 d2 && outs_eqb a' b'
  | _, _ => false
  end.

(** receiver case: (fragments fed in order, observed deliveries (cid, bytes)) *)
Definition check_recv (c : list frag * list (N * bytes)) : bool :=
  let '(fs, obs) := c in outs_eqb (fst (recv_all rx_init fs)) obs.

(** link-layer level cases (real LinkLayer + L2CAPLayer): observed (LLID, payload) lists *)
Fixpoint lls_eqb (a b : list llpdu) : bool :=
  match a, b with
  | [], [] => true
  | (l1, d1) :: a', (l2, d2) :: b' => N.eqb l1 l2 && bytes_eqb d1 d2 && lls_eqb a' b'
  | _, _ => false
  end.
Definition check_send_ll (c : nat * N * bytes * list llpdu) : bool :=
  let '(mtu, cid, sdu, obs) := c in lls_eqb (send_sdu_ll mtu cid sdu) obs.
Definition check_recv_ll (c : list llpdu * list (N * bytes)) : bool :=
  let '(ps, obs) := c in outs_eqb (fst (recv_all_ll rx_init ps)) obs.

(** ---- MTU bookkeeping of the layer (configure / set_local_mtu / set_remote_mtu) ----
    Fragmentation is driven by [remote_mtu]; [set_remote_mtu] also raises [local_mtu]. *)
Record mtus := { local_mtu : nat; remote_mtu : nat }.
Definition mtus_init : mtus := {| local_mtu := 23; remote_mtu := 23 |}.
Inductive mtu_op := SetLocal (m : nat) | SetRemote (m : nat).
Definition mtu_step (s : mtus) (o : mtu_op) : mtus :=
  match o with
  | SetLocal m => {| local_mtu := m; remote_mtu := remote_mtu s |}
  | SetRemote m => {| local_mtu := if local_mtu s <? m then m else local_mtu s; remote_mtu := m |}
  end.
Definition mtu_run (ops : list mtu_op) : mtus := fold_left mtu_step ops mtus_init.
(** what the layer emits for an SDU after a history of MTU updates *)
Definition send_after (ops : list mtu_op) (cid : N) (data : bytes) : list frag :=
  send_sdu (remote_mtu (mtu_run ops)) cid data.

Definition mtu_op_of (x : bool * nat) : mtu_op := if fst x then SetLocal (snd x) else SetRemote (snd x).
(** case: (ops as (is_local, value), cid, sdu, observed fragments, observed local mtu) *)
Definition check_send_after (c : list (bool * nat) * N * bytes * list frag * nat) : bool :=
  let '(ops, cid, sdu, obs, lmtu) := c in
  frags_eqb (send_after (map mtu_op_of ops) cid sdu) obs
  && Nat.eqb (local_mtu (mtu_run (map mtu_op_of ops))) lmtu.
