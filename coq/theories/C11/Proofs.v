(** C11 — lemmas about the L2CAP model. *)
From Coq Require Import List NArith ZArith Arith Bool Lia ZifyBool ZifyN ZifyNat.
From Whad Require Import Lib.Bytes C11.Model.
Import ListNotations.
Ltac Zify.zify_post_hook ::= Z.to_euclidean_division_equations.

(** ** Chunking *)

Lemma firstn_add {A} (a b : nat) (l : list A) :
  firstn (a + b) l = firstn a l ++ firstn b (skipn a l).
Proof.
  revert l; induction a as [|a IH]; intros l; cbn [Nat.add firstn skipn app]; [reflexivity|].
  destruct l as [|x l]; cbn [firstn skipn app].
  - rewrite firstn_nil. reflexivity.
  - rewrite IH. reflexivity.
Qed.

Lemma skipn_add {A} (a b : nat) (l : list A) : skipn (a + b) l = skipn b (skipn a l).
Proof.
  revert l; induction a as [|a IH]; intros l; cbn [Nat.add skipn]; [reflexivity|].
  destruct l as [|x l]; cbn [skipn]; [now rewrite skipn_nil | apply IH].
Qed.

Definition piece (k : nat) (data : bytes) (i : nat) : bytes := firstn k (skipn (i * k) data).

Lemma slice_piece k data i : slice (i * k) (S i * k) data = piece k data i.
Proof. unfold slice, piece. replace (S i * k - i * k) with k by (cbn [Nat.mul]; lia). reflexivity. Qed.

Lemma concat_pieces k data n a :
  concat (map (piece k data) (seq a n)) = firstn (n * k) (skipn (a * k) data).
Proof.
  revert a; induction n as [|n IH]; intros a; cbn [seq map concat Nat.mul]; [reflexivity|].
  rewrite IH. rewrite firstn_add. unfold piece. f_equal. f_equal.
  replace (S a * k) with (a * k + k) by (cbn [Nat.mul]; lia). apply skipn_add.
Qed.

Lemma piece_length k data i : length (piece k data i) = Nat.min k (length data - i * k).
Proof. unfold piece. rewrite firstn_length, skipn_length. reflexivity. Qed.

Lemma nb_packets_spec mtu len :
  2 <= mtu -> mtu < len ->
  let nb := nb_packets mtu len in
  2 <= nb /\ (nb - 1) * (mtu - 1) < len /\ len <= nb * (mtu - 1).
Proof.
  intros Hm Hl. unfold nb_packets. cbv zeta.
  remember (mtu - 1) as k eqn:Hk.
  assert (Hk1 : 1 <= k) by lia.
  pose proof (Nat.div_mod len k ltac:(lia)) as Hdm.
  pose proof (Nat.mod_upper_bound len k ltac:(lia)) as Hmod.
  remember (len / k) as q eqn:Hq. remember (len mod k) as r eqn:Hr.
  assert (Hqk : q * k = k * q) by apply Nat.mul_comm.
  destruct (q * k <? len) eqn:E.
  - apply Nat.ltb_lt in E. replace (S q - 1) with q by lia.
    assert (q >= 1). { destruct q; [|lia]. cbn in Hdm. lia. }
    cbn [Nat.mul]. nia.
  - apply Nat.ltb_ge in E.
    assert (r = 0) by nia. subst r.
    assert (q >= 2). { destruct q as [|[|q]]; [cbn in Hdm; lia | nia | lia]. }
    replace ((q - 1) * k) with (q * k - k) by nia. nia.
Qed.

(** The fragments of [get_fragments]: a first piece followed by non-empty pieces whose
    concatenation is the data. *)
Lemma get_fragments_shape mtu data :
  2 <= mtu ->
  exists p0 ps, get_fragments mtu data = p0 :: ps
                /\ p0 ++ concat ps = data
                /\ Forall (fun q => q <> []) ps
                /\ length p0 <= mtu
                /\ Forall (fun q => length q <= mtu - 1) ps
                /\ (ps <> [] -> length p0 <= mtu - 1).
Proof.
  intros Hm. unfold get_fragments.
  destruct (mtu <? length data) eqn:E.
  - apply Nat.ltb_lt in E.
    destruct (nb_packets_spec mtu (length data) Hm E) as (Hnb & Hlo & Hhi).
    remember (nb_packets mtu (length data)) as nb eqn:Hnbdef. clear Hnbdef.
    remember (mtu - 1) as k eqn:Hk.
    destruct nb as [|nb]; [lia|].
    rewrite (map_ext _ (piece k data)) by (intro i; apply slice_piece).
    cbn [seq map].
    exists (piece k data 0), (map (piece k data) (seq 1 nb)).
    split; [reflexivity|]. split; [|split; [|split; [|split]]].
    + change (concat (map (piece k data) (seq 0 (S nb))) = data).
      rewrite concat_pieces. cbn [Nat.mul skipn]. apply firstn_all2. cbn [Nat.mul] in Hhi. lia.
    + apply Forall_forall. intros q Hq. apply in_map_iff in Hq as (i & <- & Hi).
      apply in_seq in Hi. intro Hnil.
      apply (f_equal (@length _)) in Hnil. rewrite piece_length in Hnil. cbn [length] in Hnil.
      replace (S nb - 1) with nb in Hlo by lia.
      assert (i * k <= nb * k) by nia. lia.
    + rewrite piece_length. lia.
    + apply Forall_forall. intros q Hq. apply in_map_iff in Hq as (i & <- & Hi).
      rewrite piece_length. lia.
    + intros _. rewrite piece_length. lia.
  - apply Nat.ltb_ge in E. exists data, []. cbn [concat]. rewrite app_nil_r.
    repeat split; auto. congruence.
Qed.

(** ** Receiver *)

Lemma concat_nonempty (ps : list bytes) :
  ps <> [] -> Forall (fun q => q <> []) ps -> 0 < length (concat ps).
Proof.
  destruct ps as [|q ps]; [congruence|]. intros _ H. inversion H as [|? ? Hq _]; subst.
  cbn [concat]. rewrite app_length. destruct q; [congruence|cbn; lia].
Qed.

Lemma recv_continuations ps : forall buf exp,
  ps <> [] -> Forall (fun q => q <> []) ps ->
  length buf + length (concat ps) = exp ->
  recv_all {| fifo := Some buf; expected := exp |} (map (fun q => (true, q)) ps)
  = (route (buf ++ concat ps), {| fifo := None; expected := exp |}).
Proof.
  induction ps as [|q ps IH]; intros buf exp Hne Hall Hlen; [congruence|].
  pose proof (Forall_inv Hall) as Hq. pose proof (Forall_inv_tail Hall) as Hall'.
  cbn [map recv_all recv fifo expected concat] in *.
  destruct ps as [|q' ps'].
  - cbn [concat map recv_all] in *. rewrite app_nil_r in *.
    rewrite <- app_length in Hlen.
    assert (E : (exp <=? length (buf ++ q)) = true) by (apply Nat.leb_le; lia).
    rewrite E. rewrite firstn_all2 by lia. rewrite app_nil_r. reflexivity.
  - assert (Hpos : 0 < length (concat (q' :: ps'))) by (apply concat_nonempty; [congruence|assumption]).
    rewrite app_length in Hlen.
    assert (E : (exp <=? length (buf ++ q)) = false) by (apply Nat.leb_gt; rewrite app_length; lia).
    rewrite E.
    rewrite (IH (buf ++ q) exp); [|congruence|assumption|rewrite app_length; lia].
    rewrite <- app_assoc. reflexivity.
Qed.

Lemma route_frame cid sdu len :
  (cid < 65536)%N -> route (l2cap_hdr len cid ++ sdu) = deliverable cid sdu.
Proof.
  intros Hc. unfold route, l2cap_hdr, deliverable.
  change (skipn 4 ((le16 len ++ le16 cid) ++ sdu)) with sdu.
  change (skipn 2 ((le16 len ++ le16 cid) ++ sdu)) with (le16 cid ++ sdu).
  rewrite un_le16_le16 by assumption. reflexivity.
Qed.

Lemma hdr_length len cid : length (l2cap_hdr len cid) = 4.
Proof. reflexivity. Qed.

Lemma un_le16_hdr len cid rest : (len < 65536)%N -> un_le16 (l2cap_hdr len cid ++ rest) = len.
Proof. intros H. unfold l2cap_hdr. rewrite <- app_assoc. apply un_le16_le16. assumption. Qed.

(** Reassembly is the inverse of segmentation, from ANY receiver state. *)
Lemma reassembly_inverse mtu cid sdu st0 :
  2 <= mtu -> (nlen sdu < 65536)%N -> (cid < 65536)%N ->
  recv_all st0 (send_sdu mtu cid sdu)
  = (deliverable cid sdu, {| fifo := None; expected := length sdu + 4 |}).
Proof.
  intros Hm Hlen Hcid. unfold send_sdu.
  destruct (get_fragments_shape mtu sdu Hm) as (p0 & ps & -> & Hcat & Hne & _ & _ & _).
  cbn [recv_all recv].
  assert (Hexp : N.to_nat (un_le16 (l2cap_hdr (nlen sdu) cid ++ p0)) + 4 = length sdu + 4).
  { rewrite un_le16_hdr by assumption. unfold nlen. lia. }
  assert (Hsel : forall (A : Type) (x y : A), match fifo st0 with Some _ => x | None => x end = x)
    by (intros; destruct (fifo st0); reflexivity).
  assert (Hl2 : (2 <=? length (l2cap_hdr (nlen sdu) cid ++ p0)) = true)
    by (apply Nat.leb_le; rewrite app_length, hdr_length; lia).
  rewrite Hl2, Hexp.
  assert (Hlp : length p0 + length (concat ps) = length sdu) by (rewrite <- app_length, Hcat; reflexivity).
  destruct ps as [|q ps].
  - cbn [concat] in *. rewrite app_nil_r in Hcat. subst p0.
    assert (E : (length sdu + 4 <=? length (l2cap_hdr (nlen sdu) cid ++ sdu)) = true)
      by (apply Nat.leb_le; rewrite app_length, hdr_length; lia).
    rewrite E. cbn [map recv_all]. cbv beta match. rewrite app_nil_r.
    rewrite firstn_all2 by (rewrite app_length, hdr_length; lia).
    rewrite route_frame by assumption. reflexivity.
  - assert (Hpos : 0 < length (concat (q :: ps))) by (apply concat_nonempty; [congruence|assumption]).
    assert (E : (length sdu + 4 <=? length (l2cap_hdr (nlen sdu) cid ++ p0)) = false)
      by (apply Nat.leb_gt; rewrite app_length, hdr_length; lia).
    rewrite E. cbv beta match.
    match goal with |- context[recv_all ?s ?l] =>
      replace (recv_all s l) with
        (route ((l2cap_hdr (nlen sdu) cid ++ p0) ++ concat (q :: ps)),
         {| fifo := None; expected := length sdu + 4 |})
        by (symmetry; apply recv_continuations;
            [congruence|assumption|rewrite app_length, hdr_length; lia])
    end.
    rewrite <- app_assoc, Hcat, route_frame by assumption. reflexivity.
Qed.

Lemma recv_all_app st a b :
  recv_all st (a ++ b) =
  let '(o1, st1) := recv_all st a in let '(o2, st2) := recv_all st1 b in (o1 ++ o2, st2).
Proof.
  revert st; induction a as [|f a IH]; intros st; cbn [app recv_all].
  - destruct (recv_all st b). reflexivity.
  - destruct (recv st f) as [o1 st1]. rewrite IH.
    destruct (recv_all st1 a) as [o2 st2]. destruct (recv_all st2 b) as [o3 st3].
    rewrite app_assoc. reflexivity.
Qed.

Definition wf_sdu (x : N * bytes) : Prop := (fst x < 65536)%N /\ (nlen (snd x) < 65536)%N.

(** Consecutive SDUs never bleed into each other, from any receiver state. *)
Lemma no_bleed mtu sdus : forall st0,
  2 <= mtu -> Forall wf_sdu sdus -> sdus <> [] ->
  exists e, recv_all st0 (concat (map (fun x => send_sdu mtu (fst x) (snd x)) sdus))
  = (concat (map (fun x => deliverable (fst x) (snd x)) sdus), {| fifo := None; expected := e |}).
Proof.
  induction sdus as [|[cid sdu] sdus IH]; intros st0 Hm Hwf Hne; [congruence|].
  inversion Hwf as [|? ? [Hc Hl] Hwf']; subst. cbn [fst snd] in *.
  cbn [map concat fst snd]. rewrite recv_all_app.
  rewrite (reassembly_inverse mtu cid sdu st0) by assumption.
  destruct sdus as [|x sdus'].
  - cbn [map concat recv_all]. rewrite !app_nil_r. eexists. reflexivity.
  - destruct (IH {| fifo := None; expected := length sdu + 4 |} Hm Hwf' ltac:(congruence)) as [e He].
    rewrite He. eexists. reflexivity.
Qed.

(** Arbitrary fragments before (lost, duplicated, injected, truncated, oversized ones)
    never corrupt the following well-formed SDUs. *)
Lemma robust_after_garbage mtu (g : list frag) sdus st0 :
  2 <= mtu -> Forall wf_sdu sdus -> sdus <> [] ->
  exists e, recv_all st0 (g ++ concat (map (fun x => send_sdu mtu (fst x) (snd x)) sdus))
  = (fst (recv_all st0 g) ++ concat (map (fun x => deliverable (fst x) (snd x)) sdus),
     {| fifo := None; expected := e |}).
Proof.
  intros Hm Hwf Hne. rewrite recv_all_app. destruct (recv_all st0 g) as [og stg]. cbn [fst].
  destruct (no_bleed mtu sdus stg Hm Hwf Hne) as [e He]. rewrite He. eexists. reflexivity.
Qed.

(** No link-layer payload exceeds MTU + 4 bytes. *)
Lemma payload_bound mtu cid sdu :
  2 <= mtu -> Forall (fun f : frag => length (snd f) <= mtu + 4) (send_sdu mtu cid sdu).
Proof.
  intros Hm. unfold send_sdu.
  destruct (get_fragments_shape mtu sdu Hm) as (p0 & ps & -> & _ & _ & Hp0 & Hps & _).
  constructor.
  - cbn [snd]. rewrite app_length, hdr_length. lia.
  - apply Forall_forall. intros f Hf. apply in_map_iff in Hf as (q & <- & Hq).
    rewrite Forall_forall in Hps. specialize (Hps q Hq). cbn [snd]. lia.
Qed.

(** Only the first fragment has the start flag; the LLID mapping is faithful. *)
Lemma flags mtu cid sdu :
  2 <= mtu -> exists d ds, send_sdu mtu cid sdu = (false, d) :: map (fun q => (true, q)) ds.
Proof.
  intros Hm. unfold send_sdu.
  destruct (get_fragments_shape mtu sdu Hm) as (p0 & ps & -> & _). eauto.
Qed.

Lemma llid_roundtrip f : fragment_of_llid (llid_of_fragment f) = f.
Proof. destruct f; reflexivity. Qed.

Lemma of_to_ll f : of_ll (to_ll f) = f.
Proof. destruct f as [b d]. unfold of_ll, to_ll. cbn [fst snd]. rewrite llid_roundtrip. reflexivity. Qed.

(** End to end through both link layers. *)
Lemma ll_reassembly_inverse mtu cid sdu st0 :
  2 <= mtu -> (nlen sdu < 65536)%N -> (cid < 65536)%N ->
  recv_all_ll st0 (send_sdu_ll mtu cid sdu)
  = (deliverable cid sdu, {| fifo := None; expected := length sdu + 4 |}).
Proof.
  intros. unfold recv_all_ll, send_sdu_ll. rewrite map_map.
  rewrite (map_ext _ (fun f => f)) by apply of_to_ll. rewrite map_id.
  apply reassembly_inverse; assumption.
Qed.

Lemma ll_start_llid mtu cid sdu :
  2 <= mtu -> exists d ds, send_sdu_ll mtu cid sdu = (2%N, d) :: map (fun q => (1%N, q)) ds.
Proof.
  intros Hm. destruct (flags mtu cid sdu Hm) as (d & ds & Hs). unfold send_sdu_ll. rewrite Hs.
  exists d, ds. cbn [map to_ll fst snd llid_of_fragment]. rewrite map_map. reflexivity.
Qed.

(** A truncated frame (fewer bytes than announced) delivers nothing by itself. *)
Lemma truncated_start_delivers_nothing st d :
  2 <= length d -> length d < N.to_nat (un_le16 d) + 4 ->
  fst (recv st (false, d)) = [].
Proof.
  intros H2 Hlt. cbn [recv].
  assert (E1 : (2 <=? length d) = true) by (apply Nat.leb_le; lia).
  assert (E2 : (N.to_nat (un_le16 d) + 4 <=? length d) = false) by (apply Nat.leb_gt; lia).
  destruct (fifo st); rewrite E1, E2; reflexivity.
Qed.

(** An oversized start frame: only the announced prefix is considered, the excess
    bytes are dropped and the receiver is idle again. *)
Lemma oversized_start st d :
  2 <= length d -> N.to_nat (un_le16 d) + 4 <= length d ->
  recv st (false, d) = (route (firstn (N.to_nat (un_le16 d) + 4) d),
                        {| fifo := None; expected := N.to_nat (un_le16 d) + 4 |}).
Proof.
  intros H2 Hle. cbn [recv].
  assert (E1 : (2 <=? length d) = true) by (apply Nat.leb_le; lia).
  assert (E2 : (N.to_nat (un_le16 d) + 4 <=? length d) = true) by (apply Nat.leb_le; lia).
  destruct (fifo st); rewrite E1, E2; reflexivity.
Qed.

(** Fragments shorter than two bytes outside a reassembly are ignored. *)
Lemma short_ignored st f d : fifo st = None -> length d < 2 -> recv st (f, d) = ([], st).
Proof.
  intros Hf Hl. cbn [recv]. rewrite Hf.
  assert (E : (2 <=? length d) = false) by (apply Nat.leb_gt; lia).
  destruct f; rewrite E; reflexivity.
Qed.

(** Stray continuation (no reassembly in progress): the code treats it as a start. *)
Lemma stray_continuation_is_start st d :
  fifo st = None -> recv st (true, d) = recv st (false, d).
Proof. intros Hf. cbn [recv]. rewrite Hf. reflexivity. Qed.

(** ... hence "stray continuation fragments are dropped" is refuted by the faithful model:
    a continuation fragment that looks like a complete frame on the ATT channel is
    delivered to ATT. *)
Lemma stray_continuation_dropped_refuted :
  exists d, fst (recv rx_init (true, d)) <> [].
Proof. exists [1;0;4;0;127]%N. vm_compute. discriminate. Qed.

(** What does hold: a stray continuation delivers something only if it is, by itself,
    a complete frame (at least as long as it announces). *)
Lemma stray_continuation_partial st d :
  fifo st = None -> fst (recv st (true, d)) <> [] ->
  2 <= length d /\ N.to_nat (un_le16 d) + 4 <= length d.
Proof.
  intros Hf Hne. cbn [recv] in Hne. rewrite Hf in Hne.
  destruct (2 <=? length d) eqn:E1; [|cbn in Hne; congruence].
  destruct (N.to_nat (un_le16 d) + 4 <=? length d) eqn:E2; [|cbn in Hne; congruence].
  apply Nat.leb_le in E1, E2. auto.
Qed.

(** ** MTU bookkeeping: the fragment size follows the LAST peer MTU, whatever the history
    of set_local_mtu / set_remote_mtu calls. *)
Lemma mtu_run_app ops o : mtu_run (ops ++ [o]) = mtu_step (mtu_run ops) o.
Proof. unfold mtu_run. rewrite fold_left_app. reflexivity. Qed.

Lemma remote_after_set_remote ops m : remote_mtu (mtu_run (ops ++ [SetRemote m])) = m.
Proof. rewrite mtu_run_app. reflexivity. Qed.

Lemma remote_after_set_local ops m :
  remote_mtu (mtu_run (ops ++ [SetLocal m])) = remote_mtu (mtu_run ops).
Proof. rewrite mtu_run_app. reflexivity. Qed.

Lemma local_ge_remote_after_set_remote ops m :
  m <= local_mtu (mtu_run (ops ++ [SetRemote m])).
Proof.
  rewrite mtu_run_app. cbn [mtu_step local_mtu].
  destruct (local_mtu (mtu_run ops) <? m) eqn:E; [lia|]. apply Nat.ltb_ge in E. exact E.
Qed.

Lemma payload_bound_after ops cid sdu :
  2 <= remote_mtu (mtu_run ops) ->
  Forall (fun f : frag => length (snd f) <= remote_mtu (mtu_run ops) + 4) (send_after ops cid sdu).
Proof. intros H. unfold send_after. apply payload_bound. exact H. Qed.

Lemma reassembly_after ops cid sdu st0 :
  2 <= remote_mtu (mtu_run ops) -> (nlen sdu < 65536)%N -> (cid < 65536)%N ->
  recv_all st0 (send_after ops cid sdu)
  = (deliverable cid sdu, {| fifo := None; expected := length sdu + 4 |}).
Proof. intros. unfold send_after. apply reassembly_inverse; assumption. Qed.

Lemma mtu_last_remote_wins ops m :
  remote_mtu (mtu_run (ops ++ [SetRemote m])) = m /\ m <= local_mtu (mtu_run (ops ++ [SetRemote m])).
Proof. split; [apply remote_after_set_remote | apply local_ge_remote_after_set_remote]. Qed.
