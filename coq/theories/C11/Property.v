(** C11 — property theorems only (each closed by [exact]); see Proofs.v. *)
From Coq Require Import List NArith Arith.
From Whad Require Import Lib.Bytes C11.Model C11.Proofs.
Import ListNotations.

(** For any SDU (< 65536 bytes), any MTU >= 2 (hence every MTU >= 23), any channel and
    ANY state the receiver is in, the fragments one stack produces reassemble on the
    peer into exactly one PDU, identical, on the same channel. *)
Theorem C11_reassembly_inverse :
  forall (mtu : nat) (cid : N) (sdu : bytes) (st0 : rx),
    2 <= mtu -> (nlen sdu < 65536)%N -> (cid < 65536)%N ->
    recv_all st0 (send_sdu mtu cid sdu)
    = (deliverable cid sdu, {| fifo := None; expected := length sdu + 4 |}).
Proof. exact reassembly_inverse. Qed.

(** No link-layer payload exceeds MTU + 4 bytes. *)
Theorem C11_payload_bound :
  forall (mtu : nat) (cid : N) (sdu : bytes),
    2 <= mtu -> Forall (fun f : frag => length (snd f) <= mtu + 4) (send_sdu mtu cid sdu).
Proof. exact payload_bound. Qed.

(** Consecutive SDUs never bleed into each other. *)
Theorem C11_no_bleed :
  forall (mtu : nat) (sdus : list (N * bytes)) (st0 : rx),
    2 <= mtu -> Forall wf_sdu sdus -> sdus <> [] ->
    exists e, recv_all st0 (concat (map (fun x => send_sdu mtu (fst x) (snd x)) sdus))
    = (concat (map (fun x => deliverable (fst x) (snd x)) sdus), {| fifo := None; expected := e |}).
Proof. exact no_bleed. Qed.

(** Whatever fragments came before (stray continuations, truncated, oversized, duplicated
    or injected ones), the next well-formed SDUs are delivered intact. The model has no
    raising path: [recv] is total and the Python handler indexes nothing out of range
    (tied by the correspondence on the malformed stream). *)
Theorem C11_robust_after_garbage :
  forall (mtu : nat) (g : list frag) (sdus : list (N * bytes)) (st0 : rx),
    2 <= mtu -> Forall wf_sdu sdus -> sdus <> [] ->
    exists e, recv_all st0 (g ++ concat (map (fun x => send_sdu mtu (fst x) (snd x)) sdus))
    = (fst (recv_all st0 g) ++ concat (map (fun x => deliverable (fst x) (snd x)) sdus),
       {| fifo := None; expected := e |}).
Proof. exact robust_after_garbage. Qed.

(** Exactly the first fragment is a start; LLID mapping is faithful. *)
Theorem C11_flags :
  forall mtu cid sdu, 2 <= mtu ->
    exists d ds, send_sdu mtu cid sdu = (false, d) :: map (fun q => (true, q)) ds.
Proof. exact flags. Qed.

Theorem C11_llid_roundtrip : forall f, fragment_of_llid (llid_of_fragment f) = f.
Proof. exact llid_roundtrip. Qed.

(** The same through the link layers of both stacks: data PDUs (LLID, payload) as
    produced by [on_l2cap_send_data] and consumed by [on_data_pdu]; the first PDU has
    LLID 2 (start), the others LLID 1 (continuation). *)
Theorem C11_ll_reassembly_inverse :
  forall (mtu : nat) (cid : N) (sdu : bytes) (st0 : rx),
    2 <= mtu -> (nlen sdu < 65536)%N -> (cid < 65536)%N ->
    recv_all_ll st0 (send_sdu_ll mtu cid sdu)
    = (deliverable cid sdu, {| fifo := None; expected := length sdu + 4 |}).
Proof. exact ll_reassembly_inverse. Qed.

Theorem C11_ll_start_llid :
  forall mtu cid sdu, 2 <= mtu ->
    exists d ds, send_sdu_ll mtu cid sdu = (2%N, d) :: map (fun q => (1%N, q)) ds.
Proof. exact ll_start_llid. Qed.

(** MTU bookkeeping: whatever sequence of set_local_mtu / set_remote_mtu calls came before,
    fragmentation follows the peer's (remote) MTU as last announced: the payload bound and
    the inverse hold with respect to it, and a later local update does not change it. *)
Theorem C11_mtu_history_payload_bound :
  forall (ops : list mtu_op) (cid : N) (sdu : bytes),
    2 <= remote_mtu (mtu_run ops) ->
    Forall (fun f : frag => length (snd f) <= remote_mtu (mtu_run ops) + 4) (send_after ops cid sdu).
Proof. exact payload_bound_after. Qed.

Theorem C11_mtu_history_reassembly :
  forall (ops : list mtu_op) (cid : N) (sdu : bytes) (st0 : rx),
    2 <= remote_mtu (mtu_run ops) -> (nlen sdu < 65536)%N -> (cid < 65536)%N ->
    recv_all st0 (send_after ops cid sdu)
    = (deliverable cid sdu, {| fifo := None; expected := length sdu + 4 |}).
Proof. exact reassembly_after. Qed.

Theorem C11_mtu_last_remote_wins :
  forall ops m, remote_mtu (mtu_run (ops ++ [SetRemote m])) = m
             /\ m <= local_mtu (mtu_run (ops ++ [SetRemote m])).
Proof. exact mtu_last_remote_wins. Qed.

Theorem C11_mtu_set_local_keeps_remote :
  forall ops m, remote_mtu (mtu_run (ops ++ [SetLocal m])) = remote_mtu (mtu_run ops).
Proof. exact remote_after_set_local. Qed.

(** Truncated frames deliver nothing; oversized ones are cut to the announced length. *)
Theorem C11_truncated_dropped :
  forall st d, 2 <= length d -> length d < N.to_nat (un_le16 d) + 4 ->
    fst (recv st (false, d)) = [].
Proof. exact truncated_start_delivers_nothing. Qed.

Theorem C11_oversized_cut :
  forall st d, 2 <= length d -> N.to_nat (un_le16 d) + 4 <= length d ->
    recv st (false, d) = (route (firstn (N.to_nat (un_le16 d) + 4) d),
                          {| fifo := None; expected := N.to_nat (un_le16 d) + 4 |}).
Proof. exact oversized_start. Qed.

(** FULL STATEMENT of the stray-continuation clause (refuted by the faithful model,
    KNOWN-FINDING stray-continuation-taken-as-start). *)
Definition C11_stray_continuation_dropped_statement : Prop :=
  forall st d, fifo st = None -> fst (recv st (true, d)) = [].

Theorem C11_stray_continuation_dropped_refuted :
  exists d, fst (recv rx_init (true, d)) <> [].
Proof. exact stray_continuation_dropped_refuted. Qed.

(** The part that holds: a stray continuation is delivered only when it is by itself a
    complete frame; and (C11_robust_after_garbage) it never corrupts what follows. *)
Theorem C11_stray_continuation_partial :
  forall st d, fifo st = None -> fst (recv st (true, d)) <> [] ->
    2 <= length d /\ N.to_nat (un_le16 d) + 4 <= length d.
Proof. exact stray_continuation_partial. Qed.

(** Non-vacuity: the hypotheses are met by a concrete 60-byte SDU at MTU 23, which is
    split into three fragments. *)
Example C11_nonvacuous :
  let sdu := repeat 7%N 60 in
  2 <= 23 /\ (nlen sdu < 65536)%N /\ length (send_sdu 23 4 sdu) = 3
  /\ fst (recv_all rx_init (send_sdu 23 4 sdu)) = [(4%N, sdu)].
Proof. cbv zeta. split; [repeat constructor|]. split; [reflexivity|]. split; vm_compute; reflexivity. Qed.
