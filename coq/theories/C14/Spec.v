(** C14 — the Bluetooth specification side of stage A, typed in BY HAND from
    Bluetooth Core Specification 5.3, Vol 3, Part H, section 2.3.5.1
    "Selecting key generation method", Tables 2.6, 2.7 and 2.8.
    Nothing in this file is derived from the Python code.  Definitions only. *)
From Coq Require Import List NArith Bool.
Import ListNotations.

(** IO capabilities (Vol 3 Part H 3.5.1, Table 3.4): the value is the on-air code. *)
Inductive iocap := DisplayOnly | DisplayYesNo | KeyboardOnly | NoInputNoOutput | KeyboardDisplay.

Definition iocap_of_code (c : N) : option iocap :=
  match c with
  | 0%N => Some DisplayOnly | 1%N => Some DisplayYesNo | 2%N => Some KeyboardOnly
  | 3%N => Some NoInputNoOutput | 4%N => Some KeyboardDisplay | _ => None
  end.

Definition iocap_code (c : iocap) : N :=
  match c with
  | DisplayOnly => 0 | DisplayYesNo => 1 | KeyboardOnly => 2 | NoInputNoOutput => 3 | KeyboardDisplay => 4
  end%N.

(** What a device does with the passkey in Passkey Entry. *)
Inductive pk_role := Displays | Inputs.

(** Association models. [Passkey ri rr]: role of the initiator, role of the responder. *)
Inductive assoc :=
| JustWorks
| Passkey (ri rr : pk_role)
| NumericComparison
| OutOfBand.

(** The parameters of one device that the selection looks at
    (SC and MITM bits of AuthReq, OOB data flag, IO capability). *)
Record sel_params := { sp_sc : bool; sp_oob : bool; sp_mitm : bool; sp_io : iocap }.

(** ---- Table 2.6: rules for using Out-of-Band and MITM flags, LE legacy pairing ---- *)
Inductive flag_decision := UseOOB | CheckMITM | UseIOCap | UseJustWorks.

(** OOB part of Table 2.6 (rows: responder OOB Set / Not Set; columns: initiator). *)
Definition table_2_6_oob (init_oob resp_oob : bool) : flag_decision :=
  match resp_oob, init_oob with
  | true,  true  => UseOOB
  | true,  false => CheckMITM
  | false, true  => CheckMITM
  | false, false => CheckMITM
  end.

(** ---- Table 2.7: the same for LE Secure Connections: OOB is used if EITHER has it ---- *)
Definition table_2_7_oob (init_oob resp_oob : bool) : flag_decision :=
  match resp_oob, init_oob with
  | true,  true  => UseOOB
  | true,  false => UseOOB
  | false, true  => UseOOB
  | false, false => CheckMITM
  end.

(** MITM part, identical in Tables 2.6 and 2.7 (rows: responder MITM Set / Not Set). *)
Definition table_mitm (init_mitm resp_mitm : bool) : flag_decision :=
  match resp_mitm, init_mitm with
  | true,  true  => UseIOCap
  | true,  false => UseIOCap
  | false, true  => UseIOCap
  | false, false => UseJustWorks
  end.

(** ---- Table 2.8: mapping of IO capabilities to key generation method ----
    Rows: responder; columns: initiator; a cell gives (LE legacy, LE Secure Connections). *)
Definition RdispIinp := Passkey Inputs Displays.   (* "responder displays, initiator inputs" *)
Definition IdispRinp := Passkey Displays Inputs.   (* "initiator displays, responder inputs" *)
Definition BothInput := Passkey Inputs Inputs.     (* "initiator and responder inputs" *)

Definition table_2_8 (init resp : iocap) : assoc * assoc :=
  match resp with
  | DisplayOnly =>
      match init with
      | DisplayOnly     => (JustWorks, JustWorks)
      | DisplayYesNo    => (JustWorks, JustWorks)
      | KeyboardOnly    => (RdispIinp, RdispIinp)
      | NoInputNoOutput => (JustWorks, JustWorks)
      | KeyboardDisplay => (RdispIinp, RdispIinp)
      end
  | DisplayYesNo =>
      match init with
      | DisplayOnly     => (JustWorks, JustWorks)
      | DisplayYesNo    => (JustWorks, NumericComparison)
      | KeyboardOnly    => (RdispIinp, RdispIinp)
      | NoInputNoOutput => (JustWorks, JustWorks)
      | KeyboardDisplay => (RdispIinp, NumericComparison)
      end
  | KeyboardOnly =>
      match init with
      | DisplayOnly     => (IdispRinp, IdispRinp)
      | DisplayYesNo    => (IdispRinp, IdispRinp)
      | KeyboardOnly    => (BothInput, BothInput)
      | NoInputNoOutput => (JustWorks, JustWorks)
      | KeyboardDisplay => (IdispRinp, IdispRinp)
      end
  | NoInputNoOutput =>
      match init with
      | DisplayOnly     => (JustWorks, JustWorks)
      | DisplayYesNo    => (JustWorks, JustWorks)
      | KeyboardOnly    => (JustWorks, JustWorks)
      | NoInputNoOutput => (JustWorks, JustWorks)
      | KeyboardDisplay => (JustWorks, JustWorks)
      end
  | KeyboardDisplay =>
      match init with
      | DisplayOnly     => (IdispRinp, IdispRinp)
      | DisplayYesNo    => (IdispRinp, NumericComparison)
      | KeyboardOnly    => (RdispIinp, RdispIinp)
      | NoInputNoOutput => (JustWorks, JustWorks)
      | KeyboardDisplay => (IdispRinp, NumericComparison)
      end
  end.

(** ---- 2.3.5.1: which table applies, and the resulting association model ----
    "If both devices support LE Secure Connections pairing, then Table 2.7 ...;
     if at least one device does not, Table 2.6 (LE legacy pairing)". *)
Definition spec_secure_connections (i r : sel_params) : bool := sp_sc i && sp_sc r.

Definition spec_assoc (i r : sel_params) : assoc :=
  let sc := spec_secure_connections i r in
  let oob_dec := if sc then table_2_7_oob (sp_oob i) (sp_oob r) else table_2_6_oob (sp_oob i) (sp_oob r) in
  match oob_dec with
  | UseOOB => OutOfBand
  | _ =>
      match table_mitm (sp_mitm i) (sp_mitm r) with
      | UseJustWorks => JustWorks
      | _ => let c := table_2_8 (sp_io i) (sp_io r) in if sc then snd c else fst c
      end
  end.

(** The key generation method as a pair (secure connections?, association model). *)
Definition spec_method (i r : sel_params) : bool * assoc := (spec_secure_connections i r, spec_assoc i r).

(** Authenticated (MITM-protected) methods: everything but Just Works. *)
Definition spec_authenticated (a : assoc) : bool :=
  match a with JustWorks => false | _ => true end.

(** The finite domain of the selection: 2 x 2 x 2 x 5 = 40 parameter sets per device. *)
Definition all_bools : list bool := [false; true].
Definition all_iocaps : list iocap := [DisplayOnly; DisplayYesNo; KeyboardOnly; NoInputNoOutput; KeyboardDisplay].
Definition all_sel_params : list sel_params :=
  flat_map (fun sc => flat_map (fun oob => flat_map (fun mitm =>
    map (fun io => {| sp_sc := sc; sp_oob := oob; sp_mitm := mitm; sp_io := io |}) all_iocaps)
    all_bools) all_bools) all_bools.
Definition all_sel_pairs : list (sel_params * sel_params) :=
  flat_map (fun i => map (fun r => (i, r)) all_sel_params) all_sel_params.
