(** C14 stage A — lemmas: the generated selection function equals the specification tables
    on the whole finite domain.  Re-checked on every run against the REGENERATED GenTable. *)
From Coq Require Import List NArith Bool Lia.
From Whad Require Import C14.Base C14.Spec.
From Whad Require Import C14.GenTable.
From Whad Require Import C14.Sel.
Import ListNotations.

Lemma kres_eqb_eq a b : kres_eqb a b = true -> a = b.
Proof.
  destruct a, b; simpl; try discriminate; try reflexivity.
  intros H. apply N.eqb_eq in H. congruence.
Qed.

Lemma all_sel_params_complete : forall s : sel_params, In s all_sel_params.
Proof.
  intros [[] [] [] []]; vm_compute; tauto.
Qed.

Lemma all_sel_pairs_complete : forall i r : sel_params, In (i, r) all_sel_pairs.
Proof.
  intros i r. unfold all_sel_pairs. apply in_flat_map. exists i. split.
  - apply all_sel_params_complete.
  - apply in_map. apply all_sel_params_complete.
Qed.

Lemma all_sel_pairs_length : length all_sel_pairs = 1600%nat.
Proof. vm_compute. reflexivity. Qed.

Lemma method_sweep : forallb method_ok all_sel_pairs = true.
Proof. vm_compute. reflexivity. Qed.

Lemma method_is_spec_on_domain :
  length all_sel_pairs = 1600%nat /\
  forall i r, In (i, r) all_sel_pairs ->
    key_generation_method_selection (peer_of i) (peer_of r) = spec_kres i r.
Proof.
  split; [exact all_sel_pairs_length|].
  intros i r Hin.
  pose proof (proj1 (forallb_forall method_ok all_sel_pairs) method_sweep (i, r) Hin) as H.
  apply kres_eqb_eq in H. exact H.
Qed.

Lemma method_is_spec :
  forall i r : sel_params,
    key_generation_method_selection (peer_of i) (peer_of r) = spec_kres i r.
Proof.
  intros i r. apply (proj2 method_is_spec_on_domain). apply all_sel_pairs_complete.
Qed.

(** The specification never yields "legacy numeric comparison": every cell has a code. *)
Lemma spec_kres_is_method : forall i r, exists m, spec_kres i r = KMethod m /\ (m < 7)%N.
Proof.
  assert (H : forallb (fun ir => match spec_kres (fst ir) (snd ir) with KMethod m => N.ltb m 7 | _ => false end)
                      all_sel_pairs = true) by (vm_compute; reflexivity).
  intros i r.
  pose proof (proj1 (forallb_forall _ _) H (i, r) (all_sel_pairs_complete i r)) as H1. cbn [fst snd] in H1.
  destruct (spec_kres i r) as [m| |]; try discriminate.
  exists m. split; [reflexivity|]. apply N.ltb_lt. exact H1.
Qed.

(** Python-level statement: for every pair of SM_Peer parameter sets with a valid IO
    capability code (0..4) the function returns the specification's method; never None,
    never an exception. *)
Lemma sel_of_peer_some p : (p_iocap p < 5)%N -> exists s, sel_of_peer p = Some s /\ peer_of s = p.
Proof.
  intros H. destruct p as [l o m io]. cbn [p_iocap] in H. unfold sel_of_peer. cbn [p_iocap p_lesc p_oob p_mitm].
  assert (Hio : (io = 0 \/ io = 1 \/ io = 2 \/ io = 3 \/ io = 4)%N) by lia.
  destruct Hio as [-> | [-> | [-> | [-> | ->]]]]; cbn [iocap_of_code];
    eexists; (split; [reflexivity | reflexivity]).
Qed.

Lemma method_is_spec_peers :
  forall p q : peer, (p_iocap p < 5)%N -> (p_iocap q < 5)%N ->
    exists sp sq, sel_of_peer p = Some sp /\ sel_of_peer q = Some sq /\
      key_generation_method_selection p q = spec_kres sp sq.
Proof.
  intros p q Hp Hq.
  destruct (sel_of_peer_some p Hp) as [sp [H1 H2]].
  destruct (sel_of_peer_some q Hq) as [sq [H3 H4]].
  exists sp, sq. split; [exact H1|]. split; [exact H3|].
  rewrite <- H2 at 1. rewrite <- H4 at 1. apply method_is_spec.
Qed.

Lemma authenticated_is_spec : forall i r : sel_params, auth_ok (i, r) = true.
Proof.
  assert (H : forallb auth_ok all_sel_pairs = true) by (vm_compute; reflexivity).
  intros i r. exact (proj1 (forallb_forall _ _) H (i, r) (all_sel_pairs_complete i r)).
Qed.

(** Legacy Passkey Entry roles: the generated [get_pin_code] decision is Table 2.8's, in every cell. *)
Lemma legacy_passkey_roles : forall i r : sel_params, roles_ok (i, r) = true.
Proof.
  assert (H : forallb roles_ok all_sel_pairs = true) by (vm_compute; reflexivity).
  intros i r. exact (proj1 (forallb_forall _ _) H (i, r) (all_sel_pairs_complete i r)).
Qed.
