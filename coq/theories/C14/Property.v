(** C14 — property theorems only (each closed by [exact]); see SelProofs.v (stage A) and Proofs.v (stage B). *)
From Coq Require Import List NArith Bool.
From Whad Require Import C14.Base C14.Spec C14.GenTable C14.Sel C14.SelProofs C14.Model C14.Proofs.
Import ListNotations.
Local Open Scope N_scope.

(** ======================= Stage A: the association model ======================= *)

(** The selection function GENERATED from the Python source equals Tables 2.6-2.8 (Spec.v, typed by
    hand) on the whole domain: 40 x 40 = 1600 combinations of (SC, OOB, MITM, IO capability) per side. *)
Theorem C14_method_is_spec :
  length all_sel_pairs = 1600%nat /\
  forall i r, In (i, r) all_sel_pairs ->
    key_generation_method_selection (peer_of i) (peer_of r) = spec_kres i r.
Proof. exact method_is_spec_on_domain. Qed.

Theorem C14_method_domain_complete : forall i r : sel_params, In (i, r) all_sel_pairs.
Proof. exact all_sel_pairs_complete. Qed.

(** Python-level form: for IO capability codes 0..4 the function returns the specification's method
    (never None, never an exception). *)
Theorem C14_method_is_spec_peers :
  forall p q : peer, p_iocap p < 5 -> p_iocap q < 5 ->
    exists sp sq, sel_of_peer p = Some sp /\ sel_of_peer q = Some sq /\
      key_generation_method_selection p q = spec_kres sp sq.
Proof. exact method_is_spec_peers. Qed.

(** AUTHENTICATED_METHODS is the specification's notion (everything but Just Works). *)
Theorem C14_authenticated_is_spec : forall i r : sel_params, auth_ok (i, r) = true.
Proof. exact authenticated_is_spec. Qed.

(** The passkey roles of LE legacy Passkey Entry (who displays, who inputs: Table 2.8) are the
    specification's in EVERY cell: the decision GENERATED from [get_pin_code] gives "typed by the
    user" exactly for the device Table 2.8 makes input and "generated and displayed" exactly for
    the device it makes display.  (Full theorem since the repair "fix: SMP get_pin_code lets a
    KeyboardDisplay device input the legacy passkey where Table 2.8 says it inputs"; on the
    unrepaired function it fails for the five KeyboardDisplay-must-input cells.) *)
Theorem C14_legacy_passkey_roles : forall i r : sel_params, roles_ok (i, r) = true.
Proof. exact legacy_passkey_roles. Qed.

(** ======================= Stage B: the two-party run =======================
    [run pi pr sc] : the central with parameters [pi] initiates pairing with the peripheral with
    parameters [pr]; [sc] is the scripted user.  All parameters: [wf_params] only asks for an IO
    capability code 0..4; bonding, key size, distribution flags, passkeys and the connection handle of
    each side ([a_handle], any N, 0 included, the two sides' handles need not be equal) are arbitrary. *)

(** The run terminates (both queues empty within the fuel), nothing raises, and both sides are in
    the same outcome: both report success or both report failure. *)
Theorem C14_outcomes_agree :
  forall pi pr sc, wf_params pi -> wf_params pr ->
  r_quiet (run pi pr sc) = true /\ s_exc (r_i (run pi pr sc)) = false /\ s_exc (r_r (run pi pr sc)) = false /\
  ((success (r_i (run pi pr sc)) = true /\ success (r_r (run pi pr sc)) = true)
   \/ (failure (r_i (run pi pr sc)) = true /\ failure (r_r (run pi pr sc)) = true)).
Proof. exact outcomes_agree. Qed.

(** No theorem is true because the fuel ran out. *)
Theorem C14_fuel_enough :
  forall pi pr sc, wf_params pi -> wf_params pr ->
  r_steps (run pi pr sc) < 250 /\ r_quiet (run pi pr sc) = true.
Proof. exact fuel_enough. Qed.

(** On success the STK terms are equal, for LE Secure Connections the LTK terms are equal, and both
    sides used the method selected for the exchanged parameters. *)
Theorem C14_keys_agree :
  forall pi pr sc, wf_params pi -> wf_params pr ->
  success (r_i (run pi pr sc)) = true -> success (r_r (run pi pr sc)) = true ->
  s_stk (r_i (run pi pr sc)) = s_stk (r_r (run pi pr sc))
  /\ (3 <= sel_method pi pr -> s_ltk (r_i (run pi pr sc)) = s_ltk (r_r (run pi pr sc)) /\ s_ltk (r_i (run pi pr sc)) <> None)
  /\ s_method (r_i (run pi pr sc)) = Some (sel_method pi pr) /\ s_method (r_r (run pi pr sc)) = Some (sel_method pi pr).
Proof. exact keys_agree. Qed.

(** Equal terms are equal keys under EVERY interpretation of the toolbox. *)
Theorem C14_keys_agree_interp :
  forall pi pr sc (interp : term -> list N), wf_params pi -> wf_params pr ->
  success (r_i (run pi pr sc)) = true -> success (r_r (run pi pr sc)) = true ->
  interp (s_stk (r_i (run pi pr sc))) = interp (s_stk (r_r (run pi pr sc)))
  /\ (3 <= sel_method pi pr ->
      option_map interp (s_ltk (r_i (run pi pr sc))) = option_map interp (s_ltk (r_r (run pi pr sc)))).
Proof. exact keys_agree_interp. Qed.

(** The method the run uses is the specification's (stage A carried into stage B). *)
Theorem C14_run_method_is_spec :
  forall pi pr, wf_params pi -> wf_params pr ->
  exists si sr, sel_of_peer (peer_of_params pi) = Some si /\ sel_of_peer (peer_of_params pr) = Some sr
                /\ spec_kres si sr = KMethod (sel_method pi pr).
Proof. exact run_method_is_spec. Qed.

(** On success each PHY got exactly one set_encryption, with the same session key e(key, SKD) and
    the same key, which is the STK (legacy) or the LTK (LESC) of this pairing. *)
Theorem C14_session_key_agrees :
  forall pi pr sc, wf_params pi -> wf_params pr ->
  success (r_i (run pi pr sc)) = true -> success (r_r (run pi pr sc)) = true ->
  exists key,
    s_setenc (r_i (run pi pr sc)) = [(t_e key, key)] /\ s_setenc (r_r (run pi pr sc)) = [(t_e key, key)]
    /\ (if is_lesc_method (sel_method pi pr) then option_map trev (s_ltk (r_i (run pi pr sc))) = Some key
        else s_stk (r_i (run pi pr sc)) = key)
    /\ s_encrypted (r_i (run pi pr sc)) = true /\ s_encrypted (r_r (run pi pr sc)) = true.
Proof. exact session_key_agrees. Qed.

(** On success a bonding side has stored exactly: its own keys, and for the peer exactly the keys
    the peer distributed (the peer's own final keys filtered by the peer's distribution flags; the
    LTK always for LESC); a side without bonding stored nothing; every distributed key exists. *)
Theorem C14_stored_is_distributed :
  forall pi pr sc, wf_params pi -> wf_params pr ->
  success (r_i (run pi pr sc)) = true -> success (r_r (run pi pr sc)) = true ->
  let c := control_of pi pr sc in
  s_db (r_i (run pi pr sc)) = (if a_bond pi
      then [expected_own_entry false (r_i (run pi pr sc)) (spec_auth (sel_method pi pr));
            expected_peer_entry c true (r_r (run pi pr sc)) (spec_auth (sel_method pi pr))] else [])
  /\ s_db (r_r (run pi pr sc)) = (if a_bond pr
      then [expected_own_entry true (r_r (run pi pr sc)) (spec_auth (sel_method pi pr));
            expected_peer_entry c false (r_i (run pi pr sc)) (spec_auth (sel_method pi pr))] else [])
  /\ dist_present c false (r_i (run pi pr sc)) = true /\ dist_present c true (r_r (run pi pr sc)) = true.
Proof. exact stored_is_distributed. Qed.

(** On failure nothing is stored and the link is not encrypted, on either side. *)
Theorem C14_failure_leaves_nothing :
  forall pi pr sc, wf_params pi -> wf_params pr ->
  failure (r_i (run pi pr sc)) = true -> failure (r_r (run pi pr sc)) = true ->
  s_db (r_i (run pi pr sc)) = [] /\ s_db (r_r (run pi pr sc)) = []
  /\ s_setenc (r_i (run pi pr sc)) = [] /\ s_setenc (r_r (run pi pr sc)) = [].
Proof. exact failure_leaves_nothing. Qed.

(** A wrong passkey (legacy: different effective pins; LESC: different typed values) or a refused
    numeric comparison makes BOTH sides fail. *)
Theorem C14_wrong_passkey_fails_both :
  forall pi pr sc, wf_params pi -> wf_params pr ->
  (sel_method pi pr = 1 /\ eff_pin_i pi pr sc <> eff_pin_r pi pr sc)
  \/ (sel_method pi pr = 5 /\ u_typed_i sc <> u_typed_r sc)
  \/ (sel_method pi pr = 4 /\ (u_nc_i sc && u_nc_r sc) = false) ->
  failure (r_i (run pi pr sc)) = true /\ failure (r_r (run pi pr sc)) = true.
Proof. exact wrong_passkey_fails_both. Qed.

(** With a correct passkey / accepted comparison every implemented method succeeds on both sides ... *)
Theorem C14_correct_interaction_succeeds :
  forall pi pr sc, wf_params pi -> wf_params pr ->
  sel_method pi pr <> 2 -> sel_method pi pr <> 6 ->
  (sel_method pi pr = 1 -> eff_pin_i pi pr sc = eff_pin_r pi pr sc) ->
  (sel_method pi pr = 5 -> u_typed_i sc = u_typed_r sc) ->
  (sel_method pi pr = 4 -> u_nc_i sc = true /\ u_nc_r sc = true) ->
  success (r_i (run pi pr sc)) = true /\ success (r_r (run pi pr sc)) = true.
Proof. exact correct_interaction_succeeds. Qed.

(** In particular when the user follows the SPECIFICATION's roles: [P] is the session passkey, the
    device Table 2.8 makes display generates it, the device(s) it makes input get it typed in
    (whatever the other scripted values are).  Covers all 12 Passkey Entry cells of Table 2.8,
    including those where a KeyboardDisplay device inputs. *)
Theorem C14_spec_roles_user_succeeds :
  forall pi pr sc si sr ri rr P, wf_params pi -> wf_params pr ->
  sel_of_peer (peer_of_params pi) = Some si -> sel_of_peer (peer_of_params pr) = Some sr ->
  spec_method si sr = (false, Passkey ri rr) ->
  follows_roles ri rr sc P ->
  sel_method pi pr = 1
  /\ success (r_i (run pi pr sc)) = true /\ success (r_r (run pi pr sc)) = true.
Proof. exact spec_roles_user_succeeds. Qed.

(** ... and the two OOB methods (not implemented) fail on both sides with "OOB not available". *)
Theorem C14_oob_fails_both :
  forall pi pr sc, wf_params pi -> wf_params pr ->
  sel_method pi pr = 2 \/ sel_method pi pr = 6 ->
  failure (r_i (run pi pr sc)) = true /\ failure (r_r (run pi pr sc)) = true
  /\ s_fail (r_i (run pi pr sc)) = Some 2 /\ s_fail (r_r (run pi pr sc)) = Some 2.
Proof. exact oob_fails_both. Qed.

(** ---- sequences of pairing procedures through the SAME two stacks ----
    [run_seq si sr l]: each step re-pairs the same connection ([SameConn]), pairs on a new
    connection handle of the same stacks ([NewConn]) or on the same handle after a disconnection
    ([Reconnect]); on the same connection what survives [reset_state()] (SMP state code, passkey
    counter, registered link key, the crypto manager of that handle, encrypted flag) is carried
    over, a new or re-opened handle starts with none of it; for lists of ANY length (induction over
    the list, from any startable states).  Every
    procedure of the sequence ends in the same outcome on both sides, and on success each stack got
    one set_encryption whose session key is e(key, SKD) with key = the STK / LTK of THAT procedure:
    nothing of an earlier procedure leaks into a later session key. *)
Theorem C14_sequence_session_key_agrees :
  forall (l : list step_t) (si sr : sst),
  startable si -> startable sr -> Forall wf_step l ->
  Forall (fun cr : ctl * result =>
            let '(c, r) := cr in
            r_quiet r = true /\ s_exc (r_i r) = false /\ s_exc (r_r r) = false /\
            ((failure (r_i r) = true /\ failure (r_r r) = true) \/
             (success (r_i r) = true /\ success (r_r r) = true /\
              exists key,
                s_setenc (r_i r) = [(t_e key, key)] /\ s_setenc (r_r r) = [(t_e key, key)]
                /\ (if is_lesc_method (c_method c) then option_map trev (s_ltk (r_i r)) = Some key
                    else s_stk (r_i r) = key)
                /\ s_stk (r_i r) = s_stk (r_r r))))
         (run_seq si sr l).
Proof. exact seq_session_key_agrees. Qed.

(** ... and what each procedure appends to the two security databases is exactly what was
    distributed in that procedure (LTK with ITS Rand and EDIV; [CryptographicDatabase.add]'s
    "rand is None or ediv is None" test is modelled as written, see [mk_ltk]). *)
Theorem C14_sequence_stored_is_distributed :
  forall (l : list step_t) (si sr : sst),
  startable si -> startable sr -> Forall wf_step l ->
  Forall (fun cr : ctl * result =>
            let '(c, r) := cr in
            success (r_i r) = true -> success (r_r r) = true ->
            s_db (r_i r) = (if c_bond_i c
                            then [expected_own_entry false (r_i r) (spec_auth (c_method c));
                                  expected_peer_entry c true (r_r r) (spec_auth (c_method c))] else [])
            /\ s_db (r_r r) = (if c_bond_r c
                               then [expected_own_entry true (r_r r) (spec_auth (c_method c));
                                     expected_peer_entry c false (r_i r) (spec_auth (c_method c))] else []))
         (run_seq si sr l).
Proof. exact seq_stored_is_distributed. Qed.

Theorem C14_first_procedure_startable : startable st_init.
Proof. exact st_init_startable. Qed.

(** The swept domain of controls (the bound behind the "for all parameters" above). *)
Theorem C14_control_domain :
  N.of_nat (length all_ctls) = 8192 /\
  forall pi pr sc, wf_params pi -> wf_params pr ->
    control_of pi pr sc = set_handles (a_handle pi) (a_handle pr) (control0 pi pr sc) /\ In (control0 pi pr sc) all_ctls.
Proof. exact (conj all_ctls_length (fun pi pr sc Hi Hr => conj eq_refl (control_of_in pi pr sc Hi Hr))). Qed.

(** Non-vacuity: a legacy Passkey Entry run (initiator KeyboardOnly + MITM, responder DisplayOnly,
    key sizes 7 and 16, bonding on one side only) meets the hypotheses, succeeds, and its STK is
    s1(TK, Srand, Mrand); the same run with a wrong passkey fails on both sides. *)
Example C14_nonvacuous :
  let pi := {| a_lesc := false; a_oob := false; a_mitm := true; a_bond := true; a_iocap := 2; a_mks := 7; a_kd := 7; a_handle := 0 |} in
  let pr := {| a_lesc := false; a_oob := false; a_mitm := false; a_bond := false; a_iocap := 0; a_mks := 16; a_kd := 5; a_handle := 3839 |} in
  let good := {| u_gen_i := 1; u_gen_r := 123456; u_typed_i := 123456; u_typed_r := 0; u_nc_i := true; u_nc_r := true |} in
  let bad := {| u_gen_i := 1; u_gen_r := 123456; u_typed_i := 123457; u_typed_r := 0; u_nc_i := true; u_nc_r := true |} in
  wf_params pi /\ wf_params pr /\ sel_method pi pr = 1
  /\ success (r_i (run pi pr good)) = true /\ success (r_r (run pi pr good)) = true
  /\ s_stk (r_i (run pi pr good)) = t_s1 (TAtom aTk 0) (TRnd true 0 0) (TRnd false 0 0)
  /\ length (s_db (r_i (run pi pr good))) = 2%nat /\ s_db (r_r (run pi pr good)) = []
  /\ failure (r_i (run pi pr bad)) = true /\ failure (r_r (run pi pr bad)) = true.
Proof. cbv zeta. unfold wf_params. cbn [a_iocap]. repeat split; try (vm_compute; reflexivity). Qed.
