(** C14 stage A — glue between the GENERATED selection function (GenTable.v) and the
    hand-typed specification tables (Spec.v).  Definitions only. *)
From Coq Require Import List NArith Bool.
From Whad Require Import C14.Base C14.Spec.
From Whad Require Import C14.GenTable.
Import ListNotations.

(** The [SM_Peer] view of a specification parameter set. *)
Definition peer_of (s : sel_params) : peer :=
  {| p_lesc := sp_sc s; p_oob := sp_oob s; p_mitm := sp_mitm s; p_iocap := iocap_code (sp_io s) |}.

(** PM_* code of a specification method (constants.py numbering, typed by hand:
    0 legacy Just Works, 1 legacy Passkey, 2 legacy OOB, 3 LESC Just Works,
    4 LESC Numeric Comparison, 5 LESC Passkey, 6 LESC OOB). *)
Definition method_code (m : bool * assoc) : option N :=
  match m with
  | (false, JustWorks) => Some 0 | (false, Passkey _ _) => Some 1 | (false, OutOfBand) => Some 2
  | (true, JustWorks) => Some 3 | (true, NumericComparison) => Some 4
  | (true, Passkey _ _) => Some 5 | (true, OutOfBand) => Some 6
  | (false, NumericComparison) => None     (* does not exist in LE legacy pairing *)
  end%N.

Definition spec_kres (i r : sel_params) : kres :=
  match method_code (spec_method i r) with Some m => KMethod m | None => KNone end.

Definition method_ok (ir : sel_params * sel_params) : bool :=
  kres_eqb (key_generation_method_selection (peer_of (fst ir)) (peer_of (snd ir)))
           (spec_kres (fst ir) (snd ir)).

(** Python-level parameters (what the harness passes): lesc, oob, mitm, iocap code. *)
Definition sel_of_peer (p : peer) : option sel_params :=
  match iocap_of_code (p_iocap p) with
  | Some io => Some {| sp_sc := p_lesc p; sp_oob := p_oob p; sp_mitm := p_mitm p; sp_io := io |}
  | None => None
  end.

(** AUTHENTICATED_METHODS agrees with the specification's notion. *)
Definition authenticated_code (m : N) : bool := existsb (N.eqb m) AUTHENTICATED_METHODS.
Definition auth_ok (ir : sel_params * sel_params) : bool :=
  match method_code (spec_method (fst ir) (snd ir)) with
  | Some m => Bool.eqb (authenticated_code m) (spec_authenticated (spec_assoc (fst ir) (snd ir)))
  | None => false
  end.

(** ---- passkey roles of LE legacy Passkey Entry ([get_pin_code]) ---- *)
Definition spec_pin_src (r : pk_role) : pin_src :=
  match r with Displays => PinGenerated | Inputs => PinTyped end.

Definition roles_ok (ir : sel_params * sel_params) : bool :=
  let '(i, r) := ir in
  match spec_method i r with
  | (false, Passkey ri rr) =>
      pin_src_eqb (get_pin_code_source true (iocap_code (sp_io i)) (iocap_code (sp_io r))) (spec_pin_src ri)
      && pin_src_eqb (get_pin_code_source false (iocap_code (sp_io r)) (iocap_code (sp_io i))) (spec_pin_src rr)
  | _ => true
  end.

(** ---- correspondence entry points (evaluated by the harness on the LIVE function) ---- *)

(** case: ((lesc, oob, mitm, iocap) of initiator, same of responder, live result)
    live result: Some (Some m) = returned m; Some None = returned None; None = raised *)
Definition mkpeer (t : bool * bool * bool * N) : peer :=
  let '(l, o, m, io) := t in {| p_lesc := l; p_oob := o; p_mitm := m; p_iocap := io |}.

Definition kres_of_live (x : option (option N)) : kres :=
  match x with Some (Some m) => KMethod m | Some None => KNone | None => KKeyError end.

(** translator validation: generated function = live function *)
Definition check_translated (c : (bool * bool * bool * N) * (bool * bool * bool * N) * option (option N)) : bool :=
  let '(i, r, live) := c in
  kres_eqb (key_generation_method_selection (mkpeer i) (mkpeer r)) (kres_of_live live).

(** property oracle: live function = specification tables *)
Definition check_live_is_spec (c : (bool * bool * bool * N) * (bool * bool * bool * N) * option (option N)) : bool :=
  let '(i, r, live) := c in
  match sel_of_peer (mkpeer i), sel_of_peer (mkpeer r) with
  | Some si, Some sr => kres_eqb (kres_of_live live) (spec_kres si sr)
  | _, _ => false
  end.

(** get_pin_code: (is_initiator, own iocap code, peer iocap code, live source: true = typed by the user) *)
Definition check_pin_source (c : bool * N * N * bool) : bool :=
  let '(init, io, peer, typed) := c in
  pin_src_eqb (get_pin_code_source init io peer) (if typed then PinTyped else PinGenerated).

(** passkey roles of Table 2.8 as codes, for the harness's scripted user
    (0 Just Works, 1 initiator displays / responder inputs, 2 responder displays / initiator inputs,
     3 both input, 4 numeric comparison); index = 5 * initiator code + responder code *)
Definition roles_code (a : assoc) : N :=
  match a with
  | JustWorks => 0 | Passkey Displays Inputs => 1 | Passkey Inputs Displays => 2 | Passkey Inputs Inputs => 3
  | Passkey Displays Displays => 9 | NumericComparison => 4 | OutOfBand => 5
  end%N.
Definition spec_roles_table : list (N * N) :=
  flat_map (fun i => map (fun r => (roles_code (fst (table_2_8 i r)), roles_code (snd (table_2_8 i r)))) all_iocaps) all_iocaps.
