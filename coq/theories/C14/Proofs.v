(** C14 stage B — lemmas about the two-party model (see Model.v). *)
From Coq Require Import List NArith Bool Lia.
From Whad Require Import C14.Base C14.Spec C14.GenTable C14.Sel C14.SelProofs C14.Model.
Import ListNotations.
Local Open Scope N_scope.

(** ---- equality of terms ---- *)
Section term_ind2.
  Variable P : term -> Prop.
  Hypothesis HB : forall l, P (TBytes l).
  Hypothesis HA : forall a k, P (TAtom a k).
  Hypothesis HR : forall s p n, P (TRnd s p n).
  Hypothesis HK : forall s p, P (TKey s p).
  Hypothesis HRev : forall t, P t -> P (TRev t).
  Hypothesis HPad : forall t, P t -> P (TPad t).
  Hypothesis HF : forall f args, Forall P args -> P (TFun f args).
  Hypothesis HD : P TDh.
  Hypothesis HX : forall s, P (TPkx s).
  Fixpoint term_ind2 (t : term) : P t :=
    match t with
    | TBytes l => HB l | TAtom a k => HA a k | TRnd s p n => HR s p n | TKey s p => HK s p
    | TRev x => HRev x (term_ind2 x) | TPad x => HPad x (term_ind2 x)
    | TFun f args =>
        HF f args ((fix go (l : list term) : Forall P l :=
                      match l with [] => Forall_nil P | x :: r => Forall_cons x (term_ind2 x) (go r) end) args)
    | TDh => HD | TPkx s => HX s
    end.
End term_ind2.

Lemma bytes_eqb_sound a : forall b, bytes_eqb a b = true -> a = b.
Proof.
  induction a as [|x a IH]; intros [|y b] H; simpl in H; try discriminate; try reflexivity.
  apply andb_true_iff in H as [H1 H2]. apply N.eqb_eq in H1. apply IH in H2. congruence.
Qed.

Lemma term_eqb_sound : forall a b, term_eqb a b = true -> a = b.
Proof.
  intros a. induction a as [l|a k|s p n|s p|t IHa|t IHa|f args HFa| |s] using term_ind2; intros b H; destruct b; simpl in H; try discriminate.
  - apply bytes_eqb_sound in H. congruence.
  - apply andb_true_iff in H as [H1 H2]. apply N.eqb_eq in H1, H2. congruence.
  - apply andb_true_iff in H as [H12 H3]. apply andb_true_iff in H12 as [H1 H2].
    apply Bool.eqb_prop in H1. apply N.eqb_eq in H2, H3. congruence.
  - apply andb_true_iff in H as [H1 H2]. apply Bool.eqb_prop in H1. apply N.eqb_eq in H2. congruence.
  - f_equal. apply IHa. exact H.
  - f_equal. apply IHa. exact H.
  - apply andb_true_iff in H as [H1 H2]. apply N.eqb_eq in H1. subst f0. f_equal.
    revert args0 H2. induction HFa as [|x l Hx Hl IH]; intros [|y l'] H2; try discriminate; try reflexivity.
    apply andb_true_iff in H2 as [H3 H4]. f_equal; [apply Hx; exact H3 | apply IH; exact H4].
  - reflexivity.
  - apply Bool.eqb_prop in H. congruence.
Qed.

Lemma opt_term_eqb_sound a b : opt_eqb term_eqb a b = true -> a = b.
Proof.
  destruct a, b; simpl; intros H; try discriminate; try reflexivity. f_equal. apply term_eqb_sound. exact H.
Qed.

(** ---- the first differing passkey round ---- *)
Lemma fdr_spec n : forall k a b,
  fdr n k a b = 21 \/ (k <= fdr n k a b < k + N.of_nat n /\ a <> b).
Proof.
  induction n as [|n IH]; intros k a b; cbn [fdr]; [left; reflexivity|].
  destruct (Bool.eqb (N.testbit a (k - 1)) (N.testbit b (k - 1))) eqn:E.
  - destruct (IH (k + 1) a b) as [H | [H1 H2]]; [left; exact H | right; split; [lia | exact H2]].
  - right. split; [lia|]. intros ->. rewrite Bool.eqb_reflx in E. discriminate.
Qed.

Lemma first_diff_round_cases a b :
  (first_diff_round a b = 21) \/ (In (first_diff_round a b) rounds /\ N.eqb a b = false).
Proof.
  unfold first_diff_round. destruct (fdr_spec 20 1 a b) as [H | [H1 H2]]; [left; exact H | right].
  split.
  - set (r := fdr 20 1 a b) in *. cbn [N.of_nat Pos.of_succ_nat Pos.succ] in H1.
    assert (Hr : r = 1 \/ r = 2 \/ r = 3 \/ r = 4 \/ r = 5 \/ r = 6 \/ r = 7 \/ r = 8 \/ r = 9 \/ r = 10 \/
                 r = 11 \/ r = 12 \/ r = 13 \/ r = 14 \/ r = 15 \/ r = 16 \/ r = 17 \/ r = 18 \/ r = 19 \/ r = 20) by lia.
    unfold rounds. simpl. intuition.
  - apply N.eqb_neq. exact H2.
Qed.

(** ---- membership in the swept domain ---- *)
Lemma in_bools b : In b bools.
Proof. destruct b; simpl; tauto. Qed.

Lemma in_methods m : m < 7 -> In m methods.
Proof.
  intros H. assert (Hm : m = 0 \/ m = 1 \/ m = 2 \/ m = 3 \/ m = 4 \/ m = 5 \/ m = 6) by lia.
  unfold methods. simpl. intuition.
Qed.

Lemma in_all_ctls m s ei ii si er ir sr bi br :
  m < 7 -> In s (scripts_for m) -> In (mk_ctl m s ei ii si er ir sr bi br) all_ctls.
Proof.
  intros Hm Hs. unfold all_ctls.
  apply in_flat_map. exists m. split; [apply in_methods; exact Hm|].
  apply in_flat_map. exists s. split; [exact Hs|].
  apply in_flat_map. exists ei. split; [apply in_bools|].
  apply in_flat_map. exists ii. split; [apply in_bools|].
  apply in_flat_map. exists si. split; [apply in_bools|].
  apply in_flat_map. exists er. split; [apply in_bools|].
  apply in_flat_map. exists ir. split; [apply in_bools|].
  apply in_flat_map. exists sr. split; [apply in_bools|].
  apply in_flat_map. exists bi. split; [apply in_bools|].
  apply in_map. apply in_bools.
Qed.

Lemma sel_method_lt pi pr : wf_params pi -> wf_params pr -> sel_method pi pr < 7.
Proof.
  intros Hi Hr. unfold sel_method.
  destruct (method_is_spec_peers (peer_of_params pi) (peer_of_params pr) Hi Hr) as [sp [sq [_ [_ H]]]].
  rewrite H. destruct (spec_kres_is_method sp sq) as [m [Hm Hlt]]. rewrite Hm. exact Hlt.
Qed.

Lemma control_of_in pi pr sc : wf_params pi -> wf_params pr -> In (control0 pi pr sc) all_ctls.
Proof.
  intros Hi Hr. pose proof (sel_method_lt pi pr Hi Hr) as Hm.
  unfold control0. set (m := sel_method pi pr) in *.
  match goal with |- In {| c_method := m; c_enc_i := ?ei; c_id_i := ?ii; c_sign_i := ?si; c_enc_r := ?er; c_id_r := ?ir;
                           c_sign_r := ?sr; c_bond_i := ?bi; c_bond_r := ?br; c_pin_eq := ?pe; c_nc_i := ?ni; c_nc_r := ?nr;
                           c_fdb := ?fd; c_pk_eq := ?pk; c_hi := 0; c_hr := 0 |} _ =>
    change (In (mk_ctl m (pe, ni, nr, fd, pk) ei ii si er ir sr bi br) all_ctls) end.
  apply in_all_ctls; [exact Hm|].
  assert (Hc : m = 0 \/ m = 1 \/ m = 2 \/ m = 3 \/ m = 4 \/ m = 5 \/ m = 6) by lia.
  destruct Hc as [-> | [-> | [-> | [-> | [-> | [-> | ->]]]]]]; cbn [N.eqb Pos.eqb scripts_for].
  - simpl. tauto.
  - destruct (N.eqb _ _); simpl; tauto.
  - simpl. tauto.
  - simpl. tauto.
  - destruct (u_nc_i sc), (u_nc_r sc); simpl; tauto.
  - apply in_or_app.
    destruct (first_diff_round_cases (u_typed_i sc) (u_typed_r sc)) as [H | [H1 H2]].
    + right. rewrite H. destruct (N.eqb _ _); simpl; tauto.
    + left. rewrite H2. apply in_map_iff. exists (first_diff_round (u_typed_i sc) (u_typed_r sc)). split; [reflexivity | exact H1].
  - simpl. tauto.
Qed.

(** ---- the sweep ---- *)
Lemma all_ctls_length : N.of_nat (length all_ctls) = 8192.
Proof. vm_compute. reflexivity. Qed.

(** for ARBITRARY connection handles on the two sides (free variables: the evaluation never inspects them) *)
Lemma chk_sweep : forall hi hr : N,
  forallb (fun c => chk_result (set_handles hi hr c) (sym_run (set_handles hi hr c))) all_ctls = true.
Proof. intros hi hr. vm_compute. reflexivity. Qed.

Lemma chk_run pi pr sc : wf_params pi -> wf_params pr ->
  chk_result (control_of pi pr sc) (sym_run (control_of pi pr sc)) = true.
Proof.
  intros Hi Hr.
  pose proof (proj1 (forallb_forall _ all_ctls) (chk_sweep (a_handle pi) (a_handle pr)) _ (control_of_in pi pr sc Hi Hr)) as H.
  cbv beta in H. exact H.
Qed.

(** ---- unpacking [chk_all] ---- *)
Lemma implb'_elim a b : implb' a b = true -> a = true -> b = true.
Proof. unfold implb'. destruct a, b; simpl; intros; congruence. Qed.

Record run_facts (c : ctl) (r : result) : Prop := {
  rf_quiet : r_quiet r = true;
  rf_steps : (r_steps r <? 250) = true;
  rf_noexc_i : s_exc (r_i r) = false;
  rf_noexc_r : s_exc (r_r r) = false;
  rf_agree : (both success r || both failure r) = true;
  rf_success : both success r = true ->
     keys_ok c r = true /\ session_ok c r = true /\ stored_ok c false (r_i r) (r_r r) = true
     /\ stored_ok c true (r_r r) (r_i r) = true /\ dist_present c false (r_i r) = true /\ dist_present c true (r_r r) = true;
  rf_failure : both failure r = true ->
     s_db (r_i r) = [] /\ s_db (r_r r) = [] /\ s_setenc (r_i r) = [] /\ s_setenc (r_r r) = [];
  rf_oob : is_oob_method (c_method c) = true -> both (fail_is 2) r = true;
  rf_honest : is_oob_method (c_method c) = false -> honest c = true -> both success r = true;
  rf_dishonest : honest c = false -> both failure r = true }.

Lemma chk_result_facts c r : chk_result c r = true -> run_facts c r.
Proof.
  unfold chk_result. cbv zeta. intros H.
  repeat match type of H with (_ && _) = true => let H' := fresh "K" in apply andb_true_iff in H as [H H'] end.
  apply negb_true_iff in K5, K6.
  constructor; try assumption.
  - intros Hs. pose proof (implb'_elim _ _ K3 Hs) as H1.
    repeat match type of H1 with (_ && _) = true => let H' := fresh "L" in apply andb_true_iff in H1 as [H1 H'] end.
    repeat split; assumption.
  - intros Hf. pose proof (implb'_elim _ _ K2 Hf) as H1. apply andb_true_iff in H1 as [H1 H2].
    destruct (s_db (r_i r)), (s_db (r_r r)); try discriminate.
    destruct (s_setenc (r_i r)), (s_setenc (r_r r)); try discriminate. repeat split; reflexivity.
  - intros Ho. exact (implb'_elim _ _ K1 Ho).
  - intros Ho Hh. apply (implb'_elim _ _ K0). rewrite Ho, Hh. reflexivity.
  - intros Hh. apply (implb'_elim _ _ K). rewrite Hh. reflexivity.
Qed.

Lemma run_facts_of pi pr sc :
  wf_params pi -> wf_params pr -> run_facts (control_of pi pr sc) (run pi pr sc).
Proof. intros Hi Hr. unfold run. apply chk_result_facts. exact (chk_run pi pr sc Hi Hr). Qed.

Lemma both_split f r : both f r = true -> f (r_i r) = true /\ f (r_r r) = true.
Proof. unfold both. intros H. apply andb_true_iff in H. exact H. Qed.

(** ---- consequences of the facts, for an abstract run (keeps [run] folded in the proofs) ---- *)
Section Facts.
  Variables (c : ctl) (r : result).
  Hypothesis F : run_facts c r.

  Lemma f_outcomes :
    r_quiet r = true /\ s_exc (r_i r) = false /\ s_exc (r_r r) = false /\
    ((success (r_i r) = true /\ success (r_r r) = true) \/ (failure (r_i r) = true /\ failure (r_r r) = true)).
  Proof.
    destruct F as [Q _ E1 E2 Ag _ _ _ _ _]. repeat split; try assumption.
    apply orb_true_iff in Ag as [H | H]; [left | right]; apply both_split; exact H.
  Qed.

  Lemma f_both (f : sst -> bool) : f (r_i r) = true -> f (r_r r) = true -> both f r = true.
  Proof. intros H1 H2. unfold both. rewrite H1, H2. reflexivity. Qed.

  Lemma f_keys :
    success (r_i r) = true -> success (r_r r) = true ->
    s_stk (r_i r) = s_stk (r_r r)
    /\ (3 <= c_method c -> s_ltk (r_i r) = s_ltk (r_r r) /\ s_ltk (r_i r) <> None)
    /\ s_method (r_i r) = Some (c_method c) /\ s_method (r_r r) = Some (c_method c).
  Proof.
    intros Si Sr. destruct (rf_success _ _ F (f_both _ Si Sr)) as [K _]. unfold keys_ok in K.
    repeat match type of K with (_ && _) = true => let H' := fresh "K" in apply andb_true_iff in K as [K H'] end.
    split; [apply term_eqb_sound; exact K|]. split.
    - intros Hm. assert (Hl : is_lesc_method (c_method c) = true) by (apply N.leb_le; exact Hm).
      pose proof (implb'_elim _ _ K2 Hl) as H1. apply andb_true_iff in H1 as [H1 H2].
      split; [apply opt_term_eqb_sound; exact H1|]. destruct (s_ltk (r_i r)); discriminate.
    - split.
      + destruct (s_method (r_i r)); simpl in K1; try discriminate. apply N.eqb_eq in K1. congruence.
      + destruct (s_method (r_r r)); simpl in K0; try discriminate. apply N.eqb_eq in K0. congruence.
  Qed.

  Lemma f_session :
    success (r_i r) = true -> success (r_r r) = true ->
    exists key,
      s_setenc (r_i r) = [(t_e key, key)] /\ s_setenc (r_r r) = [(t_e key, key)]
      /\ (if is_lesc_method (c_method c) then option_map trev (s_ltk (r_i r)) = Some key else s_stk (r_i r) = key)
      /\ s_encrypted (r_i r) = true /\ s_encrypted (r_r r) = true.
  Proof.
    intros Si Sr. destruct (rf_success _ _ F (f_both _ Si Sr)) as [_ [K _]]. unfold session_ok in K.
    destruct (s_setenc (r_i r)) as [|[k1 key1] [|? ?]]; try discriminate.
    destruct (s_setenc (r_r r)) as [|[k2 key2] [|? ?]]; try discriminate.
    repeat match type of K with (_ && _) = true => let H' := fresh "K" in apply andb_true_iff in K as [K H'] end.
    apply term_eqb_sound in K, K4, K3. subst k2 key2 k1.
    exists key1. repeat split; try assumption; try reflexivity.
    destruct (is_lesc_method (c_method c)).
    - apply opt_term_eqb_sound in K2. symmetry. exact K2.
    - apply term_eqb_sound in K2. symmetry. exact K2.
  Qed.
End Facts.

(** ---- stored = distributed ---- *)
Lemma ediv_eqb_sound a b : ediv_eqb a b = true -> a = b.
Proof. destruct a, b; simpl; intros H; try discriminate; try reflexivity. apply Bool.eqb_prop in H. congruence. Qed.

Lemma dbent_eqb_sound a b : dbent_eqb a b = true -> a = b.
Proof.
  destruct a as [a1 a2 a3 a4 a5], b as [b1 b2 b3 b4 b5]. unfold dbent_eqb. cbn [d_addr d_auth d_ltk d_irk d_csrk]. intros H.
  repeat match type of H with (_ && _) = true => let H' := fresh "K" in apply andb_true_iff in H as [H H'] end.
  apply Bool.eqb_prop in H, K2. apply opt_term_eqb_sound in K0, K. subst.
  f_equal. destruct a3 as [[[l1 r1] e1]|], b3 as [[[l2 r2] e2]|]; simpl in K1; try discriminate; try reflexivity.
  repeat match type of K1 with (_ && _) = true => let H' := fresh "L" in apply andb_true_iff in K1 as [K1 H'] end.
  apply term_eqb_sound in K1, L0. apply ediv_eqb_sound in L. congruence.
Qed.

Lemma db_list_eqb_sound a : forall b, list_eqb dbent_eqb a b = true -> a = b.
Proof.
  induction a as [|x a IH]; intros [|y b] H; simpl in H; try discriminate; try reflexivity.
  apply andb_true_iff in H as [H1 H2]. apply dbent_eqb_sound in H1. apply IH in H2. congruence.
Qed.

Lemma stored_ok_sound c x sx sy :
  stored_ok c x sx sy = true ->
  s_db sx = if own_bond c x
            then [expected_own_entry x sx (spec_auth (c_method c)); expected_peer_entry c (negb x) sy (spec_auth (c_method c))]
            else [].
Proof.
  unfold stored_ok. destruct (own_bond c x); intros H.
  - apply db_list_eqb_sound. exact H.
  - destruct (s_db sx); [reflexivity | discriminate].
Qed.

Section Facts2.
  Variables (c : ctl) (r : result).
  Hypothesis F : run_facts c r.

  Lemma f_stored :
    success (r_i r) = true -> success (r_r r) = true ->
    s_db (r_i r) = (if c_bond_i c
                    then [expected_own_entry false (r_i r) (spec_auth (c_method c));
                          expected_peer_entry c true (r_r r) (spec_auth (c_method c))] else [])
    /\ s_db (r_r r) = (if c_bond_r c
                       then [expected_own_entry true (r_r r) (spec_auth (c_method c));
                             expected_peer_entry c false (r_i r) (spec_auth (c_method c))] else [])
    /\ dist_present c false (r_i r) = true /\ dist_present c true (r_r r) = true.
  Proof.
    intros Si Sr. destruct (rf_success _ _ F (f_both r _ Si Sr)) as [_ [_ [S1 [S2 [D1 D2]]]]].
    apply stored_ok_sound in S1, S2. cbn [own_bond negb] in S1, S2.
    repeat split; assumption.
  Qed.

  Lemma f_failure_clean :
    failure (r_i r) = true -> failure (r_r r) = true ->
    s_db (r_i r) = [] /\ s_db (r_r r) = [] /\ s_setenc (r_i r) = [] /\ s_setenc (r_r r) = [].
  Proof. intros Fi Fr. exact (rf_failure _ _ F (f_both r _ Fi Fr)). Qed.

  Lemma f_dishonest : honest c = false -> failure (r_i r) = true /\ failure (r_r r) = true.
  Proof. intros H. apply both_split. exact (rf_dishonest _ _ F H). Qed.

  Lemma f_honest : is_oob_method (c_method c) = false -> honest c = true -> success (r_i r) = true /\ success (r_r r) = true.
  Proof. intros Ho H. apply both_split. exact (rf_honest _ _ F Ho H). Qed.

  Lemma f_oob : is_oob_method (c_method c) = true ->
    failure (r_i r) = true /\ failure (r_r r) = true /\ s_fail (r_i r) = Some 2 /\ s_fail (r_r r) = Some 2.
  Proof.
    intros Ho. destruct (both_split _ _ (rf_oob _ _ F Ho)) as [H1 H2]. unfold fail_is in H1, H2.
    apply andb_true_iff in H1 as [A1 B1]. apply andb_true_iff in H2 as [A2 B2].
    repeat split; try assumption.
    - destruct (s_fail (r_i r)); simpl in B1; try discriminate. apply N.eqb_eq in B1. congruence.
    - destruct (s_fail (r_r r)); simpl in B2; try discriminate. apply N.eqb_eq in B2. congruence.
  Qed.
End Facts2.

Lemma control_method pi pr sc : c_method (control_of pi pr sc) = sel_method pi pr.
Proof. reflexivity. Qed.

(** ---- honesty of the scripted user in terms of the concrete parameters ---- *)
Lemma fdr_same n : forall k a, fdr n k a a = 21.
Proof. induction n as [|n IH]; intros k a; cbn [fdr]; [reflexivity|]. rewrite Bool.eqb_reflx. apply IH. Qed.

Lemma honest_method_1 pi pr sc : sel_method pi pr = 1 ->
  honest (control_of pi pr sc) = N.eqb (eff_pin_i pi pr sc) (eff_pin_r pi pr sc).
Proof. intros H. unfold honest, control_of, set_handles, control0. cbn [c_pin_eq c_nc_i c_nc_r c_fdb c_pk_eq]. rewrite H. cbn [N.eqb Pos.eqb]. rewrite !andb_true_r. reflexivity. Qed.

Lemma honest_method_4 pi pr sc : sel_method pi pr = 4 ->
  honest (control_of pi pr sc) = u_nc_i sc && u_nc_r sc.
Proof. intros H. unfold honest, control_of, set_handles, control0. cbn [c_pin_eq c_nc_i c_nc_r c_fdb c_pk_eq]. rewrite H. cbn [N.eqb Pos.eqb]. rewrite !andb_true_r. reflexivity. Qed.

Lemma honest_method_5 pi pr sc : sel_method pi pr = 5 ->
  honest (control_of pi pr sc) = N.eqb (u_typed_i sc) (u_typed_r sc).
Proof.
  intros H. unfold honest, control_of, set_handles, control0. cbn [c_pin_eq c_nc_i c_nc_r c_fdb c_pk_eq]. rewrite H. cbn [N.eqb Pos.eqb andb].
  destruct (N.eqb (u_typed_i sc) (u_typed_r sc)) eqn:E.
  - apply N.eqb_eq in E. rewrite E. unfold first_diff_round. rewrite fdr_same. reflexivity.
  - apply andb_false_r.
Qed.

Lemma honest_method_other pi pr sc :
  sel_method pi pr <> 1 -> sel_method pi pr <> 4 -> sel_method pi pr <> 5 -> honest (control_of pi pr sc) = true.
Proof.
  intros H1 H4 H5. unfold honest, control_of, set_handles, control0. cbn [c_pin_eq c_nc_i c_nc_r c_fdb c_pk_eq].
  apply N.eqb_neq in H1, H4, H5. rewrite H1, H4, H5. reflexivity.
Qed.

(** ---- the theorems at the level of [run] ---- *)
Lemma outcomes_agree pi pr sc :
  wf_params pi -> wf_params pr ->
  r_quiet (run pi pr sc) = true /\ s_exc (r_i (run pi pr sc)) = false /\ s_exc (r_r (run pi pr sc)) = false /\
  ((success (r_i (run pi pr sc)) = true /\ success (r_r (run pi pr sc)) = true)
   \/ (failure (r_i (run pi pr sc)) = true /\ failure (r_r (run pi pr sc)) = true)).
Proof. intros Hi Hr. exact (f_outcomes _ _ (run_facts_of pi pr sc Hi Hr)). Qed.

Lemma fuel_enough pi pr sc :
  wf_params pi -> wf_params pr -> r_steps (run pi pr sc) < 250 /\ r_quiet (run pi pr sc) = true.
Proof.
  intros Hi Hr. destruct (run_facts_of pi pr sc Hi Hr) as [Q S _ _ _ _ _ _ _ _].
  split; [apply N.ltb_lt; exact S | exact Q].
Qed.

Lemma keys_agree pi pr sc :
  wf_params pi -> wf_params pr ->
  success (r_i (run pi pr sc)) = true -> success (r_r (run pi pr sc)) = true ->
  s_stk (r_i (run pi pr sc)) = s_stk (r_r (run pi pr sc))
  /\ (3 <= sel_method pi pr -> s_ltk (r_i (run pi pr sc)) = s_ltk (r_r (run pi pr sc)) /\ s_ltk (r_i (run pi pr sc)) <> None)
  /\ s_method (r_i (run pi pr sc)) = Some (sel_method pi pr) /\ s_method (r_r (run pi pr sc)) = Some (sel_method pi pr).
Proof. intros Hi Hr. exact (f_keys _ _ (run_facts_of pi pr sc Hi Hr)). Qed.

Lemma keys_agree_interp pi pr sc (interp : term -> list N) :
  wf_params pi -> wf_params pr ->
  success (r_i (run pi pr sc)) = true -> success (r_r (run pi pr sc)) = true ->
  interp (s_stk (r_i (run pi pr sc))) = interp (s_stk (r_r (run pi pr sc)))
  /\ (3 <= sel_method pi pr ->
      option_map interp (s_ltk (r_i (run pi pr sc))) = option_map interp (s_ltk (r_r (run pi pr sc)))).
Proof.
  intros Hi Hr Si Sr. destruct (keys_agree pi pr sc Hi Hr Si Sr) as [H1 [H2 _]].
  split; [rewrite H1; reflexivity|]. intros Hm. destruct (H2 Hm) as [H3 _]. rewrite H3. reflexivity.
Qed.

Lemma session_key_agrees pi pr sc :
  wf_params pi -> wf_params pr ->
  success (r_i (run pi pr sc)) = true -> success (r_r (run pi pr sc)) = true ->
  exists key,
    s_setenc (r_i (run pi pr sc)) = [(t_e key, key)] /\ s_setenc (r_r (run pi pr sc)) = [(t_e key, key)]
    /\ (if is_lesc_method (sel_method pi pr) then option_map trev (s_ltk (r_i (run pi pr sc))) = Some key
        else s_stk (r_i (run pi pr sc)) = key)
    /\ s_encrypted (r_i (run pi pr sc)) = true /\ s_encrypted (r_r (run pi pr sc)) = true.
Proof. intros Hi Hr. exact (f_session _ _ (run_facts_of pi pr sc Hi Hr)). Qed.

Lemma stored_is_distributed pi pr sc :
  wf_params pi -> wf_params pr ->
  success (r_i (run pi pr sc)) = true -> success (r_r (run pi pr sc)) = true ->
  let c := control_of pi pr sc in
  s_db (r_i (run pi pr sc)) = (if a_bond pi
      then [expected_own_entry false (r_i (run pi pr sc)) (spec_auth (sel_method pi pr));
            expected_peer_entry c true (r_r (run pi pr sc)) (spec_auth (sel_method pi pr))] else [])
  /\ s_db (r_r (run pi pr sc)) = (if a_bond pr
      then [expected_own_entry true (r_r (run pi pr sc)) (spec_auth (sel_method pi pr));
            expected_peer_entry c false (r_i (run pi pr sc)) (spec_auth (sel_method pi pr))] else [])
  /\ dist_present c false (r_i (run pi pr sc)) = true /\ dist_present c true (r_r (run pi pr sc)) = true.
Proof. intros Hi Hr. exact (f_stored _ _ (run_facts_of pi pr sc Hi Hr)). Qed.

Lemma failure_leaves_nothing pi pr sc :
  wf_params pi -> wf_params pr ->
  failure (r_i (run pi pr sc)) = true -> failure (r_r (run pi pr sc)) = true ->
  s_db (r_i (run pi pr sc)) = [] /\ s_db (r_r (run pi pr sc)) = []
  /\ s_setenc (r_i (run pi pr sc)) = [] /\ s_setenc (r_r (run pi pr sc)) = [].
Proof. intros Hi Hr. exact (f_failure_clean _ _ (run_facts_of pi pr sc Hi Hr)). Qed.

Lemma wrong_passkey_fails_both pi pr sc :
  wf_params pi -> wf_params pr ->
  (sel_method pi pr = 1 /\ eff_pin_i pi pr sc <> eff_pin_r pi pr sc)
  \/ (sel_method pi pr = 5 /\ u_typed_i sc <> u_typed_r sc)
  \/ (sel_method pi pr = 4 /\ (u_nc_i sc && u_nc_r sc) = false) ->
  failure (r_i (run pi pr sc)) = true /\ failure (r_r (run pi pr sc)) = true.
Proof.
  intros Hi Hr H. apply (f_dishonest _ _ (run_facts_of pi pr sc Hi Hr)).
  destruct H as [[Hm Hn] | [[Hm Hn] | [Hm Hn]]].
  - rewrite (honest_method_1 _ _ _ Hm). apply N.eqb_neq. exact Hn.
  - rewrite (honest_method_5 _ _ _ Hm). apply N.eqb_neq. exact Hn.
  - rewrite (honest_method_4 _ _ _ Hm). exact Hn.
Qed.

Lemma correct_interaction_succeeds pi pr sc :
  wf_params pi -> wf_params pr ->
  sel_method pi pr <> 2 -> sel_method pi pr <> 6 ->
  (sel_method pi pr = 1 -> eff_pin_i pi pr sc = eff_pin_r pi pr sc) ->
  (sel_method pi pr = 5 -> u_typed_i sc = u_typed_r sc) ->
  (sel_method pi pr = 4 -> u_nc_i sc = true /\ u_nc_r sc = true) ->
  success (r_i (run pi pr sc)) = true /\ success (r_r (run pi pr sc)) = true.
Proof.
  intros Hi Hr H2 H6 P1 P5 P4. apply (f_honest _ _ (run_facts_of pi pr sc Hi Hr)).
  - rewrite control_method. unfold is_oob_method. apply N.eqb_neq in H2, H6. rewrite H2, H6. reflexivity.
  - destruct (N.eq_dec (sel_method pi pr) 1) as [E1|E1]; [rewrite (honest_method_1 _ _ _ E1); apply N.eqb_eq; auto|].
    destruct (N.eq_dec (sel_method pi pr) 4) as [E4|E4];
      [rewrite (honest_method_4 _ _ _ E4); destruct (P4 E4) as [-> ->]; reflexivity|].
    destruct (N.eq_dec (sel_method pi pr) 5) as [E5|E5]; [rewrite (honest_method_5 _ _ _ E5); apply N.eqb_eq; auto|].
    apply honest_method_other; assumption.
Qed.

Lemma oob_fails_both pi pr sc :
  wf_params pi -> wf_params pr ->
  sel_method pi pr = 2 \/ sel_method pi pr = 6 ->
  failure (r_i (run pi pr sc)) = true /\ failure (r_r (run pi pr sc)) = true
  /\ s_fail (r_i (run pi pr sc)) = Some 2 /\ s_fail (r_r (run pi pr sc)) = Some 2.
Proof.
  intros Hi Hr H. apply (f_oob _ _ (run_facts_of pi pr sc Hi Hr)).
  rewrite control_method. unfold is_oob_method. destruct H as [-> | ->]; reflexivity.
Qed.

(** the method the model runs with is the specification's *)
Lemma run_method_is_spec pi pr :
  wf_params pi -> wf_params pr ->
  exists si sr, sel_of_peer (peer_of_params pi) = Some si /\ sel_of_peer (peer_of_params pr) = Some sr
                /\ spec_kres si sr = KMethod (sel_method pi pr).
Proof.
  intros Hi Hr. destruct (method_is_spec_peers (peer_of_params pi) (peer_of_params pr) Hi Hr) as [si [sr [H1 [H2 H3]]]].
  exists si, sr. split; [exact H1|]. split; [exact H2|].
  unfold sel_method. rewrite H3. destruct (spec_kres_is_method si sr) as [m [Hm _]]. rewrite Hm. reflexivity.
Qed.

(** ---- sequences of procedures through the same two stacks ----
    The sweep again, from ARBITRARY carried-over values (registered key, crypto manager, passkey
    counter, encrypted flag are universally quantified: the evaluation never inspects them before
    the procedure has overwritten them). *)
Lemma chk_sweep_from :
  forall (sti str cnti cntr : N) (ki kr li lr : option term) (ei er : bool),
    (sti = 0 \/ sti = 255) -> (str = 0 \/ str = 255) ->
    forall hi hr : N,
    forallb (fun c => chk_result (set_handles hi hr c)
                        (sym_run_from (start_state sti cnti ki li ei) (start_state str cntr kr lr er) (set_handles hi hr c)))
            all_ctls = true.
Proof.
  intros sti str cnti cntr ki kr li lr ei er [-> | ->] [-> | ->] hi hr; vm_compute; reflexivity.
Qed.

Lemma carry_start m s : startable s ->
  exists st cnt k l e, (st = 0 \/ st = 255) /\ carry m s = start_state st cnt k l e.
Proof.
  intros [Hs _]. destruct m; cbn [carry].
  - exists (s_state s), (s_cnt s), (s_enckey s), (s_llcm s), (s_encrypted s). split; [exact Hs | reflexivity].
  - exists 0, 1, None, None, false. split; [left; reflexivity | reflexivity].
  - exists 0, 1, None, None, false. split; [left; reflexivity | reflexivity].
Qed.

Lemma facts_startable c r : run_facts c r -> startable (r_i r) /\ startable (r_r r).
Proof.
  intros F. destruct (f_outcomes c r F) as [_ [E1 [E2 [[S1 S2] | [F1 F2]]]]].
  - unfold success in S1, S2.
    repeat match goal with H : (_ && _) = true |- _ => apply andb_true_iff in H as [? ?] end.
    split; (split; [right; apply N.eqb_eq; assumption | assumption]).
  - unfold failure in F1, F2.
    repeat match goal with H : (_ && _) = true |- _ => apply andb_true_iff in H as [? ?] end.
    split; (split; [left; apply N.eqb_eq; assumption | assumption]).
Qed.

Definition wf_step (x : step_t) : Prop := let '(m, pi, pr, sc) := x in wf_params pi /\ wf_params pr.

Lemma seq_facts : forall (l : list step_t) (si sr : sst),
  startable si -> startable sr -> Forall wf_step l ->
  Forall (fun cr => run_facts (fst cr) (snd cr)) (run_seq si sr l).
Proof.
  induction l as [|[[[m pi] pr] sc] l IH]; intros si sr Hi Hr Hl; cbn [run_seq]; [constructor|].
  inversion Hl as [|x l' Hw Hl']; subst. cbn [wf_step] in Hw. destruct Hw as [Wi Wr].
  destruct (carry_start m si Hi) as [sti [cnti [ki [li [ei [Hsti Ei]]]]]].
  destruct (carry_start m sr Hr) as [str [cntr [kr [lr [er [Hstr Er]]]]]].
  assert (F : run_facts (control_of pi pr sc) (sym_run_from (carry m si) (carry m sr) (control_of pi pr sc))).
  { rewrite Ei, Er. apply chk_result_facts.
    pose proof (proj1 (forallb_forall _ _) (chk_sweep_from sti str cnti cntr ki kr li lr ei er Hsti Hstr
                                                          (a_handle pi) (a_handle pr)) _
                      (control_of_in pi pr sc Wi Wr)) as H.
    cbv beta in H. exact H. }
  constructor; [exact F|].
  destruct (facts_startable _ _ F) as [S1 S2]. apply IH; assumption.
Qed.

Lemma st_init_startable : startable st_init.
Proof. split; [left; reflexivity | reflexivity]. Qed.

(** each procedure of a sequence: same outcome on both sides; on success one set_encryption per
    stack with the session key e(key, SKD) where key is THIS procedure's STK / LTK *)
Lemma seq_session_key_agrees : forall (l : list step_t) (si sr : sst),
  startable si -> startable sr -> Forall wf_step l ->
  Forall (fun cr : ctl * result =>
            let '(c, r) := cr in
            r_quiet r = true /\ s_exc (r_i r) = false /\ s_exc (r_r r) = false /\
            ((failure (r_i r) = true /\ failure (r_r r) = true) \/
             (success (r_i r) = true /\ success (r_r r) = true /\
              exists key,
                s_setenc (r_i r) = [(t_e key, key)] /\ s_setenc (r_r r) = [(t_e key, key)]
                /\ (if is_lesc_method (c_method c) then option_map trev (s_ltk (r_i r)) = Some key
                    else s_stk (r_i r) = key)
                /\ s_stk (r_i r) = s_stk (r_r r))))
         (run_seq si sr l).
Proof.
  intros l si sr Hi Hr Hl. pose proof (seq_facts l si sr Hi Hr Hl) as H.
  eapply Forall_impl; [|exact H]. intros [c r] F. cbn [fst snd] in F.
  destruct (f_outcomes c r F) as [Q [E1 [E2 [[S1 S2] | [F1 F2]]]]]; repeat split; try assumption.
  - right. split; [exact S1|]. split; [exact S2|].
    destruct (f_session c r F S1 S2) as [key [A [B [K _]]]].
    destruct (f_keys c r F S1 S2) as [EqStk _].
    exists key. repeat split; assumption.
  - left. split; assumption.
Qed.

Lemma seq_stored_is_distributed : forall (l : list step_t) (si sr : sst),
  startable si -> startable sr -> Forall wf_step l ->
  Forall (fun cr : ctl * result =>
            let '(c, r) := cr in
            success (r_i r) = true -> success (r_r r) = true ->
            s_db (r_i r) = (if c_bond_i c
                            then [expected_own_entry false (r_i r) (spec_auth (c_method c));
                                  expected_peer_entry c true (r_r r) (spec_auth (c_method c))] else [])
            /\ s_db (r_r r) = (if c_bond_r c
                               then [expected_own_entry true (r_r r) (spec_auth (c_method c));
                                     expected_peer_entry c false (r_i r) (spec_auth (c_method c))] else []))
         (run_seq si sr l).
Proof.
  intros l si sr Hi Hr Hl. pose proof (seq_facts l si sr Hi Hr Hl) as H.
  eapply Forall_impl; [|exact H]. intros [c r] F. cbn [fst snd] in F. intros S1 S2.
  destruct (f_stored c r F S1 S2) as [A [B _]]. split; assumption.
Qed.

(** ---- the user follows the SPECIFICATION's Passkey Entry roles ----
    [P] is the passkey of the session: the device Table 2.8 makes display generates it, the
    device(s) it makes input get it typed in. *)
Definition follows_roles (ri rr : pk_role) (sc : script) (P : N) : Prop :=
  (match ri with Displays => u_gen_i sc = P | Inputs => u_typed_i sc = P end) /\
  (match rr with Displays => u_gen_r sc = P | Inputs => u_typed_r sc = P end).

Lemma pin_src_eqb_sound a b : pin_src_eqb a b = true -> a = b.
Proof. destruct a, b; simpl; intros H; try discriminate; reflexivity. Qed.

Lemma sel_of_peer_code p s : (p_iocap p < 5) -> sel_of_peer p = Some s -> iocap_code (sp_io s) = p_iocap p.
Proof.
  intros Hlt H. destruct (sel_of_peer_some p Hlt) as [s' [H1 H2]]. rewrite H in H1. injection H1 as <-.
  rewrite <- H2. reflexivity.
Qed.

Lemma spec_roles_user_succeeds pi pr sc si sr ri rr P :
  wf_params pi -> wf_params pr ->
  sel_of_peer (peer_of_params pi) = Some si -> sel_of_peer (peer_of_params pr) = Some sr ->
  spec_method si sr = (false, Passkey ri rr) ->
  follows_roles ri rr sc P ->
  sel_method pi pr = 1
  /\ success (r_i (run pi pr sc)) = true /\ success (r_r (run pi pr sc)) = true.
Proof.
  intros Hi Hr Ei Er Hm [Fi Fr].
  assert (M : sel_method pi pr = 1).
  { unfold sel_method.
    destruct (method_is_spec_peers (peer_of_params pi) (peer_of_params pr) Hi Hr) as [si' [sr' [H1 [H2 H3]]]].
    rewrite Ei in H1. rewrite Er in H2. injection H1 as <-. injection H2 as <-.
    rewrite H3. unfold spec_kres. rewrite Hm. reflexivity. }
  split; [exact M|].
  pose proof (legacy_passkey_roles si sr) as R. unfold roles_ok in R. rewrite Hm in R.
  apply andb_true_iff in R as [R1 R2]. apply pin_src_eqb_sound in R1, R2.
  rewrite (sel_of_peer_code (peer_of_params pi) si Hi Ei), (sel_of_peer_code (peer_of_params pr) sr Hr Er) in R1, R2.
  cbn [peer_of_params p_iocap] in R1, R2.
  apply correct_interaction_succeeds; try assumption; try (rewrite M; discriminate).
  intros _. unfold eff_pin_i, eff_pin_r, eff_pin. rewrite R1, R2.
  destruct ri, rr; cbn [spec_pin_src]; cbn in Fi, Fr; congruence.
Qed.
