(** C14 stage B — executable two-party model of SMP pairing between two WHAD stacks
    (whad/ble/stack/smp/__init__.py handlers, the LL encryption start of
    whad/ble/stack/llm/__init__.py) over a TERM ALGEBRA for the cryptographic toolbox.
    Handlers are transcribed branch by branch, per SMP state, as they exist in the
    (repaired) code.  Definitions only. *)
From Coq Require Import List NArith Bool.
From Whad Require Import C14.Base C14.GenTable.
Import ListNotations.
Local Open Scope N_scope.

(** ---- terms ---- *)
Inductive term :=
| TBytes (l : list N)                 (* a literal byte string *)
| TAtom (a : N) (k : N)               (* parameter-dependent literal, see [atom_value] *)
| TRnd (side : bool) (purpose n : N)  (* n-th random draw of a side for a purpose *)
| TKey (side : bool) (purpose : N)    (* generated key (LTK 1, IRK 3, CSRK 4), padded to 16 bytes by its owner *)
| TRev (t : term)                     (* byte reversal [::-1] *)
| TPad (t : term)                     (* zero padding to 16 bytes *)
| TFun (f : N) (args : list term)     (* toolbox function applied to arguments *)
| TDh                                 (* ECDH shared secret of the two key pairs (dh a b = dh b a) *)
| TPkx (side : bool).                 (* X coordinate of a side's public key *)

(* toolbox function codes *)
Definition fC1 := 1. Definition fS1 := 2. Definition fF4 := 3. Definition fF5a := 4.
Definition fF5b := 5. Definition fF6 := 6. Definition fG2 := 7. Definition fE := 8.

Fixpoint bytes_eqb (a b : list N) : bool :=
  match a, b with
  | [], [] => true
  | x :: a', y :: b' => N.eqb x y && bytes_eqb a' b'
  | _, _ => false
  end.

Fixpoint term_eqb (a b : term) {struct a} : bool :=
  match a, b with
  | TBytes x, TBytes y => bytes_eqb x y
  | TAtom a1 k1, TAtom a2 k2 => N.eqb a1 a2 && N.eqb k1 k2
  | TRnd s1 p1 n1, TRnd s2 p2 n2 => Bool.eqb s1 s2 && N.eqb p1 p2 && N.eqb n1 n2
  | TKey s1 p1, TKey s2 p2 => Bool.eqb s1 s2 && N.eqb p1 p2
  | TRev x, TRev y => term_eqb x y
  | TPad x, TPad y => term_eqb x y
  | TFun f x, TFun g y =>
      N.eqb f g &&
      (fix leq (x y : list term) {struct x} : bool :=
         match x, y with
         | [], [] => true
         | p :: x', q :: y' => term_eqb p q && leq x' y'
         | _, _ => false
         end) x y
  | TDh, TDh => true
  | TPkx s1, TPkx s2 => Bool.eqb s1 s2
  | _, _ => false
  end.

(** [v[::-1]] with the two simplifications the harness also applies when it maps bytes
    back to terms: reversing twice is the identity, reversing a literal is a literal. *)
Definition trev (t : term) : term :=
  match t with TRev x => x | TBytes l => TBytes (rev l) | _ => TRev t end.

Definition opt_eqb {A} (e : A -> A -> bool) (a b : option A) : bool :=
  match a, b with Some x, Some y => e x y | None, None => true | _, _ => false end.

(** ---- atoms: literals that depend on the pairing parameters ---- *)
Definition aPreqRev := 1.  (* bytes(SM_Hdr()/pairing_req)[::-1] *)
Definition aPresRev := 2.
Definition aIat := 3.      (* pack('<B', initiator.address_type) *)
Definition aIa := 4.       (* initiator.address[::-1] *)
Definition aRat := 5.
Definition aRa := 6.
Definition aA1I := 7.      (* address type byte + address, initiator (f5/f6) *)
Definition aA1R := 8.
Definition aIoI := 9.      (* bytes([authentication, oob, iocap]) of the initiator *)
Definition aIoR := 10.
Definition aTk := 11.      (* legacy TK from a pin; k = 0 initiator's pin, 1 responder's pin *)
Definition aBit := 12.     (* LESC passkey bit byte; k = 32*side + round *)
Definition aPk := 13.      (* LESC passkey as the 16-byte r of f6; k = side *)
Definition aSkd := 14.     (* slave_skd + master_skd *)

Definition zero16 : term := TBytes (repeat 0 16).
Definition zero8 : term := TBytes (repeat 0 8).
Definition byte0 : term := TBytes [0].

(** ---- control: everything the flow of control of a run depends on ---- *)
Record ctl := {
  c_method : N;                          (* PM_* code selected for the exchanged parameters *)
  c_enc_i : bool; c_id_i : bool; c_sign_i : bool;   (* initiator key distribution flags *)
  c_enc_r : bool; c_id_r : bool; c_sign_r : bool;   (* responder key distribution flags *)
  c_bond_i : bool; c_bond_r : bool;      (* each side's own bonding parameter *)
  c_pin_eq : bool;                       (* legacy passkey: the two effective pins are equal *)
  c_nc_i : bool; c_nc_r : bool;          (* answers to the numeric comparison prompt *)
  c_fdb : N;                             (* LESC passkey: first round (1..20) whose bits differ, 21 = none *)
  c_pk_eq : bool;                        (* LESC passkey: the two typed values are equal *)
  c_hi : N; c_hr : N                     (* connection handle on the central / on the peripheral: opaque keys, never inspected *)
}.

(** The connection handle is the KEY under which a stack keeps the connection record (registered link
    key), the L2CAP/SMP instances and the LinkLayer's crypto manager; one [sst] is the value at that
    key.  The only places where the code looks at the handle itself are the tests
    [conn_handle is not None] of start_encryption / on_enc_req / on_enc_rsp: *)
Definition own_handle (c : ctl) (me : bool) : option N := Some (if me then c_hr c else c_hi c).
Definition key_for_handle (h : option N) (registered : option term) : option term :=
  match h with Some _ => registered | None => None end.
Definition set_handles (hi hr : N) (c : ctl) : ctl :=
  {| c_method := c_method c; c_enc_i := c_enc_i c; c_id_i := c_id_i c; c_sign_i := c_sign_i c;
     c_enc_r := c_enc_r c; c_id_r := c_id_r c; c_sign_r := c_sign_r c; c_bond_i := c_bond_i c; c_bond_r := c_bond_r c;
     c_pin_eq := c_pin_eq c; c_nc_i := c_nc_i c; c_nc_r := c_nc_r c; c_fdb := c_fdb c; c_pk_eq := c_pk_eq c;
     c_hi := hi; c_hr := hr |}.

(** ediv of a distributed LTK: 0 (LESC), or the value drawn by a side *)
Inductive ediv_t := EZero | EOf (side : bool).
Definition ediv_eqb (a b : ediv_t) : bool :=
  match a, b with EZero, EZero => true | EOf x, EOf y => Bool.eqb x y | _, _ => false end.

(** security database entry: side whose address it is, authenticated, (ltk, rand, ediv), irk, csrk *)
Record dbent := { d_addr : bool; d_auth : bool; d_ltk : option (term * term * ediv_t);
                  d_irk : option term; d_csrk : option term }.

(** ---- messages ---- *)
Inductive msg :=
| MPreq | MPres
| MConfirm (t : term) | MRandom (t : term) | MFailed (code : N)
| MEncInfo (t : term) | MMasterId (rand : term) (ediv : ediv_t)
| MIdInfo (t : term) | MIdAddr | MSignInfo (t : term)
| MPubKey | MDhk (t : term)
| LEncReq | LEncRsp | LStartEncReq | LStartEncRsp | LReject.

(** ---- state of one stack ---- *)
Record sst := {
  s_state : N; s_fail : option N; s_exc : bool; s_method : option N;
  s_tk : term; s_stk : term;
  s_ltk : option term; s_rand : option term; s_ediv : option ediv_t;
  s_irk : option term; s_csrk : option term; s_mackey : option term;
  s_haskey : bool; s_shared : bool;
  s_iconf : option term; s_irand : option term; s_rconf : option term; s_rrand : option term;
  s_cnt : N; s_nonce : N;
  s_peer : bool;                                   (* the peer's SM_Peer object exists *)
  s_p_ltk : option term; s_p_rand : option term; s_p_ediv : option ediv_t;
  s_p_irk : option term; s_p_addr : bool; s_p_csrk : option term;
  s_enckey : option term; s_llcm : option term;
  s_setenc : list (term * term); s_encrypted : bool;
  s_db : list dbent
}.

Definition st_init : sst := {|
  s_state := 0; s_fail := None; s_exc := false; s_method := None;
  s_tk := zero16; s_stk := zero16; s_ltk := None; s_rand := None; s_ediv := None;
  s_irk := None; s_csrk := None; s_mackey := None; s_haskey := false; s_shared := false;
  s_iconf := None; s_irand := None; s_rconf := None; s_rrand := None;
  s_cnt := 1; s_nonce := 0; s_peer := false;
  s_p_ltk := None; s_p_rand := None; s_p_ediv := None; s_p_irk := None; s_p_addr := false; s_p_csrk := None;
  s_enckey := None; s_llcm := None; s_setenc := []; s_encrypted := false; s_db := [] |}.

(** ---- record updates (one setter per field group keeps the handlers readable) ---- *)
Definition upd_core (s : sst) (state : N) : sst :=
  {| s_state := state; s_fail := s_fail s; s_exc := s_exc s; s_method := s_method s;
     s_tk := s_tk s; s_stk := s_stk s; s_ltk := s_ltk s; s_rand := s_rand s; s_ediv := s_ediv s;
     s_irk := s_irk s; s_csrk := s_csrk s; s_mackey := s_mackey s; s_haskey := s_haskey s; s_shared := s_shared s;
     s_iconf := s_iconf s; s_irand := s_irand s; s_rconf := s_rconf s; s_rrand := s_rrand s;
     s_cnt := s_cnt s; s_nonce := s_nonce s; s_peer := s_peer s;
     s_p_ltk := s_p_ltk s; s_p_rand := s_p_rand s; s_p_ediv := s_p_ediv s; s_p_irk := s_p_irk s;
     s_p_addr := s_p_addr s; s_p_csrk := s_p_csrk s;
     s_enckey := s_enckey s; s_llcm := s_llcm s; s_setenc := s_setenc s; s_encrypted := s_encrypted s;
     s_db := s_db s |}.

(** [reset_state()] followed by [state.last_failure = f]: everything of the pairing is
    forgotten; passkey counter, database and link-layer data survive. *)
Definition reset (s : sst) (f : option N) : sst :=
  {| s_state := 0; s_fail := f; s_exc := s_exc s; s_method := None;
     s_tk := zero16; s_stk := zero16; s_ltk := None; s_rand := None; s_ediv := None;
     s_irk := None; s_csrk := None; s_mackey := None; s_haskey := false; s_shared := false;
     s_iconf := None; s_irand := None; s_rconf := None; s_rrand := None;
     s_cnt := s_cnt s; s_nonce := s_nonce s; s_peer := false;
     s_p_ltk := None; s_p_rand := None; s_p_ediv := None; s_p_irk := None; s_p_addr := false; s_p_csrk := None;
     s_enckey := s_enckey s; s_llcm := s_llcm s; s_setenc := s_setenc s; s_encrypted := s_encrypted s;
     s_db := s_db s |}.

Definition raise (s : sst) : sst :=
  {| s_state := s_state s; s_fail := s_fail s; s_exc := true; s_method := s_method s;
     s_tk := s_tk s; s_stk := s_stk s; s_ltk := s_ltk s; s_rand := s_rand s; s_ediv := s_ediv s;
     s_irk := s_irk s; s_csrk := s_csrk s; s_mackey := s_mackey s; s_haskey := s_haskey s; s_shared := s_shared s;
     s_iconf := s_iconf s; s_irand := s_irand s; s_rconf := s_rconf s; s_rrand := s_rrand s;
     s_cnt := s_cnt s; s_nonce := s_nonce s; s_peer := s_peer s;
     s_p_ltk := s_p_ltk s; s_p_rand := s_p_rand s; s_p_ediv := s_p_ediv s; s_p_irk := s_p_irk s;
     s_p_addr := s_p_addr s; s_p_csrk := s_p_csrk s;
     s_enckey := s_enckey s; s_llcm := s_llcm s; s_setenc := s_setenc s; s_encrypted := s_encrypted s;
     s_db := s_db s |}.

(** the pairing part of the state, set as a whole *)
Record pairing_part := {
  q_state : N; q_method : option N; q_tk : term; q_stk : term; q_haskey : bool; q_shared : bool;
  q_iconf : option term; q_irand : option term; q_rconf : option term; q_rrand : option term;
  q_cnt : N; q_nonce : N; q_peer : bool; q_enckey : option term }.

Definition pp (s : sst) : pairing_part :=
  {| q_state := s_state s; q_method := s_method s; q_tk := s_tk s; q_stk := s_stk s;
     q_haskey := s_haskey s; q_shared := s_shared s;
     q_iconf := s_iconf s; q_irand := s_irand s; q_rconf := s_rconf s; q_rrand := s_rrand s;
     q_cnt := s_cnt s; q_nonce := s_nonce s; q_peer := s_peer s; q_enckey := s_enckey s |}.

Definition set_pp (s : sst) (q : pairing_part) : sst :=
  {| s_state := q_state q; s_fail := s_fail s; s_exc := s_exc s; s_method := q_method q;
     s_tk := q_tk q; s_stk := q_stk q; s_ltk := s_ltk s; s_rand := s_rand s; s_ediv := s_ediv s;
     s_irk := s_irk s; s_csrk := s_csrk s; s_mackey := s_mackey s; s_haskey := q_haskey q; s_shared := q_shared q;
     s_iconf := q_iconf q; s_irand := q_irand q; s_rconf := q_rconf q; s_rrand := q_rrand q;
     s_cnt := q_cnt q; s_nonce := q_nonce q; s_peer := q_peer q;
     s_p_ltk := s_p_ltk s; s_p_rand := s_p_rand s; s_p_ediv := s_p_ediv s; s_p_irk := s_p_irk s;
     s_p_addr := s_p_addr s; s_p_csrk := s_p_csrk s;
     s_enckey := q_enckey q; s_llcm := s_llcm s; s_setenc := s_setenc s; s_encrypted := s_encrypted s;
     s_db := s_db s |}.

(** own keys and what the peer distributed *)
Record keys_part := {
  k_ltk : option term; k_rand : option term; k_ediv : option ediv_t; k_irk : option term; k_csrk : option term;
  k_mackey : option term;
  k_p_ltk : option term; k_p_rand : option term; k_p_ediv : option ediv_t;
  k_p_irk : option term; k_p_addr : bool; k_p_csrk : option term }.

Definition kp (s : sst) : keys_part :=
  {| k_ltk := s_ltk s; k_rand := s_rand s; k_ediv := s_ediv s; k_irk := s_irk s; k_csrk := s_csrk s;
     k_mackey := s_mackey s; k_p_ltk := s_p_ltk s; k_p_rand := s_p_rand s; k_p_ediv := s_p_ediv s;
     k_p_irk := s_p_irk s; k_p_addr := s_p_addr s; k_p_csrk := s_p_csrk s |}.

Definition set_kp (s : sst) (k : keys_part) : sst :=
  {| s_state := s_state s; s_fail := s_fail s; s_exc := s_exc s; s_method := s_method s;
     s_tk := s_tk s; s_stk := s_stk s; s_ltk := k_ltk k; s_rand := k_rand k; s_ediv := k_ediv k;
     s_irk := k_irk k; s_csrk := k_csrk k; s_mackey := k_mackey k; s_haskey := s_haskey s; s_shared := s_shared s;
     s_iconf := s_iconf s; s_irand := s_irand s; s_rconf := s_rconf s; s_rrand := s_rrand s;
     s_cnt := s_cnt s; s_nonce := s_nonce s; s_peer := s_peer s;
     s_p_ltk := k_p_ltk k; s_p_rand := k_p_rand k; s_p_ediv := k_p_ediv k; s_p_irk := k_p_irk k;
     s_p_addr := k_p_addr k; s_p_csrk := k_p_csrk k;
     s_enckey := s_enckey s; s_llcm := s_llcm s; s_setenc := s_setenc s; s_encrypted := s_encrypted s;
     s_db := s_db s |}.

(** link-layer part *)
Definition set_ll (s : sst) (llcm : option term) (setenc : list (term * term)) (encrypted : bool) : sst :=
  {| s_state := s_state s; s_fail := s_fail s; s_exc := s_exc s; s_method := s_method s;
     s_tk := s_tk s; s_stk := s_stk s; s_ltk := s_ltk s; s_rand := s_rand s; s_ediv := s_ediv s;
     s_irk := s_irk s; s_csrk := s_csrk s; s_mackey := s_mackey s; s_haskey := s_haskey s; s_shared := s_shared s;
     s_iconf := s_iconf s; s_irand := s_irand s; s_rconf := s_rconf s; s_rrand := s_rrand s;
     s_cnt := s_cnt s; s_nonce := s_nonce s; s_peer := s_peer s;
     s_p_ltk := s_p_ltk s; s_p_rand := s_p_rand s; s_p_ediv := s_p_ediv s; s_p_irk := s_p_irk s;
     s_p_addr := s_p_addr s; s_p_csrk := s_p_csrk s;
     s_enckey := s_enckey s; s_llcm := llcm; s_setenc := setenc; s_encrypted := encrypted;
     s_db := s_db s |}.

Definition set_db (s : sst) (db : list dbent) : sst :=
  {| s_state := 255; s_fail := s_fail s; s_exc := s_exc s; s_method := s_method s;
     s_tk := s_tk s; s_stk := s_stk s; s_ltk := s_ltk s; s_rand := s_rand s; s_ediv := s_ediv s;
     s_irk := s_irk s; s_csrk := s_csrk s; s_mackey := s_mackey s; s_haskey := s_haskey s; s_shared := s_shared s;
     s_iconf := s_iconf s; s_irand := s_irand s; s_rconf := s_rconf s; s_rrand := s_rrand s;
     s_cnt := s_cnt s; s_nonce := s_nonce s; s_peer := s_peer s;
     s_p_ltk := s_p_ltk s; s_p_rand := s_p_rand s; s_p_ediv := s_p_ediv s; s_p_irk := s_p_irk s;
     s_p_addr := s_p_addr s; s_p_csrk := s_p_csrk s;
     s_enckey := s_enckey s; s_llcm := s_llcm s; s_setenc := s_setenc s; s_encrypted := s_encrypted s;
     s_db := db |}.

(** ---- toolbox terms as the handlers build them ---- *)
Definition A (a : N) : term := TAtom a 0.
Definition t_c1 (tk r : term) : term := TFun fC1 [tk; r; A aPresRev; A aPreqRev; A aIat; A aIa; A aRat; A aRa].
Definition t_s1 (tk rr ir : term) : term := TFun fS1 [tk; rr; ir].
Definition t_f4 (u v x z : term) : term := TFun fF4 [u; v; x; z].
(** [f5(shared, initiator.rand, responder.rand, A, B)]: first half / second half *)
Definition t_f5a (ir rr : term) : term := TFun fF5a [TDh; ir; rr; A aA1I; A aA1R].
Definition t_f5b (ir rr : term) : term := TFun fF5b [TDh; ir; rr; A aA1I; A aA1R].
Definition t_f6 (w n1 n2 r io a1 a2 : term) : term := TFun fF6 [w; n1; n2; r; io; a1; a2].
Definition t_e (key : term) : term := TFun fE [key; A aSkd].
Definition pkI : term := TPkx false.
Definition pkR : term := TPkx true.

(** scripted user input, as atoms; [me] = false for the initiator (central), true for the responder *)
Definition tk_pin (c : ctl) (me : bool) : term :=
  if me then (if c_pin_eq c then TAtom aTk 0 else TAtom aTk 1) else TAtom aTk 0.
Definition pk_bit (c : ctl) (me : bool) (k : N) : term :=
  if me then (if k <? c_fdb c then TAtom aBit k else TAtom aBit (32 + k)) else TAtom aBit k.
Definition pk_val (c : ctl) (me : bool) : term :=
  if me then (if c_pk_eq c then TAtom aPk 0 else TAtom aPk 1) else TAtom aPk 0.
Definition nc_answer (c : ctl) (me : bool) : bool := if me then c_nc_r c else c_nc_i c.

Definition own_flags (c : ctl) (me : bool) : bool * bool * bool :=
  if me then (c_enc_r c, c_id_r c, c_sign_r c) else (c_enc_i c, c_id_i c, c_sign_i c).
Definition peer_flags (c : ctl) (me : bool) : bool * bool * bool := own_flags c (negb me).
Definition own_bond (c : ctl) (me : bool) : bool := if me then c_bond_r c else c_bond_i c.

Definition is_legacy (m : N) : bool := (m =? 0) || (m =? 1).
Definition is_lesc_pk (m : N) : bool := (m =? 3) || (m =? 4) || (m =? 5).

Definition fail_with (s : sst) (code : N) : sst * list msg := (reset s (Some code), [MFailed code]).

Definition isSome {A} (o : option A) : bool := match o with Some _ => true | None => false end.

(** [SM_Peer.is_key_distribution_complete()] of the peer's SM_Peer *)
Definition peer_complete (c : ctl) (me : bool) (s : sst) : bool :=
  let '(enc, id, sign) := peer_flags c me in
  (negb enc || (isSome (s_p_ltk s) && isSome (s_p_rand s) && isSome (s_p_ediv s)))
  && (negb id || (isSome (s_p_irk s) && s_p_addr s))
  && (negb sign || isSome (s_p_csrk s)).

(** [pairing_done()] *)
Definition authenticated (s : sst) : bool :=
  match s_method s with Some m => existsb (N.eqb m) AUTHENTICATED_METHODS | None => false end.

Definition mk_ltk (l r : option term) (e : option ediv_t) : option (term * term * ediv_t) :=
  match l with
  | None => None
  | Some lt => match r, e with
               | Some rd, Some ed => Some (trev lt, trev rd, ed)
               | _, _ => Some (trev lt, zero8, EZero)          (* LongTermKey defaults *)
               end
  end.

Definition pairing_done (c : ctl) (me : bool) (s : sst) : sst :=
  if own_bond c me then
    let own := {| d_addr := me; d_auth := authenticated s; d_ltk := mk_ltk (s_ltk s) (s_rand s) (s_ediv s);
                  d_irk := option_map trev (s_irk s); d_csrk := option_map trev (s_csrk s) |} in
    let peer := {| d_addr := negb me; d_auth := authenticated s; d_ltk := mk_ltk (s_p_ltk s) (s_p_rand s) (s_p_ediv s);
                   d_irk := option_map trev (s_p_irk s); d_csrk := option_map trev (s_p_csrk s) |} in
    set_db s (s_db s ++ [own; peer])
  else set_db s (s_db s).

(** [perform_key_distribution()] *)
Definition perform_kd (c : ctl) (me : bool) (s : sst) : sst * list msg :=
  let '(enc, id, sign) := own_flags c me in
  let k := kp s in
  (* legacy: generate LTK/RAND/EDIV (always), send them if the flag is set *)
  let '(k1, out1) :=
    match k_ltk k with
    | None =>
        let l := TKey me 1 in let r := TRnd me 2 0 in
        ({| k_ltk := Some l; k_rand := Some r; k_ediv := Some (EOf me); k_irk := k_irk k; k_csrk := k_csrk k;
            k_mackey := k_mackey k; k_p_ltk := k_p_ltk k; k_p_rand := k_p_rand k; k_p_ediv := k_p_ediv k;
            k_p_irk := k_p_irk k; k_p_addr := k_p_addr k; k_p_csrk := k_p_csrk k |},
         if enc then [MEncInfo l; MMasterId r (EOf me)] else [])
    | Some _ => (k, [])
    end in
  let '(k2, out2) :=
    if id then ({| k_ltk := k_ltk k1; k_rand := k_rand k1; k_ediv := k_ediv k1; k_irk := Some (TKey me 3); k_csrk := k_csrk k1;
                   k_mackey := k_mackey k1; k_p_ltk := k_p_ltk k1; k_p_rand := k_p_rand k1; k_p_ediv := k_p_ediv k1;
                   k_p_irk := k_p_irk k1; k_p_addr := k_p_addr k1; k_p_csrk := k_p_csrk k1 |},
                [MIdInfo (TKey me 3); MIdAddr])
    else (k1, []) in
  let '(k3, out3) :=
    if sign then ({| k_ltk := k_ltk k2; k_rand := k_rand k2; k_ediv := k_ediv k2; k_irk := k_irk k2; k_csrk := Some (TKey me 4);
                     k_mackey := k_mackey k2; k_p_ltk := k_p_ltk k2; k_p_rand := k_p_rand k2; k_p_ediv := k_p_ediv k2;
                     k_p_irk := k_p_irk k2; k_p_addr := k_p_addr k2; k_p_csrk := k_p_csrk k2 |},
                  [MSignInfo (TKey me 4)])
    else (k2, []) in
  let s1 := set_kp s k3 in
  let out := out1 ++ out2 ++ out3 in
  if me then
    (* responder: state DISTRIBUTE_KEY when a CSRK is sent; done when nothing is expected from the initiator *)
    let s2 := if sign then upd_core s1 15 else s1 in
    if peer_complete c me s2 then (pairing_done c me s2, out) else (s2, out)
  else (pairing_done c me s1, out).

(** [on_channel_encrypted()] *)
Definition on_channel_encrypted (c : ctl) (me : bool) (s : sst) : sst * list msg :=
  let st := s_state s in
  if st =? 5 then perform_kd c me s
  else if st =? 6 then (if peer_complete c me s then perform_kd c me s else (s, []))
  else if st =? 12 then perform_kd c me s
  else if st =? 13 then (if peer_complete c me s then perform_kd c me s else (s, []))
  else (s, []).

(** key distribution PDUs: no state check in the code; the peer's SM_Peer must exist *)
Definition on_key_info (c : ctl) (me : bool) (s : sst) (f : keys_part -> keys_part) : sst * list msg :=
  if s_peer s then
    let s1 := set_kp s (f (kp s)) in
    if peer_complete c me s1 then
      (if me then (pairing_done c me s1, []) else perform_kd c me s1)
    else (s1, [])
  else (raise s, []).

(** LESC: [compute_ltk_and_mackey] assigned as (ltk, mackey) := (first half, second half), then ltk reversed;
    both SM_Peer objects are told that LTK/RAND/EDIV are distributed *)
Definition lesc_keys (s : sst) (ir rr : term) : sst :=
  let k := kp s in
  let l := trev (t_f5a ir rr) in
  set_kp s {| k_ltk := Some l; k_rand := Some zero8; k_ediv := Some EZero; k_irk := k_irk k; k_csrk := k_csrk k;
              k_mackey := Some (t_f5b ir rr); k_p_ltk := Some l; k_p_rand := Some zero8; k_p_ediv := Some EZero;
              k_p_irk := k_p_irk k; k_p_addr := k_p_addr k; k_p_csrk := k_p_csrk k |}.

Definition draw_nonce (me : bool) (q : pairing_part) : term := TRnd me 0 (q_nonce q).

(** [LinkLayer.start_encryption(conn_handle, 0, 0)] *)
Definition start_encryption (c : ctl) (me : bool) (s : sst) : list msg :=
  match key_for_handle (own_handle c me) (s_enckey s) with Some _ => [LEncReq] | None => [LReject] end.

(** setters of the pairing part *)
Definition mkq st me tk stk hk sh ic ir rc rr cnt nn pr ek : pairing_part :=
  {| q_state := st; q_method := me; q_tk := tk; q_stk := stk; q_haskey := hk; q_shared := sh;
     q_iconf := ic; q_irand := ir; q_rconf := rc; q_rrand := rr; q_cnt := cnt; q_nonce := nn; q_peer := pr; q_enckey := ek |}.
Definition q_st (q : pairing_part) (n : N) :=
  mkq n (q_method q) (q_tk q) (q_stk q) (q_haskey q) (q_shared q) (q_iconf q) (q_irand q) (q_rconf q) (q_rrand q) (q_cnt q) (q_nonce q) (q_peer q) (q_enckey q).
Definition q_meth (q : pairing_part) (m : option N) (tk : term) (hk pr : bool) :=
  mkq (q_state q) m tk (q_stk q) hk (q_shared q) (q_iconf q) (q_irand q) (q_rconf q) (q_rrand q) (q_cnt q) (q_nonce q) pr (q_enckey q).
Definition q_ic (q : pairing_part) (t : term) :=
  mkq (q_state q) (q_method q) (q_tk q) (q_stk q) (q_haskey q) (q_shared q) (Some t) (q_irand q) (q_rconf q) (q_rrand q) (q_cnt q) (q_nonce q) (q_peer q) (q_enckey q).
Definition q_ir (q : pairing_part) (t : term) :=
  mkq (q_state q) (q_method q) (q_tk q) (q_stk q) (q_haskey q) (q_shared q) (q_iconf q) (Some t) (q_rconf q) (q_rrand q) (q_cnt q) (q_nonce q) (q_peer q) (q_enckey q).
Definition q_rc (q : pairing_part) (t : term) :=
  mkq (q_state q) (q_method q) (q_tk q) (q_stk q) (q_haskey q) (q_shared q) (q_iconf q) (q_irand q) (Some t) (q_rrand q) (q_cnt q) (q_nonce q) (q_peer q) (q_enckey q).
Definition q_rr (q : pairing_part) (t : term) :=
  mkq (q_state q) (q_method q) (q_tk q) (q_stk q) (q_haskey q) (q_shared q) (q_iconf q) (q_irand q) (q_rconf q) (Some t) (q_cnt q) (q_nonce q) (q_peer q) (q_enckey q).
Definition q_drawn (q : pairing_part) :=
  mkq (q_state q) (q_method q) (q_tk q) (q_stk q) (q_haskey q) (q_shared q) (q_iconf q) (q_irand q) (q_rconf q) (q_rrand q) (q_cnt q) (q_nonce q + 1) (q_peer q) (q_enckey q).
Definition q_count (q : pairing_part) (n : N) :=
  mkq (q_state q) (q_method q) (q_tk q) (q_stk q) (q_haskey q) (q_shared q) (q_iconf q) (q_irand q) (q_rconf q) (q_rrand q) n (q_nonce q) (q_peer q) (q_enckey q).
Definition q_share (q : pairing_part) :=
  mkq (q_state q) (q_method q) (q_tk q) (q_stk q) (q_haskey q) true (q_iconf q) (q_irand q) (q_rconf q) (q_rrand q) (q_cnt q) (q_nonce q) (q_peer q) (q_enckey q).
Definition q_stk_key (q : pairing_part) (stk : term) :=
  mkq (q_state q) (q_method q) (q_tk q) stk (q_haskey q) (q_shared q) (q_iconf q) (q_irand q) (q_rconf q) (q_rrand q) (q_cnt q) (q_nonce q) (q_peer q) (Some stk).
Definition q_enc (q : pairing_part) (k : term) :=
  mkq (q_state q) (q_method q) (q_tk q) (q_stk q) (q_haskey q) (q_shared q) (q_iconf q) (q_irand q) (q_rconf q) (q_rrand q) (q_cnt q) (q_nonce q) (q_peer q) (Some k).

Definition meth (s : sst) : N := match s_method s with Some m => m | None => 255 end.

(** method-dependent initialisation shared by on_pairing_request / on_pairing_response:
    None = the method is none of the five implemented ones (OOB) *)
Definition method_init (c : ctl) (me : bool) (q : pairing_part) : option pairing_part :=
  let m := c_method c in
  if m =? 0 then Some (q_meth q (Some m) zero16 false true)
  else if m =? 1 then Some (q_meth q (Some m) (tk_pin c me) false true)
  else if is_lesc_pk m then Some (q_meth q (Some m) (q_tk q) true true)
  else None.

(** [initiate_pairing()] *)
Definition initiate_pairing (c : ctl) (s : sst) : sst * list msg :=
  if (s_state s =? 0) || (s_state s =? 255) then
    (upd_core (reset s None) 2, [MPreq])
  else (s, []).

(** [on_pairing_request] *)
Definition on_pairing_request (c : ctl) (me : bool) (s : sst) : sst * list msg :=
  if (s_state s =? 0) || (s_state s =? 255) then
    let s0 := reset s None in
    match method_init c me (q_st (pp s0) 1) with
    | Some q => (set_pp s0 q, [MPres])
    | None => (reset s0 (Some 2), [MPres; MFailed 2])
    end
  else fail_with s 8.

(** [on_pairing_response] *)
Definition on_pairing_response (c : ctl) (me : bool) (s : sst) : sst * list msg :=
  if s_state s =? 2 then
    match method_init c me (pp s) with
    | None => fail_with s 2
    | Some q =>
        if is_legacy (c_method c) then
          let ir := draw_nonce me q in
          let ic := t_c1 (q_tk q) ir in
          (set_pp s (q_st (q_ic (q_ir (q_drawn q) ir) ic) 3), [MConfirm ic])
        else (set_pp s (q_st q 7), [MPubKey])
    end
  else fail_with s 8.

(** [on_public_key] *)
Definition on_public_key (c : ctl) (me : bool) (s : sst) : sst * list msg :=
  let q := pp s in
  if s_state s =? 1 then
    if negb (s_haskey s) then (raise s, []) else
    let rr := draw_nonce me q in
    let q1 := q_rr (q_drawn (q_share q)) rr in
    if negb (meth s =? 5) then
      let rc := t_f4 pkR pkI rr byte0 in
      (set_pp s (q_st (q_rc q1 rc) 9), [MPubKey; MConfirm rc])
    else (set_pp s (q_st (q_count q1 1) 16), [MPubKey])
  else if s_state s =? 7 then
    if negb (s_haskey s) then (raise s, []) else
    let q1 := q_share q in
    if negb (meth s =? 5) then (set_pp s (q_st q1 8), [])
    else
      let q2 := q_count q1 1 in
      let ir := draw_nonce me q2 in
      let ic := t_f4 pkI pkR ir (pk_bit c me 1) in
      (set_pp s (q_st (q_ic (q_ir (q_drawn q2) ir) ic) 17), [MConfirm ic])
  else (s, []).

(** [on_pairing_confirm] *)
Definition on_pairing_confirm (c : ctl) (me : bool) (s : sst) (t : term) : sst * list msg :=
  let q := pp s in
  let st := s_state s in
  if st =? 1 then
    let rr := draw_nonce me q in
    let rc := t_c1 (q_tk q) rr in
    (set_pp s (q_st (q_rc (q_rr (q_drawn (q_ic q t)) rr) rc) 3), [MConfirm rc])
  else if st =? 3 then
    match s_irand s with
    | Some ir => (set_pp s (q_st (q_rc q t) 5), [MRandom ir])
    | None => (raise s, [])
    end
  else if st =? 8 then
    let ir := draw_nonce me q in
    (set_pp s (q_st (q_ir (q_drawn (q_rc q t)) ir) 10), [MRandom ir])
  else if (st =? 16) || (st =? 18) then
    let rr := draw_nonce me q in
    let rc := t_f4 pkR pkI rr (pk_bit c me (q_cnt q)) in
    (set_pp s (q_st (q_rc (q_rr (q_drawn (q_ic q t)) rr) rc) 17), [MConfirm rc])
  else if st =? 17 then
    match s_irand s with
    | Some ir => (set_pp s (q_st (q_rc q t) 18), [MRandom ir])
    | None => (raise s, [])
    end
  else fail_with s 8.

(** DHKey check values *)
Definition t_ea (mk ir rr r : term) : term := t_f6 mk ir rr r (A aIoI) (A aA1I) (A aA1R).
Definition t_eb (mk ir rr r : term) : term := t_f6 mk rr ir r (A aIoR) (A aA1R) (A aA1I).

(** [on_pairing_random] *)
Definition on_pairing_random (c : ctl) (me : bool) (s : sst) (t : term) : sst * list msg :=
  let q := pp s in
  let st := s_state s in
  if st =? 10 then
    match s_rconf s, s_irand s with
    | Some rc, Some ir =>
        let s1 := set_pp s (q_rr q t) in
        if term_eqb (t_f4 pkR pkI t byte0) rc then
          if (meth s =? 3) || nc_answer c me then
            let s2 := lesc_keys s1 ir t in
            match s_mackey s2 with
            | Some mk => let ea := t_ea mk ir t zero16 in (upd_core s2 12, [MDhk ea])
            | None => (raise s2, [])
            end
          else fail_with s1 12
        else (reset s1 (Some 12), [MFailed 4])
    | _, _ => (raise s, [])
    end
  else if st =? 9 then
    match s_rrand s with
    | Some rr =>
        let s1 := set_pp s (q_ir q t) in
        if (meth s =? 3) || nc_answer c me then (upd_core s1 10, [MRandom rr])
        else (reset s1 (Some 12), [MRandom rr; MFailed 12])
    | None => (raise s, [])
    end
  else if st =? 3 then
    match s_iconf s, s_rrand s with
    | Some ic, Some rr =>
        let q1 := q_ir q t in
        if term_eqb (t_c1 (q_tk q) t) ic then
          (set_pp s (q_st (q_stk_key q1 (t_s1 (q_tk q) rr t)) 5), [MRandom rr])
        else fail_with (set_pp s q1) 4
    | _, _ => (raise s, [])
    end
  else if st =? 18 then
    match s_rconf s, s_irand s with
    | Some rc, Some ir =>
        let q1 := q_rr q t in
        if term_eqb (t_f4 pkR pkI t (pk_bit c me (q_cnt q))) rc then
          if q_cnt q =? 20 then
            let s2 := lesc_keys (set_pp s q1) ir t in
            match s_mackey s2 with
            | Some mk => (upd_core s2 12, [MDhk (t_ea mk ir t (pk_val c me))])
            | None => (raise s2, [])
            end
          else
            let q2 := q_count q1 (q_cnt q + 1) in
            let ir2 := draw_nonce me q2 in
            let ic := t_f4 pkI pkR ir2 (pk_bit c me (q_cnt q2)) in
            (set_pp s (q_st (q_ic (q_ir (q_drawn q2) ir2) ic) 17), [MConfirm ic])
        else fail_with (set_pp s q1) 4
    | _, _ => (raise s, [])
    end
  else if st =? 17 then
    match s_iconf s, s_rrand s with
    | Some ic, Some rr =>
        let q1 := q_ir q t in
        if term_eqb (t_f4 pkI pkR t (pk_bit c me (q_cnt q))) ic then
          if q_cnt q =? 20 then (set_pp s (q_st q1 10), [MRandom rr])
          else (set_pp s (q_st (q_count q1 (q_cnt q + 1)) 18), [MRandom rr])
        else fail_with (set_pp s q1) 4
    | _, _ => (raise s, [])
    end
  else if st =? 5 then
    match s_rconf s, s_irand s with
    | Some rc, Some ir =>
        let q1 := q_rr q t in
        if term_eqb (t_c1 (q_tk q) t) rc then
          let s1 := set_pp s (q_st (q_stk_key q1 (t_s1 (q_tk q) t ir)) 6) in
          (s1, start_encryption c me s1)
        else fail_with (set_pp s q1) 4
    | _, _ => (raise s, [])
    end
  else fail_with s 8.

(** [on_dhkey_check] *)
Definition on_dhkey_check (c : ctl) (me : bool) (s : sst) (t : term) : sst * list msg :=
  let st := s_state s in
  let rb := if meth s =? 5 then pk_val c me else zero16 in
  if st =? 10 then
    match s_irand s, s_rrand s with
    | Some ir, Some rr =>
        let s1 := lesc_keys s ir rr in
        match s_mackey s1, s_ltk s1 with
        | Some mk, Some l =>
            if term_eqb (t_ea mk ir rr rb) t then
              (set_pp s1 (q_st (q_enc (pp s1) (trev l)) 12), [MDhk (t_eb mk ir rr rb)])
            else fail_with s1 11
        | _, _ => (raise s1, [])
        end
    | _, _ => (raise s, [])
    end
  else if st =? 12 then
    match s_irand s, s_rrand s, s_mackey s, s_ltk s with
    | Some ir, Some rr, Some mk, Some l =>
        if term_eqb (t_eb mk ir rr rb) t then
          let s1 := set_pp s (q_st (q_enc (pp s) (trev l)) 13) in
          (s1, start_encryption c me s1)
        else fail_with s 11
    | _, _, _, _ => (raise s, [])
    end
  else fail_with s 8.

(** ---- link layer: LL_ENC_REQ / LL_ENC_RSP / LL_START_ENC_REQ / LL_START_ENC_RSP ---- *)
Definition on_enc_req (c : ctl) (me : bool) (s : sst) : sst * list msg :=
  match key_for_handle (own_handle c me) (s_enckey s) with
  | Some k => (set_ll s (Some k) (s_setenc s ++ [(t_e k, k)]) (s_encrypted s), [LEncRsp; LStartEncReq])
  | None => (s, [LReject])
  end.

Definition on_enc_rsp (c : ctl) (me : bool) (s : sst) : sst * list msg :=
  match key_for_handle (own_handle c me) (s_enckey s) with
  | Some k => (set_ll s (Some k) (s_setenc s) (s_encrypted s), [])
  | None => (s, [LReject])
  end.

Definition on_start_enc_req (s : sst) : sst * list msg :=
  match s_llcm s with
  | Some k => (set_ll s (s_llcm s) (s_setenc s ++ [(t_e k, k)]) (s_encrypted s), [LStartEncRsp])
  | None => (raise s, [])
  end.

Definition on_start_enc_rsp (c : ctl) (me : bool) (s : sst) : sst * list msg :=
  let s1 := set_ll s (s_llcm s) (s_setenc s) true in
  let '(s2, out) := on_channel_encrypted c me s1 in
  (s2, (if me then [LStartEncRsp] else []) ++ out).

Definition upd_k (f : keys_part -> keys_part) := f.

(** ---- dispatch ---- *)
Definition handle (c : ctl) (me : bool) (s : sst) (m : msg) : sst * list msg :=
  match m with
  | MPreq => on_pairing_request c me s
  | MPres => on_pairing_response c me s
  | MConfirm t => on_pairing_confirm c me s t
  | MRandom t => on_pairing_random c me s t
  | MFailed code => (reset s (Some code), [])
  | MPubKey => on_public_key c me s
  | MDhk t => on_dhkey_check c me s t
  | MEncInfo t => on_key_info c me s (fun k =>
      {| k_ltk := k_ltk k; k_rand := k_rand k; k_ediv := k_ediv k; k_irk := k_irk k; k_csrk := k_csrk k; k_mackey := k_mackey k;
         k_p_ltk := Some t; k_p_rand := k_p_rand k; k_p_ediv := k_p_ediv k; k_p_irk := k_p_irk k; k_p_addr := k_p_addr k; k_p_csrk := k_p_csrk k |})
  | MMasterId r e => on_key_info c me s (fun k =>
      {| k_ltk := k_ltk k; k_rand := k_rand k; k_ediv := k_ediv k; k_irk := k_irk k; k_csrk := k_csrk k; k_mackey := k_mackey k;
         k_p_ltk := k_p_ltk k; k_p_rand := Some r; k_p_ediv := Some e; k_p_irk := k_p_irk k; k_p_addr := k_p_addr k; k_p_csrk := k_p_csrk k |})
  | MIdInfo t => on_key_info c me s (fun k =>
      {| k_ltk := k_ltk k; k_rand := k_rand k; k_ediv := k_ediv k; k_irk := k_irk k; k_csrk := k_csrk k; k_mackey := k_mackey k;
         k_p_ltk := k_p_ltk k; k_p_rand := k_p_rand k; k_p_ediv := k_p_ediv k; k_p_irk := Some t; k_p_addr := k_p_addr k; k_p_csrk := k_p_csrk k |})
  | MIdAddr => on_key_info c me s (fun k =>
      {| k_ltk := k_ltk k; k_rand := k_rand k; k_ediv := k_ediv k; k_irk := k_irk k; k_csrk := k_csrk k; k_mackey := k_mackey k;
         k_p_ltk := k_p_ltk k; k_p_rand := k_p_rand k; k_p_ediv := k_p_ediv k; k_p_irk := k_p_irk k; k_p_addr := true; k_p_csrk := k_p_csrk k |})
  | MSignInfo t => on_key_info c me s (fun k =>
      {| k_ltk := k_ltk k; k_rand := k_rand k; k_ediv := k_ediv k; k_irk := k_irk k; k_csrk := k_csrk k; k_mackey := k_mackey k;
         k_p_ltk := k_p_ltk k; k_p_rand := k_p_rand k; k_p_ediv := k_p_ediv k; k_p_irk := k_p_irk k; k_p_addr := k_p_addr k; k_p_csrk := Some t |})
  | LEncReq => on_enc_req c me s
  | LEncRsp => on_enc_rsp c me s
  | LStartEncReq => on_start_enc_req s
  | LStartEncRsp => on_start_enc_rsp c me s
  | LReject => (s, [])
  end.

(** ---- the two stacks back to back: FIFO queue per direction, alternating delivery ---- *)
Record result := { r_i : sst; r_r : sst; r_quiet : bool; r_steps : N }.

Fixpoint pump (fuel : nat) (c : ctl) (si sr : sst) (qi qr : list msg) (n : N) : result :=
  match fuel with
  | O => {| r_i := si; r_r := sr; r_quiet := match qi, qr with [], [] => true | _, _ => false end; r_steps := n |}
  | S f =>
      match qi, qr with
      | [], [] => {| r_i := si; r_r := sr; r_quiet := true; r_steps := n |}
      | _, _ =>
          let '(sr1, qi1, qr1, n1) :=
            match qi with
            | m :: rest => let '(s', out) := handle c true sr m in (s', rest, qr ++ out, n + 1)
            | [] => (sr, qi, qr, n)
            end in
          let '(si1, qi2, qr2, n2) :=
            match qr1 with
            | m :: rest => let '(s', out) := handle c false si m in (s', qi1 ++ out, rest, n1 + 1)
            | [] => (si, qi1, qr1, n1)
            end in
          pump f c si1 sr1 qi2 qr2 n2
      end
  end.

Definition FUEL : nat := 300.

(** A pairing procedure started from given states of the two stacks. *)
Definition sym_run_from (si sr : sst) (c : ctl) : result :=
  let '(si1, out) := initiate_pairing c si in
  pump FUEL c si1 sr out [] 0.

Definition sym_run (c : ctl) : result := sym_run_from st_init st_init c.

(** ---- sequences of pairings through the SAME two stacks ----
    What survives [reset_state()] (called first by [initiate_pairing] and [on_pairing_request]) and
    can therefore reach the next procedure on the SAME connection: the SMP state code, the passkey
    counter, the key registered for the connection, the LinkLayer's crypto manager of that
    connection handle ([LinkLayer.__llcm] is a dictionary keyed by connection handle: assigned in
    on_enc_req / on_enc_rsp, read with [.get(conn_handle)] in on_start_enc_req, popped in
    on_disconnect), the encrypted flag.  The database and the list of set_encryption calls are
    logs: each procedure is observed by what it appends. *)
Definition start_state (st cnt : N) (enckey llcm : option term) (encrypted : bool) : sst :=
  {| s_state := st; s_fail := None; s_exc := false; s_method := None;
     s_tk := zero16; s_stk := zero16; s_ltk := None; s_rand := None; s_ediv := None;
     s_irk := None; s_csrk := None; s_mackey := None; s_haskey := false; s_shared := false;
     s_iconf := None; s_irand := None; s_rconf := None; s_rrand := None;
     s_cnt := cnt; s_nonce := 0; s_peer := false;
     s_p_ltk := None; s_p_rand := None; s_p_ediv := None; s_p_irk := None; s_p_addr := false; s_p_csrk := None;
     s_enckey := enckey; s_llcm := llcm; s_setenc := []; s_encrypted := encrypted; s_db := [] |}.

(** the next procedure runs on the same connection; or on a new connection handle of the same stacks
    (new L2CAP/SMP instances and connection record; no crypto manager is registered for a new
    handle); or on the same handle after a disconnection (on_disconnect drops the L2CAP/SMP
    instances, the connection record and the handle's crypto manager) and a new connection.
    Procedures on DIFFERENT handles share nothing, so interleaving them is the same as running
    each from [carry NewConn]. *)
Inductive mode := SameConn | NewConn | Reconnect.

Definition carry (m : mode) (s : sst) : sst :=
  match m with
  | SameConn => start_state (s_state s) (s_cnt s) (s_enckey s) (s_llcm s) (s_encrypted s)
  | NewConn => start_state 0 1 None None false
  | Reconnect => start_state 0 1 None None false
  end.

(** ---- outcomes ---- *)
Definition success (s : sst) : bool := (s_state s =? 255) && negb (s_exc s) && negb (isSome (s_fail s)).
Definition failure (s : sst) : bool := (s_state s =? 0) && negb (s_exc s) && isSome (s_fail s).

(** ---- concrete parameters, as given to [Pairing(...)] on each side ---- *)
Record params := { a_lesc : bool; a_oob : bool; a_mitm : bool; a_bond : bool; a_iocap : N; a_mks : N; a_kd : N;
                   a_handle : N   (* the connection handle of this pairing on that side's stack *) }.

(** scripted user: what each device would generate and display, what the user types when a
    device asks, the answers to the numeric comparison prompt *)
Record script := { u_gen_i : N; u_gen_r : N; u_typed_i : N; u_typed_r : N; u_nc_i : bool; u_nc_r : bool }.

Definition peer_of_params (p : params) : peer :=
  {| p_lesc := a_lesc p; p_oob := a_oob p; p_mitm := a_mitm p; p_iocap := a_iocap p |}.

(** the GENERATED selection function decides the method *)
Definition sel_method (pi pr : params) : N :=
  match key_generation_method_selection (peer_of_params pi) (peer_of_params pr) with
  | KMethod m => m | _ => 255
  end.

(** the GENERATED [get_pin_code] decision gives the pin a device uses in legacy Passkey Entry *)
Definition eff_pin (is_init : bool) (io peer_io gen typed : N) : N :=
  match get_pin_code_source is_init io peer_io with PinTyped => typed | PinGenerated => gen end.
Definition eff_pin_i (pi pr : params) (sc : script) : N := eff_pin true (a_iocap pi) (a_iocap pr) (u_gen_i sc) (u_typed_i sc).
Definition eff_pin_r (pi pr : params) (sc : script) : N := eff_pin false (a_iocap pr) (a_iocap pi) (u_gen_r sc) (u_typed_r sc).

Fixpoint fdr (n : nat) (k a b : N) : N :=
  match n with
  | O => 21
  | S n' => if Bool.eqb (N.testbit a (k - 1)) (N.testbit b (k - 1)) then fdr n' (k + 1) a b else k
  end.
(** first round 1..20 in which bit (round-1) of the two passkeys differs; 21 if none *)
Definition first_diff_round (a b : N) : N := fdr 20 1 a b.

Definition control0 (pi pr : params) (sc : script) : ctl :=
  let m := sel_method pi pr in
  {| c_method := m;
     c_enc_i := N.testbit (a_kd pi) 0; c_id_i := N.testbit (a_kd pi) 1; c_sign_i := N.testbit (a_kd pi) 2;
     c_enc_r := N.testbit (a_kd pr) 0; c_id_r := N.testbit (a_kd pr) 1; c_sign_r := N.testbit (a_kd pr) 2;
     c_bond_i := a_bond pi; c_bond_r := a_bond pr;
     c_pin_eq := if m =? 1 then N.eqb (eff_pin_i pi pr sc) (eff_pin_r pi pr sc) else true;
     c_nc_i := if m =? 4 then u_nc_i sc else true;
     c_nc_r := if m =? 4 then u_nc_r sc else true;
     c_fdb := if m =? 5 then first_diff_round (u_typed_i sc) (u_typed_r sc) else 21;
     c_pk_eq := if m =? 5 then N.eqb (u_typed_i sc) (u_typed_r sc) else true;
     c_hi := 0; c_hr := 0 |}.

(** ... plus the two connection handles (arbitrary, the two sides' need not be equal) *)
Definition control_of (pi pr : params) (sc : script) : ctl :=
  set_handles (a_handle pi) (a_handle pr) (control0 pi pr sc).

(** [run : params_i -> params_r -> passkeys/answers -> outcome_i * outcome_r]; randomness is
    symbolic ([TRnd], [TKey], [EOf], atom [aSkd]): the result holds for every value drawn. *)
Definition run (pi pr : params) (sc : script) : result := sym_run (control_of pi pr sc).

(** ---- concretisation of atoms (for the correspondence with the implementation) ---- *)
(** [e_bv]: generated items forced to a boundary value: (side, purpose, byte) = every byte of that
    item is [byte] (purposes 1 LTK, 2 RAND, 3 IRK, 4 CSRK) *)
Record env := { e_addr_i : list N; e_atype_i : N; e_addr_r : list N; e_atype_r : N;
                e_skdm : N; e_skds : N; e_ediv_i : N; e_ediv_r : N; e_bv : list (bool * N * N) }.

Fixpoint bv_lookup (l : list (bool * N * N)) (s : bool) (p : N) : option N :=
  match l with
  | [] => None
  | (s', p', b) :: r => if Bool.eqb s s' && N.eqb p p' then Some b else bv_lookup r s p
  end.

Definition b2n (b : bool) : N := if b then 1 else 0.
Definition auth_byte (p : params) : N := b2n (a_bond p) + 4 * b2n (a_mitm p) + 8 * b2n (a_lesc p).
(** SM_Hdr + SM_Pairing_Request: the initiator puts its OWN flags in both distribution fields *)
Definition preq_bytes (pi : params) : list N :=
  [1; a_iocap pi; b2n (a_oob pi); auth_byte pi; a_mks pi; a_kd pi; a_kd pi].
(** SM_Pairing_Response: initiator flags echoed, responder's own flags *)
Definition pres_bytes (pi pr : params) : list N :=
  [2; a_iocap pr; b2n (a_oob pr); auth_byte pr; a_mks pr; a_kd pi; a_kd pr].

Fixpoint be_bytes (n : nat) (v : N) : list N :=
  match n with O => [] | S n' => be_bytes n' (v / 256) ++ [v mod 256] end.

Definition atom_value (pi pr : params) (sc : script) (e : env) (a k : N) : list N :=
  if a =? aPreqRev then rev (preq_bytes pi)
  else if a =? aPresRev then rev (pres_bytes pi pr)
  else if a =? aIat then [e_atype_i e]
  else if a =? aIa then e_addr_i e
  else if a =? aRat then [e_atype_r e]
  else if a =? aRa then e_addr_r e
  else if a =? aA1I then e_atype_i e :: e_addr_i e
  else if a =? aA1R then e_atype_r e :: e_addr_r e
  else if a =? aIoI then [auth_byte pi; b2n (a_oob pi); a_iocap pi]
  else if a =? aIoR then [auth_byte pr; b2n (a_oob pr); a_iocap pr]
  else if a =? aTk then
    repeat 0 12 ++ be_bytes 4 (if k =? 0 then eff_pin_i pi pr sc else eff_pin_r pi pr sc)
  else if a =? aBit then
    (if k <? 32 then [128 + b2n (N.testbit (u_typed_i sc) (k - 1))]
     else [128 + b2n (N.testbit (u_typed_r sc) (k - 33))])
  else if a =? aPk then repeat 0 12 ++ be_bytes 4 (if k =? 0 then u_typed_i sc else u_typed_r sc)
  else if a =? aSkd then be_bytes 8 (e_skds e) ++ be_bytes 8 (e_skdm e)
  else [].

Fixpoint conc (pi pr : params) (sc : script) (e : env) (t : term) {struct t} : term :=
  match t with
  | TAtom a k => TBytes (atom_value pi pr sc e a k)
  | TKey s p =>
      let mks := if s then a_mks pr else a_mks pi in
      match bv_lookup (e_bv e) s p with
      | Some b => TBytes (repeat b (N.to_nat mks) ++ repeat 0 (16 - N.to_nat mks))
      | None => if mks =? 16 then TRnd s p 0 else TPad (TRnd s p 0)
      end
  | TRnd s p n =>
      match bv_lookup (e_bv e) s p with
      | Some b => TBytes (repeat b (if p =? 2 then 8%nat else N.to_nat (if s then a_mks pr else a_mks pi)))
      | None => t
      end
  | TRev x => trev (conc pi pr sc e x)
  | TPad x => TPad (conc pi pr sc e x)
  | TFun f l => TFun f (map (conc pi pr sc e) l)
  | _ => t
  end.

(** ---- observations of one implementation stack ---- *)
Definition obs_db := (bool * bool * option (term * term * N) * option term * option term)%type.
Record obs := { o_state : N; o_fail : option N; o_exc : bool; o_method : option N;
                o_stk : term; o_ltk : option term; o_enckey : option term;
                o_setenc : list (term * term); o_db : list obs_db }.

Definition conc_db (pi pr : params) (sc : script) (e : env) (d : dbent) : obs_db :=
  let cc := conc pi pr sc e in
  (d_addr d, d_auth d,
   option_map (fun x : term * term * ediv_t =>
                 let '(l, r, ed) := x in
                 (cc l, cc r, match ed with EZero => 0 | EOf s => if s then e_ediv_r e else e_ediv_i e end)) (d_ltk d),
   option_map cc (d_irk d), option_map cc (d_csrk d)).

Definition ltk3_eqb (a b : term * term * N) : bool :=
  let '(l1, r1, e1) := a in let '(l2, r2, e2) := b in term_eqb l1 l2 && term_eqb r1 r2 && N.eqb e1 e2.

Definition obs_db_eqb (a b : obs_db) : bool :=
  let '(a1, a2, a3, a4, a5) := a in let '(b1, b2, b3, b4, b5) := b in
  Bool.eqb a1 b1 && Bool.eqb a2 b2 && opt_eqb ltk3_eqb a3 b3 && opt_eqb term_eqb a4 b4 && opt_eqb term_eqb a5 b5.

Fixpoint list_eqb {A} (e : A -> A -> bool) (a b : list A) : bool :=
  match a, b with [], [] => true | x :: a', y :: b' => e x y && list_eqb e a' b' | _, _ => false end.

Definition pair_eqb (a b : term * term) : bool := term_eqb (fst a) (fst b) && term_eqb (snd a) (snd b).

(** components of the comparison model <-> implementation (numbered for diagnostics) *)
Definition side_diff (cmp_key : bool) (pi pr : params) (sc : script) (e : env) (s : sst) (o : obs) : list N :=
  let cc := conc pi pr sc e in
  (if N.eqb (s_state s) (o_state o) then [] else [1])
  ++ (if opt_eqb N.eqb (s_fail s) (o_fail o) then [] else [2])
  ++ (if Bool.eqb (s_exc s) (o_exc o) then [] else [3])
  ++ (if opt_eqb N.eqb (s_method s) (o_method o) then [] else [4])
  ++ (if term_eqb (cc (s_stk s)) (o_stk o) then [] else [5])
  ++ (if opt_eqb term_eqb (option_map cc (s_ltk s)) (o_ltk o) then [] else [6])
  ++ (if negb cmp_key || opt_eqb term_eqb (option_map cc (s_enckey s)) (o_enckey o) then [] else [7])
  ++ (if list_eqb pair_eqb (map (fun p => (cc (fst p), cc (snd p))) (s_setenc s)) (o_setenc o) then [] else [8])
  ++ (if list_eqb obs_db_eqb (map (conc_db pi pr sc e) (s_db s)) (o_db o) then [] else [9]).

Definition case_t := (params * params * script * env * (list N * list N * bool) * obs * obs)%type.

(** one procedure from given model states; the registered link key is compared when it is this
    procedure's (first procedure, or the side succeeded) *)
Definition run_diff (first : bool) (si sr : sst) (c : case_t) : list N * result :=
  let '(pi, pr, sc, e, (preq, pres, quiet), oi, orr) := c in
  let r := sym_run_from si sr (control_of pi pr sc) in
  ((if bytes_eqb preq (preq_bytes pi) then [] else [20])
   ++ (if bytes_eqb pres (pres_bytes pi pr) then [] else [21])
   ++ (if Bool.eqb quiet (r_quiet r) then [] else [22])
   ++ side_diff (first || success (r_i r)) pi pr sc e (r_i r) oi
   ++ map (fun x => 100 + x) (side_diff (first || success (r_r r)) pi pr sc e (r_r r) orr), r).

Definition pair_diff (c : case_t) : list N := fst (run_diff true st_init st_init c).
Definition check_pair (c : case_t) : bool := match pair_diff c with [] => true | _ => false end.

(** a sequence of procedures through the same two stacks: (mode, case) list *)
Fixpoint seq_diff (k : N) (first : bool) (si sr : sst) (l : list (mode * case_t)) : list N :=
  match l with
  | [] => []
  | (m, c) :: rest =>
      let '(d, r) := run_diff first (carry m si) (carry m sr) c in
      map (fun x => 1000 * k + x) d ++ seq_diff (k + 1) false (r_i r) (r_r r) rest
  end.

Definition check_seq (l : list (mode * case_t)) : bool :=
  match seq_diff 0 true st_init st_init l with [] => true | _ => false end.

(** ---- the finite domain of controls, and the boolean forms of the theorems ---- *)
Definition script_t := (bool * bool * bool * N * bool)%type.   (* pin_eq, nc_i, nc_r, fdb, pk_eq *)

Definition rounds : list N := [1;2;3;4;5;6;7;8;9;10;11;12;13;14;15;16;17;18;19;20].

Definition scripts_for (m : N) : list script_t :=
  if m =? 1 then [(true, true, true, 21, true); (false, true, true, 21, true)]
  else if m =? 4 then [(true, true, true, 21, true); (true, true, false, 21, true);
                       (true, false, true, 21, true); (true, false, false, 21, true)]
  else if m =? 5 then map (fun k => (true, true, true, k, false)) rounds
                      ++ [(true, true, true, 21, true); (true, true, true, 21, false)]
  else [(true, true, true, 21, true)].

Definition mk_ctl (m : N) (s : script_t) (ei ii si er ir sr bi br : bool) : ctl :=
  let '(pe, ni, nr, fdb, pk) := s in
  {| c_method := m; c_enc_i := ei; c_id_i := ii; c_sign_i := si; c_enc_r := er; c_id_r := ir; c_sign_r := sr;
     c_bond_i := bi; c_bond_r := br; c_pin_eq := pe; c_nc_i := ni; c_nc_r := nr; c_fdb := fdb; c_pk_eq := pk;
     c_hi := 0; c_hr := 0 |}.

Definition bools : list bool := [false; true].
Definition methods : list N := [0; 1; 2; 3; 4; 5; 6].

Definition all_ctls : list ctl :=
  flat_map (fun m => flat_map (fun s =>
  flat_map (fun ei => flat_map (fun ii => flat_map (fun si =>
  flat_map (fun er => flat_map (fun ir => flat_map (fun sr =>
  flat_map (fun bi => map (fun br => mk_ctl m s ei ii si er ir sr bi br) bools) bools) bools) bools) bools) bools) bools) bools)
  (scripts_for m)) methods.

Definition both (f : sst -> bool) (r : result) : bool := f (r_i r) && f (r_r r).
Definition implb' (a b : bool) : bool := negb a || b.

Definition is_lesc_method (m : N) : bool := 3 <=? m.
Definition is_oob_method (m : N) : bool := (m =? 2) || (m =? 6).

(** user interaction is honest / dishonest, at the level of the control *)
Definition honest (c : ctl) : bool := c_pin_eq c && c_nc_i c && c_nc_r c && (c_fdb c =? 21) && c_pk_eq c.

(** what side X must have stored about side Y (Y's own final state, filtered by Y's distribution flags) *)
Definition expected_peer_entry (c : ctl) (y : bool) (sy : sst) (auth : bool) : dbent :=
  let '(enc, id, sign) := own_flags c y in
  {| d_addr := y; d_auth := auth;
     d_ltk := if is_lesc_method (c_method c) || enc then mk_ltk (s_ltk sy) (s_rand sy) (s_ediv sy) else None;
     d_irk := if id then option_map trev (s_irk sy) else None;
     d_csrk := if sign then option_map trev (s_csrk sy) else None |}.

Definition expected_own_entry (x : bool) (sx : sst) (auth : bool) : dbent :=
  {| d_addr := x; d_auth := auth; d_ltk := mk_ltk (s_ltk sx) (s_rand sx) (s_ediv sx);
     d_irk := option_map trev (s_irk sx); d_csrk := option_map trev (s_csrk sx) |}.

Definition ltk3m_eqb (a b : term * term * ediv_t) : bool :=
  let '(l1, r1, e1) := a in let '(l2, r2, e2) := b in term_eqb l1 l2 && term_eqb r1 r2 && ediv_eqb e1 e2.

Definition dbent_eqb (a b : dbent) : bool :=
  Bool.eqb (d_addr a) (d_addr b) && Bool.eqb (d_auth a) (d_auth b) && opt_eqb ltk3m_eqb (d_ltk a) (d_ltk b)
  && opt_eqb term_eqb (d_irk a) (d_irk b) && opt_eqb term_eqb (d_csrk a) (d_csrk b).

Definition spec_auth (m : N) : bool := negb ((m =? 0) || (m =? 3)).

Definition stored_ok (c : ctl) (x : bool) (sx sy : sst) : bool :=
  if own_bond c x then
    list_eqb dbent_eqb (s_db sx)
      [expected_own_entry x sx (spec_auth (c_method c)); expected_peer_entry c (negb x) sy (spec_auth (c_method c))]
  else match s_db sx with [] => true | _ => false end.

(** a distributed key is really there *)
Definition dist_present (c : ctl) (y : bool) (sy : sst) : bool :=
  let '(enc, id, sign) := own_flags c y in
  isSome (s_ltk sy) && isSome (s_rand sy) && isSome (s_ediv sy)
  && implb' id (isSome (s_irk sy)) && implb' sign (isSome (s_csrk sy)).

Definition session_ok (c : ctl) (r : result) : bool :=
  match s_setenc (r_i r), s_setenc (r_r r) with
  | [(k1, key1)], [(k2, key2)] =>
      term_eqb k1 k2 && term_eqb key1 key2 && term_eqb k1 (t_e key1)
      && (if is_lesc_method (c_method c)
          then opt_eqb term_eqb (Some key1) (option_map trev (s_ltk (r_i r)))
          else term_eqb key1 (s_stk (r_i r)))
      && s_encrypted (r_i r) && s_encrypted (r_r r)
  | _, _ => false
  end.

Definition keys_ok (c : ctl) (r : result) : bool :=
  term_eqb (s_stk (r_i r)) (s_stk (r_r r))
  && implb' (is_lesc_method (c_method c)) (opt_eqb term_eqb (s_ltk (r_i r)) (s_ltk (r_r r)) && isSome (s_ltk (r_i r)))
  && opt_eqb N.eqb (s_method (r_i r)) (Some (c_method c)) && opt_eqb N.eqb (s_method (r_r r)) (Some (c_method c)).

Definition fail_is (code : N) (s : sst) : bool := failure s && opt_eqb N.eqb (s_fail s) (Some code).

(** everything the theorems need about one control, evaluated on one run *)
Definition chk_result (c : ctl) (r : result) : bool :=
  let ok := both success r in
  r_quiet r && (r_steps r <? 250)
  && negb (s_exc (r_i r)) && negb (s_exc (r_r r))
  && (ok || both failure r)
  && implb' ok (keys_ok c r && session_ok c r
                && stored_ok c false (r_i r) (r_r r) && stored_ok c true (r_r r) (r_i r)
                && dist_present c false (r_i r) && dist_present c true (r_r r))
  && implb' (both failure r) ((match s_db (r_i r), s_db (r_r r) with [], [] => true | _, _ => false end)
                              && (match s_setenc (r_i r), s_setenc (r_r r) with [], [] => true | _, _ => false end))
  && implb' (is_oob_method (c_method c)) (both (fail_is 2) r)
  && implb' (negb (is_oob_method (c_method c)) && honest c) ok
  && implb' (negb (honest c)) (both failure r).

Definition chk_all (c : ctl) : bool := chk_result c (sym_run c).

Definition wf_params (p : params) : Prop := a_iocap p < 5.

(** a sequence of pairing procedures *)
Definition step_t := (mode * params * params * script)%type.

Fixpoint run_seq (si sr : sst) (l : list step_t) : list (ctl * result) :=
  match l with
  | [] => []
  | (m, pi, pr, sc) :: rest =>
      let c := control_of pi pr sc in
      let r := sym_run_from (carry m si) (carry m sr) c in
      (c, r) :: run_seq (r_i r) (r_r r) rest
  end.

(** states from which a procedure can start: idle or done, nothing raised *)
Definition startable (s : sst) : Prop := (s_state s = 0 \/ s_state s = 255) /\ s_exc s = false.
