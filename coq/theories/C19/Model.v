(** C19 — executable model of the capture path of whad-client (definitions only).

    write side : <Domain>.format + <Domain>Metadata.convert_to_header
                 (whad/hub/{ble,dot15d4,esb,unifying,phy}/__init__.py),
                 PcapWriterMonitor.process_packet (whad/common/monitors/pcap.py)
    read side  : <Domain>Metadata.convert_from_header, Pcap._generate_metadata /
                 __to_raw_message / __to_whad_*_pdu (whad/device/pcap/__init__.py),
                 <RawPduReceived>.to_packet (whad/hub/*/pdu.py) as far as it decides
                 which metadata items the connector delivers.

    The channel maps come from Maps.v, which is GENERATED from the Python source
    (harness/translators/C19_maps.py) and regenerated + compared on every run.
    scapy's build/dissect of the pseudo-headers and PcapWriter/PcapReader are not
    modelled: a header is a record and survives the file unchanged (trusted, exercised
    by the correspondence of every run). *)
From Coq Require Import List ZArith NArith Bool.
From Whad Require Import Lib.Bytes C19.Maps.
Import ListNotations.
Open Scope Z_scope.

(** ** Metadata: every item is optional ([None] = Python [None]). For the PHY domain
    [m_channel] is the frequency (the PHY domain has no channel number). *)
Record meta := {
  m_channel : option Z;
  m_rssi    : option Z;
  m_dir     : option Z;      (* BLE only *)
  m_valid   : option bool;   (* is_crc_valid / is_fcs_valid *)
  m_lqi     : option Z;      (* 802.15.4 only *)
  m_ts      : option Z       (* device timestamp, microseconds *)
}.

Inductive domain := BLE | DOT15D4 | ESB | UNIFYING | PHY.

(** BleDirection (whad/protocol/ble/ble.proto) *)
Definition DIR_UNKNOWN : Z := 0.
Definition DIR_M2S : Z := 1.
Definition DIR_S2M : Z := 2.

(** ** BLE: BTLE_RF pseudo-header (LINKTYPE_BLUETOOTH_LE_LL_WITH_PHDR) *)
Record ble_rf := {
  rf_channel : Z; rf_signal : Z; rf_type : Z;
  rf_crc_checked : bool; rf_crc_valid : bool; rf_sig_power_valid : bool; rf_dewhitened : bool
}.

(** BLEMetadata.convert_to_header *)
Definition ble_to_header (m : meta) : ble_rf :=
  let packet_type :=
    match m_dir m with
    | Some d => if d =? DIR_M2S then 2 else if d =? DIR_S2M then 3 else 0
    | None => 0
    end in
  {| rf_channel := match m_channel m with Some c => ble_channel_to_rf_channel c | None => 0 end;
     rf_signal := match m_rssi m with Some r => r | None => -128 end;
     rf_type := packet_type;
     rf_crc_checked := match m_valid m with Some _ => true | None => false end;
     rf_crc_valid := match m_valid m with Some v => v | None => false end;
     rf_sig_power_valid := match m_rssi m with Some _ => true | None => false end;
     rf_dewhitened := true |}.

(** What scapy can put into the header fields (ByteField / SignedByteField); otherwise
    struct.error is raised while the record is written. *)
Definition ble_encodable (h : ble_rf) : bool :=
  (0 <=? rf_channel h) && (rf_channel h <=? 255) && (-128 <=? rf_signal h) && (rf_signal h <=? 127).

(** BLEMetadata.convert_from_header (with the crc_checked / sig_power_valid flags honoured) *)
Definition ble_from_header (h : ble_rf) : meta :=
  {| m_channel := Some (rf_channel_to_ble_channel (rf_channel h));
     m_rssi := if rf_sig_power_valid h then Some (rf_signal h) else None;
     m_dir := Some (if rf_type h =? 2 then DIR_M2S else if rf_type h =? 3 then DIR_S2M else DIR_UNKNOWN);
     m_valid := if rf_crc_checked h then Some (rf_crc_valid h) else None;
     m_lqi := None;
     m_ts := None |}.

(** ** 802.15.4: TAP header as the set of TLVs that are present *)
Record tap := {
  tap_rss : option Z; tap_lqi : option Z; tap_channel : option Z;
  tap_freq_khz : option Z;        (* channel centre frequency TLV, kHz *)
  tap_fcs_type : Z
}.

(** Dot15d4Metadata.convert_to_header + Dot15d4Domain.format (frames carry an FCS) *)
Definition dot15d4_to_header (m : meta) : tap :=
  {| tap_rss := m_rssi m;
     tap_lqi := m_lqi m;
     tap_channel := m_channel m;
     tap_freq_khz := match m_channel m with Some c => Some (hub_channel_to_frequency c / 1000) | None => None end;
     tap_fcs_type := 1 |}.

(** Dot15d4Metadata.convert_from_header: defaults rssi=0, lqi=200, channel=15 *)
Definition dot15d4_from_header (h : tap) : meta :=
  {| m_channel := Some (match tap_channel h with Some c => c | None => 15 end);
     m_rssi := Some (match tap_rss h with Some r => r | None => 0 end);
     m_dir := None;
     m_valid := None;
     m_lqi := Some (match tap_lqi h with Some l => l | None => 200 end);
     m_ts := None |}.

(** ** ESB / Logitech Unifying: convert_to_header returns no header at all; the frame is
    stored as ESB_Pseudo_Packet(bytes).  convert_from_header re-dissects the frame:
    CRC validity is what the dissector computes from the bytes ([crc_ok]), channel is 0,
    RSSI is not set.  The two classes are textually identical. *)
Definition esb_from_header (crc_ok : bool) : meta :=
  {| m_channel := Some 0; m_rssi := None; m_dir := None; m_valid := Some crc_ok; m_lqi := None; m_ts := None |}.
Definition unifying_from_header (crc_ok : bool) : meta :=
  {| m_channel := Some 0; m_rssi := None; m_dir := None; m_valid := Some crc_ok; m_lqi := None; m_ts := None |}.

(** ** PHY: Phy_Packet_Hdr; scapy builds an absent IntField / SignedIntField as 0 *)
Record phy_hdr := { ph_frequency : Z; ph_rssi : Z }.
Definition phy_to_header (m : meta) : phy_hdr :=
  {| ph_frequency := match m_channel m with Some f => f | None => 0 end;
     ph_rssi := match m_rssi m with Some r => r | None => 0 end |}.
Definition phy_from_header (h : phy_hdr) : meta :=
  {| m_channel := Some (ph_frequency h); m_rssi := Some (ph_rssi h); m_dir := None; m_valid := None;
     m_lqi := None; m_ts := None |}.

(** ** Frame bytes through the replay interface *)
Definition un_le32 (l : bytes) : N :=
  match l with a :: b :: c :: d :: _ => a + 256 * (b + 256 * (c + 256 * d)) | _ => 0 end%N.
Definition be24 (n : N) : bytes := [N.modulo (N.div n 65536) 256; N.modulo (N.div n 256) 256; N.modulo n 256]%N.
Definition un_be24 (l : bytes) : N :=
  match l with a :: b :: c :: _ => 65536 * a + 256 * b + c | _ => 0 end%N.

(** Pcap.__to_whad_ble_raw_pdu: access address, PDU = bytes[4:-3], CRC (3 bytes, big endian) *)
Definition ble_split (f : bytes) : N * bytes * N :=
  (un_le32 f, slice 4 (length f - 3) f, un_be24 (skipn (length f - 3) f)).
(** BleRawPduReceived.to_packet: pack("I", aa) + pdu + pack(">I", crc)[1:] *)
Definition ble_join (x : N * bytes * N) : bytes :=
  let '(aa, pdu, crc) := x in le32 aa ++ pdu ++ be24 crc.

(** Pcap.__to_whad_zigbee_raw_pdu: pdu = packet[:-2], fcs = unpack("<H", packet[-2:]);
    RawPduReceived.to_packet: pdu + pack("<H", fcs) *)
Definition dot15d4_split (f : bytes) : bytes * N :=
  (firstn (length f - 2) f, un_le16 (skipn (length f - 2) f)).
Definition dot15d4_join (x : bytes * N) : bytes := fst x ++ le16 (snd x).

Definition replay_frame (d : domain) (f : bytes) : bytes :=
  match d with
  | BLE => ble_join (ble_split f)
  | DOT15D4 => dot15d4_join (dot15d4_split f)
  | ESB | UNIFYING | PHY => f
  end.

Definition frame_ok (d : domain) (f : bytes) : bool :=
  wf_bytes f && match d with BLE => Nat.leb 7 (length f) | DOT15D4 => Nat.leb 2 (length f) | _ => true end.

(** ** Metadata items carried by the message the Pcap device emits (stage A) *)
Definition replay_items (d : domain) (crc_ok : bool) (m : meta) : meta :=
  match d with
  | BLE => ble_from_header (ble_to_header m)
  | DOT15D4 =>
      (* __to_whad_zigbee_raw_pdu(..., is_fcs_valid=True): the validity is a constant *)
      let r := dot15d4_from_header (dot15d4_to_header m) in
      {| m_channel := m_channel r; m_rssi := m_rssi r; m_dir := None; m_valid := Some true;
         m_lqi := m_lqi r; m_ts := None |}
  | ESB => esb_from_header crc_ok
  | UNIFYING => unifying_from_header crc_ok
  | PHY => phy_from_header (phy_to_header m)
  end.

Definition in_range (lo hi : Z) (x : option Z) : bool :=
  match x with Some v => (lo <=? v) && (v <=? hi) | None => true end.

(** Does writing the record raise (struct.error)? *)
Definition encodable (d : domain) (m : meta) : bool :=
  match d with
  | BLE => ble_encodable (ble_to_header m)
  | DOT15D4 => in_range 0 255 (m_lqi m) && in_range 0 65535 (m_channel m)      (* ByteField, LEShortField *)
  | PHY => in_range 0 4294967295 (m_channel m) && in_range (-2147483648) 2147483647 (m_rssi m)
  | ESB | UNIFYING => true
  end.

(** ** What the attached connector delivers (stage B).  Only the BLE raw PDU message
    differs: whether an unset rssi / crc_validity is reported as None or as the protobuf
    default is a property of whad/hub/ble/pdu.py (C03); it is probed on the live code on
    every run and passed in as [hubcfg]. *)
Record hubcfg := { ble_rssi_optional : bool; ble_crc_optional : bool }.

Definition deliver (hub : hubcfg) (d : domain) (a : meta) : meta :=
  match d with
  | BLE =>
      {| m_channel := m_channel a;
         m_rssi := match m_rssi a with Some r => Some r | None => if ble_rssi_optional hub then None else Some 0 end;
         m_dir := m_dir a;
         m_valid := match m_valid a with Some v => Some v | None => if ble_crc_optional hub then None else Some false end;
         m_lqi := None; m_ts := None |}
  | _ => a
  end.

Fixpoint sortedb (l : list Z) : bool :=
  match l with
  | a :: ((b :: _) as r) => (a <=? b) && sortedb r
  | _ => true
  end.

(** ** Time stamps.
    PcapWriterMonitor.process_packet: [now] is the local clock in microseconds, [ts] the
    device timestamp of the packet if it has one; state = _reference_time, _start_time.
    Returns the time handed to the PCAP writer, before its conversion to (sec, usec). *)
Record wstate := { w_ref : option (Z * Z); w_start : option Z }.
Definition w_init (start : option Z) : wstate := {| w_ref := None; w_start := start |}.

Definition process_time (st : wstate) (now : Z) (ts : option Z) : Z * wstate :=
  match ts with
  | None => (now, st)
  | Some t =>
      match w_ref st with
      | None =>
          match w_start st with
          | None => (now, {| w_ref := Some (now, t); w_start := w_start st |})
          | Some s => (now, {| w_ref := Some (s, t - (now - s)); w_start := w_start st |})
          end
      | Some (r0, r1) => (r0 + (t - r1), st)
      end
  end.

Fixpoint eff_times (st : wstate) (l : list (Z * option Z)) : list Z :=
  match l with
  | [] => []
  | (now, ts) :: r => let '(t, st') := process_time st now ts in t :: eff_times st' r
  end.

(** [rnd] stands for the floating point path  timestamp / 1000000 -> (sec, usec) of the
    PCAP record (scapy: usec = int(round((t - int(t)) * 1000000))); it is monotone, and the
    identity on the values used by the harness (checked by the correspondence). *)
Definition written_times (rnd : Z -> Z) (start : option Z) (l : list (Z * option Z)) : list Z :=
  map rnd (eff_times (w_init start) l).

(** convert_from_header: int(100000 * pkt.time) with pkt.time = T / 10^6 exactly (Decimal);
    Pcap._generate_metadata: relative to the first packet of the file. *)
Definition read_ts (T : Z) : Z := Z.quot T 10.
Definition relative_times (Ts : list Z) : list Z :=
  match Ts with
  | [] => []
  | T0 :: _ => map (fun T => read_ts T - read_ts T0) Ts
  end.

(** Hypotheses on a capture's clocks (statements of the theorems).  A clock entry is
    (local clock when the packet is processed, device timestamp if the packet has one). *)
Definition clocks := list (Z * option Z).
Definition ts_list (l : clocks) : list Z :=
  flat_map (fun x => match snd x with Some t => [t] | None => [] end) l.
(** every packet has a device timestamp *)
Definition all_some (l : clocks) : Prop := Forall (fun x => snd x <> None) l.
(** the device clock is the local clock shifted by a constant [D] (whatever it is) *)
Definition offset_consistent (D : Z) (l : clocks) : Prop :=
  Forall (fun x => match snd x with Some t => t = fst x - D | None => True end) l.
Definition monotone (f : Z -> Z) : Prop := forall a b, a <= b -> f a <= f b.

(** ** A whole capture *)
Record pin := { i_frame : bytes; i_crc_ok : bool; i_meta : meta; i_now : Z }.
Record pout := { o_time : Z; o_khz : option Z; o_frame : bytes; o_a : meta; o_b : meta; o_rel : Z }.

Definition clocks_of (l : list pin) : clocks := map (fun p => (i_now p, m_ts (i_meta p))) l.

(** the replay of the packets [l] written at the record times [Ts] *)
Definition replay_with (hub : hubcfg) (d : domain) (l : list pin) (Ts : list Z) : list pout :=
  let rels := relative_times Ts in
  map (fun x : pin * (Z * Z) =>
         let '(p, (T, rel)) := x in
         let a := replay_items d (i_crc_ok p) (i_meta p) in
         {| o_time := T;
            o_khz := match d with DOT15D4 => tap_freq_khz (dot15d4_to_header (i_meta p)) | _ => None end;
            o_frame := replay_frame d (i_frame p);
            o_a := a; o_b := deliver hub d a; o_rel := rel |})
      (combine l (combine Ts rels)).

(** [start] = time of the first record of the file the monitor appends to, if any *)
Definition capture_replay (rnd : Z -> Z) (hub : hubcfg) (d : domain) (start : option Z) (l : list pin) : list pout :=
  replay_with hub d l (written_times rnd start (clocks_of l)).

(** ** The replay device driven by its connector: Start / Stop commands and reads.
    Pcap.read() delivers the next record only while started; the replay time base
    (__start_timestamp, set by the first record delivered) lives as long as the device, it is
    not touched by _on_whad_<domain>_start / _stop.  A record is (record time, content);
    the result is (relative timestamp delivered, content). *)
Inductive rop := RStart | RStop | RRead.
Record rstate := { r_started : bool; r_origin : option Z }.
Definition r_init : rstate := {| r_started := false; r_origin := None |}.

Fixpoint replay_ops {A} (st : rstate) (ops : list rop) (recs : list (Z * A)) : list (Z * A) :=
  match ops with
  | [] => []
  | RStart :: r => replay_ops {| r_started := true; r_origin := r_origin st |} r recs
  | RStop :: r => replay_ops {| r_started := false; r_origin := r_origin st |} r recs
  | RRead :: r =>
      if r_started st then
        match recs with
        | [] => []                                   (* EOF: the device disconnects *)
        | (T, a) :: recs' =>
            let o := match r_origin st with Some o => o | None => read_ts T end in
            (read_ts T - o, a) :: replay_ops {| r_started := true; r_origin := Some o |} r recs'
        end
      else replay_ops st r recs
  end.

(** number of reads performed while started *)
Fixpoint eff_reads (started : bool) (ops : list rop) : nat :=
  match ops with
  | [] => O
  | RStart :: r => eff_reads true r
  | RStop :: r => eff_reads false r
  | RRead :: r => if started then S (eff_reads started r) else eff_reads started r
  end.

(** start / k1 packets / stop / start / k2 packets / ... / rest (one read more: EOF) *)
Definition restart_ops (ks : list nat) (n : nat) : list rop :=
  RStart :: flat_map (fun k => repeat RRead k ++ [RStop; RStart]) ks ++ repeat RRead (S n).

Definition capture_replay_ops (rnd : Z -> Z) (hub : hubcfg) (d : domain) (start : option Z) (l : list pin)
           (ops : list rop) : list (Z * pout) :=
  replay_ops r_init ops (map (fun o => (o_time o, o)) (capture_replay rnd hub d start l)).

Definition set_rel (o : pout) (r : Z) : pout :=
  {| o_time := o_time o; o_khz := o_khz o; o_frame := o_frame o; o_a := o_a o; o_b := o_b o; o_rel := r |}.

(** ** Two writer threads on one monitor.
    process_packet takes _writer_lock FIRST and reads the local clock, stamps and writes the
    packet while holding it: at lock granularity a call is one atomic step, so an execution of
    two threads handing over [l1] and [l2] is a merge of the two lists chosen by the scheduler
    ([true] = the first thread gets the lock), and the k-th call to get the lock makes the
    k-th reading of the local clock. *)
Fixpoint merge {A} (sched : list bool) (l1 l2 : list A) : list A :=
  match sched with
  | [] => l1 ++ l2
  | true :: s => match l1 with a :: l1' => a :: merge s l1' l2 | [] => l2 end
  | false :: s => match l2 with b :: l2' => b :: merge s l1 l2' | [] => l1 end
  end.

Definition set_now (p : pin) (now : Z) : pin :=
  {| i_frame := i_frame p; i_crc_ok := i_crc_ok p; i_meta := i_meta p; i_now := now |}.
(** the packets in the order the lock was taken, stamped with the clock readings in the order
    they were made *)
Definition stamped (readings : list Z) (l : list pin) : list pin :=
  map (fun x => set_now (snd x) (fst x)) (combine readings l).

Definition concurrent_capture (rnd : Z -> Z) (hub : hubcfg) (d : domain) (start : option Z)
           (sched : list bool) (readings : list Z) (l1 l2 : list pin) : list pout :=
  capture_replay rnd hub d start (stamped readings (merge sched l1 l2)).

(** ** The property's items: channel, signal strength, direction, integrity flag.
    An absent direction and BleDirection.UNKNOWN are the same statement. *)
Definition canon_dir (d : domain) (x : option Z) : option Z :=
  match d, x with
  | BLE, None => Some DIR_UNKNOWN
  | BLE, Some v => Some v
  | _, _ => None
  end.
Definition opt_eqb {A} (eqb : A -> A -> bool) (a b : option A) : bool :=
  match a, b with Some x, Some y => eqb x y | None, None => true | _, _ => false end.
Definition applies_dir (d : domain) : bool := match d with BLE => true | _ => false end.
Definition applies_valid (d : domain) : bool := match d with PHY => false | _ => true end.

Definition same_items (d : domain) (m r : meta) : bool :=
  opt_eqb Z.eqb (m_channel m) (m_channel r)
  && opt_eqb Z.eqb (m_rssi m) (m_rssi r)
  && opt_eqb Z.eqb (canon_dir d (m_dir m)) (canon_dir d (m_dir r))
  && (negb (applies_valid d) || opt_eqb Bool.eqb (m_valid m) (m_valid r)).

(** item-wise view of [same_items] *)
Definition keeps_channel (m r : meta) : Prop := m_channel r = m_channel m.
Definition keeps_rssi (m r : meta) : Prop := m_rssi r = m_rssi m.
Definition keeps_dir (d : domain) (m r : meta) : Prop := canon_dir d (m_dir r) = canon_dir d (m_dir m).
Definition keeps_valid (m r : meta) : Prop := m_valid r = m_valid m.

(** The valuations the property quantifies over *)
Definition meta_wf (d : domain) (m : meta) : bool :=
  in_range (-128) 127 (m_rssi m) &&
  match d with
  | BLE => in_range 0 39 (m_channel m) && in_range 0 2 (m_dir m)
  | DOT15D4 => in_range 11 26 (m_channel m) && in_range 0 255 (m_lqi m)
  | ESB | UNIFYING => in_range 0 125 (m_channel m)
  | PHY => in_range 0 4294967295 (m_channel m)
  end.

(** ** Correspondence entry points (evaluated by the harness with [rnd] = identity) *)
Definition meta_eqb (a b : meta) : bool :=
  opt_eqb Z.eqb (m_channel a) (m_channel b) && opt_eqb Z.eqb (m_rssi a) (m_rssi b)
  && opt_eqb Z.eqb (m_dir a) (m_dir b) && opt_eqb Bool.eqb (m_valid a) (m_valid b)
  && opt_eqb Z.eqb (m_lqi a) (m_lqi b) && opt_eqb Z.eqb (m_ts a) (m_ts b).

Definition with_ts (m : meta) (t : Z) : meta :=
  {| m_channel := m_channel m; m_rssi := m_rssi m; m_dir := m_dir m; m_valid := m_valid m;
     m_lqi := m_lqi m; m_ts := Some t |}.

(** observed packet: written time, TAP kHz, frame at A, items at A, frame at B, items at B *)
Definition obs := (Z * option Z * bytes * meta * bytes * meta)%type.

Definition pout_matches (o : pout) (x : obs) : bool :=
  let '(T, khz, fa, a, fb, b) := x in
  (o_time o =? T) && opt_eqb Z.eqb (o_khz o) khz
  && bytes_eqb (o_frame o) fa && meta_eqb (with_ts (o_a o) (o_rel o)) a
  && bytes_eqb (o_frame o) fb && meta_eqb (with_ts (o_b o) (o_rel o)) b.

Fixpoint all2 {A B} (f : A -> B -> bool) (l : list A) (r : list B) : bool :=
  match l, r with
  | [], [] => true
  | a :: l', b :: r' => f a b && all2 f l' r'
  | _, _ => false
  end.

(** a capture case: domain, hub behaviour, packets, what the implementation produced *)
Definition check_capture (c : domain * (bool * bool) * list pin * list obs) : bool :=
  let '(d, (ro, co), l, o) := c in
  all2 pout_matches
       (capture_replay (fun z => z) {| ble_rssi_optional := ro; ble_crc_optional := co |} d None l) o.

(** a capture written in two sessions: the second monitor appends to the file of the first
    (its _start_time is the time of the first record) *)
Definition check_capture_split (c : domain * (bool * bool) * list pin * list pin * list obs) : bool :=
  let '(d, (ro, co), l1, l2, o) := c in
  let T1 := written_times (fun z => z) None (clocks_of l1) in
  let T2 := written_times (fun z => z) (match T1 with t :: _ => Some t | [] => None end) (clocks_of l2) in
  all2 pout_matches
       (replay_with {| ble_rssi_optional := ro; ble_crc_optional := co |} d (l1 ++ l2) (T1 ++ T2)) o.

(** a replay during which the connector is stopped and started again after k1, k1+k2, ... packets *)
Definition check_capture_ops (c : domain * (bool * bool) * list pin * list nat * list obs) : bool :=
  let '(d, (ro, co), l, ks, o) := c in
  all2 pout_matches
       (map (fun x : Z * pout => set_rel (snd x) (fst x))
            (capture_replay_ops (fun z => z) {| ble_rssi_optional := ro; ble_crc_optional := co |} d None l
                                (restart_ops ks (length l)))) o.

(** a writer that raised while encoding: the model must predict it *)
Definition check_unencodable (c : domain * meta) : bool := negb (encodable (fst c) (snd c)).

(** channel map case: function number, argument, observed result ([None] = Python None) *)
Definition map_fn (k : N) (x : Z) : option Z :=
  match k with
  | 0%N => Some (ble_channel_to_rf_channel x)
  | 1%N => Some (rf_channel_to_ble_channel x)
  | 2%N => ble_channel_to_frequency x
  | 3%N => ble_frequency_to_channel x
  | 4%N => Some (hub_channel_to_frequency x)
  | 5%N => Some (dot15d4_channel_to_frequency x)
  | 6%N => Some (dot15d4_frequency_to_channel x)
  | 7%N => Some (esb_channel_to_frequency x)
  | _ => Some (esb_frequency_to_channel x)
  end.
Definition check_map (c : N * Z * option Z) : bool :=
  let '(k, x, y) := c in opt_eqb Z.eqb (map_fn k x) y.

(** Boolean forms of the theorems' conclusions, for the model-side search *)
Definition zrange (lo : Z) (n : nat) : list Z := map (fun i => lo + Z.of_nat i) (seq 0 n).
Definition ble_maps_inverse_b : bool :=
  forallb (fun c => (rf_channel_to_ble_channel (ble_channel_to_rf_channel c) =? c)
                    && (ble_channel_to_rf_channel (rf_channel_to_ble_channel c) =? c)
                    && opt_eqb Z.eqb (match ble_channel_to_frequency c with Some f => ble_frequency_to_channel f | None => None end) (Some c))
          (zrange 0 40).
Definition dot15d4_maps_inverse_b : bool :=
  forallb (fun c => (dot15d4_frequency_to_channel (dot15d4_channel_to_frequency c) =? c)
                    && (dot15d4_frequency_to_channel (hub_channel_to_frequency c) =? c))
          (zrange 11 16).
