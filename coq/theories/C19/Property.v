(** C19 — property theorems only (each closed by [exact]); see Proofs.v.
    Maps.v (the channel / frequency maps) is generated from the Python source. *)
From Coq Require Import List ZArith NArith Bool.
From Whad Require Import Lib.Bytes C19.Maps C19.Model C19.Proofs.
Import ListNotations.
Open Scope Z_scope.

(** * The channel / frequency maps are mutually inverse *)

(** BLE, exhaustively for the 40 channels (finite sweep, bound in the statement):
    channel <-> Wireshark RF channel in both directions, and channel -> frequency -> channel. *)
Theorem C19_channel_maps_inverse_ble :
  forall c, 0 <= c <= 39 ->
    rf_channel_to_ble_channel (ble_channel_to_rf_channel c) = c
    /\ ble_channel_to_rf_channel (rf_channel_to_ble_channel c) = c
    /\ exists f, ble_channel_to_frequency c = Some f /\ ble_frequency_to_channel f = Some c.
Proof. exact ble_channel_maps_inverse. Qed.

(** 802.15.4, exhaustively for channels 11..26 (both channel_to_frequency functions). *)
Theorem C19_channel_maps_inverse_dot15d4 :
  forall c, 11 <= c <= 26 ->
    dot15d4_frequency_to_channel (dot15d4_channel_to_frequency c) = c
    /\ dot15d4_frequency_to_channel (hub_channel_to_frequency c) = c.
Proof. exact dot15d4_channel_maps_inverse. Qed.

(** General statements, no bound (arithmetic, not a sweep). *)
Theorem C19_ble_rf_inverse_general :
  forall c, 0 <= c -> rf_channel_to_ble_channel (ble_channel_to_rf_channel c) = c.
Proof. exact ble_rf_inverse_general. Qed.

Theorem C19_ble_frequency_inverse_on_image :
  forall c f, ble_channel_to_frequency c = Some f -> ble_frequency_to_channel f = Some c.
Proof. exact ble_frequency_inverse_on_image. Qed.

Theorem C19_ble_channel_inverse_on_centres :
  forall f c, ble_frequency_to_channel f = Some c -> Z.rem f 2000000 = 0 ->
    ble_channel_to_frequency c = Some f.
Proof. exact ble_channel_inverse_on_centres. Qed.

Theorem C19_ble_rf_channel_is_frequency_index :
  forall c, 0 <= c <= 39 ->
    ble_channel_to_frequency c = Some (2402000000 + 2000000 * ble_channel_to_rf_channel c).
Proof. exact ble_rf_channel_is_frequency_index. Qed.

Theorem C19_dot15d4_inverse_general :
  forall c, dot15d4_frequency_to_channel (dot15d4_channel_to_frequency c) = c.
Proof. exact dot15d4_inverse_general. Qed.

Theorem C19_dot15d4_inverse_on_centres :
  forall f, Z.rem (f - 2405000000) 5000000 = 0 ->
    dot15d4_channel_to_frequency (dot15d4_frequency_to_channel f) = f.
Proof. exact dot15d4_inverse_on_centres. Qed.

Theorem C19_hub_channel_to_frequency_same :
  forall c, hub_channel_to_frequency c = dot15d4_channel_to_frequency c.
Proof. exact hub_channel_to_frequency_same. Qed.

(** the centre frequency written to the TAP header (kHz) maps back to the channel *)
Theorem C19_tap_frequency_maps_back :
  forall c, dot15d4_frequency_to_channel ((hub_channel_to_frequency c / 1000) * 1000) = c.
Proof. exact tap_frequency_maps_back. Qed.

Theorem C19_esb_maps_inverse :
  (forall c, esb_frequency_to_channel (esb_channel_to_frequency c) = c)
  /\ (forall f, Z.rem f 1000000 = 0 -> esb_channel_to_frequency (esb_frequency_to_channel f) = f).
Proof. exact (conj esb_inverse_general esb_inverse_on_centres). Qed.

(** * Metadata -> capture header -> metadata, per domain, for ALL valuations *)

(** FULL STATEMENT: every listed item (channel, signal strength, direction, integrity flag)
    comes back as it went in, present or absent.  Refuted in every domain by what the
    capture format cannot carry (known findings); proved on the complement. *)
Definition C19_header_roundtrip_statement (d : domain) : Prop :=
  forall crc m, meta_wf d m = true -> same_items d m (replay_items d crc m) = true.

(** ** BLE: RSSI -128..127, both directions / unknown / absent, CRC flag true / false /
    absent all survive; so does every channel 0..39.  Only an ABSENT channel is lost. *)
Theorem C19_ble_header_roundtrip_items :
  forall crc m, meta_wf BLE m = true ->
    let r := replay_items BLE crc m in
    keeps_rssi m r /\ keeps_dir BLE m r /\ keeps_valid m r
    /\ (m_channel m <> None -> keeps_channel m r)
    /\ (m_channel m = None -> m_channel r = Some 37).
Proof. exact ble_header_roundtrip_items. Qed.

Theorem C19_ble_header_roundtrip_partial :
  forall crc m, meta_wf BLE m = true -> m_channel m <> None ->
    same_items BLE m (replay_items BLE crc m) = true.
Proof. exact ble_header_roundtrip_partial. Qed.

Theorem C19_ble_header_roundtrip_refuted :
  exists m, meta_wf BLE m = true /\ same_items BLE m (replay_items BLE true m) = false.
Proof. exact ble_header_roundtrip_refuted. Qed.

(** what the attached connector delivers additionally depends on whether the BLE raw PDU
    message reports unset optional fields as None ([hub], probed on the live code) *)
Theorem C19_ble_delivered_roundtrip_partial :
  forall hub crc m, meta_wf BLE m = true -> m_channel m <> None ->
    (m_rssi m <> None \/ ble_rssi_optional hub = true) ->
    (m_valid m <> None \/ ble_crc_optional hub = true) ->
    same_items BLE m (deliver hub BLE (replay_items BLE crc m)) = true.
Proof. exact ble_delivered_roundtrip_partial. Qed.

Theorem C19_ble_delivered_roundtrip_refuted :
  exists m, meta_wf BLE m = true /\ m_channel m <> None /\
    same_items BLE m (deliver {| ble_rssi_optional := false; ble_crc_optional := false |} BLE (replay_items BLE true m)) = false.
Proof. exact ble_delivered_roundtrip_refuted. Qed.

(** ** 802.15.4 (TAP TLVs: RSSI, LQI, channel) *)
Theorem C19_dot15d4_header_roundtrip_items :
  forall crc m,
    let r := replay_items DOT15D4 crc m in
    keeps_dir DOT15D4 m r
    /\ (m_channel m <> None -> keeps_channel m r) /\ (m_channel m = None -> m_channel r = Some 15)
    /\ (m_rssi m <> None -> keeps_rssi m r) /\ (m_rssi m = None -> m_rssi r = Some 0)
    /\ m_valid r = Some true
    /\ (m_lqi m <> None -> m_lqi r = m_lqi m) /\ (m_lqi m = None -> m_lqi r = Some 200).
Proof. exact dot15d4_header_roundtrip_items. Qed.

Theorem C19_dot15d4_header_roundtrip_partial :
  forall crc m, m_channel m <> None -> m_rssi m <> None -> m_valid m = Some true ->
    same_items DOT15D4 m (replay_items DOT15D4 crc m) = true.
Proof. exact dot15d4_header_roundtrip_partial. Qed.

Theorem C19_dot15d4_absent_channel_refuted :
  exists m, meta_wf DOT15D4 m = true /\ m_rssi m <> None /\ m_valid m = Some true /\
    same_items DOT15D4 m (replay_items DOT15D4 true m) = false.
Proof. exact dot15d4_absent_channel_refuted. Qed.
Theorem C19_dot15d4_absent_rssi_refuted :
  exists m, meta_wf DOT15D4 m = true /\ m_channel m <> None /\ m_valid m = Some true /\
    same_items DOT15D4 m (replay_items DOT15D4 true m) = false.
Proof. exact dot15d4_absent_rssi_refuted. Qed.
Theorem C19_dot15d4_fcs_validity_refuted :
  exists m, meta_wf DOT15D4 m = true /\ m_channel m <> None /\ m_rssi m <> None /\
    same_items DOT15D4 m (replay_items DOT15D4 true m) = false.
Proof. exact dot15d4_fcs_validity_refuted. Qed.

(** ** ESB and Logitech Unifying: no capture header at all *)
Theorem C19_esb_header_roundtrip_items :
  forall crc m,
    (let r := replay_items ESB crc m in
     m_channel r = Some 0 /\ m_rssi r = None /\ m_valid r = Some crc /\ keeps_dir ESB m r)
    /\ (let r := replay_items UNIFYING crc m in
        m_channel r = Some 0 /\ m_rssi r = None /\ m_valid r = Some crc /\ keeps_dir UNIFYING m r).
Proof. exact (fun crc m => conj (esb_header_roundtrip_items crc m) (unifying_header_roundtrip_items crc m)). Qed.

Theorem C19_esb_header_roundtrip_partial :
  forall crc m, m_channel m = Some 0 -> m_rssi m = None -> m_valid m = Some crc ->
    same_items ESB m (replay_items ESB crc m) = true
    /\ same_items UNIFYING m (replay_items UNIFYING crc m) = true.
Proof. exact esb_header_roundtrip_partial. Qed.

Theorem C19_esb_channel_refuted :
  forall d, d = ESB \/ d = UNIFYING ->
  exists m, meta_wf d m = true /\ m_rssi m = None /\ m_valid m = Some true /\
    same_items d m (replay_items d true m) = false.
Proof. exact esb_channel_refuted. Qed.
Theorem C19_esb_rssi_refuted :
  forall d, d = ESB \/ d = UNIFYING ->
  exists m, meta_wf d m = true /\ m_channel m = Some 0 /\ m_valid m = Some true /\
    same_items d m (replay_items d true m) = false.
Proof. exact esb_rssi_refuted. Qed.
Theorem C19_esb_crc_flag_refuted :
  forall d, d = ESB \/ d = UNIFYING ->
  exists m, meta_wf d m = true /\ m_channel m = Some 0 /\ m_rssi m = None /\
    same_items d m (replay_items d true m) = false.
Proof. exact esb_crc_flag_refuted. Qed.

(** ** PHY (the "channel" of a PHY packet is its frequency) *)
Theorem C19_phy_header_roundtrip_items :
  forall crc m,
    let r := replay_items PHY crc m in
    (m_channel m <> None -> keeps_channel m r) /\ (m_channel m = None -> m_channel r = Some 0)
    /\ (m_rssi m <> None -> keeps_rssi m r) /\ (m_rssi m = None -> m_rssi r = Some 0).
Proof. exact phy_header_roundtrip_items. Qed.

Theorem C19_phy_header_roundtrip_partial :
  forall crc m, m_channel m <> None -> m_rssi m <> None ->
    same_items PHY m (replay_items PHY crc m) = true.
Proof. exact phy_header_roundtrip_partial. Qed.

Theorem C19_phy_absent_rssi_refuted :
  exists m, meta_wf PHY m = true /\ m_channel m <> None /\
    same_items PHY m (replay_items PHY true m) = false.
Proof. exact phy_absent_rssi_refuted. Qed.
Theorem C19_phy_absent_frequency_refuted :
  exists m, meta_wf PHY m = true /\ m_rssi m <> None /\
    same_items PHY m (replay_items PHY true m) = false.
Proof. exact phy_absent_frequency_refuted. Qed.

(** * Bytes, order, time *)

(** the packet bytes survive the replay interface (split into message fields and rebuilt) *)
Theorem C19_frames_preserved :
  forall d f, frame_ok d f = true -> replay_frame d f = f.
Proof. exact replay_frame_id. Qed.

(** no valuation of the property's domain makes the writer raise *)
Theorem C19_encodable_in_domain : forall d m, meta_wf d m = true -> encodable d m = true.
Proof. exact encodable_in_domain. Qed.

(** ALL packet sequences whose capture times do not decrease — the local clock does not
    decrease, the device timestamps do not decrease, and either every packet carries a
    device timestamp or the device clock is the local clock shifted by some constant D —
    for ANY monotone rounding of the written time, any domain, any state of the capture
    file (fresh or appended): same packets, same order, same bytes; written times and
    replayed relative timestamps never decrease, the latter start at 0 and are never
    negative. *)
Theorem C19_order_and_monotone_time :
  forall rnd hub d start (l : list pin),
    monotone rnd ->
    Forall (fun p => frame_ok d (i_frame p) = true) l ->
    sortedb (map fst (clocks_of l)) = true ->
    sortedb (ts_list (clocks_of l)) = true ->
    (all_some (clocks_of l) \/ exists D, offset_consistent D (clocks_of l)) ->
    let out := capture_replay rnd hub d start l in
    map o_frame out = map i_frame l
    /\ sortedb (map o_time out) = true
    /\ sortedb (map o_rel out) = true
    /\ Forall (fun r => 0 <= r) (map o_rel out)
    /\ (l <> [] -> exists rs, map o_rel out = 0 :: rs).
Proof. exact order_and_monotone_time. Qed.

(** ... and for ALL sequences of connector operations during the replay (Start, Stop,
    reads; e.g. start / k packets / stop / start / the rest, or a sniffing mode re-enabled in
    the middle): the replay time base persists across stop/start, so what is delivered is
    exactly a prefix (as many packets as reads performed while started) of what a single
    uninterrupted replay delivers — same packets, same order, same relative timestamps,
    which therefore never decrease and are never negative over the WHOLE replay. *)
Theorem C19_order_and_monotone_time_ops :
  forall rnd hub d start (l : list pin) (ops : list rop),
    monotone rnd ->
    Forall (fun p => frame_ok d (i_frame p) = true) l ->
    sortedb (map fst (clocks_of l)) = true ->
    sortedb (ts_list (clocks_of l)) = true ->
    (all_some (clocks_of l) \/ exists D, offset_consistent D (clocks_of l)) ->
    let out := capture_replay rnd hub d start l in
    let del := capture_replay_ops rnd hub d start l ops in
    let n := eff_reads false ops in
    del = firstn n (map (fun o => (o_rel o, o)) out)
    /\ map (fun x => o_frame (snd x)) del = firstn n (map i_frame l)
    /\ sortedb (map fst del) = true
    /\ Forall (fun r => 0 <= r) (map fst del)
    /\ ((length l <= n)%nat -> map fst del = map o_rel out /\ map (fun x => o_frame (snd x)) del = map i_frame l).
Proof. exact order_and_monotone_time_ops. Qed.

(** the op sequences the harness drives (restarts after k1, k1+k2, ... packets) read everything *)
Theorem C19_restart_ops_read_all :
  forall ks n, (n < eff_reads false (restart_ops ks n))%nat.
Proof. exact eff_reads_restart. Qed.

(** Two writer threads on one monitor, EVERY schedule at lock granularity (the clock is read
    while the writer lock is held): the file holds the packets in the order the lock was
    taken, the record times are the clock readings in that order, so they never decrease,
    and the replay delivers every packet with non-decreasing relative timestamps. *)
Theorem C19_concurrent_writers :
  forall rnd hub d start sched readings (l1 l2 : list pin),
    monotone rnd ->
    Forall (fun p => frame_ok d (i_frame p) = true) l1 ->
    Forall (fun p => frame_ok d (i_frame p) = true) l2 ->
    length readings = (length l1 + length l2)%nat ->
    sortedb readings = true ->
    let l := stamped readings (merge sched l1 l2) in
    sortedb (ts_list (clocks_of l)) = true ->
    (all_some (clocks_of l) \/ exists D, offset_consistent D (clocks_of l)) ->
    let out := concurrent_capture rnd hub d start sched readings l1 l2 in
    map o_frame out = merge sched (map i_frame l1) (map i_frame l2)
    /\ sortedb (map o_time out) = true
    /\ sortedb (map o_rel out) = true
    /\ Forall (fun r => 0 <= r) (map o_rel out)
    /\ length out = (length l1 + length l2)%nat.
Proof. exact concurrent_writers. Qed.

(** why the clock must be read inside the critical section: a packet stamped before another
    one but written after it makes the record times decrease *)
Theorem C19_stamping_outside_the_lock_refuted :
  exists c1 c2, c1 <= c2 /\ sortedb (written_times (fun z => z) None [(c2, None); (c1, None)]) = false.
Proof. exact stamping_outside_the_lock_refuted. Qed.

(** the clock hypothesis cannot be dropped: packets with and without device timestamp
    whose two clocks are unrelated have no common capture time *)
Theorem C19_clock_hypothesis_needed :
  exists l, sortedb (map fst l) = true /\ sortedb (ts_list l) = true /\
    sortedb (written_times (fun z => z) None l) = false.
Proof. exact mixed_clocks_refuted. Qed.

(** Non-vacuity: a BLE capture of three packets, the second without device timestamp,
    device clock = local clock - 1699999999000000; hypotheses hold, and the replay gives
    the three frames with relative timestamps 0, 50, 120 (units of 10 us). *)
Example C19_nonvacuous :
  let f := [214; 190; 137; 142; 64; 0; 253; 107; 42]%N in
  let mk now ts ch := {| i_frame := f; i_crc_ok := true;
                         i_meta := {| m_channel := Some ch; m_rssi := Some (-40); m_dir := Some 1;
                                      m_valid := Some true; m_lqi := None; m_ts := ts |};
                         i_now := now |} in
  let l := [mk 1700000000000000 (Some 1000000) 37; mk 1700000000000500 None 0; mk 1700000000001200 (Some 1001200) 39] in
  offset_consistent 1699999999000000 (clocks_of l)
  /\ Forall (fun p => frame_ok BLE (i_frame p) = true) l
  /\ map o_rel (capture_replay (fun z => z) {| ble_rssi_optional := false; ble_crc_optional := false |} BLE None l) = [0; 50; 120]
  /\ map (fun o => m_channel (o_a o)) (capture_replay (fun z => z) {| ble_rssi_optional := false; ble_crc_optional := false |} BLE None l)
     = [Some 37; Some 0; Some 39].
Proof.
  cbv zeta. split; [repeat constructor|]. split; [repeat constructor|]. split; vm_compute; reflexivity.
Qed.
