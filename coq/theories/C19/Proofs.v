(** C19 — lemmas about the capture model. *)
From Coq Require Import List ZArith NArith Arith Bool Lia ZifyBool ZifyN ZifyNat.
From Whad Require Import Lib.Bytes C19.Maps C19.Model.
Import ListNotations.
Ltac Zify.zify_post_hook ::= Z.to_euclidean_division_equations.
Open Scope Z_scope.

(** * Channel / frequency maps (the GENERATED definitions of Maps.v) *)

Lemma In_zrange lo n x : lo <= x < lo + Z.of_nat n -> In x (zrange lo n).
Proof.
  intros H. unfold zrange. apply in_map_iff. exists (Z.to_nat (x - lo)). split; [lia|].
  apply in_seq. lia.
Qed.

Lemma Some_inj {A} (a b : A) : Some a = Some b -> a = b.
Proof. congruence. Qed.

(** split every boolean test of the goal / hypotheses, then arithmetic *)
Ltac split_ifs :=
  repeat match goal with
         | |- context [if ?b then _ else _] => let E := fresh "E" in destruct b eqn:E
         | H : context [if ?b then _ else _] |- _ => let E := fresh "E" in destruct b eqn:E
         end.

(** ** BLE channel <-> RF channel (Wireshark numbering) *)

Lemma ble_maps_inverse_sweep : ble_maps_inverse_b = true.
Proof. vm_compute. reflexivity. Qed.

Lemma ble_channel_maps_inverse :
  forall c, 0 <= c <= 39 ->
    rf_channel_to_ble_channel (ble_channel_to_rf_channel c) = c
    /\ ble_channel_to_rf_channel (rf_channel_to_ble_channel c) = c
    /\ exists f, ble_channel_to_frequency c = Some f /\ ble_frequency_to_channel f = Some c.
Proof.
  intros c Hc. pose proof ble_maps_inverse_sweep as H. unfold ble_maps_inverse_b in H.
  rewrite forallb_forall in H. specialize (H c (In_zrange 0 40 c ltac:(lia))).
  apply andb_true_iff in H as [H H3]. apply andb_true_iff in H as [H1 H2].
  apply Z.eqb_eq in H1, H2. split; [exact H1|]. split; [exact H2|].
  destruct (ble_channel_to_frequency c) as [f|]; [|discriminate].
  exists f. split; [reflexivity|].
  destruct (ble_frequency_to_channel f) as [c'|]; [|discriminate].
  cbn [opt_eqb] in H3. apply Z.eqb_eq in H3. congruence.
Qed.

(** general statement, no bound: the RF numbering is injective on every channel >= 0 *)
Lemma ble_rf_inverse_general :
  forall c, 0 <= c -> rf_channel_to_ble_channel (ble_channel_to_rf_channel c) = c.
Proof.
  intros c Hc. unfold rf_channel_to_ble_channel, ble_channel_to_rf_channel. cbv zeta.
  split_ifs; lia.
Qed.

(** general statement on the image: whatever frequency a channel maps to maps back to it *)
Lemma ble_frequency_inverse_on_image :
  forall c f, ble_channel_to_frequency c = Some f -> ble_frequency_to_channel f = Some c.
Proof.
  intros c f H. unfold ble_channel_to_frequency in H. cbv zeta in H.
  unfold ble_frequency_to_channel. cbv zeta.
  split_ifs; try discriminate; apply Some_inj in H; subst f; try (f_equal; lia); exfalso; lia.
Qed.

(** and back: every frequency the BLE map accepts and that is a channel centre *)
Lemma ble_channel_inverse_on_centres :
  forall f c, ble_frequency_to_channel f = Some c -> Z.rem f 2000000 = 0 ->
    ble_channel_to_frequency c = Some f.
Proof.
  intros f c H Hr. unfold ble_frequency_to_channel in H. cbv zeta in H.
  unfold ble_channel_to_frequency. cbv zeta.
  split_ifs; try discriminate; apply Some_inj in H; subst c; try (f_equal; lia); exfalso; lia.
Qed.

(** the Wireshark RF channel is the index of the channel's centre frequency *)
Lemma ble_rf_channel_is_frequency_index :
  forall c, 0 <= c <= 39 ->
    ble_channel_to_frequency c = Some (2402000000 + 2000000 * ble_channel_to_rf_channel c).
Proof.
  intros c Hc. unfold ble_channel_to_frequency, ble_channel_to_rf_channel. cbv zeta.
  split_ifs; try (f_equal; lia); exfalso; lia.
Qed.

(** ** 802.15.4 *)

Lemma dot15d4_maps_inverse_sweep : dot15d4_maps_inverse_b = true.
Proof. vm_compute. reflexivity. Qed.

Lemma dot15d4_channel_maps_inverse :
  forall c, 11 <= c <= 26 ->
    dot15d4_frequency_to_channel (dot15d4_channel_to_frequency c) = c
    /\ dot15d4_frequency_to_channel (hub_channel_to_frequency c) = c.
Proof.
  intros c Hc. pose proof dot15d4_maps_inverse_sweep as H. unfold dot15d4_maps_inverse_b in H.
  rewrite forallb_forall in H. specialize (H c (In_zrange 11 16 c ltac:(lia))).
  apply andb_true_iff in H as [H1 H2]. apply Z.eqb_eq in H1, H2. split; assumption.
Qed.

Lemma dot15d4_inverse_general :
  forall c, dot15d4_frequency_to_channel (dot15d4_channel_to_frequency c) = c.
Proof. intros c. unfold dot15d4_frequency_to_channel, dot15d4_channel_to_frequency. lia. Qed.

Lemma dot15d4_inverse_on_centres :
  forall f, Z.rem (f - 2405000000) 5000000 = 0 ->
    dot15d4_channel_to_frequency (dot15d4_frequency_to_channel f) = f.
Proof. intros f H. unfold dot15d4_frequency_to_channel, dot15d4_channel_to_frequency. lia. Qed.

Lemma hub_channel_to_frequency_same :
  forall c, hub_channel_to_frequency c = dot15d4_channel_to_frequency c.
Proof. intros c. unfold hub_channel_to_frequency, dot15d4_channel_to_frequency. lia. Qed.

(** the TAP centre frequency (kHz) written for a channel maps back to that channel *)
Lemma tap_frequency_maps_back :
  forall c, dot15d4_frequency_to_channel ((hub_channel_to_frequency c / 1000) * 1000) = c.
Proof. intros c. unfold dot15d4_frequency_to_channel, hub_channel_to_frequency. lia. Qed.

(** ** ESB *)
Lemma esb_inverse_general : forall c, esb_frequency_to_channel (esb_channel_to_frequency c) = c.
Proof. intros c. unfold esb_frequency_to_channel, esb_channel_to_frequency. lia. Qed.

Lemma esb_inverse_on_centres :
  forall f, Z.rem f 1000000 = 0 -> esb_channel_to_frequency (esb_frequency_to_channel f) = f.
Proof. intros f H. unfold esb_frequency_to_channel, esb_channel_to_frequency. lia. Qed.

(** * Header round trips (metadata -> pseudo-header -> metadata) *)

Lemma in_range_some lo hi v : in_range lo hi (Some v) = true -> lo <= v <= hi.
Proof. unfold in_range. lia. Qed.

Lemma opt_eqb_refl_Z (x : option Z) : opt_eqb Z.eqb x x = true.
Proof. destruct x; cbn [opt_eqb]; [apply Z.eqb_refl | reflexivity]. Qed.
Lemma opt_eqb_refl_bool (x : option bool) : opt_eqb Bool.eqb x x = true.
Proof. destruct x as [[|]|]; reflexivity. Qed.

Lemma opt_eqb_Z_eq a b : opt_eqb Z.eqb a b = true <-> a = b.
Proof.
  destruct a, b; cbn [opt_eqb]; split; intro H; try discriminate; try reflexivity.
  - apply Z.eqb_eq in H. congruence.
  - inversion H. apply Z.eqb_refl.
Qed.
Lemma opt_eqb_bool_eq a b : opt_eqb Bool.eqb a b = true <-> a = b.
Proof.
  destruct a as [[|]|], b as [[|]|]; cbn; split; intro H; try discriminate; try reflexivity.
Qed.

Lemma same_items_iff d m r :
  same_items d m r = true <->
  keeps_channel m r /\ keeps_rssi m r /\ keeps_dir d m r /\ (applies_valid d = true -> keeps_valid m r).
Proof.
  unfold same_items, keeps_channel, keeps_rssi, keeps_dir, keeps_valid.
  rewrite !andb_true_iff, !opt_eqb_Z_eq, orb_true_iff, negb_true_iff, opt_eqb_bool_eq.
  split.
  - intros [[[H1 H2] H3] H4]. repeat split; try congruence.
    intros Ha. destruct H4 as [H4|H4]; congruence.
  - intros (H1 & H2 & H3 & H4). repeat split; try congruence.
    destruct (applies_valid d); [right; symmetry; auto | left; reflexivity].
Qed.

(** ** BLE: everything but an absent channel survives, for all valuations *)
Lemma ble_header_roundtrip_items :
  forall crc m, meta_wf BLE m = true ->
    let r := replay_items BLE crc m in
    keeps_rssi m r /\ keeps_dir BLE m r /\ keeps_valid m r
    /\ (m_channel m <> None -> keeps_channel m r)
    /\ (m_channel m = None -> m_channel r = Some 37).
Proof.
  intros crc [ch rssi dir valid lqi ts] H. unfold meta_wf in H. cbn [m_rssi m_channel m_dir] in H.
  apply andb_true_iff in H as [Hr H]. apply andb_true_iff in H as [Hc Hd].
  cbv zeta. unfold replay_items, ble_from_header, ble_to_header, keeps_rssi, keeps_dir, keeps_valid, keeps_channel.
  cbn [m_channel m_rssi m_dir m_valid m_lqi m_ts rf_channel rf_signal rf_type rf_crc_checked rf_crc_valid rf_sig_power_valid].
  repeat split.
  - destruct rssi; reflexivity.
  - destruct dir as [d|]; [|reflexivity].
    apply in_range_some in Hd. cbn [canon_dir]. f_equal. unfold DIR_M2S, DIR_S2M, DIR_UNKNOWN.
    assert (d = 0 \/ d = 1 \/ d = 2) as [->|[->| ->]] by lia; reflexivity.
  - destruct valid as [[|]|]; reflexivity.
  - destruct ch as [c|]; [|congruence]. intros _. apply in_range_some in Hc.
    f_equal. apply (ble_channel_maps_inverse c Hc).
  - intros ->. reflexivity.
Qed.

Lemma ble_header_roundtrip_partial :
  forall crc m, meta_wf BLE m = true -> m_channel m <> None ->
    same_items BLE m (replay_items BLE crc m) = true.
Proof.
  intros crc m H Hc. apply same_items_iff.
  destruct (ble_header_roundtrip_items crc m H) as (H1 & H2 & H3 & H4 & _).
  repeat split; auto.
Qed.

Definition meta_none : meta :=
  {| m_channel := None; m_rssi := None; m_dir := None; m_valid := None; m_lqi := None; m_ts := None |}.

Lemma ble_header_roundtrip_refuted :
  exists m, meta_wf BLE m = true /\ same_items BLE m (replay_items BLE true m) = false.
Proof. exists meta_none. split; vm_compute; reflexivity. Qed.

(** what the connector delivers: additionally depends on the BLE raw PDU message class *)
Lemma ble_delivered_roundtrip_partial :
  forall hub crc m, meta_wf BLE m = true -> m_channel m <> None ->
    (m_rssi m <> None \/ ble_rssi_optional hub = true) ->
    (m_valid m <> None \/ ble_crc_optional hub = true) ->
    same_items BLE m (deliver hub BLE (replay_items BLE crc m)) = true.
Proof.
  intros hub crc m H Hc Hr Hv. apply same_items_iff.
  destruct (ble_header_roundtrip_items crc m H) as (H1 & H2 & H3 & H4 & _).
  cbv zeta in *. unfold keeps_channel, keeps_rssi, keeps_dir, keeps_valid in *.
  unfold deliver. cbn [m_channel m_rssi m_dir m_valid].
  rewrite H1, H3. specialize (H4 Hc). repeat split; auto.
  - destruct (m_rssi m); [reflexivity|]. destruct Hr as [Hr|Hr]; [congruence | rewrite Hr; reflexivity].
  - intros _. destruct (m_valid m); [reflexivity|]. destruct Hv as [Hv|Hv]; [congruence | rewrite Hv; reflexivity].
Qed.

Lemma ble_delivered_roundtrip_refuted :
  exists m, meta_wf BLE m = true /\ m_channel m <> None /\
    same_items BLE m (deliver {| ble_rssi_optional := false; ble_crc_optional := false |} BLE (replay_items BLE true m)) = false.
Proof.
  exists {| m_channel := Some 5; m_rssi := None; m_dir := Some 1; m_valid := Some true; m_lqi := None; m_ts := None |}.
  split; [vm_compute; reflexivity|]. split; [discriminate | vm_compute; reflexivity].
Qed.

(** ** 802.15.4 *)
Lemma dot15d4_header_roundtrip_items :
  forall crc m,
    let r := replay_items DOT15D4 crc m in
    keeps_dir DOT15D4 m r
    /\ (m_channel m <> None -> keeps_channel m r) /\ (m_channel m = None -> m_channel r = Some 15)
    /\ (m_rssi m <> None -> keeps_rssi m r) /\ (m_rssi m = None -> m_rssi r = Some 0)
    /\ m_valid r = Some true
    /\ (m_lqi m <> None -> m_lqi r = m_lqi m) /\ (m_lqi m = None -> m_lqi r = Some 200).
Proof.
  intros crc [ch rssi dir valid lqi ts]. cbv zeta.
  unfold replay_items, dot15d4_from_header, dot15d4_to_header, keeps_dir, keeps_channel, keeps_rssi.
  cbn [m_channel m_rssi m_dir m_valid m_lqi m_ts tap_rss tap_lqi tap_channel canon_dir].
  repeat split; try reflexivity.
  - destruct ch; [reflexivity | congruence].
  - intros ->. reflexivity.
  - destruct rssi; [reflexivity | congruence].
  - intros ->. reflexivity.
  - destruct lqi; [reflexivity | congruence].
  - intros ->. reflexivity.
Qed.

Lemma dot15d4_header_roundtrip_partial :
  forall crc m, m_channel m <> None -> m_rssi m <> None -> m_valid m = Some true ->
    same_items DOT15D4 m (replay_items DOT15D4 crc m) = true.
Proof.
  intros crc m Hc Hr Hv. apply same_items_iff.
  destruct (dot15d4_header_roundtrip_items crc m) as (H1 & H2 & _ & H3 & _ & H4 & _).
  repeat split; auto. intros _. unfold keeps_valid. congruence.
Qed.

Definition mk_meta ch rssi valid : meta :=
  {| m_channel := ch; m_rssi := rssi; m_dir := None; m_valid := valid; m_lqi := None; m_ts := None |}.

Lemma dot15d4_absent_channel_refuted :
  exists m, meta_wf DOT15D4 m = true /\ m_rssi m <> None /\ m_valid m = Some true /\
    same_items DOT15D4 m (replay_items DOT15D4 true m) = false.
Proof. exists (mk_meta None (Some (-40)) (Some true)). repeat split; try discriminate; vm_compute; reflexivity. Qed.
Lemma dot15d4_absent_rssi_refuted :
  exists m, meta_wf DOT15D4 m = true /\ m_channel m <> None /\ m_valid m = Some true /\
    same_items DOT15D4 m (replay_items DOT15D4 true m) = false.
Proof. exists (mk_meta (Some 11) None (Some true)). repeat split; try discriminate; vm_compute; reflexivity. Qed.
Lemma dot15d4_fcs_validity_refuted :
  exists m, meta_wf DOT15D4 m = true /\ m_channel m <> None /\ m_rssi m <> None /\
    same_items DOT15D4 m (replay_items DOT15D4 true m) = false.
Proof. exists (mk_meta (Some 11) (Some (-40)) (Some false)). repeat split; try discriminate; vm_compute; reflexivity. Qed.

(** ** ESB / Unifying: the capture has no header *)
Lemma esb_header_roundtrip_items :
  forall crc m,
    let r := replay_items ESB crc m in
    m_channel r = Some 0 /\ m_rssi r = None /\ m_valid r = Some crc /\ keeps_dir ESB m r.
Proof. intros crc m. cbv zeta. repeat split. Qed.
Lemma unifying_header_roundtrip_items :
  forall crc m,
    let r := replay_items UNIFYING crc m in
    m_channel r = Some 0 /\ m_rssi r = None /\ m_valid r = Some crc /\ keeps_dir UNIFYING m r.
Proof. intros crc m. cbv zeta. repeat split. Qed.

Lemma esb_header_roundtrip_partial :
  forall crc m, m_channel m = Some 0 -> m_rssi m = None -> m_valid m = Some crc ->
    same_items ESB m (replay_items ESB crc m) = true
    /\ same_items UNIFYING m (replay_items UNIFYING crc m) = true.
Proof.
  intros crc m Hc Hr Hv. split; apply same_items_iff;
    unfold keeps_channel, keeps_rssi, keeps_dir, keeps_valid; cbn; rewrite Hc, Hr, Hv; repeat split.
Qed.

Lemma esb_channel_refuted :
  forall d, d = ESB \/ d = UNIFYING ->
  exists m, meta_wf d m = true /\ m_rssi m = None /\ m_valid m = Some true /\
    same_items d m (replay_items d true m) = false.
Proof. intros d [->| ->]; exists (mk_meta (Some 5) None (Some true)); repeat split; vm_compute; reflexivity. Qed.
Lemma esb_rssi_refuted :
  forall d, d = ESB \/ d = UNIFYING ->
  exists m, meta_wf d m = true /\ m_channel m = Some 0 /\ m_valid m = Some true /\
    same_items d m (replay_items d true m) = false.
Proof. intros d [->| ->]; exists (mk_meta (Some 0) (Some (-40)) (Some true)); repeat split; vm_compute; reflexivity. Qed.
Lemma esb_crc_flag_refuted :
  forall d, d = ESB \/ d = UNIFYING ->
  exists m, meta_wf d m = true /\ m_channel m = Some 0 /\ m_rssi m = None /\
    same_items d m (replay_items d true m) = false.
Proof. intros d [->| ->]; exists (mk_meta (Some 0) None (Some false)); repeat split; vm_compute; reflexivity. Qed.

(** ** PHY (m_channel = frequency) *)
Lemma phy_header_roundtrip_items :
  forall crc m,
    let r := replay_items PHY crc m in
    (m_channel m <> None -> keeps_channel m r) /\ (m_channel m = None -> m_channel r = Some 0)
    /\ (m_rssi m <> None -> keeps_rssi m r) /\ (m_rssi m = None -> m_rssi r = Some 0).
Proof.
  intros crc [ch rssi dir valid lqi ts]. cbv zeta.
  unfold replay_items, phy_from_header, phy_to_header, keeps_channel, keeps_rssi.
  cbn [m_channel m_rssi ph_frequency ph_rssi].
  repeat split.
  - destruct ch; [reflexivity | congruence].
  - intros ->. reflexivity.
  - destruct rssi; [reflexivity | congruence].
  - intros ->. reflexivity.
Qed.

Lemma phy_header_roundtrip_partial :
  forall crc m, m_channel m <> None -> m_rssi m <> None ->
    same_items PHY m (replay_items PHY crc m) = true.
Proof.
  intros crc m Hc Hr. apply same_items_iff.
  destruct (phy_header_roundtrip_items crc m) as (H1 & _ & H2 & _).
  repeat split; auto. cbn. discriminate.
Qed.

Lemma phy_absent_rssi_refuted :
  exists m, meta_wf PHY m = true /\ m_channel m <> None /\
    same_items PHY m (replay_items PHY true m) = false.
Proof. exists (mk_meta (Some 433920000) None None). repeat split; try discriminate; vm_compute; reflexivity. Qed.
Lemma phy_absent_frequency_refuted :
  exists m, meta_wf PHY m = true /\ m_rssi m <> None /\
    same_items PHY m (replay_items PHY true m) = false.
Proof. exists (mk_meta None (Some (-40)) None). repeat split; try discriminate; vm_compute; reflexivity. Qed.

(** nothing in the property's domain makes the writer raise *)
Lemma encodable_in_domain : forall d m, meta_wf d m = true -> encodable d m = true.
Proof.
  intros d [ch rssi dir valid lqi ts] H. unfold meta_wf in H. cbn [m_rssi m_channel m_dir m_lqi] in H.
  apply andb_true_iff in H as [Hr H].
  destruct d; try reflexivity.
  - apply andb_true_iff in H as [Hc _].
    unfold encodable, ble_encodable, ble_to_header. cbn [rf_channel rf_signal m_channel m_rssi].
    assert (0 <= match ch with Some c => ble_channel_to_rf_channel c | None => 0 end <= 255) as Hch.
    { destruct ch as [c|]; [|lia]. apply in_range_some in Hc.
      unfold ble_channel_to_rf_channel. cbv zeta. split_ifs; lia. }
    assert (-128 <= match rssi with Some r => r | None => -128 end <= 127) as Hrs.
    { destruct rssi as [r|]; [apply in_range_some in Hr|]; lia. }
    lia.
  - apply andb_true_iff in H as [Hc Hl].
    unfold encodable. cbn [m_lqi m_channel]. rewrite Hl. cbn [andb].
    destruct ch as [c|]; [|reflexivity]. apply in_range_some in Hc. unfold in_range. lia.
  - unfold encodable. cbn [m_channel m_rssi]. rewrite H. cbn [andb].
    destruct rssi as [r|]; [|reflexivity]. apply in_range_some in Hr. unfold in_range. lia.
Qed.

(** * Frame bytes through the replay interface *)
Open Scope N_scope.

Lemma wf_bytes_cons b l : wf_bytes (b :: l) = true -> b < 256 /\ wf_bytes l = true.
Proof. unfold wf_bytes, wf_byte. cbn [forallb]. intros H. apply andb_true_iff in H as [H1 H2]. split; [lia | exact H2]. Qed.

Lemma le32_un_le32 a b c d rest :
  a < 256 -> b < 256 -> c < 256 -> d < 256 ->
  le32 (un_le32 (a :: b :: c :: d :: rest)) = [a; b; c; d].
Proof.
  intros Ha Hb Hc Hd. unfold le32, un_le32.
  repeat f_equal; lia.
Qed.

Lemma be24_un_be24 a b c : a < 256 -> b < 256 -> c < 256 -> be24 (un_be24 [a; b; c]) = [a; b; c].
Proof. intros Ha Hb Hc. unfold be24, un_be24. repeat f_equal; lia. Qed.

Lemma le16_un_le16 a b : a < 256 -> b < 256 -> le16 (un_le16 [a; b]) = [a; b].
Proof. intros Ha Hb. unfold le16, un_le16. repeat f_equal; lia. Qed.

Lemma wf_bytes_skipn k l : wf_bytes l = true -> wf_bytes (skipn k l) = true.
Proof.
  revert l; induction k as [|k IH]; intros l H; [exact H|].
  destruct l as [|x l]; [reflexivity|]. cbn [skipn]. apply IH. apply (wf_bytes_cons _ _ H).
Qed.

Lemma ble_frame_roundtrip :
  forall f, wf_bytes f = true -> (7 <= length f)%nat -> ble_join (ble_split f) = f.
Proof.
  intros f Hwf Hlen.
  destruct f as [|a [|b [|c [|d rest]]]]; cbn [length] in Hlen; try lia.
  pose proof Hwf as Hw.
  apply wf_bytes_cons in Hw as [Ha Hw]. apply wf_bytes_cons in Hw as [Hb Hw].
  apply wf_bytes_cons in Hw as [Hc Hw]. apply wf_bytes_cons in Hw as [Hd Hw].
  unfold ble_join, ble_split.
  rewrite le32_un_le32 by assumption.
  set (k := (length rest - 3)%nat).
  assert (Hs : slice 4 (length (a :: b :: c :: d :: rest) - 3) (a :: b :: c :: d :: rest) = firstn k rest).
  { unfold slice. cbn [length skipn]. f_equal; subst k; lia. }
  assert (Hk : skipn (length (a :: b :: c :: d :: rest) - 3) (a :: b :: c :: d :: rest) = skipn k rest).
  { cbn [length]. replace (S (S (S (S (length rest)))) - 3)%nat with (4 + k)%nat by (subst k; lia).
    reflexivity. }
  rewrite Hs, Hk.
  assert (Hl3 : length (skipn k rest) = 3%nat) by (rewrite skipn_length; subst k; lia).
  pose proof (wf_bytes_skipn k rest Hw) as Hw3.
  destruct (skipn k rest) as [|x [|y [|z [|? ?]]]] eqn:E; cbn [length] in Hl3; try lia.
  apply wf_bytes_cons in Hw3 as [Hx Hw3]. apply wf_bytes_cons in Hw3 as [Hy Hw3].
  apply wf_bytes_cons in Hw3 as [Hz _].
  rewrite be24_un_be24 by assumption. rewrite <- E.
  cbn [app]. do 4 f_equal. apply firstn_skipn.
Qed.

Lemma dot15d4_frame_roundtrip :
  forall f, wf_bytes f = true -> (2 <= length f)%nat -> dot15d4_join (dot15d4_split f) = f.
Proof.
  intros f Hwf Hlen. unfold dot15d4_join, dot15d4_split. cbn [fst snd].
  set (k := (length f - 2)%nat).
  assert (Hl2 : length (skipn k f) = 2%nat) by (rewrite skipn_length; subst k; lia).
  pose proof (wf_bytes_skipn k f Hwf) as Hw2.
  destruct (skipn k f) as [|x [|y [|? ?]]] eqn:E; cbn [length] in Hl2; try lia.
  apply wf_bytes_cons in Hw2 as [Hx Hw2]. apply wf_bytes_cons in Hw2 as [Hy _].
  rewrite le16_un_le16 by assumption. rewrite <- E. apply firstn_skipn.
Qed.

Lemma replay_frame_id : forall d f, frame_ok d f = true -> replay_frame d f = f.
Proof.
  intros d f H. unfold frame_ok in H. apply andb_true_iff in H as [Hw Hl].
  destruct d; cbn [replay_frame]; try reflexivity.
  - apply ble_frame_roundtrip; [exact Hw | apply Nat.leb_le; exact Hl].
  - apply dot15d4_frame_roundtrip; [exact Hw | apply Nat.leb_le; exact Hl].
Qed.

Open Scope Z_scope.

(** * Order and time stamps *)

Lemma sortedb_cons a l : sortedb (a :: l) = true <-> (match l with b :: _ => a <= b | [] => True end) /\ sortedb l = true.
Proof.
  destruct l as [|b l]; cbn [sortedb].
  - split; [intros _; split; [exact I | reflexivity] | reflexivity].
  - rewrite andb_true_iff, Z.leb_le. reflexivity.
Qed.

Lemma sortedb_hd_le a l : sortedb (a :: l) = true -> Forall (fun x => a <= x) l.
Proof.
  revert a; induction l as [|b l IH]; intros a H; [constructor|].
  apply sortedb_cons in H as [Hab H]. constructor; [exact Hab|].
  specialize (IH b H). eapply Forall_impl; [|exact IH]. cbn. intros x Hx. lia.
Qed.

Lemma sortedb_map f l : monotone f -> sortedb l = true -> sortedb (map f l) = true.
Proof.
  intros Hf. induction l as [|a l IH]; intros H; [reflexivity|].
  apply sortedb_cons in H as [Ha H]. cbn [map]. apply sortedb_cons. split; [|apply IH; exact H].
  destruct l as [|b l]; cbn [map]; [exact I | apply Hf; exact Ha].
Qed.

Lemma sortedb_of_forall a l : Forall (fun x => a <= x) l -> sortedb l = true -> sortedb (a :: l) = true.
Proof.
  intros Hall Hs. apply sortedb_cons. split; [|exact Hs].
  destruct l as [|b l]; [exact I | inversion Hall; assumption].
Qed.

(** the reference pair maps device time onto local time with offset [D] *)
Definition ref_ok (D : Z) (st : wstate) : Prop :=
  match w_ref st with Some (r0, r1) => r0 - r1 = D | None => True end.

Lemma eff_times_offset D l : forall st, ref_ok D st -> offset_consistent D l -> eff_times st l = map fst l.
Proof.
  induction l as [|[now ts] l IH]; intros st Hst Hl; [reflexivity|].
  inversion Hl as [|? ? Hx Hl']; subst. cbn [snd fst] in Hx.
  cbn [eff_times map fst]. unfold process_time.
  destruct ts as [t|].
  - subst t. unfold ref_ok in Hst.
    destruct (w_ref st) as [[r0 r1]|] eqn:Er.
    + f_equal; [lia|]. apply IH; [unfold ref_ok; rewrite Er; exact Hst | exact Hl'].
    + destruct (w_start st) as [s|]; (f_equal; try reflexivity); apply IH; try exact Hl';
        unfold ref_ok; cbn [w_ref]; lia.
  - f_equal. apply IH; assumption.
Qed.

Definition ts_or0 (x : Z * option Z) : Z := match snd x with Some t => t | None => 0 end.

Lemma eff_times_ref r0 r1 l : forall st, w_ref st = Some (r0, r1) -> all_some l ->
  eff_times st l = map (fun x => r0 + (ts_or0 x - r1)) l.
Proof.
  induction l as [|[now ts] l IH]; intros st Hst Hl; [reflexivity|].
  inversion Hl as [|? ? Hx Hl']; subst. cbn [snd] in Hx.
  destruct ts as [t|]; [|congruence].
  cbn [eff_times map]. unfold process_time. rewrite Hst. unfold ts_or0 at 1. cbn [snd].
  f_equal. apply IH; assumption.
Qed.

Lemma ts_list_all_some l : all_some l -> ts_list l = map ts_or0 l.
Proof.
  induction l as [|[now ts] l IH]; intros H; [reflexivity|].
  inversion H as [|? ? Hx Hl']; subst. cbn [snd] in Hx. destruct ts as [t|]; [|congruence].
  unfold ts_list in *. cbn [flat_map map snd app]. unfold ts_or0 at 1. cbn [snd]. f_equal. apply IH; exact Hl'.
Qed.

Lemma eff_times_sorted :
  forall start l,
    sortedb (map fst l) = true -> sortedb (ts_list l) = true ->
    (all_some l \/ exists D, offset_consistent D l) ->
    sortedb (eff_times (w_init start) l) = true.
Proof.
  intros start l Hnow Hts [Hall|[D HD]].
  - destruct l as [|[now0 ts0] l]; [reflexivity|].
    inversion Hall as [|? ? Hx Hl']; subst. cbn [snd] in Hx. destruct ts0 as [t0|]; [|congruence].
    rewrite (ts_list_all_some _ Hall) in Hts. cbn [map] in Hts. unfold ts_or0 at 1 in Hts. cbn [snd] in Hts.
    cbn [eff_times]. unfold process_time, w_init. cbn [w_ref w_start].
    assert (Hgen : forall r0 r1 st, w_ref st = Some (r0, r1) -> r0 - r1 = now0 - t0 ->
                     sortedb (now0 :: eff_times st l) = true).
    { intros r0 r1 st Hst Hr. rewrite (eff_times_ref r0 r1 l st Hst Hl').
      replace (now0 :: map (fun x => r0 + (ts_or0 x - r1)) l)
        with (map (fun t => r0 + (t - r1)) (t0 :: map ts_or0 l)).
      - apply sortedb_map; [intros a b Hab; lia | exact Hts].
      - cbn [map]. f_equal; [lia|]. rewrite map_map. reflexivity. }
    destruct start as [s|].
    + apply (Hgen s (t0 - (now0 - s))); [reflexivity | lia].
    + apply (Hgen now0 t0); [reflexivity | lia].
  - rewrite (eff_times_offset D l (w_init start)); [exact Hnow | exact I | exact HD].
Qed.

Lemma written_times_sorted :
  forall rnd start l, monotone rnd ->
    sortedb (map fst l) = true -> sortedb (ts_list l) = true ->
    (all_some l \/ exists D, offset_consistent D l) ->
    sortedb (written_times rnd start l) = true.
Proof.
  intros rnd start l Hr H1 H2 H3. unfold written_times.
  apply sortedb_map; [exact Hr | apply eff_times_sorted; assumption].
Qed.

Lemma read_ts_monotone : monotone read_ts.
Proof. intros a b Hab. unfold read_ts. apply Z.quot_le_mono; lia. Qed.

Lemma relative_times_spec :
  forall Ts, sortedb Ts = true ->
    sortedb (relative_times Ts) = true
    /\ Forall (fun r => 0 <= r) (relative_times Ts)
    /\ (forall T0 rest, Ts = T0 :: rest -> exists rs, relative_times Ts = 0 :: rs)
    /\ length (relative_times Ts) = length Ts.
Proof.
  intros Ts Hs. destruct Ts as [|T0 rest].
  - repeat split; try constructor. intros ? ? H; discriminate.
  - unfold relative_times. repeat split.
    + apply sortedb_map; [|exact Hs]. intros a b Hab. pose proof (read_ts_monotone a b Hab). lia.
    + apply Forall_map. constructor; [lia|].
      pose proof (sortedb_hd_le _ _ Hs) as Hall. eapply Forall_impl; [|exact Hall].
      cbn. intros x Hx. pose proof (read_ts_monotone T0 x Hx). lia.
    + intros T0' rest' E. cbn [map]. exists (map (fun T => read_ts T - read_ts T0) rest).
      f_equal. lia.
    + apply map_length.
Qed.

Lemma eff_times_length l : forall st, length (eff_times st l) = length l.
Proof.
  induction l as [|[now ts] l IH]; intros st; [reflexivity|].
  cbn [eff_times]. destruct (process_time st now ts) as [t st']. cbn [length]. f_equal. apply IH.
Qed.

Lemma map_fst_combine {A B} (l : list A) (r : list B) : length l = length r -> map fst (combine l r) = l.
Proof.
  revert r; induction l as [|a l IH]; intros [|b r] H; try discriminate; [reflexivity|].
  cbn [combine map fst]. f_equal. apply IH. cbn [length] in H. lia.
Qed.
Lemma map_snd_combine {A B} (l : list A) (r : list B) : length l = length r -> map snd (combine l r) = r.
Proof.
  revert r; induction l as [|a l IH]; intros [|b r] H; try discriminate; [reflexivity|].
  cbn [combine map snd]. f_equal. apply IH. cbn [length] in H. lia.
Qed.

(** the capture of a packet sequence: same number of packets, in the same order, the same
    bytes, relative time stamps start at 0, are never negative and never decrease *)
Lemma order_and_monotone_time :
  forall rnd hub d start (l : list pin),
    monotone rnd ->
    Forall (fun p => frame_ok d (i_frame p) = true) l ->
    sortedb (map fst (clocks_of l)) = true ->
    sortedb (ts_list (clocks_of l)) = true ->
    (all_some (clocks_of l) \/ exists D, offset_consistent D (clocks_of l)) ->
    let out := capture_replay rnd hub d start l in
    map o_frame out = map i_frame l
    /\ sortedb (map o_time out) = true
    /\ sortedb (map o_rel out) = true
    /\ Forall (fun r => 0 <= r) (map o_rel out)
    /\ (l <> [] -> exists rs, map o_rel out = 0 :: rs).
Proof.
  intros rnd hub d start l Hr Hf Hn Ht Hc. cbv zeta. unfold capture_replay, replay_with. cbv zeta.
  set (Ts := written_times rnd start (clocks_of l)).
  set (rels := relative_times Ts).
  assert (HTs : sortedb Ts = true) by (apply written_times_sorted; assumption).
  destruct (relative_times_spec Ts HTs) as (Hs & Hpos & Hhd & Hlen). fold rels in Hs, Hpos, Hhd, Hlen.
  assert (HlT : length Ts = length l).
  { subst Ts. unfold written_times. rewrite map_length, eff_times_length. unfold clocks_of. apply map_length. }
  assert (Hlc : length l = length (combine Ts rels)) by (rewrite combine_length; lia).
  assert (Hrel : map o_rel (map (fun x : pin * (Z * Z) =>
             let '(p, (T, rel)) := x in
             {| o_time := T;
                o_khz := match d with DOT15D4 => tap_freq_khz (dot15d4_to_header (i_meta p)) | _ => None end;
                o_frame := replay_frame d (i_frame p);
                o_a := replay_items d (i_crc_ok p) (i_meta p);
                o_b := deliver hub d (replay_items d (i_crc_ok p) (i_meta p)); o_rel := rel |})
            (combine l (combine Ts rels))) = rels).
  { rewrite map_map.
    transitivity (map snd (map snd (combine l (combine Ts rels)))).
    - rewrite map_map. apply map_ext. intros [p [T rel]]. reflexivity.
    - rewrite map_snd_combine by exact Hlc. apply map_snd_combine. lia. }
  assert (Htime : map o_time (map (fun x : pin * (Z * Z) =>
             let '(p, (T, rel)) := x in
             {| o_time := T;
                o_khz := match d with DOT15D4 => tap_freq_khz (dot15d4_to_header (i_meta p)) | _ => None end;
                o_frame := replay_frame d (i_frame p);
                o_a := replay_items d (i_crc_ok p) (i_meta p);
                o_b := deliver hub d (replay_items d (i_crc_ok p) (i_meta p)); o_rel := rel |})
            (combine l (combine Ts rels))) = Ts).
  { rewrite map_map.
    transitivity (map fst (map snd (combine l (combine Ts rels)))).
    - rewrite map_map. apply map_ext. intros [p [T rel]]. reflexivity.
    - rewrite map_snd_combine by exact Hlc. apply map_fst_combine. lia. }
  rewrite Hrel, Htime. repeat split; try assumption.
  - rewrite map_map.
    transitivity (map (fun p => replay_frame d (i_frame p)) (map fst (combine l (combine Ts rels)))).
    + rewrite map_map. apply map_ext. intros [p [T rel]]. reflexivity.
    + rewrite map_fst_combine by exact Hlc.
      apply map_ext_in. intros p Hp. apply replay_frame_id.
      rewrite Forall_forall in Hf. apply Hf. exact Hp.
  - intros Hne. destruct Ts as [|T0 rest] eqn:E.
    + destruct l; [congruence | discriminate].
    + apply (Hhd T0 rest). reflexivity.
Qed.

(** mixing packets with and without device timestamp needs the clock hypothesis: with an
    arbitrary relation between the two clocks the written times are not monotone *)
Lemma mixed_clocks_refuted :
  exists l, sortedb (map fst l) = true /\ sortedb (ts_list l) = true /\
    sortedb (written_times (fun z => z) None l) = false.
Proof.
  exists [(1000, Some 5); (2000, None); (2001, Some 6)]. repeat split; vm_compute; reflexivity.
Qed.

(** * Replays during which the connector is stopped and started again *)

Lemma capture_replay_times :
  forall rnd hub d start l,
    let out := capture_replay rnd hub d start l in
    map o_time out = written_times rnd start (clocks_of l)
    /\ map o_rel out = relative_times (written_times rnd start (clocks_of l)).
Proof.
  intros rnd hub d start l. cbv zeta. unfold capture_replay, replay_with. cbv zeta.
  set (Ts := written_times rnd start (clocks_of l)).
  set (rels := relative_times Ts).
  assert (HlT : length Ts = length l).
  { subst Ts. unfold written_times. rewrite map_length, eff_times_length. unfold clocks_of. apply map_length. }
  assert (Hlen : length rels = length Ts).
  { subst rels. unfold relative_times. destruct Ts; [reflexivity | apply map_length]. }
  assert (Hlc : length l = length (combine Ts rels)) by (rewrite combine_length; lia).
  split; rewrite map_map.
  - transitivity (map fst (map snd (combine l (combine Ts rels)))).
    + rewrite map_map. apply map_ext. intros [p [T rel]]. reflexivity.
    + rewrite map_snd_combine by exact Hlc. apply map_fst_combine. lia.
  - transitivity (map snd (map snd (combine l (combine Ts rels)))).
    + rewrite map_map. apply map_ext. intros [p [T rel]]. reflexivity.
    + rewrite map_snd_combine by exact Hlc. apply map_snd_combine. lia.
Qed.

Lemma replay_ops_origin {A} (ops : list rop) :
  forall st (recs : list (Z * A)) o, r_origin st = Some o ->
    replay_ops st ops recs = map (fun x => (read_ts (fst x) - o, snd x)) (firstn (eff_reads (r_started st) ops) recs).
Proof.
  induction ops as [|op ops IH]; intros st recs o Ho; [reflexivity|].
  destruct op; cbn [replay_ops eff_reads].
  - rewrite (IH _ recs o) by exact Ho. reflexivity.
  - rewrite (IH _ recs o) by exact Ho. reflexivity.
  - destruct (r_started st) eqn:Es.
    + destruct recs as [|[T a] recs']; [reflexivity|].
      rewrite Ho. cbn [firstn map fst snd]. f_equal.
      rewrite (IH _ recs' o) by reflexivity. reflexivity.
    + rewrite (IH _ recs o) by exact Ho. rewrite Es. reflexivity.
Qed.

Definition rel_recs {A} (recs : list (Z * A)) : list (Z * A) :=
  match recs with
  | [] => []
  | (T0, _) :: _ => map (fun x => (read_ts (fst x) - read_ts T0, snd x)) recs
  end.

Lemma replay_ops_fresh {A} (ops : list rop) :
  forall st (recs : list (Z * A)), r_origin st = None ->
    replay_ops st ops recs = firstn (eff_reads (r_started st) ops) (rel_recs recs).
Proof.
  induction ops as [|op ops IH]; intros st recs Ho; [reflexivity|].
  destruct op; cbn [replay_ops eff_reads].
  - rewrite IH by exact Ho. reflexivity.
  - rewrite IH by exact Ho. reflexivity.
  - destruct (r_started st) eqn:Es.
    + destruct recs as [|[T a] recs']; [reflexivity|].
      rewrite Ho. unfold rel_recs. cbn [map firstn fst snd]. f_equal.
      rewrite (replay_ops_origin ops _ recs' (read_ts T)) by reflexivity.
      rewrite firstn_map. reflexivity.
    + rewrite IH by exact Ho. rewrite Es. reflexivity.
Qed.

Lemma sortedb_firstn n : forall l, sortedb l = true -> sortedb (firstn n l) = true.
Proof.
  induction n as [|n IH]; intros l H; [reflexivity|].
  destruct l as [|a l]; [reflexivity|]. cbn [firstn].
  apply sortedb_cons in H as [Ha H]. apply sortedb_cons. split; [|apply IH; exact H].
  destruct n; [exact I|]. destruct l as [|b l]; [exact I | exact Ha].
Qed.

Lemma Forall_firstn_of {A} (P : A -> Prop) n : forall l, Forall P l -> Forall P (firstn n l).
Proof.
  induction n as [|n IH]; intros l H; [constructor|].
  destruct l as [|a l]; [constructor|]. inversion H; subst. cbn [firstn]. constructor; [assumption | apply IH; assumption].
Qed.

Lemma eff_reads_repeat m : eff_reads true (repeat RRead m) = m.
Proof. induction m as [|m IH]; [reflexivity|]. cbn [repeat eff_reads]. rewrite IH. reflexivity. Qed.

Lemma eff_reads_repeat_app m rest : (eff_reads true rest <= eff_reads true (repeat RRead m ++ rest))%nat.
Proof. induction m as [|m IH]; [cbn; lia|]. cbn [repeat app eff_reads]. lia. Qed.

Lemma eff_reads_restart ks n : (n < eff_reads false (restart_ops ks n))%nat.
Proof.
  unfold restart_ops. cbn [eff_reads].
  induction ks as [|k ks IH]; cbn [flat_map app].
  - rewrite eff_reads_repeat. lia.
  - rewrite <- !app_assoc. eapply Nat.lt_le_trans; [|apply eff_reads_repeat_app].
    cbn [app eff_reads]. exact IH.
Qed.

Lemma rel_recs_aux c (L : list pout) :
  map o_rel L = map (fun T => read_ts T - c) (map o_time L) ->
  map (fun x : Z * pout => (read_ts (fst x) - c, snd x)) (map (fun o => (o_time o, o)) L) = map (fun o => (o_rel o, o)) L.
Proof.
  induction L as [|o L IH]; intros H; [reflexivity|].
  cbn [map] in *. injection H as H0 H. cbn [fst snd]. rewrite H0. f_equal. apply IH. exact H.
Qed.

Lemma rel_recs_of_out (out : list pout) :
  map o_rel out = relative_times (map o_time out) ->
  rel_recs (map (fun o => (o_time o, o)) out) = map (fun o => (o_rel o, o)) out.
Proof.
  destruct out as [|o0 r]; [reflexivity|]. intros H.
  apply (rel_recs_aux (read_ts (o_time o0)) (o0 :: r)). exact H.
Qed.

(** the extension of order_and_monotone_time to op sequences *)
Lemma order_and_monotone_time_ops :
  forall rnd hub d start (l : list pin) (ops : list rop),
    monotone rnd ->
    Forall (fun p => frame_ok d (i_frame p) = true) l ->
    sortedb (map fst (clocks_of l)) = true ->
    sortedb (ts_list (clocks_of l)) = true ->
    (all_some (clocks_of l) \/ exists D, offset_consistent D (clocks_of l)) ->
    let out := capture_replay rnd hub d start l in
    let del := capture_replay_ops rnd hub d start l ops in
    let n := eff_reads false ops in
    del = firstn n (map (fun o => (o_rel o, o)) out)
    /\ map (fun x => o_frame (snd x)) del = firstn n (map i_frame l)
    /\ sortedb (map fst del) = true
    /\ Forall (fun r => 0 <= r) (map fst del)
    /\ ((length l <= n)%nat -> map fst del = map o_rel out /\ map (fun x => o_frame (snd x)) del = map i_frame l).
Proof.
  intros rnd hub d start l ops Hr Hf Hn Ht Hc. cbv zeta.
  destruct (order_and_monotone_time rnd hub d start l Hr Hf Hn Ht Hc) as (Hfr & _ & Hs & Hpos & _).
  destruct (capture_replay_times rnd hub d start l) as [Htime Hrel].
  set (out := capture_replay rnd hub d start l) in *.
  assert (Hdel : capture_replay_ops rnd hub d start l ops
                 = firstn (eff_reads false ops) (map (fun o => (o_rel o, o)) out)).
  { unfold capture_replay_ops. fold out. rewrite replay_ops_fresh by reflexivity. cbn [r_init r_started]. f_equal.
    apply rel_recs_of_out. rewrite Hrel, Htime. reflexivity. }
  rewrite Hdel.
  assert (H1 : map fst (firstn (eff_reads false ops) (map (fun o => (o_rel o, o)) out))
               = firstn (eff_reads false ops) (map o_rel out)).
  { rewrite <- firstn_map, map_map. reflexivity. }
  assert (H2 : map (fun x : Z * pout => o_frame (snd x)) (firstn (eff_reads false ops) (map (fun o => (o_rel o, o)) out))
               = firstn (eff_reads false ops) (map i_frame l)).
  { rewrite <- firstn_map, map_map. cbn [snd]. rewrite <- Hfr. reflexivity. }
  rewrite H1, H2. repeat split.
  - apply sortedb_firstn. exact Hs.
  - apply Forall_firstn_of. exact Hpos.
  - apply firstn_all2. rewrite map_length. unfold out, capture_replay, replay_with.
    rewrite map_length, combine_length, combine_length.
    assert (length (written_times rnd start (clocks_of l)) = length l).
    { unfold written_times. rewrite map_length, eff_times_length. unfold clocks_of. apply map_length. }
    assert (length (relative_times (written_times rnd start (clocks_of l))) = length l).
    { rewrite <- H0. unfold relative_times. destruct (written_times rnd start (clocks_of l)); [reflexivity | apply map_length]. }
    lia.
  - apply firstn_all2. rewrite map_length. exact H.
Qed.

(** * Two writer threads *)

Lemma merge_map {A B} (f : A -> B) sched : forall l1 l2, map f (merge sched l1 l2) = merge sched (map f l1) (map f l2).
Proof.
  induction sched as [|[|] s IH]; intros l1 l2; cbn [merge].
  - apply map_app.
  - destruct l1 as [|a l1]; cbn [map]; [reflexivity|]. f_equal. apply IH.
  - destruct l2 as [|b l2]; cbn [map]; [reflexivity|]. f_equal. apply IH.
Qed.

Lemma merge_length {A} sched : forall (l1 l2 : list A), length (merge sched l1 l2) = (length l1 + length l2)%nat.
Proof.
  induction sched as [|[|] s IH]; intros l1 l2; cbn [merge].
  - apply app_length.
  - destruct l1 as [|a l1]; cbn [length]; [reflexivity|]. rewrite IH. reflexivity.
  - destruct l2 as [|b l2]; cbn [length]; [lia|]. rewrite IH. cbn [length]. lia.
Qed.

Lemma merge_Forall {A} (P : A -> Prop) sched : forall l1 l2, Forall P l1 -> Forall P l2 -> Forall P (merge sched l1 l2).
Proof.
  induction sched as [|[|] s IH]; intros l1 l2 H1 H2; cbn [merge].
  - apply Forall_app. split; assumption.
  - destruct l1 as [|a l1]; [exact H2|]. inversion H1; subst. constructor; [assumption | apply IH; assumption].
  - destruct l2 as [|b l2]; [exact H1|]. inversion H2; subst. constructor; [assumption | apply IH; assumption].
Qed.

Lemma stamped_spec readings : forall l, length readings = length l ->
  map i_now (stamped readings l) = readings
  /\ map i_frame (stamped readings l) = map i_frame l
  /\ map (fun p => m_ts (i_meta p)) (stamped readings l) = map (fun p => m_ts (i_meta p)) l.
Proof.
  unfold stamped. induction readings as [|c cs IH]; intros [|p l] H; try discriminate; [repeat split|].
  cbn [length] in H. destruct (IH l ltac:(lia)) as (H1 & H2 & H3).
  cbn [combine map fst snd set_now i_now i_frame i_meta]. repeat split; f_equal; assumption.
Qed.

Lemma clocks_of_stamped readings l : length readings = length l ->
  clocks_of (stamped readings l) = combine readings (map (fun p => m_ts (i_meta p)) l).
Proof.
  unfold stamped, clocks_of. revert l. induction readings as [|c cs IH]; intros [|p l] H; try discriminate; [reflexivity|].
  cbn [length] in H. cbn [combine map fst snd set_now i_now i_meta]. f_equal. apply IH. lia.
Qed.

(** For EVERY schedule of two writer threads: the file holds the packets in the order in which
    the lock was taken (each thread's own order preserved), the record times are the clock
    readings in that same order, hence never decrease, and the replay delivers all of them
    with non-decreasing relative timestamps. *)
Lemma concurrent_writers :
  forall rnd hub d start sched readings (l1 l2 : list pin),
    monotone rnd ->
    Forall (fun p => frame_ok d (i_frame p) = true) l1 ->
    Forall (fun p => frame_ok d (i_frame p) = true) l2 ->
    length readings = (length l1 + length l2)%nat ->
    sortedb readings = true ->
    let l := stamped readings (merge sched l1 l2) in
    sortedb (ts_list (clocks_of l)) = true ->
    (all_some (clocks_of l) \/ exists D, offset_consistent D (clocks_of l)) ->
    let out := concurrent_capture rnd hub d start sched readings l1 l2 in
    map o_frame out = merge sched (map i_frame l1) (map i_frame l2)
    /\ sortedb (map o_time out) = true
    /\ sortedb (map o_rel out) = true
    /\ Forall (fun r => 0 <= r) (map o_rel out)
    /\ length out = (length l1 + length l2)%nat.
Proof.
  intros rnd hub d start sched readings l1 l2 Hr Hf1 Hf2 Hlen Hs. cbv zeta. intros Ht Hc.
  unfold concurrent_capture.
  assert (Hl : length readings = length (merge sched l1 l2)) by (rewrite merge_length; exact Hlen).
  destruct (stamped_spec readings _ Hl) as (Hnow & Hfr & _).
  set (l := stamped readings (merge sched l1 l2)) in *.
  assert (Hf : Forall (fun p => frame_ok d (i_frame p) = true) l).
  { apply Forall_forall. intros p Hp.
    assert (Hin : In (i_frame p) (map i_frame l)) by (apply in_map; exact Hp).
    rewrite Hfr in Hin. apply in_map_iff in Hin as (q & Hq & Hqin). rewrite <- Hq.
    pose proof (merge_Forall _ sched l1 l2 Hf1 Hf2) as Hall. rewrite Forall_forall in Hall. apply Hall. exact Hqin. }
  assert (Hn : sortedb (map fst (clocks_of l)) = true).
  { unfold clocks_of. rewrite map_map. cbn [fst].
    replace (map (fun x : pin => i_now x) l) with (map i_now l) by reflexivity. rewrite Hnow. exact Hs. }
  destruct (order_and_monotone_time rnd hub d start l Hr Hf Hn Ht Hc) as (H1 & H2 & H3 & H4 & _).
  repeat split; try assumption.
  - rewrite H1, Hfr. apply merge_map.
  - rewrite <- (map_length o_frame), H1, Hfr, map_length. apply merge_length.
Qed.

(** a file whose order is not the order of the clock readings has decreasing record times *)
Lemma stamping_outside_the_lock_refuted :
  exists c1 c2, c1 <= c2 /\ sortedb (written_times (fun z => z) None [(c2, None); (c1, None)]) = false.
Proof. exists 1000, 1001. split; [lia | vm_compute; reflexivity]. Qed.
