(** C01 — tie between the source and the model, as theorems (each closed by [exact]; see
    GenEq.v).  [gen_*] are the definitions of Gen.v, generated from whad/device/device.py by
    harness/translators/pyfun.py; the check regenerates them on every run and re-checks these
    statements against the regenerated text. *)
From Coq Require Import List NArith Arith Bool.
From Whad Require Import Lib.Bytes Lib.PyOps C01.Model.
From Whad Require Import C01.Gen C01.GenEq.
Import ListNotations.

(** [DevInThread.serialize] (marker, [len & 0xff], [(len >> 8) & 0xff], [bytes(header) + raw])
    IS the model's [frame], for every payload; and [bytes(header)] never leaves the byte range. *)
Theorem C01_gen_serialize_eq : forall p : bytes, gen_serialize p = frame p.
Proof. exact gen_serialize_eq. Qed.

Theorem C01_gen_serialize_domain : forall p : bytes, gen_serialize_pre p.
Proof. exact gen_serialize_pre_ok. Qed.

(** [DevOutThread.ingest]: [msg_size = data[2] | (data[3] << 8)] is the little-endian 16-bit
    value the model reads, on byte strings holding a header. *)
Theorem C01_gen_ingest_msg_size_eq :
  forall (d : bytes) (m : N),
    wf_bytes d = true -> 4 <= length d -> gen_ingest_msg_size d m = un_le16 (skipn 2 d).
Proof. exact gen_ingest_msg_size_eq. Qed.

(** Indexing is in range wherever the model's loop evaluates these expressions. *)
Theorem C01_gen_ingest_domain :
  forall (d : bytes) (m : N),
    (4 <= length d -> gen_ingest_msg_size_pre d m)
    /\ (2 <= length d -> gen_ingest_is_marker_pre d m)
    /\ (2 <= length d -> gen_resync_mismatch_pre d m).
Proof.
  exact (fun d m => conj (gen_ingest_msg_size_pre_ok d m)
                   (conj (gen_ingest_is_marker_pre_ok d m) (gen_resync_mismatch_pre_ok d m))).
Qed.

(** completeness test, payload slice, chomp *)
Theorem C01_gen_ingest_size_eq :
  forall (d : bytes) (m : N),
    gen_ingest_complete d m = (m + 4 <=? nlen d)%N
    /\ gen_ingest_raw d m = slice 4 (4 + N.to_nat m) d
    /\ gen_ingest_rest d m = skipn (N.to_nat m + 4) d.
Proof.
  exact (fun d m => conj (gen_ingest_complete_eq d m) (conj (gen_ingest_raw_eq d m) (gen_ingest_rest_eq d m))).
Qed.

(** The inner (resynchronisation) loop over the generated test / drop is the model's [resync]. *)
Theorem C01_gen_resync_eq :
  forall (fuel : nat) (d : bytes), length d <= fuel -> resync_gen fuel d = resync d.
Proof. exact resync_gen_eq. Qed.

(** The outer loop: the hand-written control skeleton [ingest_loop_gen] (GenEq.v) over the
    generated tests, size computation and slices is the model's [ingest_loop], for every
    [parse], every fuel and every byte string. *)
Theorem C01_gen_ingest_loop_eq :
  forall (parse : payload -> parse_outcome) (fuel : nat) (d : bytes),
    wf_bytes d = true -> ingest_loop_gen parse fuel d = ingest_loop parse fuel d.
Proof. exact ingest_loop_gen_eq. Qed.

(** Non-vacuity: a 300-byte payload gets the header AC BE 2C 01, and the generated size
    computation reads 300 back from it. *)
Example C01_gen_nonvacuous :
  firstn 4 (gen_serialize (repeat 1%N 300)) = [172%N; 190%N; 44%N; 1%N]
  /\ gen_ingest_msg_size (gen_serialize (repeat 1%N 300)) 0 = 300%N.
Proof. split; vm_compute; reflexivity. Qed.
