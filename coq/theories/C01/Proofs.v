(** C01 — lemmas about the framing model. *)
From Coq Require Import List NArith ZArith Arith Bool Lia ZifyBool ZifyN ZifyNat.
From Whad Require Import Lib.Bytes C01.Model.
Import ListNotations.
Ltac Zify.zify_post_hook ::= Z.to_euclidean_division_equations.

(** ** The inner loop [resync] *)

Lemma drop_cond a b : negb (N.eqb a 172) || negb (N.eqb b 190) = negb (is_marker a b).
Proof. unfold is_marker. destruct (N.eqb a 172), (N.eqb b 190); reflexivity. Qed.

Lemma resync_cons2 a b t :
  resync (a :: b :: t) = if is_marker a b then a :: b :: t else resync (b :: t).
Proof.
  change (resync (a :: b :: t))
    with (if negb (N.eqb a 172) || negb (N.eqb b 190) then resync (b :: t) else a :: b :: t).
  rewrite drop_cond. destruct (is_marker a b); reflexivity.
Qed.

Lemma resync_one a : resync [a] = [a].
Proof. reflexivity. Qed.

Lemma is_marker_true a b : is_marker a b = true -> a = 172%N /\ b = 190%N.
Proof.
  unfold is_marker. intros H. apply andb_true_iff in H as [H1 H2].
  apply N.eqb_eq in H1. apply N.eqb_eq in H2. split; assumption.
Qed.

Lemma resync_length d : length (resync d) <= length d.
Proof.
  induction d as [|a d IH]; [apply le_n|].
  destruct d as [|b t]; [apply le_n|].
  rewrite resync_cons2. destruct (is_marker a b); [apply le_n|].
  cbn [length] in *. lia.
Qed.

Lemma resync_drop_length a b t :
  is_marker a b = false -> length (resync (a :: b :: t)) < length (a :: b :: t).
Proof.
  intros H. rewrite resync_cons2, H. pose proof (resync_length (b :: t)).
  cbn [length] in *. lia.
Qed.

Lemma resync_idem d : resync (resync d) = resync d.
Proof.
  induction d as [|a d IH]; [reflexivity|].
  destruct d as [|b t]; [reflexivity|].
  rewrite resync_cons2. destruct (is_marker a b) eqn:E; [|exact IH].
  rewrite resync_cons2, E. reflexivity.
Qed.

(** The inner loop is incremental: bytes appended later do not change what was
    (or would have been) dropped. *)
Lemma resync_app d c : resync (d ++ c) = resync (resync d ++ c).
Proof.
  induction d as [|a d IH]; [reflexivity|].
  destruct d as [|b t]; [reflexivity|].
  cbn [app]. rewrite (resync_cons2 a b t), (resync_cons2 a b (t ++ c)).
  destruct (is_marker a b) eqn:E.
  - cbn [app]. rewrite resync_cons2, E. reflexivity.
  - exact IH.
Qed.

Lemma resync_shape d : length (resync d) < 2 \/ exists t, resync d = 172%N :: 190%N :: t.
Proof.
  induction d as [|a d IH]; [left; cbn; lia|].
  destruct d as [|b t]; [left; cbn; lia|].
  rewrite resync_cons2. destruct (is_marker a b) eqn:E; [right|exact IH].
  apply is_marker_true in E as [-> ->]. eexists; reflexivity.
Qed.

(** ** The specification [scan]: fuel is irrelevant once it exceeds the length *)

Definition scan_step (rec : bytes -> list payload * bytes) (s : bytes) : list payload * bytes :=
  match resync s with
  | a :: b :: lo :: hi :: body =>
      let n := N.to_nat (lo + 256 * hi)%N in
      if is_marker a b && (lo + 256 * hi <=? nlen body)%N && negb (length body =? 0)
      then let '(ps, r) := rec (skipn n body) in (firstn n body :: ps, r)
      else ([], resync s)
  | _ => ([], resync s)
  end.

Lemma scan_S f s : scan (S f) s = scan_step (scan f) s.
Proof. reflexivity. Qed.

Lemma scan_fuel f1 : forall f2 s, length s < f1 -> length s < f2 -> scan f1 s = scan f2 s.
Proof.
  induction f1 as [|f1 IH]; intros f2 s H1 H2; [lia|].
  destruct f2 as [|f2]; [lia|].
  rewrite !scan_S. unfold scan_step.
  pose proof (resync_length s) as HL.
  destruct (resync s) as [|a [|b [|lo [|hi body]]]]; try reflexivity.
  cbv zeta.
  destruct (is_marker a b && (lo + 256 * hi <=? nlen body)%N && negb (length body =? 0));
    [|reflexivity].
  rewrite (IH f2); [reflexivity| |];
    rewrite skipn_length; cbn [length] in HL; lia.
Qed.

Lemma scanS_unfold s : scanS s = scan_step scanS s.
Proof.
  unfold scanS at 1. rewrite scan_S. unfold scan_step.
  pose proof (resync_length s) as HL.
  destruct (resync s) as [|a [|b [|lo [|hi body]]]]; try reflexivity.
  cbv zeta.
  destruct (is_marker a b && (lo + 256 * hi <=? nlen body)%N && negb (length body =? 0));
    [|reflexivity].
  unfold scanS. rewrite (scan_fuel (length s) (S (length (skipn (N.to_nat (lo + 256 * hi)) body))));
    [reflexivity| |apply Nat.lt_succ_diag_r].
  rewrite skipn_length; cbn [length] in HL; lia.
Qed.

Lemma scanS_same_resync s1 s2 : resync s1 = resync s2 -> scanS s1 = scanS s2.
Proof.
  intros H. rewrite (scanS_unfold s1), (scanS_unfold s2). unfold scan_step. rewrite H. reflexivity.
Qed.

Lemma scanS_resync s : scanS (resync s) = scanS s.
Proof. apply scanS_same_resync, resync_idem. Qed.

(** One complete frame at the front. *)
Lemma scanS_frame_step a b lo hi body :
  is_marker a b = true ->
  N.to_nat (lo + 256 * hi) <= length body -> body <> [] ->
  scanS (a :: b :: lo :: hi :: body)
  = let '(ps, r) := scanS (skipn (N.to_nat (lo + 256 * hi)) body) in
    (firstn (N.to_nat (lo + 256 * hi)) body :: ps, r).
Proof.
  intros M Hn Hb. rewrite scanS_unfold at 1. unfold scan_step.
  rewrite resync_cons2, M. cbv zeta.
  assert (C : is_marker a b && (lo + 256 * hi <=? nlen body)%N && negb (length body =? 0) = true).
  { rewrite M. destruct body; [congruence|]. unfold nlen. cbn [length] in *. cbn [andb]. lia. }
  rewrite C. reflexivity.
Qed.

(** Nothing complete at the front: scanning stops there. *)
Lemma scanS_stop s :
  (forall a b lo hi body, resync s = a :: b :: lo :: hi :: body ->
     is_marker a b && (lo + 256 * hi <=? nlen body)%N && negb (length body =? 0) = false) ->
  scanS s = ([], resync s).
Proof.
  intros H. rewrite scanS_unfold. unfold scan_step.
  destruct (resync s) as [|a [|b [|lo [|hi body]]]]; try reflexivity.
  cbv zeta. rewrite (H a b lo hi body eq_refl). reflexivity.
Qed.

Lemma scanS_short s : length s <= 4 -> scanS s = ([], resync s).
Proof.
  intros H. apply scanS_stop. intros a b lo hi body R.
  pose proof (resync_length s) as HL. rewrite R in HL. cbn [length] in HL.
  destruct body; [|cbn [length] in HL; lia].
  cbn [length Nat.eqb negb]. apply andb_false_r.
Qed.

Lemma scanS_cases s :
  scanS s = ([], resync s) \/
  exists a b lo hi body,
    resync s = a :: b :: lo :: hi :: body /\ is_marker a b = true
    /\ N.to_nat (lo + 256 * hi) <= length body /\ body <> []
    /\ scanS s = let '(ps, r) := scanS (skipn (N.to_nat (lo + 256 * hi)) body) in
                 (firstn (N.to_nat (lo + 256 * hi)) body :: ps, r).
Proof.
  rewrite (scanS_unfold s). unfold scan_step.
  destruct (resync s) as [|a [|b [|lo [|hi body]]]]; try (left; reflexivity).
  cbv zeta.
  destruct (is_marker a b && (lo + 256 * hi <=? nlen body)%N && negb (length body =? 0)) eqn:C;
    [right|left; reflexivity].
  exists a, b, lo, hi, body. split; [reflexivity|].
  assert (M : is_marker a b = true) by (destruct (is_marker a b); [reflexivity|discriminate]).
  unfold nlen in C. split; [exact M|]. split; [lia|]. split; [|reflexivity].
  destruct body; [cbn [length] in C; lia|discriminate].
Qed.

(** The residue of a scan is quiescent. *)
Lemma scanS_pending_fix s : scanS (snd (scanS s)) = ([], snd (scanS s)).
Proof.
  remember (length s) as n eqn:Hn. revert s Hn.
  induction n as [n IH] using lt_wf_ind. intros s Hn.
  destruct (scanS_cases s) as [St | (a & b & lo & hi & body & R & M & Hk & Hb & F)].
  - rewrite St. cbn [snd]. rewrite scanS_resync. exact St.
  - rewrite F.
    assert (Hlt : length (skipn (N.to_nat (lo + 256 * hi)) body) < n).
    { rewrite skipn_length. pose proof (resync_length s) as HL. rewrite R in HL. cbn [length] in HL. lia. }
    specialize (IH _ Hlt _ eq_refl).
    destruct (scanS (skipn (N.to_nat (lo + 256 * hi)) body)) as [ps r]. cbn [snd] in *. exact IH.
Qed.

(** ** The specification is incremental (the heart of chunking invariance) *)
Lemma scanS_app s : forall c,
  scanS (s ++ c) = let '(o, r) := scanS s in let '(o', r') := scanS (r ++ c) in (o ++ o', r').
Proof.
  remember (length s) as n eqn:Hn. revert s Hn.
  induction n as [n IH] using lt_wf_ind. intros s Hn c.
  assert (E : scanS (s ++ c) = scanS (resync s ++ c)) by apply scanS_same_resync, resync_app.
  rewrite E.
  destruct (scanS_cases s) as [St | (a & b & lo & hi & body & R & M & Hk & Hb & F)].
  - rewrite St. destruct (scanS (resync s ++ c)); reflexivity.
  - rewrite F, R. set (k := N.to_nat (lo + 256 * hi)) in *.
    cbn [app]. rewrite scanS_frame_step; fold k.
    2: exact M.
    2: rewrite app_length; lia.
    2: destruct body; [congruence|discriminate].
    rewrite firstn_app, skipn_app.
    replace (k - length body) with 0 by lia. cbn [firstn skipn]. rewrite app_nil_r.
    assert (Hlt : length (skipn k body) < n).
    { rewrite skipn_length. pose proof (resync_length s) as HL. rewrite R in HL. cbn [length] in HL. lia. }
    rewrite (IH _ Hlt (skipn k body) eq_refl c).
    destruct (scanS (skipn k body)) as [ps r].
    destruct (scanS (r ++ c)) as [o' r']. reflexivity.
Qed.

Lemma deliver_app s c : deliver (s ++ c) = deliver s ++ deliver (pending s ++ c).
Proof.
  unfold deliver, pending. rewrite scanS_app.
  destruct (scanS s) as [o r]. cbn [fst snd]. destruct (scanS (r ++ c)). reflexivity.
Qed.

Lemma pending_app s c : pending (s ++ c) = pending (pending s ++ c).
Proof.
  unfold deliver, pending. rewrite scanS_app.
  destruct (scanS s) as [o r]. cbn [fst snd]. destruct (scanS (r ++ c)). reflexivity.
Qed.

(** ** The transcribed loops refine the specification *)
Section WithParse.
  Variable parse : payload -> parse_outcome.

  Lemma dispatch_app_dead a : forall o b, dispatch parse a = (o, true) -> dispatch parse (a ++ b) = (o, true).
  Proof.
    induction a as [|p a IH]; intros o b H; [discriminate|].
    cbn [app dispatch] in *. destruct (parse p); [|apply IH; exact H|exact H].
    destruct (dispatch parse a) as [o1 d1] eqn:D. injection H as <- ->.
    rewrite (IH o1 b eq_refl). reflexivity.
  Qed.

  Lemma dispatch_app_live a : forall o b, dispatch parse a = (o, false) ->
    dispatch parse (a ++ b) = (o ++ fst (dispatch parse b), snd (dispatch parse b)).
  Proof.
    induction a as [|p a IH]; intros o b H.
    - injection H as <-. cbn [app]. destruct (dispatch parse b); reflexivity.
    - cbn [app dispatch] in *. destruct (parse p); [|apply IH; exact H|discriminate].
      destruct (dispatch parse a) as [o1 d1] eqn:D. injection H as <- ->.
      rewrite (IH o1 b eq_refl). reflexivity.
  Qed.

  Lemma dispatch_no_raise : (forall p, parse p <> PRaise) ->
    forall ps, dispatch parse ps = (delivered_of parse ps, false).
  Proof.
    intros NR ps. induction ps as [|p ps IH]; [reflexivity|].
    cbn [dispatch delivered_of flat_map]. fold (delivered_of parse ps).
    destruct (parse p) eqn:P; [rewrite IH; reflexivity|exact IH|destruct (NR p P)].
  Qed.

  Definition refines (d : bytes) (r : loop_result) : Prop :=
    match r with
    | OutOfFuel => False
    | Done o Dead => dispatch parse (deliver d) = (o, true)
    | Done o (Live b') => dispatch parse (deliver d) = (o, false) /\ scanS b' = ([], pending d)
    end.

  Lemma refines_quiet d : deliver d = [] -> refines d (Done [] (Live d)).
  Proof.
    intros H. cbn [refines]. rewrite H. split; [reflexivity|].
    unfold deliver, pending in *. destruct (scanS d) as [o r]. cbn [fst snd] in *. subst. reflexivity.
  Qed.

  Lemma refines_resync d r : refines (resync d) r -> refines d r.
  Proof. unfold refines, deliver, pending. rewrite scanS_resync. exact (fun x => x). Qed.

  Lemma deliver_short d : length d <= 4 -> deliver d = [].
  Proof. intros H. unfold deliver. rewrite scanS_short by exact H. reflexivity. Qed.

  Lemma ingest_loop_refines fuel : forall d, length d < fuel -> refines d (ingest_loop parse fuel d).
  Proof.
    induction fuel as [|fuel IH]; intros d H; [lia|].
    cbn [ingest_loop].
    destruct (2 <? length d) eqn:L2; [|apply refines_quiet, deliver_short; lia].
    destruct d as [|a [|b t]]; try (cbn [length] in L2; lia).
    cbn [nth]. change (N.eqb a 172 && N.eqb b 190) with (is_marker a b).
    destruct (is_marker a b) eqn:M.
    2: { apply refines_resync, IH. pose proof (resync_drop_length a b t M). lia. }
    destruct (4 <? length (a :: b :: t)) eqn:L4; [|apply refines_quiet, deliver_short; lia].
    destruct t as [|lo [|hi body]]; try (cbn [length] in L4; lia).
    cbn [skipn un_le16]. cbv zeta.
    set (n := N.to_nat (lo + 256 * hi)).
    destruct (lo + 256 * hi + 4 <=? nlen (a :: b :: lo :: hi :: body))%N eqn:L5.
    2: { apply refines_quiet. unfold deliver. rewrite scanS_stop; [reflexivity|].
         intros a' b' lo' hi' body' R. rewrite resync_cons2, M in R.
         injection R as <- <- <- <- <-. unfold nlen in *. cbn [length] in L5. lia. }
    unfold nlen in L5.
    unfold slice. replace (4 + n - 4) with n by lia.
    replace (n + 4) with (S (S (S (S n)))) by lia. cbn [skipn].
    assert (Hn : n <= length body) by (cbn [length] in L5; lia).
    assert (Hb : body <> []) by (destruct body; [cbn [length] in L4; lia|discriminate]).
    pose proof (scanS_frame_step a b lo hi body M Hn Hb) as F. fold n in F.
    assert (Hlt : length (skipn n body) < fuel).
    { rewrite skipn_length. cbn [length] in H. lia. }
    specialize (IH (skipn n body) Hlt).
    assert (FD : deliver (a :: b :: lo :: hi :: body) = firstn n body :: deliver (skipn n body)).
    { unfold deliver. rewrite F. destruct (scanS (skipn n body)); reflexivity. }
    assert (FP : pending (a :: b :: lo :: hi :: body) = pending (skipn n body)).
    { unfold pending. rewrite F. destruct (scanS (skipn n body)); reflexivity. }
    destruct (parse (firstn n body)) eqn:P.
    - destruct (ingest_loop parse fuel (skipn n body)) as [o st|]; [|exact IH].
      unfold refines in *. rewrite FD, FP. cbn [dispatch]. rewrite P.
      destruct st as [b'|].
      + destruct IH as [IH1 IH2]. rewrite IH1. split; [reflexivity|exact IH2].
      + rewrite IH. reflexivity.
    - destruct (ingest_loop parse fuel (skipn n body)) as [o st|]; [|exact IH].
      unfold refines in *. rewrite FD, FP. cbn [dispatch]. rewrite P. exact IH.
    - unfold refines. rewrite FD. cbn [dispatch]. rewrite P. reflexivity.
  Qed.

  Lemma ingest_fuel_enough st chunk : ingest parse st chunk <> OutOfFuel.
  Proof.
    destruct st as [buf|]; cbn [ingest]; [|discriminate].
    pose proof (ingest_loop_refines (S (length (buf ++ chunk))) (buf ++ chunk) (Nat.lt_succ_diag_r _)) as R.
    intros E. rewrite E in R. exact R.
  Qed.

  Lemma run_dead chunks : run parse Dead chunks = Done [] Dead.
  Proof. induction chunks as [|c cs IH]; [reflexivity|]. cbn [run ingest]. rewrite IH. reflexivity. Qed.

  (** Generalised main lemma: from any quiescent buffer. *)
  Lemma run_refines chunks : forall buf, deliver buf = [] ->
    observe (run parse (Live buf) chunks)
    = Some (dispatch parse (deliver (pending buf ++ concat chunks))).
  Proof.
    induction chunks as [|c cs IH]; intros buf Q.
    - cbn [run observe concat]. rewrite app_nil_r.
      unfold deliver, pending. rewrite scanS_pending_fix. reflexivity.
    - cbn [run ingest concat].
      pose proof (ingest_loop_refines (S (length (buf ++ c))) (buf ++ c) (Nat.lt_succ_diag_r _)) as R.
      assert (DA : deliver (pending buf ++ c ++ concat cs)
                   = deliver (buf ++ c) ++ deliver (pending (buf ++ c) ++ concat cs)).
      { rewrite app_assoc, deliver_app. f_equal.
        - rewrite (deliver_app buf c), Q. reflexivity.
        - rewrite (pending_app buf c). reflexivity. }
      rewrite DA.
      destruct (ingest_loop parse (S (length (buf ++ c))) (buf ++ c)) as [o1 st1|]; [|destruct R].
      destruct st1 as [b'|]; cbn [refines] in R.
      + destruct R as [R1 R2].
        assert (Qb : deliver b' = []) by (unfold deliver; rewrite R2; reflexivity).
        assert (Pb : pending b' = pending (buf ++ c)) by (unfold pending at 1; rewrite R2; reflexivity).
        specialize (IH b' Qb). rewrite Pb in IH.
        rewrite (dispatch_app_live _ _ _ R1).
        destruct (run parse (Live b') cs) as [o2 st2|]; [|discriminate].
        destruct (dispatch parse (deliver (pending (buf ++ c) ++ concat cs))) as [o3 d3].
        cbn [fst snd]. destruct st2; cbn [observe] in *; injection IH as <- <-; reflexivity.
      + rewrite run_dead. rewrite (dispatch_app_dead _ _ _ R). cbn [observe]. rewrite app_nil_r. reflexivity.
  Qed.

  Theorem ingest_refines_deliver chunks :
    observe (run parse (Live []) chunks) = Some (dispatch parse (deliver (concat chunks))).
  Proof. exact (run_refines chunks [] eq_refl). Qed.

  Theorem chunking_invariant chunks :
    observe (run parse (Live []) chunks) = observe (run parse (Live []) [concat chunks]).
  Proof.
    rewrite (ingest_refines_deliver chunks), (ingest_refines_deliver [concat chunks]).
    cbn [concat]. rewrite app_nil_r. reflexivity.
  Qed.

  Theorem run_fuel_enough chunks : run parse (Live []) chunks <> OutOfFuel.
  Proof.
    pose proof (ingest_refines_deliver chunks) as H. intros E. rewrite E in H. discriminate.
  Qed.

  Theorem ingest_total : (forall p, parse p <> PRaise) ->
    forall chunks, exists buf,
      run parse (Live []) chunks = Done (delivered_of parse (deliver (concat chunks))) (Live buf).
  Proof.
    intros NR chunks. pose proof (ingest_refines_deliver chunks) as H.
    rewrite (dispatch_no_raise NR) in H.
    destruct (run parse (Live []) chunks) as [o [buf|]|]; cbn [observe] in H; try discriminate.
    injection H as ->. exists buf. reflexivity.
  Qed.
End WithParse.

(** ** Frames between marker-free gaps *)

Lemma resync_gap g : forall t, marker_free g = true ->
  resync (g ++ 172%N :: 190%N :: t) = 172%N :: 190%N :: t.
Proof.
  induction g as [|a g IH]; intros t H.
  - cbn [app]. rewrite resync_cons2. reflexivity.
  - destruct g as [|b g'].
    + cbn [app]. rewrite resync_cons2.
      assert (E : is_marker a 172 = false) by (unfold is_marker; apply andb_false_r).
      rewrite E. rewrite resync_cons2. reflexivity.
    + cbn [marker_free] in H. apply andb_true_iff in H as [H1 H2].
      cbn [app]. rewrite resync_cons2.
      destruct (is_marker a b); [discriminate|]. exact (IH t H2).
Qed.

Lemma resync_gap_end g : marker_free g = true -> length (resync g) <= 1.
Proof.
  induction g as [|a g IH]; intros H; [cbn; lia|].
  destruct g as [|b g']; [cbn; lia|].
  cbn [marker_free] in H. apply andb_true_iff in H as [H1 H2].
  rewrite resync_cons2. destruct (is_marker a b); [discriminate|]. exact (IH H2).
Qed.

Lemma le16_header (n : N) : (n < 65536)%N -> (n mod 256 + 256 * ((n / 256) mod 256))%N = n.
Proof. intros H. lia. Qed.

Lemma scanS_frame p rest : (nlen p < 65536)%N -> (p <> [] \/ rest <> []) ->
  scanS (frame p ++ rest) = let '(ps, r) := scanS rest in (p :: ps, r).
Proof.
  intros Hp Hne. unfold frame. cbn [app].
  rewrite scanS_frame_step; rewrite ?le16_header by exact Hp; unfold nlen; rewrite ?Nat2N.id.
  - rewrite firstn_app, skipn_app, Nat.sub_diag, firstn_all, skipn_all. cbn [firstn skipn app].
    rewrite app_nil_r. reflexivity.
  - reflexivity.
  - rewrite app_length. lia.
  - destruct Hne as [Hne|Hne]; destruct p, rest; try congruence; discriminate.
Qed.

Lemma scanS_gap_frame g p rest : marker_free g = true -> (nlen p < 65536)%N -> (p <> [] \/ rest <> []) ->
  scanS (g ++ frame p ++ rest) = let '(ps, r) := scanS rest in (p :: ps, r).
Proof.
  intros Hg Hp Hne. rewrite <- (scanS_frame p rest Hp Hne).
  apply scanS_same_resync. unfold frame. cbn [app].
  rewrite resync_gap by exact Hg. rewrite resync_cons2. reflexivity.
Qed.

Lemma deliver_gap_end g : marker_free g = true -> deliver g = [].
Proof.
  intros H. unfold deliver. rewrite scanS_stop; [reflexivity|].
  intros a b lo hi body R. pose proof (resync_gap_end g H) as L. rewrite R in L. cbn [length] in L. lia.
Qed.

Lemma stream_nonempty items g p gn : stream (items ++ [(g, p)]) gn <> [].
Proof.
  destruct items as [|[g0 p0] r]; cbn [app stream]; unfold frame; intros E;
    apply (f_equal (@length N)) in E; rewrite !app_length in E; cbn [length] in E; lia.
Qed.

(** Frames with possibly empty payloads, as long as something follows the last one. *)
Lemma deliver_frames0 items : forall gn,
  Forall wf_item0 items -> marker_free gn = true ->
  (items = [] \/ gn <> [] \/ exists its g p, items = its ++ [(g, p)] /\ p <> []) ->
  deliver (stream items gn) = map snd items.
Proof.
  induction items as [|[g p] items IH]; intros gn W Hgn Hlast.
  - cbn [stream map]. apply deliver_gap_end, Hgn.
  - inversion W as [|x l [Wg Wp] W']; subst. cbn [fst snd] in *.
    cbn [stream map snd]. unfold deliver.
    rewrite scanS_gap_frame; [| exact Wg | exact Wp |].
    + assert (IH' : deliver (stream items gn) = map snd items).
      { apply IH; [exact W'|exact Hgn|].
        destruct Hlast as [Hl|[Hl|(its & g' & p' & E & Hp')]]; [discriminate|right; left; exact Hl|].
        destruct its as [|it its'].
        - cbn [app] in E. injection E as E1 E2 E3. left. exact E3.
        - cbn [app] in E. injection E as <- ->. right. right. exists its', g', p'. split; [reflexivity|exact Hp']. }
      unfold deliver in IH'. destruct (scanS (stream items gn)) as [ps r]. cbn [fst] in *. rewrite IH'. reflexivity.
    + destruct Hlast as [Hl|[Hl|(its & g' & p' & E & Hp')]]; [discriminate| |].
      * right. destruct items as [|[g1 p1] r]; cbn [stream]; [exact Hl|].
        intros E. apply (f_equal (@length N)) in E. unfold frame in E. rewrite !app_length in E. cbn [length] in E. lia.
      * destruct its as [|it its'].
        -- cbn [app] in E. injection E as E1 E2 E3. subst. left. exact Hp'.
        -- cbn [app] in E. injection E as <- ->. right. apply stream_nonempty.
Qed.

Lemma wf_item_item0 it : wf_item it -> wf_item0 it.
Proof. intros [H1 H2]. split; [exact H1|lia]. Qed.

Lemma nlen_pos_nonempty (p : bytes) : (0 < nlen p)%N -> p <> [].
Proof. intros H E. subst. cbn in H. lia. Qed.

Theorem deliver_frames items gn :
  Forall wf_item items -> marker_free gn = true -> deliver (stream items gn) = map snd items.
Proof.
  intros W Hgn. apply deliver_frames0; [eapply Forall_impl; [apply wf_item_item0|exact W]|exact Hgn|].
  destruct items as [|it0 items0] eqn:E; [left; reflexivity|].
  right; right. rewrite <- E in *.
  assert (NE : items <> []) by (rewrite E; discriminate).
  destruct (exists_last NE) as (its & [g p] & EQ).
  exists its, g, p. split; [exact EQ|].
  rewrite EQ in W. apply Forall_app in W as [_ W]. inversion W as [|x l [_ H1] W']; subst.
  apply nlen_pos_nonempty. cbn [snd] in H1. lia.
Qed.

(** ** Consequences at the level of the reader thread (any chunking) *)

Theorem frames_exactly_once parse items gn chunks :
  Forall wf_item items -> marker_free gn = true -> concat chunks = stream items gn ->
  observe (run parse (Live []) chunks) = Some (dispatch parse (map snd items)).
Proof.
  intros W Hgn E. rewrite ingest_refines_deliver, E, deliver_frames by assumption. reflexivity.
Qed.

Theorem deliver_skip_undecodable items g p gn :
  Forall wf_item0 items -> wf_item (g, p) -> marker_free gn = true ->
  deliver (stream (items ++ [(g, p)]) gn) = map snd items ++ [p].
Proof.
  intros W Wl Hgn. rewrite deliver_frames0.
  - rewrite map_app. reflexivity.
  - apply Forall_app. split; [exact W|]. constructor; [apply wf_item_item0, Wl|constructor].
  - exact Hgn.
  - right; right. exists items, g, p. split; [reflexivity|].
    destruct Wl as [_ Wl]. apply nlen_pos_nonempty. cbn [snd] in Wl. lia.
Qed.

Theorem ingest_skip_undecodable parse :
  (forall p, parse p <> PRaise) ->
  forall items g p gn chunks,
    Forall wf_item0 items -> wf_item (g, p) -> marker_free gn = true ->
    concat chunks = stream (items ++ [(g, p)]) gn ->
    exists buf, run parse (Live []) chunks
                = Done (delivered_of parse (map snd items ++ [p])) (Live buf).
Proof.
  intros NR items g p gn chunks W Wl Hgn E.
  destruct (ingest_total parse NR chunks) as [buf H]. exists buf.
  rewrite H, E, deliver_skip_undecodable by assumption. reflexivity.
Qed.

(** ** The zero-length frame and the [len > 4] test *)
Theorem empty_frame_quirk :
  deliver (frame []) = [] /\ pending (frame []) = frame []
  /\ forall x rest, deliver (frame [] ++ x :: rest) = [] :: deliver (x :: rest).
Proof.
  split; [reflexivity|]. split; [reflexivity|].
  intros x rest. unfold deliver. rewrite scanS_frame.
  - destruct (scanS (x :: rest)); reflexivity.
  - reflexivity.
  - right. discriminate.
Qed.

(** ** Truncated frames *)

(** A marker followed by a 16-bit value [n] and at least [n] bytes: those [n] bytes are
    taken as one payload whatever they are, and reception continues after them. *)
Lemma window_then_frames lo hi w items gn :
  length w = N.to_nat (lo + 256 * hi) ->
  Forall wf_item items -> marker_free gn = true ->
  (w <> [] \/ stream items gn <> []) ->
  deliver ([172; 190; lo; hi]%N ++ w ++ stream items gn) = w :: map snd items.
Proof.
  intros Hw W Hgn Hne. cbn [app]. unfold deliver.
  rewrite scanS_frame_step.
  - rewrite <- Hw. rewrite firstn_app, skipn_app, Nat.sub_diag, firstn_all, skipn_all.
    cbn [firstn skipn app]. rewrite app_nil_r.
    pose proof (deliver_frames items gn W Hgn) as D. unfold deliver in D.
    destruct (scanS (stream items gn)) as [ps r]. cbn [fst] in *. rewrite D. reflexivity.
  - reflexivity.
  - rewrite app_length. lia.
  - destruct Hne as [Hne|Hne]; destruct w; try congruence; try discriminate.
    cbn [app]. exact Hne.
Qed.

Definition truncated_statement : Prop :=
  forall p k good, (0 < nlen p < 65536)%N -> (0 < nlen good < 65536)%N ->
    k < length (frame p) -> deliver (firstn k (frame p) ++ frame good) = [good].

Theorem truncated_refuted :
  exists p k good, (0 < nlen p < 65536)%N /\ (0 < nlen good < 65536)%N /\ k < length (frame p)
    /\ deliver (firstn k (frame p) ++ frame good) <> [good].
Proof.
  exists [18; 2; 10; 0]%N, 5, [18; 2; 10; 0]%N.
  split; [vm_compute; split; reflexivity|]. split; [vm_compute; split; reflexivity|].
  split; [vm_compute; lia|]. vm_compute. discriminate.
Qed.

Theorem truncated_statement_false : ~ truncated_statement.
Proof.
  intros H. destruct truncated_refuted as (p & k & good & Hp & Hg & Hk & Hd).
  exact (Hd (H p k good Hp Hg Hk)).
Qed.

Theorem truncated_partial p k sw items gn :
  (0 < nlen p < 65536)%N -> 4 <= k -> k <= length (frame p) ->
  length sw + (k - 4) = length p ->
  Forall wf_item items -> marker_free gn = true ->
  deliver (firstn k (frame p) ++ sw ++ stream items gn) = (firstn (k - 4) p ++ sw) :: map snd items.
Proof.
  intros Hp Hk1 Hk2 Hsw W Hgn.
  replace k with (S (S (S (S (k - 4))))) at 1 by lia.
  unfold frame. cbn [app firstn]. rewrite app_assoc.
  change (172%N :: 190%N :: nlen p mod 256 :: (nlen p / 256) mod 256 :: (firstn (k - 4) p ++ sw) ++ stream items gn)%N
    with ([172; 190; nlen p mod 256; (nlen p / 256) mod 256]%N ++ (firstn (k - 4) p ++ sw) ++ stream items gn).
  apply window_then_frames; [|exact W|exact Hgn|].
  - rewrite le16_header by lia. unfold nlen. rewrite Nat2N.id.
    rewrite app_length, firstn_length. unfold frame in Hk2. cbn [app length] in Hk2. lia.
  - left. intros E. apply (f_equal (@length N)) in E. rewrite app_length, firstn_length in E.
    cbn [length] in E. unfold frame in Hk2. cbn [app length] in Hk2.
    assert (length p <> 0) by (unfold nlen in Hp; lia). lia.
Qed.

Theorem truncated_partial_ingest parse p k sw items gn chunks :
  (0 < nlen p < 65536)%N -> 4 <= k -> k <= length (frame p) ->
  length sw + (k - 4) = length p ->
  Forall wf_item items -> marker_free gn = true ->
  concat chunks = firstn k (frame p) ++ sw ++ stream items gn ->
  observe (run parse (Live []) chunks)
  = Some (dispatch parse ((firstn (k - 4) p ++ sw) :: map snd items)).
Proof.
  intros Hp Hk1 Hk2 Hsw W Hgn E.
  rewrite ingest_refines_deliver, E, truncated_partial by assumption. reflexivity.
Qed.

(** ** The arithmetic forms used in the model are the bit operations of the code *)
Lemma header_bitops (n : N) :
  N.land n 255 = (n mod 256)%N /\ N.land (N.shiftr n 8) 255 = ((n / 256) mod 256)%N.
Proof.
  change 255%N with (N.ones 8). rewrite !N.land_ones, N.shiftr_div_pow2.
  change (2 ^ 8)%N with 256%N. split; reflexivity.
Qed.

Lemma size_bitops (lo hi : N) : (lo < 256)%N -> N.lor lo (N.shiftl hi 8) = (lo + 256 * hi)%N.
Proof.
  intros H.
  assert (L : N.land lo (N.shiftl hi 8) = 0%N).
  { apply N.bits_inj. intros i. rewrite N.land_spec, N.bits_0.
    destruct (N.ltb_spec i 8) as [Hi|Hi].
    - rewrite N.shiftl_spec_low by exact Hi. apply andb_false_r.
    - destruct (N.eq_dec lo 0) as [->|Hz]; [rewrite N.bits_0; reflexivity|].
      rewrite (N.bits_above_log2 lo i); [reflexivity|].
      apply N.lt_le_trans with 8%N; [|exact Hi].
      apply N.log2_lt_pow2; [lia|exact H]. }
  rewrite <- N.lxor_lor by exact L. rewrite <- N.add_nocarry_lxor by exact L.
  rewrite N.shiftl_mul_pow2. change (2 ^ 8)%N with 256%N. lia.
Qed.

(** ** DevOutThread.run over schedules with empty reads (None / b'') *)

Lemma run_loop_run parse reads : forall st,
  run_loop parse st reads = run parse st (chunks_of reads).
Proof.
  induction reads as [|r rs IH]; intros st; [reflexivity|].
  destruct st as [buf|].
  2: { cbn [run_loop]. symmetry. apply run_dead. }
  destruct r as [b|].
  - change (chunks_of (Some b :: rs)) with (b :: chunks_of rs).
    cbn [run_loop run_step run].
    destruct (ingest parse (Live buf) b) as [o1 st1|]; [|reflexivity].
    rewrite IH. reflexivity.
  - change (chunks_of (None :: rs)) with (chunks_of rs).
    cbn [run_loop run_step]. rewrite IH.
    destruct (run parse (Live buf) (chunks_of rs)); reflexivity.
Qed.

Theorem run_loop_refines_deliver parse reads :
  observe (run_loop parse (Live []) reads)
  = Some (dispatch parse (deliver (concat (chunks_of reads)))).
Proof. rewrite run_loop_run. apply ingest_refines_deliver. Qed.

Lemma concat_nonempty (l : list bytes) :
  concat (filter (fun b => negb (length b =? 0)) l) = concat l.
Proof.
  induction l as [|b l IH]; [reflexivity|].
  cbn [filter concat]. destruct b as [|x b]; cbn [length Nat.eqb negb]; [exact IH|].
  cbn [concat]. rewrite IH. reflexivity.
Qed.

(** Reads that return None or b'' are no-ops: two schedules carrying the same non-empty
    chunks are indistinguishable ... *)
Theorem empty_reads_noop parse reads1 reads2 :
  nonempty_data reads1 = nonempty_data reads2 ->
  observe (run_loop parse (Live []) reads1) = observe (run_loop parse (Live []) reads2).
Proof.
  intros H. rewrite !run_loop_refines_deliver.
  rewrite <- (concat_nonempty (chunks_of reads1)), <- (concat_nonempty (chunks_of reads2)).
  unfold nonempty_data in H. rewrite H. reflexivity.
Qed.

(** ... and equal to the plain chunk list without the empty reads. *)
Theorem run_loop_insert_empties parse chunks reads :
  nonempty_data reads = filter (fun b => negb (length b =? 0)) chunks ->
  observe (run_loop parse (Live []) reads) = observe (run parse (Live []) chunks).
Proof.
  intros H. rewrite run_loop_refines_deliver, ingest_refines_deliver.
  rewrite <- (concat_nonempty (chunks_of reads)), <- (concat_nonempty chunks).
  unfold nonempty_data in H. rewrite H. reflexivity.
Qed.
