(** C01 ∘ C02 — the receive path end to end (statements only; proofs in E2E.v).
    C01's [parse] is instantiated with C02's hub model: for every schema passing
    [wf_schema] (re-established on the schema regenerated from the source on every run of
    the C02 check), every protobuf codec with [parse_bytes (serialize m) = canon m], every
    hub version >= 1. *)
From Coq Require Import List NArith Arith Bool String.
From Whad Require Import Lib.Bytes.
From Whad Require C01.Model C02.Model C02.Proofs C01.E2E.
Import ListNotations.
Module F := Whad.C01.Model.
Module H := Whad.C02.Model.
Module E := Whad.C01.E2E.

(** Messages created by the hub, serialised, framed, separated by marker-free noise and cut
    into arbitrary read() chunks reach put_message exactly once, in order, intact, and each
    parses back to the class it was created with. *)
Theorem C01_C02_receive_exactly_what_was_sent :
  forall (S : H.schema), H.wf_schema S = true ->
  forall (serialize : H.pb -> list N) (parse_bytes : list N -> H.decoded),
    (forall m, parse_bytes (serialize m) = H.Decoded (H.canon S m)) ->
  forall (v : nat), 1 <= v ->
  forall (xs : list (bytes * (string * H.pb))) (gn : bytes) (chunks : list bytes),
    Forall (E.sent_ok S serialize v) xs -> F.marker_free gn = true ->
    List.concat chunks = F.stream (map (E.wire_item serialize) xs) gn ->
    F.observe (F.run (E.hub_parser S parse_bytes v) (F.Live []) chunks)
      = Some (map snd (map (E.wire_item serialize) xs), false)
    /\ Forall (fun x => H.hub_parse S v (parse_bytes (snd (E.wire_item serialize x))) = H.Msg (fst (snd x))) xs.
Proof. exact E.receive_exactly_what_was_sent. Qed.

(** Arbitrary bytes, any chunking: the reader thread never dies (no exception leaves ingest),
    and what it delivered is what the wire-format specification finds. *)
Theorem C01_C02_receive_never_dies :
  forall (S : H.schema), H.wf_schema S = true ->
  forall (parse_bytes : list N -> H.decoded) (v : nat) (chunks : list bytes),
    exists buf,
      F.run (E.hub_parser S parse_bytes v) (F.Live []) chunks
      = F.Done (F.delivered_of (E.hub_parser S parse_bytes v) (F.deliver (List.concat chunks))) (F.Live buf).
Proof. intros S Swf parse_bytes v. exact (E.receive_never_dies S Swf parse_bytes v). Qed.
