(** Composition of C01 (framing) and C02 (hub round trip): the receive path end to end.

    C01's theorems hold for ANY [parse]; C02's hold for any schema passing [wf_schema] and
    any protobuf codec with [parse_bytes (serialize m) = canon m].  Here C01's [parse] is
    instantiated with C02's [hub_parse] and the two results are chained: messages built by
    the hub, serialised, framed, separated by marker-free noise and cut into arbitrary
    read() chunks are delivered to put_message exactly once, in order, and each parses back
    to the class it was created with (C01's first sentence, which needs C02 to be true);
    and for ARBITRARY bytes and chunkings the reader never dies (C01's second sentence,
    which needs C02's parse_total). This is also the C04 clause "a message the host cannot
    decode does not prevent later messages from being received". *)
From Coq Require Import List NArith Arith Bool String.
From Whad Require Import Lib.Bytes.
From Whad Require C01.Model C01.Proofs C01.Property C02.Model C02.Proofs C02.Property.
Import ListNotations.
Module F := Whad.C01.Model.
Module H := Whad.C02.Model.

Section EndToEnd.
  Variable S : H.schema.
  Hypothesis Swf : H.wf_schema S = true.
  Variable serialize : H.pb -> list N.
  Variable parse_bytes : list N -> H.decoded.
  Hypothesis codec : forall m, parse_bytes (serialize m) = H.Decoded (H.canon S m).
  Variable v : nat.
  Hypothesis v_ge_1 : 1 <= v.

  (** ProtocolHub.parse as DevOutThread.ingest sees it (a message is identified by its bytes). *)
  Definition hub_parser (p : F.payload) : F.parse_outcome :=
    match H.hub_parse S v (parse_bytes p) with
    | H.Msg _ => F.PMsg p
    | H.NoMsg => F.PNone
    | _ => F.PRaise
    end.

  Lemma hub_parser_total : forall p, hub_parser p <> F.PRaise.
  Proof.
    intros p. unfold hub_parser.
    pose proof (Whad.C02.Property.C02_parse_total_wire S Swf parse_bytes v p) as T.
    destruct (H.hub_parse S v (parse_bytes p)); cbn in T; try contradiction; discriminate.
  Qed.

  (** [m] is a message of class [cid] created by the hub of version [v]. *)
  Definition sendable (cid : string) (m : H.pb) : Prop :=
    exists reg name attrs sel kw,
      H.bound S reg name v = Some cid /\ H.find_class S cid = Some (H.CWrap attrs sel) /\
      NoDup (map fst kw) /\ Whad.C02.Proofs.admissible S attrs kw /\ H.create S cid kw = H.Ok m.

  Lemma sendable_parses cid m :
    sendable cid m -> H.hub_parse S v (parse_bytes (serialize m)) = H.Msg cid.
  Proof.
    intros (reg & name & attrs & sel & kw & Hb & Hf & Hnd & Hadm & Hc).
    destruct (Whad.C02.Property.C02_roundtrip_wire S Swf serialize parse_bytes codec
                v reg name cid attrs sel kw v_ge_1 Hb Hf Hnd Hadm)
      as (m0 & m' & Hc0 & Hp & Hh & _).
    rewrite Hc in Hc0. injection Hc0 as <-. rewrite Hp. exact Hh.
  Qed.

  Definition wire_item (x : bytes * (string * H.pb)) : bytes * F.payload :=
    (fst x, serialize (snd (snd x))).

  Definition sent_ok (x : bytes * (string * H.pb)) : Prop :=
    F.marker_free (fst x) = true /\ sendable (fst (snd x)) (snd (snd x)) /\
    (0 < nlen (serialize (snd (snd x))) < 65536)%N.

  Lemma dispatch_all_messages xs :
    Forall sent_ok xs ->
    F.dispatch hub_parser (map snd (map wire_item xs)) = (map snd (map wire_item xs), false).
  Proof.
    induction xs as [|x xs IH]; intros Hall; [reflexivity|].
    pose proof (Forall_inv Hall) as (_ & Hs & _). pose proof (Forall_inv_tail Hall) as Hall'.
    cbn [map F.dispatch]. unfold wire_item at 1. cbn [snd fst].
    unfold hub_parser at 1. rewrite (sendable_parses _ _ Hs).
    fold wire_item. rewrite (IH Hall'). reflexivity.
  Qed.

  (** Exactly once, in order, under every chunking, whatever marker-free noise lies between
      the frames; and what is delivered is a message of the class that was sent. *)
  Theorem receive_exactly_what_was_sent :
    forall (xs : list (bytes * (string * H.pb))) (gn : bytes) (chunks : list bytes),
      Forall sent_ok xs -> F.marker_free gn = true ->
      List.concat chunks = F.stream (map wire_item xs) gn ->
      F.observe (F.run hub_parser (F.Live []) chunks) = Some (map snd (map wire_item xs), false)
      /\ Forall (fun x => H.hub_parse S v (parse_bytes (snd (wire_item x))) = H.Msg (fst (snd x))) xs.
  Proof.
    intros xs gn chunks Hall Hgn Hcat. split.
    - rewrite (Whad.C01.Property.C01_frames_exactly_once hub_parser (map wire_item xs) gn chunks).
      + rewrite dispatch_all_messages by assumption. reflexivity.
      + apply Forall_forall. intros it Hin. apply in_map_iff in Hin as (x & <- & Hx).
        rewrite Forall_forall in Hall. destruct (Hall x Hx) as (Hm & _ & Hsz).
        split; assumption.
      + assumption.
      + assumption.
    - apply Forall_forall. intros x Hx. rewrite Forall_forall in Hall.
      destruct (Hall x Hx) as (_ & Hs & _). cbn [wire_item snd]. apply sendable_parses. exact Hs.
  Qed.

  (** For arbitrary bytes under any chunking the reader thread survives. *)
  Theorem receive_never_dies :
    forall chunks : list bytes, exists buf,
      F.run hub_parser (F.Live []) chunks
      = F.Done (F.delivered_of hub_parser (F.deliver (List.concat chunks))) (F.Live buf).
  Proof. exact (Whad.C01.Property.C01_ingest_total hub_parser hub_parser_total). Qed.
End EndToEnd.
