(** C01 — executable model of the WHAD byte-stream framing:
    whad/device/device.py  DevInThread.serialize (sender) and DevOutThread.ingest
    (receiver: two nested [while] loops over the reassembly buffer), with
    [ProtocolHub.parse] as a Section variable.  No proofs in this file. *)
From Coq Require Import List NArith Arith Bool.
From Whad Require Import Lib.Bytes.
Import ListNotations.

Definition payload := bytes.
(** A parsed message is identified by its serialized bytes. *)
Definition msgid := bytes.

(** Outcome of [hub.parse(bytes(raw_message))]: a message object, [None], or an
    exception leaving [parse] (and therefore [ingest], which has no handler). *)
Inductive parse_outcome := PMsg (m : msgid) | PNone | PRaise.

(** [Live buf]: the reader thread is running and [__data == buf].
    [Dead]: an exception left [ingest]; [DevOutThread.run] only handles
    WhadDeviceNotReady/WhadDeviceDisconnected, so the thread is gone. *)
Inductive state := Live (buf : bytes) | Dead.

Definition is_marker (a b : N) : bool := N.eqb a 172 && N.eqb b 190.

(** ---- sender: DevInThread.serialize ----
    header = [0xAC, 0xBE, len & 0xff, (len >> 8) & 0xff]; bytes(header) + raw_msg *)
Definition frame (p : payload) : bytes :=
  [172%N; 190%N; N.modulo (nlen p) 256; N.modulo (N.div (nlen p) 256) 256] ++ p.

(** ---- receiver: DevOutThread.ingest ---- *)

(** Inner loop:
      while len(data) >= 2:
          if data[0] != 0xAC or data[1] != 0xBE: data = data[1:]
          else: break                                                       *)
Fixpoint resync (d : bytes) : bytes :=
  match d with
  | a :: t =>
      match t with
      | b :: _ => if negb (N.eqb a 172) || negb (N.eqb b 190) then resync t else d
      | [] => d
      end
  | [] => d
  end.

Inductive loop_result := Done (outs : list msgid) (st : state) | OutOfFuel.

Section Ingest.
  Variable parse : payload -> parse_outcome.

  (** Outer loop, one iteration per unit of fuel ([outs] = the arguments of
      [put_message] in call order):
        while len(data) > 2:
            if data[0] == 0xAC and data[1] == 0xBE:
                if len(data) > 4:
                    msg_size = data[2] | (data[3] << 8)
                    if len(data) >= msg_size + 4:
                        raw = data[4:4+msg_size]; msg = hub.parse(bytes(raw))
                        if msg is not None: put_message(msg)
                        data = data[msg_size+4:]
                    else: break
                else: break
            else: <inner loop>                                               *)
  Fixpoint ingest_loop (fuel : nat) (d : bytes) : loop_result :=
    match fuel with
    | 0 => OutOfFuel
    | S f =>
      if 2 <? length d then
        if N.eqb (nth 0 d 0%N) 172 && N.eqb (nth 1 d 0%N) 190 then
          if 4 <? length d then
            let msg_size_N := un_le16 (skipn 2 d) in
            if (msg_size_N + 4 <=? nlen d)%N then
              let msg_size := N.to_nat msg_size_N in
              let raw := slice 4 (4 + msg_size) d in
              match parse raw with
              | PRaise => Done [] Dead
              | PNone => ingest_loop f (skipn (msg_size + 4) d)
              | PMsg m =>
                  match ingest_loop f (skipn (msg_size + 4) d) with
                  | Done o st => Done (m :: o) st
                  | OutOfFuel => OutOfFuel
                  end
              end
            else Done [] (Live d)
          else Done [] (Live d)
        else ingest_loop f (resync d)
      else Done [] (Live d)
    end.

  (** [ingest(chunk)]: [__data.extend(chunk)], then the loops.  The fuel supplied is
      never exhausted (Proofs.ingest_fuel_enough). A dead thread ingests nothing. *)
  Definition ingest (st : state) (chunk : bytes) : loop_result :=
    match st with
    | Dead => Done [] Dead
    | Live buf => let d := buf ++ chunk in ingest_loop (S (length d)) d
    end.

  (** The reader thread: successive [read()] results fed to [ingest]. *)
  Fixpoint run (st : state) (chunks : list bytes) : loop_result :=
    match chunks with
    | [] => Done [] st
    | c :: cs =>
        match ingest st c with
        | OutOfFuel => OutOfFuel
        | Done o1 st1 =>
            match run st1 cs with
            | OutOfFuel => OutOfFuel
            | Done o2 st2 => Done (o1 ++ o2) st2
            end
        end
    end.

  (** DevOutThread.run, the loop body: [data = read(); if data is not None: ingest(data)].
      A read result is [None] (the transports' select() timeout) or bytes ([Some []] = b''),
      which goes through [ingest] like any other chunk.  The loop ends when read() raises
      WhadDeviceNotReady / WhadDeviceDisconnected (end of the list); an exception leaving
      [ingest] leaves [run] too: nothing more is read. *)
  Definition run_step (st : state) (r : option bytes) : loop_result :=
    match r with
    | None => Done [] st
    | Some data => ingest st data
    end.

  Fixpoint run_loop (st : state) (reads : list (option bytes)) : loop_result :=
    match reads with
    | [] => Done [] st
    | r :: rs =>
        match st with
        | Dead => Done [] Dead
        | Live _ =>
            match run_step st r with
            | OutOfFuel => OutOfFuel
            | Done o1 st1 =>
                match run_loop st1 rs with
                | OutOfFuel => OutOfFuel
                | Done o2 st2 => Done (o1 ++ o2) st2
                end
            end
        end
    end.

  (** What [parse]/[put_message] make of a sequence of payloads: messages in order;
      [true] = an exception escaped at some payload (nothing after it is seen). *)
  Fixpoint dispatch (ps : list payload) : list msgid * bool :=
    match ps with
    | [] => ([], false)
    | p :: r =>
        match parse p with
        | PRaise => ([], true)
        | PNone => dispatch r
        | PMsg m => let '(o, dead) := dispatch r in (m :: o, dead)
        end
    end.

  (** The messages a non-raising [parse] yields for a sequence of payloads:
      [PNone] payloads (empty, undecodable, no message type) contribute nothing. *)
  Definition delivered_of (ps : list payload) : list msgid :=
    flat_map (fun p => match parse p with PMsg m => [m] | _ => [] end) ps.
End Ingest.

(** The observables of the property: messages handed to [put_message], and whether an
    exception escaped [ingest]. [None] = the model ran out of fuel (never: fuel_enough). *)
Definition observe (r : loop_result) : option (list msgid * bool) :=
  match r with
  | Done o (Live _) => Some (o, false)
  | Done o Dead => Some (o, true)
  | OutOfFuel => None
  end.

(** ---- declarative specification of the wire format ----
    Skip to the first marker; read the LE16 length; when that many bytes (and at least
    one byte: a zero-length frame is only recognised once a further byte is there)
    follow the header, they are one payload and scanning continues after them.
    Result: the payloads, and the unconsumed tail. *)
Fixpoint scan (fuel : nat) (s : bytes) : list payload * bytes :=
  match fuel with
  | 0 => ([], s)
  | S f =>
      match resync s with
      | a :: b :: lo :: hi :: body =>
          let n := N.to_nat (lo + 256 * hi)%N in
          if is_marker a b && (lo + 256 * hi <=? nlen body)%N && negb (length body =? 0)
          then let '(ps, r) := scan f (skipn n body) in (firstn n body :: ps, r)
          else ([], resync s)
      | _ => ([], resync s)
      end
  end.

Definition scanS (s : bytes) : list payload * bytes := scan (S (length s)) s.
Definition deliver (s : bytes) : list payload := fst (scanS s).
Definition pending (s : bytes) : bytes := snd (scanS s).

(** No adjacent pair AC BE inside the gap (a gap may end in AC, start with BE). *)
Fixpoint marker_free (g : bytes) : bool :=
  match g with
  | a :: t =>
      match t with
      | b :: _ => negb (is_marker a b) && marker_free t
      | [] => true
      end
  | [] => true
  end.

(** g1 ++ frame p1 ++ g2 ++ frame p2 ++ ... ++ gn *)
Fixpoint stream (items : list (bytes * payload)) (gn : bytes) : bytes :=
  match items with
  | [] => gn
  | (g, p) :: r => g ++ frame p ++ stream r gn
  end.

Definition wf_item (it : bytes * payload) : Prop :=
  marker_free (fst it) = true /\ (0 < nlen (snd it) < 65536)%N.
(** like [wf_item] but the payload may be empty *)
Definition wf_item0 (it : bytes * payload) : Prop :=
  marker_free (fst it) = true /\ (nlen (snd it) < 65536)%N.

(** ---- correspondence entry points (evaluated by the harness) ----
    [table]: the outcomes of the real [hub.parse] observed for each payload it was
    called with ([TSame]: a message whose serialization is the payload itself); a
    payload the implementation never parsed maps to an impossible message so that the
    comparison fails. *)
Inductive tout := TSame | TMsg (m : msgid) | TNone | TRaise.
Definition table := list (payload * tout).
Fixpoint table_parse (t : table) (p : payload) : parse_outcome :=
  match t with
  | [] => PMsg [999%N]
  | (k, v) :: r =>
      if bytes_eqb k p
      then match v with TSame => PMsg p | TMsg m => PMsg m | TNone => PNone | TRaise => PRaise end
      else table_parse r p
  end.

Fixpoint msgs_eqb (a b : list msgid) : bool :=
  match a, b with
  | [], [] => true
  | x :: a', y :: b' => bytes_eqb x y && msgs_eqb a' b'
  | _, _ => false
  end.

Definition obs_eqb (a b : list msgid * bool) : bool :=
  msgs_eqb (fst a) (fst b) && Bool.eqb (snd a) (snd b).

(** The bytes a schedule of read() results carries: [None] reads carry nothing. *)
Definition chunks_of (reads : list (option bytes)) : list bytes :=
  flat_map (fun r => match r with None => [] | Some b => [b] end) reads.
(** ... and the reads that carry at least one byte. *)
Definition nonempty_data (reads : list (option bytes)) : list bytes :=
  filter (fun b => negb (length b =? 0)) (chunks_of reads).

(** case: (parse table, read() results in order ([None] / bytes, possibly empty), observed
    put_message arguments, did an exception escape run).  Both the transcribed loops and
    the declarative specification must reproduce the observation. *)
Definition check_case (c : table * list (option bytes) * list msgid * bool) : bool :=
  let '(t, reads, outs, raised) := c in
  match observe (run_loop (table_parse t) (Live []) reads) with
  | Some o =>
      obs_eqb o (outs, raised)
      && obs_eqb (dispatch (table_parse t) (deliver (concat (chunks_of reads)))) (outs, raised)
  | None => false
  end.

(** A stream and several ways of cutting it into read() chunks that all produced the
    same observation on the implementation. *)
(** [Reads]: explicit schedule, [Some n] = a read of n bytes (0: b''), [None] = read() gave None *)
Inductive chunking := Sizes (l : list N) | Every (k : N) | Reads (l : list (option N)).

Fixpoint split_sizes (sizes : list N) (s : bytes) : list bytes :=
  match sizes with
  | [] => match s with [] => [] | _ => [s] end
  | n :: r => firstn (N.to_nat n) s :: split_sizes r (skipn (N.to_nat n) s)
  end.

Fixpoint split_every (fuel k : nat) (s : bytes) : list bytes :=
  match fuel with
  | 0 => []
  | S f => match s with [] => [] | _ => firstn k s :: split_every f k (skipn k s) end
  end.

Fixpoint split_reads (rs : list (option N)) (s : bytes) : list (option bytes) :=
  match rs with
  | [] => match s with [] => [] | _ => [Some s] end
  | None :: r => None :: split_reads r s
  | Some n :: r => Some (firstn (N.to_nat n) s) :: split_reads r (skipn (N.to_nat n) s)
  end.

Definition apply_chunking (c : chunking) (s : bytes) : list (option bytes) :=
  match c with
  | Sizes l => map Some (split_sizes l s)
  | Every k => map Some (split_every (length s) (N.to_nat k) s)
  | Reads l => split_reads l s
  end.

(** Long byte strings (payloads, messages) are given as slices of the stream itself. *)
Inductive bref := Lit (b : bytes) | Slice (off len : N).
Definition deref (s : bytes) (r : bref) : bytes :=
  match r with
  | Lit b => b
  | Slice off len => firstn (N.to_nat len) (skipn (N.to_nat off) s)
  end.
Inductive rtout := RSame | RMsg (m : bref) | RNone | RRaise.
Definition deref_tout (s : bytes) (o : rtout) : tout :=
  match o with RSame => TSame | RMsg m => TMsg (deref s m) | RNone => TNone | RRaise => TRaise end.

Definition check_stream (c : list (bref * rtout) * bytes * list chunking * list bref * bool) : bool :=
  let '(rt, s, chs, routs, raised) := c in
  let t := map (fun kv => (deref s (fst kv), deref_tout s (snd kv))) rt in
  let outs := map (deref s) routs in
  forallb (fun ch => check_case (t, apply_chunking ch s, outs, raised)) chs.

(** sender: (payload, bytes the real DevInThread.serialize produced) *)
Definition check_frame (c : payload * bytes) : bool := bytes_eqb (frame (fst c)) (snd c).
(** same for long messages: the payload is the observed frame minus its 4-byte header
    (the harness checks that separately on the implementation's output) *)
Definition check_frame_long (c : bytes) : bool := bytes_eqb (frame (skipn 4 c)) c.

(** Exhaustive sweeps: every sequence of [n] tokens of the alphabet after [prefix], under
    EVERY chunking at token boundaries; [sparse] lists (rank, observation) for the streams
    on which the implementation delivered or raised, every other stream must yield
    nothing. *)
Fixpoint all_seqs (alpha : list bytes) (n : nat) : list (list bytes) :=
  match n with
  | 0 => [[]]
  | S m => flat_map (fun a => map (cons a) (all_seqs alpha m)) alpha
  end.

Fixpoint all_chunkings (toks : list bytes) : list (list bytes) :=
  match toks with
  | [] => [[]]
  | t :: r =>
      flat_map (fun ch => match ch with
                          | [] => [[t]]
                          | c :: cs => [(t ++ c) :: cs; t :: c :: cs]
                          end) (all_chunkings r)
  end.

Fixpoint sweep_go (parse : payload -> parse_outcome) (i : N) (seqs : list (list bytes))
         (sparse : list (N * (list msgid * bool))) : option N :=
  match seqs with
  | [] => match sparse with [] => None | _ => Some i end
  | sq :: rest =>
      let '(exp, sparse') :=
        match sparse with
        | (j, e) :: sp => if N.eqb i j then (e, sp) else (([], false), sparse)
        | [] => (([], false), [])
        end in
      if forallb (fun ch => match observe (run parse (Live []) ch) with
                            | Some o => obs_eqb o exp
                            | None => false
                            end) (all_chunkings sq)
      then sweep_go parse (N.succ i) rest sparse'
      else Some i
  end.

(** rank of the first stream on which model and implementation differ, if any *)
Definition sweep_first_bad (c : table * list bytes * list bytes * nat * list (N * (list msgid * bool))) : option N :=
  let '(t, alpha, prefix, n, sparse) := c in
  sweep_go (table_parse t) 0 (map (app prefix) (all_seqs alpha n)) sparse.

Definition check_sweep (c : table * list bytes * list bytes * nat * list (N * (list msgid * bool))) : bool :=
  match sweep_first_bad c with None => true | Some _ => false end.

(** boolean form of the chunking-invariance conclusion, for the model-side search *)
Definition chunking_invariant_b (t : table) (chunks : list bytes) : bool :=
  match observe (run (table_parse t) (Live []) chunks),
        observe (run (table_parse t) (Live []) [concat chunks]) with
  | Some o1, Some o2 => obs_eqb o1 o2
  | _, _ => false
  end.
