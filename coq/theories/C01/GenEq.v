(** C01 — the Gallina generated from whad/device/device.py by harness/translators/pyfun.py
    (snapshot: Gen.v; regenerated and re-checked against this very file on every run) is
    EQUAL to the hand-written model of Model.v: the header construction of
    [DevInThread.serialize] is [frame], and every test / size computation / slice of the
    two loops of [DevOutThread.ingest] is the corresponding term of [ingest_loop]/[resync]. *)
From Coq Require Import List NArith ZArith Arith Bool Lia ZifyBool ZifyN ZifyNat.
From Whad Require Import Lib.Bytes Lib.PyOps C01.Model.
From Whad Require Import C01.Gen.
Import ListNotations.
Ltac Zify.zify_post_hook ::= Z.to_euclidean_division_equations.

(** ** sender *)

Lemma gen_serialize_eq p : gen_serialize p = frame p.
Proof.
  unfold gen_serialize, frame, nlen. py_unfold. cbn [py_pack_le].
  rewrite ?py_land_255, ?py_shiftr_8, ?py_land_65535. cbn [app].
  repeat (f_equal; try lia).
Qed.

(** every header element is a byte, whatever the payload length: [bytes(header)] never raises *)
Lemma gen_serialize_pre_ok p : gen_serialize_pre p.
Proof.
  unfold gen_serialize_pre, all_bytes. py_unfold. rewrite ?py_land_255, ?py_land_65535.
  py_pre_split; repeat constructor; lia.
Qed.

(** ** receiver: tests, size computation and slices *)

Lemma gen_ingest_more_eq d m : gen_ingest_more d m = (2 <? length d).
Proof. unfold gen_ingest_more. py_arith. Qed.

Lemma gen_ingest_is_marker_eq d m :
  gen_ingest_is_marker d m = (N.eqb (nth 0 d 0%N) 172 && N.eqb (nth 1 d 0%N) 190).
Proof. unfold gen_ingest_is_marker. py_arith. Qed.

Lemma gen_ingest_has_header_eq d m : gen_ingest_has_header d m = (4 <? length d).
Proof. unfold gen_ingest_has_header. py_arith. Qed.

Lemma wf_bytes_nth d i : wf_bytes d = true -> (nth i d 0 < 256)%N.
Proof.
  revert i; induction d as [|x d IH]; intros i H.
  - destruct i; cbn; lia.
  - unfold wf_bytes in *. cbn [forallb] in H. apply andb_true_iff in H as [Hx Hd].
    destruct i as [|i]; cbn [nth]; [unfold wf_byte in Hx; lia | apply IH; exact Hd].
Qed.

Lemma gen_ingest_msg_size_eq d m :
  wf_bytes d = true -> 4 <= length d -> gen_ingest_msg_size d m = un_le16 (skipn 2 d).
Proof.
  intros W H. unfold gen_ingest_msg_size. py_unfold.
  try rewrite (N.lor_comm (N.shiftl _ _) _).
  rewrite py_lor_shiftl_8 by (apply wf_bytes_nth; exact W).
  destruct d as [|a [|b [|lo [|hi t]]]]; cbn [length] in H; try lia. reflexivity.
Qed.

Lemma gen_ingest_msg_size_pre_ok d m : 4 <= length d -> gen_ingest_msg_size_pre d m.
Proof. intros H. unfold gen_ingest_msg_size_pre. py_unfold. lia. Qed.

Lemma gen_ingest_is_marker_pre_ok d m : 2 <= length d -> gen_ingest_is_marker_pre d m.
Proof. intros H. unfold gen_ingest_is_marker_pre. py_unfold. split; [lia | intros _; lia]. Qed.

Lemma gen_resync_mismatch_pre_ok d m : 2 <= length d -> gen_resync_mismatch_pre d m.
Proof. intros H. unfold gen_resync_mismatch_pre. py_unfold. split; [lia | intros _; lia]. Qed.

Lemma gen_ingest_complete_eq d m : gen_ingest_complete d m = (m + 4 <=? nlen d)%N.
Proof. unfold gen_ingest_complete. py_arith. Qed.

Lemma gen_ingest_raw_eq d m : gen_ingest_raw d m = slice 4 (4 + N.to_nat m) d.
Proof.
  unfold gen_ingest_raw. py_arith.
Qed.

Lemma gen_ingest_rest_eq d m : gen_ingest_rest d m = skipn (N.to_nat m + 4) d.
Proof.
  unfold gen_ingest_rest. py_arith.
Qed.

Lemma gen_resync_more_eq d m : gen_resync_more d m = (2 <=? length d).
Proof. unfold gen_resync_more. py_arith. Qed.

Lemma gen_resync_mismatch_eq d m :
  gen_resync_mismatch d m = (negb (N.eqb (nth 0 d 0%N) 172) || negb (N.eqb (nth 1 d 0%N) 190)).
Proof. unfold gen_resync_mismatch. py_arith. Qed.

Lemma gen_resync_drop_eq d m : gen_resync_drop d m = skipn 1 d.
Proof. unfold gen_resync_drop. py_arith. Qed.

(** ** the two loops re-expressed over the generated pieces

    Only the control skeleton (while / if / break / parse / put_message) is hand-written
    below; every condition, the size computation and every slice are the generated
    definitions.  These skeletons are proved equal to the model's [resync] / [ingest_loop]. *)

(** inner loop: [while len(d) >= 2: if d[0] != 0xAC or d[1] != 0xBE: d = d[1:] else: break] *)
Fixpoint resync_gen (fuel : nat) (d : bytes) : bytes :=
  match fuel with
  | 0 => d
  | S f =>
      if gen_resync_more d 0 then
        if gen_resync_mismatch d 0 then resync_gen f (gen_resync_drop d 0) else d
      else d
  end.

Lemma resync_gen_eq fuel : forall d, length d <= fuel -> resync_gen fuel d = resync d.
Proof.
  induction fuel as [|f IH]; intros d H.
  - destruct d; [reflexivity | cbn [length] in H; lia].
  - cbn [resync_gen]. rewrite gen_resync_more_eq, gen_resync_mismatch_eq, gen_resync_drop_eq.
    destruct d as [|a [|b t]]; try reflexivity.
    cbn [length Nat.leb nth skipn resync].
    destruct (negb (N.eqb a 172) || negb (N.eqb b 190)); [|reflexivity].
    apply IH. cbn [length] in *. lia.
Qed.

Lemma wf_bytes_skipn n d : wf_bytes d = true -> wf_bytes (skipn n d) = true.
Proof.
  revert d; induction n as [|n IH]; intros d H; [exact H|].
  destruct d as [|x d]; [reflexivity|]. cbn [skipn]. apply IH.
  unfold wf_bytes in *. cbn [forallb] in H. apply andb_true_iff in H. apply H.
Qed.

Lemma wf_bytes_resync d : wf_bytes d = true -> wf_bytes (resync d) = true.
Proof.
  induction d as [|a t IH]; intros H; [exact H|].
  cbn [resync]. destruct t as [|b t']; [exact H|].
  destruct (negb (N.eqb a 172) || negb (N.eqb b 190)); [|exact H].
  apply IH. unfold wf_bytes in *. cbn [forallb] in H. apply andb_true_iff in H. apply H.
Qed.

Section IngestGen.
  Variable parse : payload -> parse_outcome.

  Fixpoint ingest_loop_gen (fuel : nat) (d : bytes) : loop_result :=
    match fuel with
    | 0 => OutOfFuel
    | S f =>
      if gen_ingest_more d 0 then
        if gen_ingest_is_marker d 0 then
          if gen_ingest_has_header d 0 then
            let msg_size := gen_ingest_msg_size d 0 in
            if gen_ingest_complete d msg_size then
              match parse (gen_ingest_raw d msg_size) with
              | PRaise => Done [] Dead
              | PNone => ingest_loop_gen f (gen_ingest_rest d msg_size)
              | PMsg m =>
                  match ingest_loop_gen f (gen_ingest_rest d msg_size) with
                  | Done o st => Done (m :: o) st
                  | OutOfFuel => OutOfFuel
                  end
              end
            else Done [] (Live d)
          else Done [] (Live d)
        else ingest_loop_gen f (resync_gen (length d) d)
      else Done [] (Live d)
    end.

  Lemma ingest_loop_gen_eq fuel : forall d,
    wf_bytes d = true -> ingest_loop_gen fuel d = ingest_loop parse fuel d.
  Proof.
    induction fuel as [|f IH]; intros d W; [reflexivity|].
    cbn [ingest_loop_gen ingest_loop].
    rewrite gen_ingest_more_eq, gen_ingest_is_marker_eq, gen_ingest_has_header_eq.
    destruct (2 <? length d); [|reflexivity].
    destruct (N.eqb (nth 0 d 0%N) 172 && N.eqb (nth 1 d 0%N) 190).
    - destruct (4 <? length d) eqn:E4; [|reflexivity].
      apply Nat.ltb_lt in E4. cbv zeta.
      rewrite (gen_ingest_msg_size_eq d 0 W) by lia.
      rewrite gen_ingest_complete_eq, gen_ingest_raw_eq, gen_ingest_rest_eq.
      destruct (un_le16 (skipn 2 d) + 4 <=? nlen d)%N; [|reflexivity].
      rewrite (IH _ (wf_bytes_skipn _ d W)). reflexivity.
    - rewrite resync_gen_eq by lia. apply IH. apply wf_bytes_resync. exact W.
  Qed.
End IngestGen.
