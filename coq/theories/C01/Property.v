(** C01 — property theorems only (each closed by [exact]); see Proofs.v.
    [parse] (ProtocolHub.parse) is universally quantified in every theorem: they hold
    for whatever the real parser does on each payload (message / None / raise). *)
From Coq Require Import List NArith Arith.
From Whad Require Import Lib.Bytes C01.Model C01.Proofs.
Import ListNotations.

(** The fuel the model gives to the transcribed loops is never exhausted. *)
Theorem C01_ingest_fuel_enough :
  forall parse st chunk, ingest parse st chunk <> OutOfFuel.
Proof. exact ingest_fuel_enough. Qed.

(** (1) Chunking invariance, for every byte stream and EVERY partition into read()
    chunks: what the two nested loops hand to put_message over the chunks (and whether
    an exception escapes) is what the declarative wire-format specification yields on
    the concatenation ... *)
Theorem C01_ingest_refines_deliver :
  forall parse (chunks : list bytes),
    observe (run parse (Live []) chunks) = Some (dispatch parse (deliver (concat chunks))).
Proof. exact ingest_refines_deliver. Qed.

(** ... hence the same as when the transport delivers everything in a single chunk. *)
Theorem C01_chunking_invariant :
  forall parse (chunks : list bytes),
    observe (run parse (Live []) chunks) = observe (run parse (Live []) [concat chunks]).
Proof. exact chunking_invariant. Qed.

(** DevOutThread.run over schedules of read() results that include empty reads — None (the
    select() timeout of the uart/tcp/unix transports) and b'' — at arbitrary positions
    (between frames, inside headers, inside payloads): what is delivered is the specification
    on the bytes carried, ... *)
Theorem C01_run_loop_refines_deliver :
  forall parse (reads : list (option bytes)),
    observe (run_loop parse (Live []) reads)
    = Some (dispatch parse (deliver (concat (chunks_of reads)))).
Proof. exact run_loop_refines_deliver. Qed.

(** ... so an empty read is a no-op: inserting or removing None / b'' reads anywhere changes
    nothing, and a schedule with empty reads behaves like the chunk list without them. *)
Theorem C01_empty_reads_noop :
  forall parse (reads1 reads2 : list (option bytes)),
    nonempty_data reads1 = nonempty_data reads2 ->
    observe (run_loop parse (Live []) reads1) = observe (run_loop parse (Live []) reads2).
Proof. exact empty_reads_noop. Qed.

Theorem C01_run_loop_insert_empties :
  forall parse (chunks : list bytes) (reads : list (option bytes)),
    nonempty_data reads = filter (fun b => negb (length b =? 0)) chunks ->
    observe (run_loop parse (Live []) reads) = observe (run parse (Live []) chunks).
Proof. exact run_loop_insert_empties. Qed.

(** (2) Self-resynchronisation: frames (0 < payload < 65536 bytes) separated by gaps
    that contain no adjacent AC BE (a gap may end in AC or start with BE) are each
    recognised exactly once, in order, with their payload intact. *)
Theorem C01_deliver_frames :
  forall (items : list (bytes * payload)) (gn : bytes),
    Forall wf_item items -> marker_free gn = true ->
    deliver (stream items gn) = map snd items.
Proof. exact deliver_frames. Qed.

(** (1)+(2): under every chunking of such a stream the reader thread hands to
    put_message exactly the parsed payloads, in order. *)
Theorem C01_frames_exactly_once :
  forall parse items gn (chunks : list bytes),
    Forall wf_item items -> marker_free gn = true -> concat chunks = stream items gn ->
    observe (run parse (Live []) chunks) = Some (dispatch parse (map snd items)).
Proof. exact frames_exactly_once. Qed.

(** (3) Totality: if parse never raises (C02; repaired by commit 808478d), then for
    ARBITRARY bytes under any chunking the reader thread stays alive and has delivered
    exactly the messages of the payloads the specification finds. *)
Theorem C01_ingest_total :
  forall parse, (forall p, parse p <> PRaise) ->
    forall chunks : list bytes, exists buf,
      run parse (Live []) chunks = Done (delivered_of parse (deliver (concat chunks))) (Live buf).
Proof. exact ingest_total. Qed.

(** Empty payloads are allowed in the stream (a zero-length frame is consumed as soon as
    one more byte follows); payloads parse maps to None deliver nothing and every other
    frame is still delivered. *)
Theorem C01_deliver_skip_undecodable :
  forall items g p gn,
    Forall wf_item0 items -> wf_item (g, p) -> marker_free gn = true ->
    deliver (stream (items ++ [(g, p)]) gn) = map snd items ++ [p].
Proof. exact deliver_skip_undecodable. Qed.

Theorem C01_ingest_skip_undecodable :
  forall parse, (forall p, parse p <> PRaise) ->
    forall items g p gn (chunks : list bytes),
      Forall wf_item0 items -> wf_item (g, p) -> marker_free gn = true ->
      concat chunks = stream (items ++ [(g, p)]) gn ->
      exists buf, run parse (Live []) chunks
                  = Done (delivered_of parse (map snd items ++ [p])) (Live buf).
Proof. exact ingest_skip_undecodable. Qed.

(** The [len(data) > 4] test: a zero-length frame alone stays in the buffer; it is
    consumed (empty payload) as soon as any further byte arrives. No message is lost. *)
Theorem C01_empty_frame_quirk :
  deliver (frame []) = [] /\ pending (frame []) = frame []
  /\ forall x rest, deliver (frame [] ++ x :: rest) = [] :: deliver (x :: rest).
Proof. exact empty_frame_quirk. Qed.

(** (4) FULL STATEMENT of the truncated-frame clause: a truncated frame never causes the
    following well-formed frame to be lost.  Refuted by the wire format itself
    (KNOWN-FINDING truncated-frame-swallows-following-bytes). *)
Definition C01_truncated_statement : Prop :=
  forall p k good, (0 < nlen p < 65536)%N -> (0 < nlen good < 65536)%N ->
    k < length (frame p) -> deliver (firstn k (frame p) ++ frame good) = [good].

Theorem C01_truncated_refuted :
  exists p k good, (0 < nlen p < 65536)%N /\ (0 < nlen good < 65536)%N /\ k < length (frame p)
    /\ deliver (firstn k (frame p) ++ frame good) <> [good].
Proof. exact truncated_refuted. Qed.

Theorem C01_truncated_statement_false : ~ C01_truncated_statement.
Proof. exact truncated_statement_false. Qed.

(** The part that holds: a frame cut after k >= 4 bytes swallows exactly the missing
    [length p - (k-4)] bytes [sw] that follow (they are handed to parse together with
    the received part as one payload), after which reception continues: every frame
    lying wholly after the swallowed window and after a marker-free gap is delivered —
    under any chunking. *)
Theorem C01_truncated_partial :
  forall p k sw items gn,
    (0 < nlen p < 65536)%N -> 4 <= k -> k <= length (frame p) ->
    length sw + (k - 4) = length p ->
    Forall wf_item items -> marker_free gn = true ->
    deliver (firstn k (frame p) ++ sw ++ stream items gn) = (firstn (k - 4) p ++ sw) :: map snd items.
Proof. exact truncated_partial. Qed.

Theorem C01_truncated_partial_ingest :
  forall parse p k sw items gn (chunks : list bytes),
    (0 < nlen p < 65536)%N -> 4 <= k -> k <= length (frame p) ->
    length sw + (k - 4) = length p ->
    Forall wf_item items -> marker_free gn = true ->
    concat chunks = firstn k (frame p) ++ sw ++ stream items gn ->
    observe (run parse (Live []) chunks)
    = Some (dispatch parse ((firstn (k - 4) p ++ sw) :: map snd items)).
Proof. exact truncated_partial_ingest. Qed.

(** The arithmetic in the model is the bit arithmetic of the code
    ([len & 0xff], [(len >> 8) & 0xff], [data[2] | (data[3] << 8)]). *)
Theorem C01_header_bitops :
  forall n : N, N.land n 255 = (n mod 256)%N /\ N.land (N.shiftr n 8) 255 = ((n / 256) mod 256)%N.
Proof. exact header_bitops. Qed.

Theorem C01_size_bitops :
  forall lo hi : N, (lo < 256)%N -> N.lor lo (N.shiftl hi 8) = (lo + 256 * hi)%N.
Proof. exact size_bitops. Qed.

(** Non-vacuity: a concrete stream (noise ending in AC, a frame, a zero-length frame, a
    lone BE, a frame) meets the hypotheses and is delivered under 1-byte chunking. *)
Example C01_nonvacuous :
  let parse := fun p : payload => match p with [] => PNone | _ => PMsg p end in
  let items := [([1; 2; 172]%N, [18; 2; 10; 0]%N); ([], []); ([190]%N, [5]%N)] in
  Forall wf_item0 items /\ marker_free [172%N] = true
  /\ run parse (Live []) (map (fun b => [b]) (stream items [172%N]))
     = Done [[18; 2; 10; 0]%N; [5]%N] (Live [172%N]).
Proof.
  cbv zeta. split; [|split; vm_compute; reflexivity].
  repeat constructor; vm_compute; reflexivity.
Qed.
