(** C05 — property theorems only (each closed by [exact]); see Proofs.v.

    Lock mode and synchronous mode are part of the interleaving model of C04/Model.v
    ([run]: arbitrary lists of atomic steps of the application thread, the device's reader /
    writer threads and the connector I/O thread); Bridge.__init__ has its own model in
    C05/Model.v ([brun]).  Every theorem quantifies over ALL schedules (no bound) and all
    packet streams.  The models are the models of the REPAIRED code ([legacy_*] false). *)
From Coq Require Import List NArith Arith Bool.
From Whad Require Import C04.Model C04.Proofs C05.Model C05.Proofs.
Import ListNotations.
Open Scope N_scope.

(** 1. Lock / unlock.  For every sequence of lock()/unlock() calls (lock() never called on an
    already locked connector: it discards what is held, by design), interleaved in any way
    with the arrival of packets: at every reachable state the packets dispatched so far (by
    the I/O thread or by unlock), then the held packet unlock() is about to dispatch, the
    packets held, the packet in the I/O thread's hands, are exactly the packets that reached process_message, in arrival order -- whether
    they arrived before, during or after an unlock -- and the holding queue of an unlocked
    connector is empty: nothing is ever stranded. *)
Theorem C05_unlock_exactly_once_in_order :
  forall (cfg : config) (script : list op) (sp : list chunk) (l0 : bool) (sched : list action),
    legacy_unlock cfg = false -> legacy_lock cfg = false -> lock_wf l0 script ->
    let s := run cfg sched (init cfg script sp l0) in
    dispatched s ++ hand_u s ++ locked_q s ++ hand_p s = pkts (delivered s)
    /\ (locked s = false -> locked_q s = []).
Proof. exact unlock_exactly_once_in_order. Qed.

Theorem C05_unlock_at_quiescence :
  forall cfg script sp l0 sched,
    legacy_unlock cfg = false -> legacy_lock cfg = false -> lock_wf l0 script ->
    let s := run cfg sched (init cfg script sp l0) in
    locked s = false -> hand_p s = [] -> hand_u s = [] -> dispatched s = pkts (delivered s).
Proof. exact unlock_at_quiescence. Qed.

(** The code as found refutes it: the check-then-enqueue race of process_message against
    unlock() strands a packet (DESIGN Appendix A schedule); lock() discards a packet saved
    between its two statements. *)
Theorem C05_unlock_legacy_refuted :
  exists (cfg : config) (script : list op) (sp : list chunk) (sched : list action),
    legacy_unlock cfg = true /\ lock_wf true script /\
    let s := run cfg sched (init cfg script sp true) in
    locked s = false /\ locked_q s = [mkMsg 0 1 true] /\ dispatched s = []
    /\ a_pc s = A_Done /\ c_pc s = CC_Get /\ events s = [] /\ r_pc s = RD_Read /\ wire s = [].
Proof. exact unlock_legacy_refuted. Qed.

Theorem C05_lock_legacy_refuted :
  exists (cfg : config) (script : list op) (sp : list chunk) (sched : list action),
    legacy_lock cfg = true /\ legacy_unlock cfg = false /\ lock_wf false script /\
    let s := run cfg sched (init cfg script sp false) in
    delivered s = [mkMsg 0 1 true] /\ dispatched s = [] /\ locked_q s = [] /\ hand_p s = []
    /\ a_pc s = A_Done.
Proof. exact lock_legacy_refuted. Qed.

(** 2. Synchronous mode.  The application enables packet mode, then only calls wait_packet:
    at every reachable state, what was processed normally (before the mode took effect),
    then what wait_packet returned, then what waits in the synchronous queue, then what is
    still on its way, is exactly what the device emitted, in order.  Each packet is thus in
    exactly one place: retrievable exactly once, in arrival order, and -- [dispatched] only
    ever holds packets of [delivered] (theorem 1) -- not also dispatched. *)
Theorem C05_sync_exactly_once :
  forall (cfg : config) (ws : list op) (sp : list chunk) (l0 : bool) (sched : list action),
    has_conn cfg = true -> legacy_sync cfg = false -> Forall is_wait ws -> Forall pkt_chunk sp ->
    let s := run cfg sched (init cfg (OSync 1 :: ws) sp l0) in
    delivered s ++ gotten (retrieved s) ++ sync_q s ++ hand_c s ++ events s
    ++ hand_r s ++ msgs_of (r_buf s) ++ msgs_of (concat (wire s)) = emitted s.
Proof. exact sync_exactly_once. Qed.

Theorem C05_sync_legacy_refuted :
  exists (cfg : config) (ws : list op) (sp : list chunk) (sched : list action),
    legacy_sync cfg = true /\
    let s := run cfg sched (init cfg (OSync 1 :: ws) sp false) in
    emitted s = [mkMsg 0 1 true] /\ pipeS s = [] /\ retrieved s = [None] /\ dispatched s = []
    /\ a_pc s = A_Done.
Proof. exact sync_legacy_refuted. Qed.

(** Across mode transitions (OFF -> PKT, OFF -> ALL, PKT -> ALL, ALL -> PKT, PKT -> OFF, ALL -> OFF,
    any sequence, any interleaving of the I/O thread's four mode loads with the application's
    stores and clears).  For EVERY script and schedule, everything the I/O thread took from the
    events queue is, with its multiplicity, in exactly one place: processed normally, retrieved
    by wait_packet, waiting in the synchronous queue, discarded by the queue clear of an
    enable_synchronous call (by design), dropped by add_sync_event, or in the thread's hands. *)
Theorem C05_sync_transitions_account :
  forall (cfg : config) (script : list op) (sp : list chunk) (l0 : bool) (sched : list action) (x : msg),
    let s := run cfg sched (init cfg script sp l0) in
    cnt x (taken s) = cnt x (delivered s ++ got s ++ sync_q s ++ cleared s ++ dropped s ++ hand_c s).
Proof. exact sync_transitions_account. Qed.

(** ... and as long as the application never switches synchronous mode OFF, add_sync_event drops
    nothing: every packet is processed normally (hence dispatched, theorem 1), retrievable, or
    explicitly discarded by a clear; none is silently lost. *)
Theorem C05_sync_enable_never_drops :
  forall cfg script sp l0 sched,
    Forall enable_only script ->
    dropped (run cfg sched (init cfg script sp l0)) = [].
Proof. exact sync_enable_never_drops. Qed.

(** Switching the mode OFF discards what is queued, including the packet being saved. *)
Theorem C05_sync_disable_may_drop :
  let cfg := mkConfig true false 3 false false false false in
  let s := run cfg ([Emit] ++ repeat (Step TR) 6 ++ [Step TA; Step TA] ++ repeat (Step TC) 4
                    ++ [Step TA; Step TA] ++ [Step TC])
               (init cfg [OSync 1; OSync 0] [[Some (mkMsg 0 1 true)]] false) in
  dropped s = [mkMsg 0 1 true] /\ sync_mode s = 0.
Proof. exact sync_disable_may_drop. Qed.

(** 3. Bridge (both directions, messages of every kind: ordinary packets, packet-type messages
    without scapy counterpart, non-packet messages).  FULL STATEMENT (refuted by the faithful
    model of the code that exists, KNOWN-FINDING bridge-created-under-traffic): once
    everything is idle, each peer send queue holds what was held, then what was pending, then
    what the device emitted, exactly once and in that order. *)
Definition C05_bridge_relays_exactly_once_per_direction_statement : Prop :=
  forall li hi ei spi lo ho eo spo (sched : list baction),
    let s := brun (mkBC false false false) sched (binit2 (sinit li None hi ei spi) (sinit lo None ho eo spo)) in
    bquiet s = true ->
    d_peer (b_in s) = hi ++ ei ++ msgs_of (concat spi)
    /\ d_peer (b_out s) = ho ++ eo ++ msgs_of (concat spo).

Theorem C05_bridge_relays_exactly_once_per_direction_refuted :
  ~ C05_bridge_relays_exactly_once_per_direction_statement.
Proof. exact bridge_statement_refuted. Qed.

(** The two ways it fails: traffic reaching the new wrapper overtakes what was held; an event
    still in the old connector's queue is handled by the old connector, never relayed. *)
Theorem C05_bridge_witnesses :
  (let s := brun (mkBC false false false) br_sched_order (binit [p1] [] [[Some p2]]) in
   bquiet s = true /\ d_peer (b_in s) = [p2; p1])
  /\
  (let s := brun (mkBC false false false) br_sched_loss (binit [] [p1] []) in
   bquiet s = true /\ d_peer (b_in s) = [] /\ d_lost (b_in s) = [p1]).
Proof. exact bridge_refuted. Qed.

(** What holds under EVERY schedule, quiet link or not: the reader threads survive the
    creation of the bridge (repaired Connector.__init__; repaired Device.put_message: whatever
    stale filters [fi], [fo] the devices carry) and every message of either side is,
    with its multiplicity, in exactly one place -- relayed, handled by the old connector
    instead, held, or still on its way: nothing is relayed twice, nothing vanishes. *)
Theorem C05_bridge_relays_partial :
  forall q li fi hi ei spi lo fo ho eo spo (sched : list baction) (x : msg) (d : dir),
    let s := brun (mkBC false q false) sched (binit2 (sinit li fi hi ei spi) (sinit lo fo ho eo spo)) in
    d_rpc (bside d s) <> BR_Dead
    /\ cnt x (ball d s) = cnt x (match d with DIn => hi ++ ei ++ msgs_of (concat spi)
                                          | DOut => ho ++ eo ++ msgs_of (concat spo) end).
Proof. exact bridge_conservation. Qed.

(** The complement of the finding's class: a bridge created on a quiet link (no event pending
    in the old connectors; the devices only emit once Bridge.__init__ has returned) relays
    EVERYTHING exactly once and in per-direction order, under every schedule, whatever the
    kind of the messages held. *)
Theorem C05_bridge_quiet_link :
  forall li fi hi spi lo fo ho spo (sched : list baction),
    (li = false -> hi = []) -> (lo = false -> ho = []) ->
    let s := brun (mkBC false true false) sched (binit2 (sinit li fi hi [] spi) (sinit lo fo ho [] spo)) in
    bdone s = true ->
    QB hi spi (b_in s) /\ QB ho spo (b_out s).
Proof. exact bridge_quiet_link. Qed.

Theorem C05_bridge_quiet_link_quiescent :
  forall li fi hi spi lo fo ho spo (sched : list baction),
    (li = false -> hi = []) -> (lo = false -> ho = []) ->
    let s := brun (mkBC false true false) sched (binit2 (sinit li fi hi [] spi) (sinit lo fo ho [] spo)) in
    bquiet s = true ->
    d_peer (b_in s) = hi ++ msgs_of (concat spi) /\ d_peer (b_out s) = ho ++ msgs_of (concat spo).
Proof. exact bridge_quiet_link_quiescent. Qed.

(** [fi], [fo]: message filters left on the devices by earlier send_command / send_message calls
    are reset by Bridge.__init__ (B1 / B2), so on a quiet link EVERY kind of message emitted
    after the creation is relayed, including those a stale filter would have kept; and under
    traffic no schedule of filter resets and put_message kills a reader thread
    ([C05_bridge_relays_partial], stated for arbitrary stale filters; C04_reader_never_dies).
    Device.put_message as found (two loads of the filter) refutes that: *)
Theorem C05_bridge_legacy_filter_refuted :
  exists sched,
    d_rpc (b_in (brun (mkBC false false true) sched
                   (binit2 (sinit true (Some 3) [] [] [[Some p1]]) (sinit false None [] [] [])))) = BR_Dead.
Proof. exact bridge_legacy_filter_refuted. Qed.

(** Connector.__init__ as found: the device was given the half-built connector; the reader
    thread dies on it. *)
Theorem C05_bridge_legacy_ctor_refuted :
  exists sp sched, d_rpc (b_in (brun (mkBC true false false) sched (binit [] [] sp))) = BR_Dead.
Proof. exact bridge_legacy_ctor_refuted. Qed.

Example C05_nonvacuous_quiet :
  let s := brun (mkBC false true false) nvq_sched
             (binit2 (sinit true None nvq_hi [] [[Some (mkMsg 7 4 false)]]) (sinit true (Some 3) nvq_ho [] [[Some (mkMsg 0 13 true); Some (mkMsg 3 14 false)]])) in
  bquiet s = true
  /\ d_peer (b_in s) = nvq_hi ++ [mkMsg 7 4 false] /\ d_peer (b_out s) = nvq_ho ++ [mkMsg 0 13 true; mkMsg 3 14 false].
Proof. exact nonvacuous_quiet. Qed.

(** Non-vacuity: a locked connector holding nothing receives two packets while unlock() runs;
    under a concrete schedule both are dispatched in order and nothing is left behind. *)
Example C05_nonvacuous :
  let cfg := mkConfig true false 3 false false false false in
  lock_wf true [OUnlock] /\
  let s := run cfg nv5_sched (init cfg [OUnlock] [[Some (mkMsg 0 1 true)]; [Some (mkMsg 0 2 true)]] true) in
  dispatched s = [mkMsg 0 1 true; mkMsg 0 2 true] /\ locked_q s = [] /\ locked s = false.
Proof. exact nonvacuous5. Qed.
