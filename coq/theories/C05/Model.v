(** C05 — the connector's lock mode and synchronous mode are part of the interleaving model
    of C04/Model.v (application operations OLock / OUnlock / OSync / OWait, connector I/O
    thread steps CC_L1 .. CC_RelD, CC_S1 .. CC_SPut).  This file adds the model of
    Bridge.__init__ (whad/device/bridge.py).  Definitions only. *)
From Coq Require Import List NArith Bool.
From Whad Require Import C04.Model.
Import ListNotations.
Open Scope N_scope.

(** ---- Bridge.__init__ (one direction: input device -> output device) ------------------------

    Threads: the application thread running Bridge(in_connector, out_connector); the
    input device's reader thread (DevOutThread.run -> put_message); the I/O thread of the
    OLD input connector (still running: nothing stops it); the I/O thread of the
    BridgeIfaceWrapper created on the input device.  The wrapper relays every message it
    processes to the output device's send queue ([b_peer]); unlock(dispatch_pending_input)
    relays what the old connector was holding.  What the old connector's own I/O thread
    dispatches to its packet handler once it is unlocked is NOT relayed ([b_lost]). *)

Inductive bppc := Q1 | Q5 | Q6 | Q7 | Q8l | Q8a | Q8b (to_wrapper : bool).

Inductive brpc := BR_Read | BR_P (p : bppc) (m : msg) | BR_Dead.

Inductive xpc :=
| X_Get | X_C2 (m : msg) | X_C5 (m : msg)
| X_R1 (m : msg)      (* on_any_msg -> on_outbound -> output.send_message: load opened *)
| X_R2 (m : msg)      (* peer in_q.put *)
| X_L1 (m : msg) | X_L2 (m : msg).   (* process_message: is_locked() of the wrapper (never locked) *)

Inductive bapc :=
| BA_F1 | BA_F2                      (* set_queue_filter(None) on both devices *)
| BA_W1b | BA_W1c | BA_W1            (* input wrapper: its own flag stores; device.__connector := wrapper *)
| BA_W2b | BA_W2c | BA_W2            (* output wrapper (no traffic on that side in this model) *)
| BA_L1 | BA_L2                      (* self.__in.is_locked() *)
| BU_1 | BU_2 | BU_3                 (* unlock: acquire, empty?, get *)
| BU_R1 (m : msg) | BU_R2 (m : msg)  (* dispatch_pending_input: load opened; peer in_q.put *)
| BU_6 | BU_5                        (* flag cleared under the lock; release *)
| BA_M1 | BA_M2                      (* self.__out.is_locked() *)
| BA_Done.

Record bstate := mkB {
  b_wire : list chunk; b_spont : list chunk; b_rpc : brpc; b_rbuf : list frame;
  b_conn : bool;               (* input device's __connector: false = old connector, true = wrapper *)
  b_wready : bool;             (* the wrapper's event queue exists *)
  b_filt : option N; b_outq : list msg;
  b_ev_o : list msg; b_cpc : cpc; b_locked : bool; b_lk : bool; b_lq : list msg;
  b_ev_w : list msg; b_xpc : xpc;
  b_peer : list msg;
  b_apc : bapc;
  b_deliv_o : list msg; b_lost : list msg; b_deliv_w : list msg
}.

Definition bset_r (pc : brpc) (buf : list frame) (s : bstate) : bstate :=
  {| b_wire := b_wire s; b_spont := b_spont s; b_rpc := pc; b_rbuf := buf; b_conn := b_conn s;
     b_wready := b_wready s; b_filt := b_filt s; b_outq := b_outq s; b_ev_o := b_ev_o s; b_cpc := b_cpc s;
     b_locked := b_locked s; b_lk := b_lk s; b_lq := b_lq s; b_ev_w := b_ev_w s; b_xpc := b_xpc s;
     b_peer := b_peer s; b_apc := b_apc s; b_deliv_o := b_deliv_o s; b_lost := b_lost s;
     b_deliv_w := b_deliv_w s |}.
Definition bset_wire (w : list chunk) (sp : list chunk) (s : bstate) : bstate :=
  {| b_wire := w; b_spont := sp; b_rpc := b_rpc s; b_rbuf := b_rbuf s; b_conn := b_conn s;
     b_wready := b_wready s; b_filt := b_filt s; b_outq := b_outq s; b_ev_o := b_ev_o s; b_cpc := b_cpc s;
     b_locked := b_locked s; b_lk := b_lk s; b_lq := b_lq s; b_ev_w := b_ev_w s; b_xpc := b_xpc s;
     b_peer := b_peer s; b_apc := b_apc s; b_deliv_o := b_deliv_o s; b_lost := b_lost s;
     b_deliv_w := b_deliv_w s |}.
Definition bset_dev (c : bool) (rdy : bool) (f : option N) (oq : list msg) (s : bstate) : bstate :=
  {| b_wire := b_wire s; b_spont := b_spont s; b_rpc := b_rpc s; b_rbuf := b_rbuf s; b_conn := c;
     b_wready := rdy; b_filt := f; b_outq := oq; b_ev_o := b_ev_o s; b_cpc := b_cpc s;
     b_locked := b_locked s; b_lk := b_lk s; b_lq := b_lq s; b_ev_w := b_ev_w s; b_xpc := b_xpc s;
     b_peer := b_peer s; b_apc := b_apc s; b_deliv_o := b_deliv_o s; b_lost := b_lost s;
     b_deliv_w := b_deliv_w s |}.
Definition bset_o (ev : list msg) (pc : cpc) (l : bool) (k : bool) (q : list msg)
                  (d : list msg) (lost : list msg) (s : bstate) : bstate :=
  {| b_wire := b_wire s; b_spont := b_spont s; b_rpc := b_rpc s; b_rbuf := b_rbuf s; b_conn := b_conn s;
     b_wready := b_wready s; b_filt := b_filt s; b_outq := b_outq s; b_ev_o := ev; b_cpc := pc;
     b_locked := l; b_lk := k; b_lq := q; b_ev_w := b_ev_w s; b_xpc := b_xpc s;
     b_peer := b_peer s; b_apc := b_apc s; b_deliv_o := d; b_lost := lost;
     b_deliv_w := b_deliv_w s |}.
Definition bset_w (ev : list msg) (pc : xpc) (peer : list msg) (d : list msg) (s : bstate) : bstate :=
  {| b_wire := b_wire s; b_spont := b_spont s; b_rpc := b_rpc s; b_rbuf := b_rbuf s; b_conn := b_conn s;
     b_wready := b_wready s; b_filt := b_filt s; b_outq := b_outq s; b_ev_o := b_ev_o s; b_cpc := b_cpc s;
     b_locked := b_locked s; b_lk := b_lk s; b_lq := b_lq s; b_ev_w := ev; b_xpc := pc;
     b_peer := peer; b_apc := b_apc s; b_deliv_o := b_deliv_o s; b_lost := b_lost s;
     b_deliv_w := d |}.
Definition bset_a (pc : bapc) (s : bstate) : bstate :=
  {| b_wire := b_wire s; b_spont := b_spont s; b_rpc := b_rpc s; b_rbuf := b_rbuf s; b_conn := b_conn s;
     b_wready := b_wready s; b_filt := b_filt s; b_outq := b_outq s; b_ev_o := b_ev_o s; b_cpc := b_cpc s;
     b_locked := b_locked s; b_lk := b_lk s; b_lq := b_lq s; b_ev_w := b_ev_w s; b_xpc := b_xpc s;
     b_peer := b_peer s; b_apc := pc; b_deliv_o := b_deliv_o s; b_lost := b_lost s;
     b_deliv_w := b_deliv_w s |}.

(** [legacy_ctor]: Connector.__init__ as found gave the device its new connector before the
    connector's event queue existed. *)
Record bconfig := mkBC { legacy_ctor : bool }.

Fixpoint br_next (buf : list frame) : brpc * list frame :=
  match buf with
  | [] => (BR_Read, [])
  | None :: r => br_next r
  | Some m :: r => (BR_P Q1 m, r)
  end.

Definition bstep_R (s : bstate) : bstate :=
  match b_rpc s with
  | BR_Read =>
      match b_wire s with
      | [] => s
      | c :: w => bset_r (fst (br_next c)) (snd (br_next c)) (bset_wire w (b_spont s) s)
      end
  | BR_P p m =>
      let fin s1 := bset_r (fst (br_next (b_rbuf s))) (snd (br_next (b_rbuf s))) s1 in
      match p with
      | Q1 => bset_r (BR_P Q5 m) (b_rbuf s) s
      | Q5 => bset_r (BR_P (match b_filt s with None => Q8l | Some _ => Q6 end) m) (b_rbuf s) s
      | Q6 => match b_filt s with
              | None => bset_r BR_Dead (b_rbuf s) s
              | Some f => bset_r (BR_P (if matches f m then Q7 else Q8l) m) (b_rbuf s) s
              end
      | Q7 => fin (bset_dev (b_conn s) (b_wready s) (b_filt s) (b_outq s ++ [m]) s)
      | Q8l => bset_r (BR_P Q8a m) (b_rbuf s) s
      | Q8a => bset_r (BR_P (Q8b (b_conn s)) m) (b_rbuf s) s
      | Q8b true =>
          if b_wready s
          then fin (bset_w (b_ev_w s ++ [m]) (b_xpc s) (b_peer s) (b_deliv_w s) s)
          else bset_r BR_Dead (b_rbuf s) s     (* AttributeError: no event queue yet *)
      | Q8b false =>
          fin (bset_o (b_ev_o s ++ [m]) (b_cpc s) (b_locked s) (b_lk s) (b_lq s) (b_deliv_o s) (b_lost s) s)
      end
  | BR_Dead => s
  end.

(** The old connector's I/O thread: C04's step_C with synchronous mode off, repaired
    add_locked_pdu. *)
Definition bstep_C (s : bstate) : bstate :=
  let upd ev pc l k q d lost := bset_o ev pc l k q d lost s in
  let same pc := upd (b_ev_o s) pc (b_locked s) (b_lk s) (b_lq s) (b_deliv_o s) (b_lost s) in
  match b_cpc s with
  | CC_Get => match b_ev_o s with
              | [] => s
              | m :: r => upd r (CC_C2 m) (b_locked s) (b_lk s) (b_lq s) (b_deliv_o s) (b_lost s)
              end
  | CC_C2 m => same (CC_C5 m)
  | CC_C5 m => upd (b_ev_o s) (if m_pkt m then CC_L1 m else CC_Get) (b_locked s) (b_lk s) (b_lq s)
                   (b_deliv_o s ++ [m]) (b_lost s)
  | CC_L1 m => same (CC_L2 m)
  | CC_L2 m => if b_locked s then same (CC_A m)
               else upd (b_ev_o s) CC_Get (b_locked s) (b_lk s) (b_lq s) (b_deliv_o s) (b_lost s ++ [m])
  | CC_A m => if b_lk s then s
              else upd (b_ev_o s) (CC_T m) (b_locked s) true (b_lq s) (b_deliv_o s) (b_lost s)
  | CC_T m => if b_locked s then same (CC_Put m) else same (CC_RelD m)
  | CC_Put m => upd (b_ev_o s) CC_Rel (b_locked s) (b_lk s) (b_lq s ++ [m]) (b_deliv_o s) (b_lost s)
  | CC_Rel => upd (b_ev_o s) CC_Get (b_locked s) false (b_lq s) (b_deliv_o s) (b_lost s)
  | CC_RelD m => upd (b_ev_o s) CC_Get (b_locked s) false (b_lq s) (b_deliv_o s) (b_lost s ++ [m])
  | CC_S1 m | CC_S2 m | CC_SPut m => s
  end.

(** The wrapper's I/O thread. *)
Definition bstep_X (s : bstate) : bstate :=
  let upd ev pc peer d := bset_w ev pc peer d s in
  let same pc := upd (b_ev_w s) pc (b_peer s) (b_deliv_w s) in
  match b_xpc s with
  | X_Get => match b_ev_w s with
             | [] => s
             | m :: r => upd r (X_C2 m) (b_peer s) (b_deliv_w s)
             end
  | X_C2 m => same (X_C5 m)
  | X_C5 m => upd (b_ev_w s) (X_R1 m) (b_peer s) (b_deliv_w s ++ [m])
  | X_R1 m => same (X_R2 m)
  | X_R2 m => upd (b_ev_w s) (if m_pkt m then X_L1 m else X_Get) (b_peer s ++ [m]) (b_deliv_w s)
  | X_L1 m => same (X_L2 m)
  | X_L2 m => same X_Get
  end.

(** Bridge.__init__ *)
Definition bstep_A (cfg : bconfig) (s : bstate) : bstate :=
  match b_apc s with
  | BA_F1 => bset_a BA_F2 (bset_dev (b_conn s) (b_wready s) None (b_outq s) s)
  | BA_F2 => bset_a (if legacy_ctor cfg then BA_W1 else BA_W1b) s
  | BA_W1b => bset_a BA_W1c s
  | BA_W1c => if legacy_ctor cfg
              then bset_a BA_W2 (bset_dev (b_conn s) true (b_filt s) (b_outq s) s)
              else bset_a BA_W1 (bset_dev (b_conn s) true (b_filt s) (b_outq s) s)
  | BA_W1 => if legacy_ctor cfg
             then bset_a BA_W1b (bset_dev true (b_wready s) (b_filt s) (b_outq s) s)
             else bset_a BA_W2b (bset_dev true (b_wready s) (b_filt s) (b_outq s) s)
  | BA_W2b => bset_a BA_W2c s
  | BA_W2c => bset_a (if legacy_ctor cfg then BA_L1 else BA_W2) s
  | BA_W2 => bset_a (if legacy_ctor cfg then BA_W2b else BA_L1) s
  | BA_L1 => bset_a BA_L2 s
  | BA_L2 => bset_a (if b_locked s then BU_1 else BA_M1) s
  | BU_1 => if b_lk s then s
            else bset_a BU_2 (bset_o (b_ev_o s) (b_cpc s) (b_locked s) true (b_lq s) (b_deliv_o s) (b_lost s) s)
  | BU_2 => match b_lq s with [] => bset_a BU_6 s | _ :: _ => bset_a BU_3 s end
  | BU_3 => match b_lq s with
            | m :: q => bset_a (BU_R1 m) (bset_o (b_ev_o s) (b_cpc s) (b_locked s) (b_lk s) q (b_deliv_o s) (b_lost s) s)
            | [] => s
            end
  | BU_R1 m => bset_a (BU_R2 m) s
  | BU_R2 m => bset_a BU_2 (bset_w (b_ev_w s) (b_xpc s) (b_peer s ++ [m]) (b_deliv_w s) s)
  | BU_6 => bset_a BU_5 (bset_o (b_ev_o s) (b_cpc s) false (b_lk s) (b_lq s) (b_deliv_o s) (b_lost s) s)
  | BU_5 => bset_a BA_M1 (bset_o (b_ev_o s) (b_cpc s) (b_locked s) false (b_lq s) (b_deliv_o s) (b_lost s) s)
  | BA_M1 => bset_a BA_M2 s
  | BA_M2 => bset_a BA_Done s
  | BA_Done => s
  end.

Definition bemit (s : bstate) : bstate :=
  match b_spont s with
  | [] => s
  | c :: r => bset_wire (b_wire s ++ [c]) r s
  end.

Inductive baction := BA | BR | BC | BX | BEmit | BNop.

Definition bact (cfg : bconfig) (a : baction) (s : bstate) : bstate :=
  match a with
  | BA => bstep_A cfg s | BR => bstep_R s | BC => bstep_C s | BX => bstep_X s
  | BEmit => bemit s | BNop => s
  end.

Definition brun (cfg : bconfig) (l : list baction) (s : bstate) : bstate :=
  fold_left (fun s a => bact cfg a s) l s.

(** The bridge is created on a locked input connector that holds [held]; [ev0] are events
    still in the old connector's queue; [sp] is what the input device emits from then on. *)
Definition binit (held ev0 : list msg) (sp : list chunk) : bstate :=
  {| b_wire := []; b_spont := sp; b_rpc := BR_Read; b_rbuf := []; b_conn := false; b_wready := false;
     b_filt := None; b_outq := [];
     b_ev_o := ev0; b_cpc := CC_Get; b_locked := true; b_lk := false; b_lq := held;
     b_ev_w := []; b_xpc := X_Get; b_peer := []; b_apc := BA_F1;
     b_deliv_o := []; b_lost := []; b_deliv_w := [] |}.

Definition baction_of (n : N) : baction :=
  match n with 0 => BA | 2 => BR | 3 => BC | 6 => BX | 5 => BEmit | _ => BNop end.

Record bobs := mkBO {
  bo_peer : list msg; bo_lost : list msg; bo_lq : list msg; bo_deliv_o : list msg;
  bo_deliv_w : list msg; bo_ev_o : list msg; bo_ev_w : list msg; bo_locked : bool;
  bo_done : bool; bo_dead : bool
}.

Definition bobs_of (s : bstate) : bobs :=
  {| bo_peer := b_peer s; bo_lost := b_lost s; bo_lq := b_lq s; bo_deliv_o := b_deliv_o s;
     bo_deliv_w := b_deliv_w s; bo_ev_o := b_ev_o s; bo_ev_w := b_ev_w s; bo_locked := b_locked s;
     bo_done := match b_apc s with BA_Done => true | _ => false end;
     bo_dead := match b_rpc s with BR_Dead => true | _ => false end |}.

Definition bobs_eqb (a b : bobs) : bool :=
  list_eqb msg_eqb (bo_peer a) (bo_peer b) && list_eqb msg_eqb (bo_lost a) (bo_lost b)
  && list_eqb msg_eqb (bo_lq a) (bo_lq b) && list_eqb msg_eqb (bo_deliv_o a) (bo_deliv_o b)
  && list_eqb msg_eqb (bo_deliv_w a) (bo_deliv_w b) && list_eqb msg_eqb (bo_ev_o a) (bo_ev_o b)
  && list_eqb msg_eqb (bo_ev_w a) (bo_ev_w b) && Bool.eqb (bo_locked a) (bo_locked b)
  && Bool.eqb (bo_done a) (bo_done b) && Bool.eqb (bo_dead a) (bo_dead b).

Definition bcase := (bool * list msg * list msg * list chunk * list N * bobs)%type.

Definition brun_case (c : bcase) : bobs :=
  let '(lc, held, ev0, sp, sched, _) := c in
  bobs_of (brun (mkBC lc) (map baction_of sched) (binit held ev0 sp)).

Definition bcheck_case (c : bcase) : bool :=
  let '(_, _, _, _, _, o) := c in bobs_eqb (brun_case c) o.

(** Nothing is running any more. *)
Definition bquiet (s : bstate) : bool :=
  match b_apc s, b_rpc s, b_cpc s, b_xpc s, b_wire s, b_spont s, b_ev_o s, b_ev_w s with
  | BA_Done, BR_Read, CC_Get, X_Get, [], [], [], [] => true
  | _, _, _, _, _, _, _, _ => false
  end.
