(** C05 — the connector's lock mode and synchronous mode are part of the interleaving model
    of C04/Model.v (application operations OLock / OUnlock / OSync / OWait, connector I/O
    thread steps CC_L1 .. CC_RelD, CC_S1 .. CC_SPut).  This file adds the model of
    Bridge.__init__ (whad/device/bridge.py).  Definitions only. *)
From Coq Require Import List NArith Bool.
From Whad Require Import C04.Model.
Import ListNotations.
Open Scope N_scope.

(** ---- Bridge.__init__ (both directions) ----------------------------------------------------

    Per side (input / output device): the device's reader thread (DevOutThread.run ->
    put_message), the I/O thread of the OLD connector of that device (still running: nothing
    stops it), the I/O thread of the BridgeIfaceWrapper created on that device.  One
    application thread runs Bridge(in_connector, out_connector).  A wrapper relays EVERY
    message it processes -- whatever its kind -- to the other device's send queue
    ([d_peer] of the side the message came from); unlock(dispatch_pending_input|output) relays what the
    old connector was holding.  What the old connector's own I/O thread handles (packets
    passed to its packet dispatch routine: [d_lost]; other messages: [d_deliv_o]) is NOT
    relayed.  The two sides only share the application thread. *)

Inductive dir := DIn | DOut.

Inductive bppc := Q1 | Q5 | Q6 | Q7 | Q8l | Q8a | Q8b (to_wrapper : bool).

Inductive brpc := BR_Read | BR_P (p : bppc) (m : msg) | BR_Dead.

Inductive xpc :=
| X_Get | X_C2 (m : msg) | X_C5 (m : msg)
| X_R1 (m : msg)      (* on_any_msg -> on_outbound/on_inbound -> send_message: load opened *)
| X_R2 (m : msg)      (* peer in_q.put *)
| X_L1 (m : msg) | X_L2 (m : msg).   (* process_message: is_locked() of the wrapper (never locked) *)

Inductive bapc :=
| BA_F1 | BA_F2                      (* set_queue_filter(None) on both devices *)
| BA_W1b | BA_W1c | BA_W1            (* input wrapper: its own flag stores; device.__connector := wrapper *)
| BA_W2b | BA_W2c | BA_W2            (* output wrapper *)
| BA_L1 (d : dir) | BA_L2 (d : dir)  (* old connector of side d: is_locked() *)
| BU_1 (d : dir) | BU_2 (d : dir) | BU_3 (d : dir)            (* unlock: acquire, empty?, get *)
| BU_R1 (d : dir) (m : msg) | BU_R2 (d : dir) (m : msg)      (* dispatch_pending_input|output: load opened; peer in_q.put *)
| BU_6 (d : dir) | BU_5 (d : dir)    (* flag cleared under the lock; release *)
| BA_Done.

Record side := mkSide {
  d_wire : list chunk;
  d_spont : list chunk;
  d_rpc : brpc;
  d_rbuf : list frame;
  d_conn : bool;
  d_wready : bool;
  d_filt : option N;
  d_outq : list msg;
  d_ev_o : list msg;
  d_cpc : cpc;
  d_locked : bool;
  d_lk : bool;
  d_lq : list msg;
  d_ev_w : list msg;
  d_xpc : xpc;
  d_peer : list msg;
  d_deliv_o : list msg;
  d_lost : list msg;
  d_deliv_w : list msg
}.

Definition sset_r (v_rpc : brpc) (v_rbuf : list frame) (s : side) : side :=
  {| d_wire := d_wire s; d_spont := d_spont s; d_rpc := v_rpc; d_rbuf := v_rbuf; d_conn := d_conn s; d_wready := d_wready s; d_filt := d_filt s; d_outq := d_outq s; d_ev_o := d_ev_o s; d_cpc := d_cpc s; d_locked := d_locked s; d_lk := d_lk s; d_lq := d_lq s; d_ev_w := d_ev_w s; d_xpc := d_xpc s; d_peer := d_peer s; d_deliv_o := d_deliv_o s; d_lost := d_lost s; d_deliv_w := d_deliv_w s |}.
Definition sset_wire (v_wire : list chunk) (v_spont : list chunk) (s : side) : side :=
  {| d_wire := v_wire; d_spont := v_spont; d_rpc := d_rpc s; d_rbuf := d_rbuf s; d_conn := d_conn s; d_wready := d_wready s; d_filt := d_filt s; d_outq := d_outq s; d_ev_o := d_ev_o s; d_cpc := d_cpc s; d_locked := d_locked s; d_lk := d_lk s; d_lq := d_lq s; d_ev_w := d_ev_w s; d_xpc := d_xpc s; d_peer := d_peer s; d_deliv_o := d_deliv_o s; d_lost := d_lost s; d_deliv_w := d_deliv_w s |}.
Definition sset_dev (v_conn : bool) (v_wready : bool) (v_filt : option N) (v_outq : list msg) (s : side) : side :=
  {| d_wire := d_wire s; d_spont := d_spont s; d_rpc := d_rpc s; d_rbuf := d_rbuf s; d_conn := v_conn; d_wready := v_wready; d_filt := v_filt; d_outq := v_outq; d_ev_o := d_ev_o s; d_cpc := d_cpc s; d_locked := d_locked s; d_lk := d_lk s; d_lq := d_lq s; d_ev_w := d_ev_w s; d_xpc := d_xpc s; d_peer := d_peer s; d_deliv_o := d_deliv_o s; d_lost := d_lost s; d_deliv_w := d_deliv_w s |}.
Definition sset_o (v_ev_o : list msg) (v_cpc : cpc) (v_locked : bool) (v_lk : bool) (v_lq : list msg) (v_deliv_o : list msg) (v_lost : list msg) (s : side) : side :=
  {| d_wire := d_wire s; d_spont := d_spont s; d_rpc := d_rpc s; d_rbuf := d_rbuf s; d_conn := d_conn s; d_wready := d_wready s; d_filt := d_filt s; d_outq := d_outq s; d_ev_o := v_ev_o; d_cpc := v_cpc; d_locked := v_locked; d_lk := v_lk; d_lq := v_lq; d_ev_w := d_ev_w s; d_xpc := d_xpc s; d_peer := d_peer s; d_deliv_o := v_deliv_o; d_lost := v_lost; d_deliv_w := d_deliv_w s |}.
Definition sset_w (v_ev_w : list msg) (v_xpc : xpc) (v_peer : list msg) (v_deliv_w : list msg) (s : side) : side :=
  {| d_wire := d_wire s; d_spont := d_spont s; d_rpc := d_rpc s; d_rbuf := d_rbuf s; d_conn := d_conn s; d_wready := d_wready s; d_filt := d_filt s; d_outq := d_outq s; d_ev_o := d_ev_o s; d_cpc := d_cpc s; d_locked := d_locked s; d_lk := d_lk s; d_lq := d_lq s; d_ev_w := v_ev_w; d_xpc := v_xpc; d_peer := v_peer; d_deliv_o := d_deliv_o s; d_lost := d_lost s; d_deliv_w := v_deliv_w |}.

Record bstate := mkB { b_in : side; b_out : side; b_apc : bapc }.

Definition bside (d : dir) (s : bstate) : side := match d with DIn => b_in s | DOut => b_out s end.
Definition bupd (d : dir) (f : side -> side) (s : bstate) : bstate :=
  match d with
  | DIn => {| b_in := f (b_in s); b_out := b_out s; b_apc := b_apc s |}
  | DOut => {| b_in := b_in s; b_out := f (b_out s); b_apc := b_apc s |}
  end.
Definition bset_a (pc : bapc) (s : bstate) : bstate :=
  {| b_in := b_in s; b_out := b_out s; b_apc := pc |}.

(** [legacy_ctor]: Connector.__init__ as found gave the device its new connector before the
    connector's event queue existed.  [quiet]: the devices only emit once Bridge.__init__ has
    returned (a bridge created on a quiet link).  [legacy_filter]: Device.put_message as found
    loaded the message filter twice. *)
Record bconfig := mkBC { legacy_ctor : bool; quiet : bool; legacy_filter : bool }.

Fixpoint br_next (buf : list frame) : brpc * list frame :=
  match buf with
  | [] => (BR_Read, [])
  | None :: r => br_next r
  | Some m :: r => (BR_P Q1 m, r)
  end.

Definition sstep_R (lf : bool) (s : side) : side :=
  match d_rpc s with
  | BR_Read =>
      match d_wire s with
      | [] => s
      | c :: w => sset_r (fst (br_next c)) (snd (br_next c)) (sset_wire w (d_spont s) s)
      end
  | BR_P p m =>
      let fin s1 := sset_r (fst (br_next (d_rbuf s))) (snd (br_next (d_rbuf s))) s1 in
      match p with
      | Q1 => sset_r (BR_P Q5 m) (d_rbuf s) s
      | Q5 => sset_r (BR_P (match d_filt s with
                            | None => Q8l
                            | Some f => if lf then Q6 else if matches f m then Q7 else Q8l
                            end) m) (d_rbuf s) s
      | Q6 => match d_filt s with
              | None => sset_r BR_Dead (d_rbuf s) s
              | Some f => sset_r (BR_P (if matches f m then Q7 else Q8l) m) (d_rbuf s) s
              end
      | Q7 => fin (sset_dev (d_conn s) (d_wready s) (d_filt s) (d_outq s ++ [m]) s)
      | Q8l => sset_r (BR_P Q8a m) (d_rbuf s) s
      | Q8a => sset_r (BR_P (Q8b (d_conn s)) m) (d_rbuf s) s
      | Q8b true =>
          if d_wready s
          then fin (sset_w (d_ev_w s ++ [m]) (d_xpc s) (d_peer s) (d_deliv_w s) s)
          else sset_r BR_Dead (d_rbuf s) s     (* AttributeError: no event queue yet *)
      | Q8b false =>
          fin (sset_o (d_ev_o s ++ [m]) (d_cpc s) (d_locked s) (d_lk s) (d_lq s) (d_deliv_o s) (d_lost s) s)
      end
  | BR_Dead => s
  end.

(** The old connector's I/O thread: C04's step_C with synchronous mode off, repaired
    add_locked_pdu. *)
Definition sstep_C (s : side) : side :=
  let upd ev pc l k q d lost := sset_o ev pc l k q d lost s in
  let same pc := upd (d_ev_o s) pc (d_locked s) (d_lk s) (d_lq s) (d_deliv_o s) (d_lost s) in
  match d_cpc s with
  | CC_Get => match d_ev_o s with
              | [] => s
              | m :: r => upd r (CC_C2 m) (d_locked s) (d_lk s) (d_lq s) (d_deliv_o s) (d_lost s)
              end
  | CC_C2 m => same (CC_C5 m)
  | CC_C5 m => upd (d_ev_o s) (if m_pkt m then CC_L1 m else CC_Get) (d_locked s) (d_lk s) (d_lq s)
                   (d_deliv_o s ++ [m]) (d_lost s)
  | CC_L1 m => same (CC_L2 m)
  | CC_L2 m => if d_locked s then same (CC_A m) else same (CC_D m)
  | CC_A m => if d_lk s then s
              else upd (d_ev_o s) (CC_T m) (d_locked s) true (d_lq s) (d_deliv_o s) (d_lost s)
  | CC_T m => if d_locked s then same (CC_Put m) else same (CC_RelD m)
  | CC_Put m => upd (d_ev_o s) CC_Rel (d_locked s) (d_lk s) (d_lq s ++ [m]) (d_deliv_o s) (d_lost s)
  | CC_Rel => upd (d_ev_o s) CC_Get (d_locked s) false (d_lq s) (d_deliv_o s) (d_lost s)
  | CC_RelD m => upd (d_ev_o s) (CC_D m) (d_locked s) false (d_lq s) (d_deliv_o s) (d_lost s)
  | CC_D m => upd (d_ev_o s) CC_Get (d_locked s) (d_lk s) (d_lq s) (d_deliv_o s) (d_lost s ++ [m])
  | CC_S1 m | CC_S2 m | CC_SPut m => s
  end.

(** The wrapper's I/O thread: relays whatever it processes. *)
Definition sstep_X (s : side) : side :=
  let upd ev pc peer d := sset_w ev pc peer d s in
  let same pc := upd (d_ev_w s) pc (d_peer s) (d_deliv_w s) in
  match d_xpc s with
  | X_Get => match d_ev_w s with
             | [] => s
             | m :: r => upd r (X_C2 m) (d_peer s) (d_deliv_w s)
             end
  | X_C2 m => same (X_C5 m)
  | X_C5 m => upd (d_ev_w s) (X_R1 m) (d_peer s) (d_deliv_w s ++ [m])
  | X_R1 m => same (X_R2 m)
  | X_R2 m => upd (d_ev_w s) (if m_pkt m then X_L1 m else X_Get) (d_peer s ++ [m]) (d_deliv_w s)
  | X_L1 m => same (X_L2 m)
  | X_L2 m => same X_Get
  end.

Definition after_side (d : dir) : bapc := match d with DIn => BA_L1 DOut | DOut => BA_Done end.

(** Bridge.__init__ *)
Definition bstep_A (cfg : bconfig) (s : bstate) : bstate :=
  let setdev d c rdy f := bupd d (fun x => sset_dev c rdy f (d_outq x) x) in
  let seto d l k q := bupd d (fun x => sset_o (d_ev_o x) (d_cpc x) l k q (d_deliv_o x) (d_lost x) x) in
  match b_apc s with
  | BA_F1 => bset_a BA_F2 (setdev DIn (d_conn (b_in s)) (d_wready (b_in s)) None s)
  | BA_F2 => bset_a (if legacy_ctor cfg then BA_W1 else BA_W1b)
                    (setdev DOut (d_conn (b_out s)) (d_wready (b_out s)) None s)
  | BA_W1b => bset_a BA_W1c s
  | BA_W1c => bset_a (if legacy_ctor cfg then BA_W2 else BA_W1)
                     (setdev DIn (d_conn (b_in s)) true (d_filt (b_in s)) s)
  | BA_W1 => bset_a (if legacy_ctor cfg then BA_W1b else BA_W2b)
                    (setdev DIn true (d_wready (b_in s)) (d_filt (b_in s)) s)
  | BA_W2b => bset_a BA_W2c s
  | BA_W2c => bset_a (if legacy_ctor cfg then BA_L1 DIn else BA_W2)
                     (setdev DOut (d_conn (b_out s)) true (d_filt (b_out s)) s)
  | BA_W2 => bset_a (if legacy_ctor cfg then BA_W2b else BA_L1 DIn)
                    (setdev DOut true (d_wready (b_out s)) (d_filt (b_out s)) s)
  | BA_L1 d => bset_a (BA_L2 d) s
  | BA_L2 d => bset_a (if d_locked (bside d s) then BU_1 d else after_side d) s
  | BU_1 d => if d_lk (bside d s) then s
              else bset_a (BU_2 d) (seto d (d_locked (bside d s)) true (d_lq (bside d s)) s)
  | BU_2 d => match d_lq (bside d s) with [] => bset_a (BU_6 d) s | _ :: _ => bset_a (BU_3 d) s end
  | BU_3 d => match d_lq (bside d s) with
              | m :: q => bset_a (BU_R1 d m) (seto d (d_locked (bside d s)) (d_lk (bside d s)) q s)
              | [] => s
              end
  | BU_R1 d m => bset_a (BU_R2 d m) s
  | BU_R2 d m => bset_a (BU_2 d)
                   (bupd d (fun x => sset_w (d_ev_w x) (d_xpc x) (d_peer x ++ [m]) (d_deliv_w x) x) s)
  | BU_6 d => bset_a (BU_5 d) (seto d false (d_lk (bside d s)) (d_lq (bside d s)) s)
  | BU_5 d => bset_a (after_side d) (seto d (d_locked (bside d s)) false (d_lq (bside d s)) s)
  | BA_Done => s
  end.

Definition semit (s : side) : side :=
  match d_spont s with
  | [] => s
  | c :: r => sset_wire (d_wire s ++ [c]) r s
  end.

Definition bdone (s : bstate) : bool := match b_apc s with BA_Done => true | _ => false end.

Inductive baction := BA | BR (d : dir) | BC (d : dir) | BX (d : dir) | BEmit (d : dir) | BNop.

Definition bact (cfg : bconfig) (a : baction) (s : bstate) : bstate :=
  match a with
  | BA => bstep_A cfg s
  | BR d => bupd d (sstep_R (legacy_filter cfg)) s
  | BC d => bupd d sstep_C s
  | BX d => bupd d sstep_X s
  | BEmit d => if quiet cfg && negb (bdone s) then s else bupd d semit s
  | BNop => s
  end.

Definition brun (cfg : bconfig) (l : list baction) (s : bstate) : bstate :=
  fold_left (fun s a => bact cfg a s) l s.

(** A side whose old connector holds [held] (when locked); [f0] is the message-queue filter an
    earlier send_command / send_message left on the device; [ev0] are events still in the old
    connector's queue; [sp] is what the device emits from then on. *)
Definition sinit (lockd : bool) (f0 : option N) (held ev0 : list msg) (sp : list chunk) : side :=
  {| d_wire := []; d_spont := sp; d_rpc := BR_Read; d_rbuf := []; d_conn := false; d_wready := false;
     d_filt := f0; d_outq := [];
     d_ev_o := ev0; d_cpc := CC_Get; d_locked := lockd; d_lk := false; d_lq := held;
     d_ev_w := []; d_xpc := X_Get; d_peer := [];
     d_deliv_o := []; d_lost := []; d_deliv_w := [] |}.

Definition binit2 (si so : side) : bstate := {| b_in := si; b_out := so; b_apc := BA_F1 |}.

(** One-direction scenario (the output side idle and unlocked). *)
Definition binit (held ev0 : list msg) (sp : list chunk) : bstate :=
  binit2 (sinit true None held ev0 sp) (sinit false None [] [] []).

Definition baction_of (n : N) : baction :=
  match n with
  | 0 => BA
  | 2 => BR DIn | 3 => BC DIn | 6 => BX DIn | 5 => BEmit DIn
  | 12 => BR DOut | 13 => BC DOut | 16 => BX DOut | 15 => BEmit DOut
  | _ => BNop
  end.

Record sobs := mkSO {
  so_peer : list msg; so_lost : list msg; so_lq : list msg; so_deliv_o : list msg;
  so_deliv_w : list msg; so_ev_o : list msg; so_ev_w : list msg; so_locked : bool; so_dead : bool;
  so_kept : list msg
}.

Definition sobs_of (s : side) : sobs :=
  {| so_peer := d_peer s; so_lost := d_lost s; so_lq := d_lq s; so_deliv_o := d_deliv_o s;
     so_deliv_w := d_deliv_w s; so_ev_o := d_ev_o s; so_ev_w := d_ev_w s; so_locked := d_locked s;
     so_dead := match d_rpc s with BR_Dead => true | _ => false end; so_kept := d_outq s |}.

Definition sobs_eqb (a b : sobs) : bool :=
  list_eqb msg_eqb (so_peer a) (so_peer b) && list_eqb msg_eqb (so_lost a) (so_lost b)
  && list_eqb msg_eqb (so_lq a) (so_lq b) && list_eqb msg_eqb (so_deliv_o a) (so_deliv_o b)
  && list_eqb msg_eqb (so_deliv_w a) (so_deliv_w b) && list_eqb msg_eqb (so_ev_o a) (so_ev_o b)
  && list_eqb msg_eqb (so_ev_w a) (so_ev_w b) && Bool.eqb (so_locked a) (so_locked b)
  && Bool.eqb (so_dead a) (so_dead b) && list_eqb msg_eqb (so_kept a) (so_kept b).

(** side description: (locked?, stale filter, held, pending events, spontaneous chunks) *)
Definition sdesc := (bool * option N * list msg * list msg * list chunk)%type.
Definition side_of (x : sdesc) : side := let '(l, f, h, e, sp) := x in sinit l f h e sp.

Definition bcase := (bool * sdesc * sdesc * list N * (sobs * sobs * bool))%type.

Definition brun_case (c : bcase) : sobs * sobs * bool :=
  let '(lc, di, do, sched, _) := c in
  let s := brun (mkBC lc false false) (map baction_of sched) (binit2 (side_of di) (side_of do)) in
  (sobs_of (b_in s), sobs_of (b_out s), bdone s).

Definition bcheck_case (c : bcase) : bool :=
  let '(_, _, _, _, (oi, oo, dn)) := c in
  let '(mi, mo, md) := brun_case c in
  sobs_eqb mi oi && sobs_eqb mo oo && Bool.eqb md dn.

(** Nothing is running any more on that side. *)
Definition squiet (s : side) : bool :=
  match d_rpc s, d_cpc s, d_xpc s, d_wire s, d_spont s, d_ev_o s, d_ev_w s with
  | BR_Read, CC_Get, X_Get, [], [], [], [] => true
  | _, _, _, _, _, _, _ => false
  end.

Definition bquiet (s : bstate) : bool := bdone s && squiet (b_in s) && squiet (b_out s).
