(** C05 — the connector's lock mode and synchronous mode are part of the interleaving model
    of C04/Model.v (application operations OLock / OUnlock / OSync / OWait, connector I/O
    thread steps CC_L1 .. CC_RelD, CC_S1 .. CC_SPut).  This file adds the model of
    Bridge.__init__ (whad/device/bridge.py).  Definitions only. *)
From Coq Require Import List NArith Bool.
From Whad Require Import C04.Model.
Import ListNotations.
Open Scope N_scope.
