(** C05 — invariants of the connector's lock mode and synchronous mode over the interleaving
    model of C04/Model.v, and of the bridge model of C05/Model.v. *)
From Coq Require Import List NArith Arith Bool Lia ZifyBool ZifyN ZifyNat.
From Whad Require Import C04.Model C04.Proofs C05.Model.
Import ListNotations.
Open Scope N_scope.

(** ---- lock / unlock ---------------------------------------------------------------------- *)

Definition pkts (l : list msg) : list msg := filter m_pkt l.

(** The packet the connector I/O thread holds between process_message and its dispatch /
    its insertion in the holding queue. *)
Definition hand_p (s : state) : list msg :=
  match c_pc s with
  | CC_L1 m | CC_L2 m | CC_A m | CC_T m | CC_Put m | CC_RelD m => [m]
  | _ => []
  end.

Definition a_holds (p : apc) : bool :=
  match p with A_U2 | A_U3 | A_U5 | A_U6 => true | _ => false end.
Definition c_holds (p : cpc) : bool :=
  match p with CC_T _ | CC_Put _ | CC_Rel | CC_RelD _ => true | _ => false end.

(** lock() is not called on a connector that is already locked (it would discard what is
    held, by design). *)
Fixpoint lock_wf (b : bool) (script : list op) : Prop :=
  match script with
  | [] => True
  | OLock :: r => b = false /\ lock_wf true r
  | OUnlock :: r => lock_wf false r
  | _ :: r => lock_wf b r
  end.

Definition is_lock_op (o : op) : bool := match o with OLock | OUnlock => true | _ => false end.

(** What the application thread's position says about the lock flag and the script. *)
Definition Ulock (s : state) : Prop :=
  match a_pc s with
  | A_L1 | A_L2 => hd_error (a_script s) = Some OLock /\ locked s = false /\ lock_wf true (tl (a_script s))
  | A_U1 | A_U2 | A_U3 => hd_error (a_script s) = Some OUnlock /\ lock_wf false (tl (a_script s))
  | A_U6 => hd_error (a_script s) = Some OUnlock /\ lock_wf false (tl (a_script s)) /\ locked_q s = []
  | A_U5 => hd_error (a_script s) = Some OUnlock /\ lock_wf false (tl (a_script s)) /\ locked_q s = [] /\ locked s = false
  | A_Done => True
  | _ => lock_wf (locked s) (a_script s)
         /\ match a_script s with o :: _ => is_lock_op o = false | [] => True end
  end.

Record Inv_U (s : state) : Prop := mkInvU {
  u_eq : dispatched s ++ locked_q s ++ hand_p s = pkts (delivered s);
  u_empty : locked s = false -> locked_q s = [];
  u_put : forall m, c_pc s = CC_Put m -> locked s = true;
  u_reld : forall m, c_pc s = CC_RelD m -> locked_q s = [];
  u_lk : lk s = a_holds (a_pc s) || c_holds (c_pc s);
  u_excl : a_holds (a_pc s) && c_holds (c_pc s) = false;
  u_lock : Ulock s
}.

Lemma Inv_U_ext : forall s s',
  dispatched s' = dispatched s -> locked_q s' = locked_q s -> c_pc s' = c_pc s ->
  delivered s' = delivered s -> locked s' = locked s -> lk s' = lk s -> a_pc s' = a_pc s ->
  a_script s' = a_script s -> Inv_U s -> Inv_U s'.
Proof.
  intros s s' E1 E2 E3 E4 E5 E6 E7 E8 [].
  constructor; unfold hand_p, Ulock in *; rewrite ?E1, ?E2, ?E3, ?E4, ?E5, ?E6, ?E7, ?E8; auto.
Qed.

Lemma pstep_frame_U : forall cfg p m s,
  let s' := fst (pstep cfg p m s) in
  dispatched s' = dispatched s /\ locked_q s' = locked_q s /\ c_pc s' = c_pc s /\
  delivered s' = delivered s /\ locked s' = locked s /\ lk s' = lk s /\ a_pc s' = a_pc s /\
  a_script s' = a_script s /\ sync_mode s' = sync_mode s /\ sync_q s' = sync_q s
  /\ retrieved s' = retrieved s /\ emitted s' = emitted s /\ filt s' = filt s.
Proof. intros cfg [] m s; cbn; repeat split; auto. Qed.

Lemma Inv_U_step_W : forall cfg s, Inv_U s -> Inv_U (step_W cfg s).
Proof.
  intros cfg s H. unfold step_W. split_match; auto; apply (Inv_U_ext s); auto.
Qed.

Lemma Inv_U_step_R : forall cfg s, Inv_U s -> Inv_U (step_R cfg s).
Proof.
  intros cfg s H. unfold step_R. destruct (r_pc s) as [|p m|]; auto.
  - destruct (wire s); auto. apply (Inv_U_ext s); auto.
  - destruct (pstep_frame_U cfg p m s) as (E1 & E2 & E3 & E4 & E5 & E6 & E7 & E8 & _).
    destruct (snd (pstep cfg p m s)); apply (Inv_U_ext s); auto.
Qed.

Lemma Inv_U_tick : forall s, Inv_U s -> Inv_U (tick s).
Proof. intros s H. apply (Inv_U_ext s); auto. Qed.

Lemma Inv_U_emit : forall s, Inv_U s -> Inv_U (emit s).
Proof. intros s H. unfold emit. destruct (spont s); auto. apply (Inv_U_ext s); auto. Qed.

Lemma pkts_app : forall a b, pkts (a ++ b) = pkts a ++ pkts b.
Proof. intros. apply filter_app. Qed.

Ltac nodisc := try (intros; discriminate); auto.
Ltac uem := first [assumption | (intro; congruence) | auto].

Lemma Inv_U_step_C : forall cfg s, legacy_unlock cfg = false -> Inv_U s -> Inv_U (step_C cfg s).
Proof.
  intros cfg s Hl H. unfold step_C. destruct (has_conn cfg); cbn [negb]; auto.
  pose proof H as H0.
  destruct H as [Heq Hem Hput Hreld Hlk Hex Hul].
  assert (Hul' : forall s', a_pc s' = a_pc s -> a_script s' = a_script s -> locked s' = locked s ->
                   locked_q s' = locked_q s -> Ulock s').
  { intros s' E1 E2 E3 E4. unfold Ulock in *. rewrite E1, E2, E3, E4. exact Hul. }
  unfold pkts in *.
  destruct (c_pc s) eqn:Ec; unfold hand_p in Heq; rewrite Ec in Heq; cbn [c_holds] in *.
  - (* Get *)
    destruct (events s); [exact H0|].
    constructor; unfold hand_p; cbn; [exact Heq|uem|nodisc|nodisc|exact Hlk|exact Hex|apply Hul'; first [reflexivity|assumption]].
  - (* C2 *)
    destruct (sync_mode s =? 2);
      (constructor; unfold hand_p; cbn; [exact Heq|uem|nodisc|nodisc|exact Hlk|exact Hex|apply Hul'; first [reflexivity|assumption]]).
  - (* C5 *)
    destruct (sync_mode s =? 1);
      [constructor; unfold hand_p; cbn; [exact Heq|uem|nodisc|nodisc|exact Hlk|exact Hex|apply Hul'; first [reflexivity|assumption]]|].
    destruct (m_pkt m) eqn:Ep;
      (constructor; unfold hand_p; cbn; [|uem|nodisc|nodisc|exact Hlk|exact Hex|apply Hul'; first [reflexivity|assumption]]);
      rewrite filter_app; cbn; rewrite Ep; rewrite <- Heq; rewrite ?app_nil_r, <- ?app_assoc; reflexivity.
  - (* S1 *)
    destruct (sync_mode s =? 2);
      (constructor; unfold hand_p; cbn; [exact Heq|uem|nodisc|nodisc|exact Hlk|exact Hex|apply Hul'; first [reflexivity|assumption]]).
  - (* S2 *)
    destruct (1 <=? sync_mode s);
      (constructor; unfold hand_p; cbn; [exact Heq|uem|nodisc|nodisc|exact Hlk|exact Hex|apply Hul'; first [reflexivity|assumption]]).
  - (* SPut *)
    constructor; unfold hand_p; cbn; [exact Heq|uem|nodisc|nodisc|exact Hlk|exact Hex|apply Hul'; first [reflexivity|assumption]].
  - (* L1 *)
    constructor; unfold hand_p; cbn; [exact Heq|uem|nodisc|nodisc|exact Hlk|exact Hex|apply Hul'; first [reflexivity|assumption]].
  - (* L2 *)
    destruct (locked s) eqn:El.
    + constructor; unfold hand_p; cbn; [exact Heq|uem|nodisc|nodisc|exact Hlk|exact Hex|apply Hul'; first [reflexivity|assumption]].
    + constructor; unfold hand_p; cbn; [|uem|nodisc|nodisc|exact Hlk|exact Hex|apply Hul'; first [reflexivity|assumption]].
      rewrite (Hem eq_refl) in *. rewrite <- Heq. rewrite app_nil_r. reflexivity.
  - (* A *)
    destruct (lk s) eqn:Elk; [exact H0|].
    rewrite Hl. rewrite orb_false_r in Hlk.
    constructor; unfold hand_p; cbn; [exact Heq|uem|nodisc|nodisc| | |apply Hul'; first [reflexivity|assumption]].
    + rewrite <- Hlk. reflexivity.
    + rewrite <- Hlk. reflexivity.
  - (* T *)
    destruct (locked s) eqn:El;
      (constructor; unfold hand_p; cbn; [exact Heq|uem| | |exact Hlk|exact Hex|apply Hul'; first [reflexivity|assumption]]); nodisc.
  - (* Put *)
    pose proof (Hput m eq_refl) as El. rewrite andb_true_r in Hex.
    constructor; unfold hand_p; cbn; [|intro E; congruence|nodisc|nodisc|exact Hlk|rewrite andb_true_r; exact Hex|].
    + rewrite <- Heq. rewrite <- !app_assoc. reflexivity.
    + unfold Ulock in *. cbn. destruct (a_pc s); cbn in Hex; try discriminate; auto;
        try (destruct Hul as (? & ? & ?); congruence).
  - (* Rel *)
    rewrite andb_true_r in Hex. rewrite Hex in *.
    constructor; unfold hand_p; cbn; [exact Heq|uem|nodisc|nodisc|rewrite Hex; reflexivity|rewrite andb_false_r; reflexivity|apply Hul'; first [reflexivity|assumption]].
  - (* RelD *)
    rewrite andb_true_r in Hex. rewrite Hex in *.
    constructor; unfold hand_p; cbn; [|uem|nodisc|nodisc|rewrite Hex; reflexivity|rewrite andb_false_r; reflexivity|apply Hul'; first [reflexivity|assumption]].
    rewrite (Hreld m eq_refl) in *. rewrite <- Heq. rewrite app_nil_r. reflexivity.
Qed.

Definition other_pc (p : apc) : bool :=
  match p with
  | A_L1 | A_L2 | A_U1 | A_U2 | A_U3 | A_U5 | A_U6 | A_Done => false
  | _ => true
  end.

Lemma other_not_holds : forall p, other_pc p = true -> a_holds p = false.
Proof. destruct p; cbn; auto; discriminate. Qed.

Lemma Ulock_other : forall s, other_pc (a_pc s) = true ->
  Ulock s <-> (lock_wf (locked s) (a_script s)
               /\ match a_script s with o :: _ => is_lock_op o = false | [] => True end).
Proof. intros s H. unfold Ulock. destruct (a_pc s); cbn in H; try discriminate; tauto. Qed.

Lemma a_begin_holds : forall cfg sc, a_holds (a_begin cfg sc) = false.
Proof.
  intros cfg [|[] ?]; cbn; auto; repeat match goal with |- context [if ?b then _ else _] => destruct b end; auto.
Qed.

(** The application thread reaches the first yield point of its next operation. *)
Lemma Ulock_finish : forall cfg s1,
  lock_wf (locked s1) (tl (a_script s1)) -> Ulock (a_finish cfg s1).
Proof.
  intros cfg s1 H. unfold Ulock, a_finish. cbn.
  destruct (tl (a_script s1)) as [|o r]; cbn; auto.
  destruct o; cbn in *; auto;
    repeat match goal with |- context [if ?b then _ else _] => destruct b end; cbn; auto;
    try (destruct H; auto).
Qed.

Lemma lock_wf_tl : forall b sc,
  lock_wf b sc -> match sc with o :: _ => is_lock_op o = false | [] => True end -> lock_wf b (tl sc).
Proof. intros b [|[] r]; cbn; auto; intros; try discriminate. Qed.

(** A step of the application thread outside lock()/unlock() that does not complete its operation. *)
Lemma Inv_U_other : forall s s',
  dispatched s' = dispatched s -> locked_q s' = locked_q s -> c_pc s' = c_pc s ->
  delivered s' = delivered s -> locked s' = locked s -> lk s' = lk s -> a_script s' = a_script s ->
  other_pc (a_pc s) = true -> other_pc (a_pc s') = true -> Inv_U s -> Inv_U s'.
Proof.
  intros s s' E1 E2 E3 E4 E5 E6 E8 O1 O2 [].
  constructor; unfold hand_p in *; rewrite ?E1, ?E2, ?E3, ?E4, ?E5, ?E6; auto.
  - rewrite (other_not_holds _ O2). rewrite (other_not_holds _ O1) in u_lk0. exact u_lk0.
  - rewrite (other_not_holds _ O2). reflexivity.
  - apply Ulock_other; auto. rewrite E5, E8. apply Ulock_other; auto.
Qed.

(** ... and one that completes it. *)
Lemma Inv_U_other_finish : forall cfg s s1,
  dispatched s1 = dispatched s -> locked_q s1 = locked_q s -> c_pc s1 = c_pc s ->
  delivered s1 = delivered s -> locked s1 = locked s -> lk s1 = lk s -> a_script s1 = a_script s ->
  other_pc (a_pc s) = true -> Inv_U s -> Inv_U (a_finish cfg s1).
Proof.
  intros cfg s s1 E1 E2 E3 E4 E5 E6 E8 O1 [].
  constructor; unfold hand_p, a_finish in *; cbn; rewrite ?E1, ?E2, ?E3, ?E4, ?E5, ?E6; auto.
  - rewrite a_begin_holds. rewrite (other_not_holds _ O1) in u_lk0. exact u_lk0.
  - rewrite a_begin_holds. reflexivity.
  - apply (Ulock_finish cfg s1). rewrite E5, E8. apply Ulock_other in u_lock0; auto.
    destruct u_lock0. apply lock_wf_tl; auto.
Qed.

Ltac u_other s Epc H :=
  apply (Inv_U_other s); [reflexivity .. | rewrite Epc; reflexivity | reflexivity | exact H].
Ltac u_fin cfg s Epc H :=
  match goal with |- Inv_U (a_finish _ ?s1) =>
    apply (Inv_U_other_finish cfg s s1); [reflexivity .. | rewrite Epc; reflexivity | exact H] end.

Lemma Inv_U_step_A : forall cfg s,
  legacy_unlock cfg = false -> legacy_lock cfg = false -> Inv_U s -> Inv_U (step_A cfg s).
Proof.
  intros cfg s Hlu Hll H. unfold step_A, ret, note_head, v_next.
  destruct (a_pc s) eqn:Epc; auto.
  - (* S0 *) u_other s Epc H.
  - (* S1 *) u_other s Epc H.
  - (* S2 *) u_other s Epc H.
  - (* W0 *) u_other s Epc H.
  - (* W1 *) u_other s Epc H.
  - (* W2 *) split_match; auto; u_other s Epc H.
  - (* W3 *) split_match; first [u_other s Epc H | u_fin cfg s Epc H].
  - (* W4 *)
    destruct (pstep_frame_U cfg p m s) as (E1 & E2 & E3 & E4 & E5 & E6 & E7 & E8 & _).
    destruct (snd (pstep cfg p m s)); [| |u_other s Epc H];
      (apply (Inv_U_other s); cbn; auto; try (rewrite Epc; reflexivity));
      destruct (legacy_wait cfg); reflexivity.
  - (* W5 *) split_match; first [u_other s Epc H | u_fin cfg s Epc H].
  - (* V0 *) u_other s Epc H.
  - (* V1 *) split_match; u_other s Epc H.
  - (* VP *)
    destruct (pstep_frame_U cfg p m s) as (E1 & E2 & E3 & E4 & E5 & E6 & E7 & E8 & _).
    destruct (snd (pstep cfg p m s)); [| |u_other s Epc H]; split_match;
      (apply (Inv_U_other s); cbn; auto; try (rewrite Epc; reflexivity)).
  - (* V3 *) u_other s Epc H.
  - (* L1: the holding queue is cleared, then the flag is set *)
    rewrite Hll. destruct H as [Heq Hem Hput Hreld Hlk Hex Hul].
    unfold Ulock in Hul. rewrite Epc in Hul. destruct Hul as (Hh & Hf & Hw).
    pose proof (Hem Hf) as Eq. rewrite Epc in *.
    constructor; unfold hand_p, Ulock in *; cbn; rewrite ?Epc;
      [rewrite Eq in Heq; exact Heq | auto | exact Hput | auto | exact Hlk | exact Hex | auto].
  - (* L2 *)
    rewrite Hll. destruct H as [Heq Hem Hput Hreld Hlk Hex Hul].
    unfold Ulock in Hul. rewrite Epc in Hul. destruct Hul as (Hh & Hf & Hw). rewrite Epc in *.
    constructor; unfold hand_p, a_finish in *; cbn;
      [exact Heq | intro; discriminate | auto | exact Hreld
      | rewrite a_begin_holds; exact Hlk | rewrite a_begin_holds; reflexivity
      | apply (Ulock_finish cfg (set_locked true s)); exact Hw].
  - (* U1 *)
    destruct (lk s) eqn:Elk; auto. destruct H as [Heq Hem Hput Hreld Hlk Hex Hul].
    unfold Ulock in Hul. rewrite Epc in *. cbn in Hlk. symmetry in Hlk.
    constructor; unfold hand_p, Ulock in *; cbn; rewrite ?Epc;
      [exact Heq | exact Hem | exact Hput | exact Hreld | reflexivity | rewrite Hlk; exact Elk | exact Hul].
  - (* U2 *)
    rewrite Hlu. destruct H as [Heq Hem Hput Hreld Hlk Hex Hul]. rewrite Epc in *.
    unfold Ulock in Hul. rewrite Epc in Hul. destruct Hul as (Hh & Hw).
    destruct (locked_q s) eqn:Eq;
      (constructor; unfold hand_p, Ulock in *; cbn; rewrite ?Epc, ?Eq;
       [exact Heq | auto | exact Hput | auto | exact Hlk | exact Hex | auto]).
  - (* U3 *)
    destruct H as [Heq Hem Hput Hreld Hlk Hex Hul].
    destruct (locked_q s) as [|m q] eqn:Eq; [constructor; rewrite ?Eq; auto|].
    rewrite Epc in *. cbn in Hex. unfold pkts in *.
    unfold Ulock in Hul. rewrite Epc in Hul. destruct Hul as (Hh & Hw).
    constructor; unfold hand_p, Ulock in *; cbn; rewrite ?Epc;
      [ rewrite <- Heq; rewrite <- !app_assoc; reflexivity
      | intro El; specialize (Hem El); discriminate
      | exact Hput
      | intros m0 E; rewrite E in Hex; discriminate
      | exact Hlk | exact Hex | auto].
  - (* U5: release *)
    rewrite Hlu. destruct H as [Heq Hem Hput Hreld Hlk Hex Hul].
    unfold Ulock in Hul. rewrite Epc in *. cbn in Hex, Hlk. destruct Hul as (Hh & Hw & Eq & Hf).
    constructor; unfold hand_p, a_finish in *; cbn;
      [exact Heq | exact Hem | exact Hput | exact Hreld
      | rewrite a_begin_holds, Hex; reflexivity | rewrite a_begin_holds; reflexivity
      | apply (Ulock_finish cfg (set_lk false s)); cbn; rewrite Hf; exact Hw].
  - (* U6: the flag is cleared under the lock *)
    rewrite Hlu. destruct H as [Heq Hem Hput Hreld Hlk Hex Hul].
    unfold Ulock in Hul. rewrite Epc in *. cbn in Hex, Hlk. destruct Hul as (Hh & Hw & Eq).
    constructor; unfold hand_p, Ulock in *; cbn; rewrite ?Epc;
      [exact Heq | auto | intros m0 E; rewrite E in Hex; discriminate | exact Hreld
      | exact Hlk | exact Hex | auto].
  - (* E1 *) split_match; u_other s Epc H.
  - (* E2 *) split_match; first [u_other s Epc H | u_fin cfg s Epc H].
  - (* E3 *) split_match; first [u_other s Epc H | u_fin cfg s Epc H].
  - (* K1 *) split_match; first [u_other s Epc H | u_fin cfg s Epc H].
  - (* K2 *) split_match; auto; first [u_other s Epc H | u_fin cfg s Epc H].
Qed.

Lemma Inv_U_act : forall cfg, legacy_unlock cfg = false -> legacy_lock cfg = false ->
  forall a s, Inv_U s -> Inv_U (act cfg a s).
Proof.
  intros cfg H1 H2 [[]| |] s H; cbn [act step].
  - apply Inv_U_step_A; auto.
  - apply Inv_U_step_W; auto.
  - apply Inv_U_step_R; auto.
  - apply Inv_U_step_C; auto.
  - apply Inv_U_tick; auto.
  - apply Inv_U_emit; auto.
Qed.

Lemma Inv_U_init : forall cfg script sp l0, lock_wf l0 script -> Inv_U (init cfg script sp l0).
Proof.
  intros cfg script sp l0 Hw.
  assert (Hu : Ulock (init cfg script sp l0)).
  { change (init cfg script sp l0) with
      (a_finish cfg (set_a_script (OWait None :: script) (init cfg script sp l0))).
    apply Ulock_finish. exact Hw. }
  constructor; unfold hand_p, init in *; cbn; auto; try (intros; discriminate).
  - rewrite a_begin_holds. reflexivity.
  - rewrite a_begin_holds. reflexivity.
Qed.

(** unlock_exactly_once_in_order (repaired lock()/unlock()/add_locked_pdu()): at every
    reachable state, under every schedule, the packets dispatched so far (by the I/O thread
    directly or by unlock()), followed by the packets held, followed by the packet in the
    I/O thread's hands, are exactly the packets that reached process_message, in arrival
    order; and the holding queue of an unlocked connector is empty (nothing stranded). *)
Lemma unlock_exactly_once_in_order :
  forall cfg script sp l0 sched,
    legacy_unlock cfg = false -> legacy_lock cfg = false -> lock_wf l0 script ->
    let s := run cfg sched (init cfg script sp l0) in
    dispatched s ++ locked_q s ++ hand_p s = pkts (delivered s)
    /\ (locked s = false -> locked_q s = []).
Proof.
  intros cfg script sp l0 sched H1 H2 Hw s.
  assert (H : Inv_U s).
  { apply run_invariant; [apply Inv_U_act; auto | apply Inv_U_init; auto]. }
  destruct H; auto.
Qed.

Lemma unlock_at_quiescence :
  forall cfg script sp l0 sched,
    legacy_unlock cfg = false -> legacy_lock cfg = false -> lock_wf l0 script ->
    let s := run cfg sched (init cfg script sp l0) in
    locked s = false -> hand_p s = [] -> dispatched s = pkts (delivered s).
Proof.
  intros cfg script sp l0 sched H1 H2 Hw s Hl Hh.
  destruct (unlock_exactly_once_in_order cfg script sp l0 sched H1 H2 Hw) as (E & Q).
  fold s in E, Q. rewrite (Q Hl), Hh in E. rewrite !app_nil_r in E. exact E.
Qed.

(** The code as found: process_message tests is_locked() and then enqueues, unlock()
    drains under the lock and clears the flag after releasing it.  Appendix A schedule
    C7(true) . U1 . U2 . U5 . U6 . C8 . C9 . C10: the packet sits in the holding queue of an
    unlocked connector; every thread is idle; nothing will ever drain it. *)
Definition lu_cfg : config := mkConfig true false 3 false true false false.
Definition lu_script : list op := [OUnlock].
Definition lu_spont : list chunk := [[Some (mkMsg 0 1 true)]].
Definition lu_sched : list action :=
  [Emit; Step TR; Step TR; Step TR; Step TR; Step TR; Step TR;        (* the packet reaches the events queue *)
   Step TC; Step TC; Step TC; Step TC; Step TC;                       (* ... process_message, is_locked() -> True *)
   Step TA; Step TA; Step TA; Step TA;                                (* unlock() runs to completion *)
   Step TC; Step TC; Step TC].                                        (* add_locked_pdu *)

Lemma unlock_legacy_refuted :
  exists (cfg : config) (script : list op) (sp : list chunk) (sched : list action),
    legacy_unlock cfg = true /\ lock_wf true script /\
    let s := run cfg sched (init cfg script sp true) in
    locked s = false /\ locked_q s = [mkMsg 0 1 true] /\ dispatched s = []
    /\ a_pc s = A_Done /\ c_pc s = CC_Get /\ events s = [] /\ r_pc s = RD_Read /\ wire s = [].
Proof.
  exists lu_cfg, lu_script, lu_spont, lu_sched. split; [reflexivity|]. split; [exact I|].
  vm_compute. repeat split; reflexivity.
Qed.

(** lock() as found (flag set, then the holding queue cleared): a packet saved in between is
    discarded. *)
Definition ll_cfg : config := mkConfig true false 3 false false true false.
Definition ll_sched : list action :=
  [Emit; Step TR; Step TR; Step TR; Step TR; Step TR; Step TR;
   Step TC; Step TC; Step TC;                                         (* get, sync tests, process_message *)
   Step TA;                                                           (* lock(): flag := True *)
   Step TC; Step TC; Step TC; Step TC; Step TC; Step TC;              (* is_locked() -> True; held *)
   Step TA;                                                           (* lock(): queue cleared *)
   Step TA; Step TA; Step TA; Step TA; Step TA].                      (* unlock() *)

Lemma lock_legacy_refuted :
  exists (cfg : config) (script : list op) (sp : list chunk) (sched : list action),
    legacy_lock cfg = true /\ legacy_unlock cfg = false /\ lock_wf false script /\
    let s := run cfg sched (init cfg script sp false) in
    delivered s = [mkMsg 0 1 true] /\ dispatched s = [] /\ locked_q s = [] /\ hand_p s = []
    /\ a_pc s = A_Done.
Proof.
  exists ll_cfg, [OLock; OUnlock], lu_spont, ll_sched. split; [reflexivity|]. split; [reflexivity|].
  split; [cbn; auto|]. vm_compute. repeat split; reflexivity.
Qed.

(** ---- synchronous mode ------------------------------------------------------------------------ *)

Definition gotten (l : list (option msg)) : list msg :=
  flat_map (fun o => match o with Some m => [m] | None => [] end) l.

Lemma gotten_app : forall a b, gotten (a ++ b) = gotten a ++ gotten b.
Proof. intros. unfold gotten. apply flat_map_app. Qed.

(** Everything the device emitted, oldest first: processed normally, retrieved with
    wait_packet, waiting in the synchronous queue, in the I/O thread's hands, in the events
    queue, in the reader's hands / buffer, on the wire. *)
Definition pipeS (s : state) : list msg :=
  delivered s ++ gotten (retrieved s) ++ sync_q s ++ hand_c s ++ events s
  ++ hand_r s ++ msgs_of (r_buf s) ++ msgs_of (concat (wire s)).

Definition is_wait (o : op) : Prop := match o with OWait _ => True | _ => False end.
Definition pkt_chunk (c : chunk) : Prop := Forall (fun m => m_pkt m = true) (msgs_of c).

Definition sp_ok (p : ppc) : bool :=
  match p with P1 | P5 | P8l | P8a | P8b => true | _ => false end.

Definition k_pc (p : apc) : bool :=
  match p with A_K1 | A_K2 _ | A_Done => true | _ => false end.

Record Inv_S (s : state) : Prop := mkInvS {
  s_eq : pipeS s = emitted s;
  s_pk : Forall (fun m => m_pkt m = true) (emitted s);
  s_sp : Forall pkt_chunk (spont s);
  s_filt : filt s = None;
  s_inq : in_q s = [] /\ exists dl, w_pc s = WR_Get dl;
  s_mode : sync_mode s = 0 \/ sync_mode s = 1;
  s_ph0 : sync_mode s = 0 ->
          sync_q s = [] /\ retrieved s = [] /\ c_nosync (c_pc s) = true
          /\ (a_pc s = A_E3 \/ a_pc s = A_E2)
          /\ exists ws, a_script s = OSync 1 :: ws /\ Forall is_wait ws;
  s_ph1 : sync_mode s = 1 -> k_pc (a_pc s) = true /\ Forall is_wait (a_script s);
  s_rp : forall p m, r_pc s = RD_P p m -> sp_ok p = true;
  s_rbuf : r_pc s = RD_Read -> r_buf s = []
}.

Lemma Inv_S_step_W : forall cfg s, Inv_S s -> Inv_S (step_W cfg s).
Proof.
  intros cfg s H. unfold step_W. destruct (virt cfg); auto.
  destruct H as [Heq Hpk Hsp Hf (Hi & dl & Hw) Hm H0 H1 Hrp Hrb]. rewrite Hw, Hi.
  destruct dl as [d|]; [destruct (d <=? clock s)|];
    (constructor; cbn; auto; split; auto; eexists; try reflexivity; eauto).
Qed.

Lemma Inv_S_tick : forall s, Inv_S s -> Inv_S (tick s).
Proof. intros s []. constructor; cbn; auto. Qed.

Lemma Inv_S_emit : forall s, Inv_S s -> Inv_S (emit s).
Proof.
  intros s H. unfold emit. destruct (spont s) as [|c r] eqn:Es; auto.
  destruct H as [Heq Hpk Hsp Hf Hi Hm H0 H1 Hrp Hrb]. rewrite Es in Hsp.
  inversion Hsp as [|? ? Hc Hr]; subst.
  constructor; cbn; auto.
  - unfold pipeS, hand_c, hand_r in *. cbn. rewrite concat_app, msgs_of_app. cbn. rewrite app_nil_r.
    rewrite <- Heq. rewrite <- !app_assoc. reflexivity.
  - apply Forall_app; split; auto.
Qed.

Lemma Inv_S_step_R : forall cfg s, has_conn cfg = true -> Inv_S s -> Inv_S (step_R cfg s).
Proof.
  intros cfg s Hc H. unfold step_R. destruct (r_pc s) as [|p m|] eqn:Er; auto.
  - destruct (wire s) as [|c w] eqn:Ew; auto.
    destruct H as [Heq Hpk Hsp Hf Hi Hm H0 H1 Hrp Hrb].
    pose proof (Hrb Er) as Eb. pose proof (r_next_spec c) as Hn.
    constructor; cbn; auto.
    + unfold pipeS, hand_c, hand_r in *. cbn. rewrite Er, Eb, Ew in Heq. cbn in Heq.
      rewrite msgs_of_app in Heq. rewrite <- Heq.
      destruct (fst (r_next c)); try contradiction; destruct Hn as (E1 & E2); rewrite ?E1, ?E2; cbn;
        rewrite <- ?app_assoc; reflexivity.
    + intros p m E. destruct (fst (r_next c)); try discriminate; try contradiction.
      destruct Hn as (E1 & _). inversion E; subst. reflexivity.
    + intro E. destruct (fst (r_next c)); try discriminate; try contradiction. destruct Hn; auto.
  - destruct H as [Heq Hpk Hsp Hf Hi Hm H0 H1 Hrp Hrb].
    pose proof (Hrp _ _ Er) as Hok.
    pose proof (r_next_spec (r_buf s)) as Hn.
    destruct p; cbn in Hok; try discriminate; cbn [pstep fst snd]; rewrite ?Hc, ?Hf.
    + (* P1 *) constructor; cbn; auto; try (intros; discriminate).
      * unfold pipeS, hand_c, hand_r in *; cbn; rewrite Er in Heq; exact Heq.
      * intros p m0 E; inversion E; reflexivity.
    + (* P5 *) constructor; cbn; auto; try (intros; discriminate).
      * unfold pipeS, hand_c, hand_r in *; cbn; rewrite Er in Heq; exact Heq.
      * intros p m0 E; inversion E; reflexivity.
    + (* P8l *) constructor; cbn; auto; try (intros; discriminate).
      * unfold pipeS, hand_c, hand_r in *; cbn; rewrite Er in Heq; exact Heq.
      * intros p m0 E; inversion E; reflexivity.
    + (* P8a *) constructor; cbn; auto; try (intros; discriminate).
      * unfold pipeS, hand_c, hand_r in *; cbn; rewrite Er in Heq; exact Heq.
      * intros p m0 E; inversion E; reflexivity.
    + (* P8b *) constructor; cbn; auto.
      * unfold pipeS, hand_c, hand_r in *. cbn. rewrite Er in Heq. rewrite <- Heq.
        destruct (fst (r_next (r_buf s))); try contradiction; destruct Hn as (E1 & E2); rewrite ?E1, ?E2; cbn;
          rewrite <- ?app_assoc; reflexivity.
      * intros p m0 E. destruct (fst (r_next (r_buf s))); try discriminate; try contradiction.
        destruct Hn as (E1 & _). inversion E; subst. reflexivity.
      * intro E. destruct (fst (r_next (r_buf s))); try discriminate; try contradiction. destruct Hn; auto.
Qed.

Ltac s_eq Heq :=
  unfold pipeS, hand_c, hand_r in *; cbn;
  repeat match goal with E : c_pc _ = _ |- _ => rewrite E in Heq end;
  repeat match goal with E : events _ = _ |- _ => rewrite E in Heq end;
  cbn in Heq; first [exact Heq | rewrite <- Heq; rewrite <- ?app_assoc; reflexivity].

Ltac s_ph0 H0 :=
  let E0 := fresh "E0" in
  intro E0; first [ destruct (H0 E0) as (? & ? & ? & ? & ?); repeat split; auto; fail
                  | match goal with E : sync_mode _ = 1 |- _ => rewrite E in E0; discriminate end ].

Ltac s_case Heq H0 := constructor; cbn; auto; try (s_eq Heq); try (s_ph0 H0).

Lemma Inv_S_step_C : forall cfg s, Inv_S s -> Inv_S (step_C cfg s).
Proof.
  intros cfg s H. unfold step_C. destruct (has_conn cfg); cbn [negb]; auto.
  pose proof H as HH.
  destruct H as [Heq Hpk Hsp Hf Hi Hm H0 H1 Hrp Hrb].
  destruct (c_pc s) eqn:Ec.
  - (* Get *)
    destruct (events s) as [|m r] eqn:Ee; auto. s_case Heq H0.
  - (* C2 *)
    assert (E2 : (sync_mode s =? 2) = false) by (destruct Hm as [E|E]; rewrite E; reflexivity).
    rewrite E2. s_case Heq H0.
  - (* C5 *)
    destruct Hm as [E|E]; rewrite E; cbn [N.eqb Pos.eqb].
    + destruct (H0 E) as (Eq & Er & Hn & Ha & Hs).
      assert (Hp : delivered s ++ [m] ++ events s ++ hand_r s ++ msgs_of (r_buf s) ++ msgs_of (concat (wire s)) = emitted s).
      { unfold pipeS, hand_c in Heq. rewrite Ec, Eq, Er in Heq. cbn in Heq. exact Heq. }
      destruct (m_pkt m); constructor; cbn; auto;
        try (unfold pipeS, hand_c; cbn; rewrite Eq, Er; cbn; rewrite <- Hp; rewrite <- ?app_assoc; reflexivity);
        intro E'; repeat split; auto.
    + s_case Heq H0.
  - (* S1 *)
    assert (E2 : (sync_mode s =? 2) = false) by (destruct Hm as [E|E]; rewrite E; reflexivity).
    rewrite E2. destruct Hm as [E|E]; [destruct (H0 E) as (? & ? & Hn & _); cbn in Hn; discriminate|].
    s_case Heq H0.
  - (* S2 *)
    destruct Hm as [E|E]; [destruct (H0 E) as (? & ? & Hn & _); cbn in Hn; discriminate|].
    rewrite E. cbn [N.leb N.compare Pos.compare Pos.compare_cont]. s_case Heq H0.
  - (* SPut *)
    destruct Hm as [E|E]; [destruct (H0 E) as (? & ? & Hn & _); cbn in Hn; discriminate|].
    s_case Heq H0.
  - (* L1 *) s_case Heq H0.
  - (* L2 *) destruct (locked s); s_case Heq H0.
  - (* A *) destruct (lk s); auto. destruct (legacy_unlock cfg); s_case Heq H0.
  - (* T *) destruct (locked s); s_case Heq H0.
  - (* Put *) s_case Heq H0.
  - (* Rel *) s_case Heq H0.
  - (* RelD *) s_case Heq H0.
Qed.

Lemma a_begin_waits : forall cfg ws, Forall is_wait ws -> k_pc (a_begin cfg ws) = true.
Proof. intros cfg [|[] r] H; cbn; auto; inversion H; subst; contradiction. Qed.

Lemma pipeS_In_sync : forall s m, In m (sync_q s) -> In m (pipeS s).
Proof. intros s m H. unfold pipeS. apply in_or_app; right. apply in_or_app; right. apply in_or_app; left; auto. Qed.

Lemma Inv_S_step_A : forall cfg s, legacy_sync cfg = false -> Inv_S s -> Inv_S (step_A cfg s).
Proof.
  intros cfg s Hls H. unfold step_A.
  pose proof H as HH.
  destruct H as [Heq Hpk Hsp Hf Hi Hm H0 H1 Hrp Hrb].
  assert (Hpc : a_pc s = A_E3 \/ a_pc s = A_E2 \/ k_pc (a_pc s) = true).
  { destruct Hm as [E|E]; [destruct (H0 E) as (_ & _ & _ & [?|?] & _); auto | destruct (H1 E); auto]. }
  destruct (a_pc s) eqn:Epc; auto;
    try (exfalso; destruct Hpc as [X|[X|X]]; discriminate).
  - (* E2: the mode is stored (after the queue has been cleared) *)
    destruct Hm as [E|E]; [|destruct (H1 E) as (X & _); discriminate].
    destruct (H0 E) as (Eq & Er & Hn & _ & ws & Esc & Hws).
    unfold cur_mode. rewrite Esc, Hls. cbn [N.eqb orb].
    unfold a_finish. constructor; cbn; auto; try (intros; discriminate);
      try (unfold pipeS, hand_c, hand_r in *; cbn; exact Heq).
    intros _. rewrite Esc. cbn. split; auto. apply a_begin_waits; auto.
  - (* E3: the synchronous queue is cleared first *)
    destruct Hm as [E|E]; [|destruct (H1 E) as (X & _); discriminate].
    destruct (H0 E) as (Eq & Er & Hn & _ & ws & Esc & Hws).
    unfold cur_mode. rewrite Esc, Hls. cbn [N.eqb orb].
    constructor; cbn; auto; try (intros; discriminate);
      try (unfold pipeS, hand_c, hand_r in *; cbn; rewrite Eq in Heq; exact Heq);
      try (intro E'; rewrite E in E'; discriminate).
    intros _. repeat split; auto. exists ws; auto.
  - (* K1 *)
    destruct Hm as [E|E]; [destruct (H0 E) as (_ & _ & _ & [X|X] & _); discriminate|].
    destruct (H1 E) as (_ & Hws). rewrite E. cbn [N.leb N.compare Pos.compare Pos.compare_cont].
    constructor; cbn; auto; try (intros; discriminate);
      try (intro E'; rewrite E in E'; discriminate).
  - (* K2 *)
    destruct Hm as [E|E]; [destruct (H0 E) as (_ & _ & _ & [X|X] & _); discriminate|].
    destruct (H1 E) as (_ & Hws).
    assert (Htl : Forall is_wait (tl (a_script s))) by (destruct (a_script s); cbn; auto; inversion Hws; auto).
    assert (Hfin : forall s1, sync_mode s1 = 1 -> a_script s1 = a_script s ->
               k_pc (a_pc (a_finish cfg s1)) = true /\ Forall is_wait (a_script (a_finish cfg s1))).
    { intros s1 _ E2. unfold a_finish. cbn. rewrite E2. split; auto. apply a_begin_waits; auto. }
    destruct (sync_q s) as [|m q] eqn:Eq.
    + destruct (cur_wait s) as [t|]; auto.
      destruct dl as [d|]; [destruct (d <=? clock s); auto|].
      * (* the wait times out *)
        unfold a_finish. constructor; cbn; auto; try (intros E'; rewrite E in E'; discriminate);
          try (intros _; split; auto; apply a_begin_waits; auto).
        unfold pipeS, hand_c, hand_r, gotten in *. cbn. rewrite flat_map_app. cbn. rewrite app_nil_r. rewrite Eq in Heq. rewrite Eq. exact Heq.
      * constructor; cbn; auto; try (intros E'; rewrite E in E'; discriminate).
    + (* a packet is retrieved *)
      assert (Hp : m_pkt m = true).
      { assert (Hin : In m (emitted s)) by (rewrite <- Heq; apply pipeS_In_sync; rewrite Eq; left; auto).
        rewrite Forall_forall in Hpk. auto. }
      rewrite Hp. unfold a_finish. constructor; cbn; auto; try (intros E'; rewrite E in E'; discriminate);
        try (intros _; split; auto; apply a_begin_waits; auto).
      unfold pipeS, hand_c, hand_r, gotten in *. cbn. rewrite flat_map_app. cbn. rewrite Eq in Heq.
      rewrite <- Heq. rewrite <- !app_assoc. reflexivity.
Qed.

Lemma Inv_S_act : forall cfg, has_conn cfg = true -> legacy_sync cfg = false ->
  forall a s, Inv_S s -> Inv_S (act cfg a s).
Proof.
  intros cfg H1 H2 [[]| |] s H; cbn [act step].
  - apply Inv_S_step_A; auto.
  - apply Inv_S_step_W; auto.
  - apply Inv_S_step_R; auto.
  - apply Inv_S_step_C; auto.
  - apply Inv_S_tick; auto.
  - apply Inv_S_emit; auto.
Qed.

Lemma Inv_S_init : forall cfg ws sp l0,
  legacy_sync cfg = false -> Forall is_wait ws -> Forall pkt_chunk sp ->
  Inv_S (init cfg (OSync 1 :: ws) sp l0).
Proof.
  intros cfg ws sp l0 Hls Hws Hsp. unfold init. cbn [a_begin N.eqb]. rewrite Hls.
  constructor; cbn; auto; try (intros; discriminate).
  - split; eauto.
  - intros _. repeat split; auto. exists ws; auto.
Qed.

(** sync_exactly_once (repaired enable_synchronous): once synchronous mode is requested, under
    every schedule and for every stream of packets: what was processed normally before the
    mode took effect, followed by what wait_packet returned, followed by what waits in the
    synchronous queue, followed by what is still on its way, is exactly what the device
    emitted, in order.  Every packet is in exactly one of these places: retrievable once, in
    arrival order, and (unlock_exactly_once_in_order: [dispatched] only holds packets of
    [delivered]) not also dispatched. *)
Lemma sync_exactly_once :
  forall cfg ws sp l0 sched,
    has_conn cfg = true -> legacy_sync cfg = false -> Forall is_wait ws -> Forall pkt_chunk sp ->
    let s := run cfg sched (init cfg (OSync 1 :: ws) sp l0) in
    pipeS s = emitted s.
Proof.
  intros cfg ws sp l0 sched Hc Hls Hws Hsp s.
  assert (H : Inv_S s).
  { apply run_invariant; [apply Inv_S_act; auto | apply Inv_S_init; auto]. }
  destruct H; auto.
Qed.

(** enable_synchronous as found (mode stored, then the queue cleared): a packet saved in
    between is neither retrievable nor dispatched. *)
Definition ls_cfg : config := mkConfig true false 3 false false false true.
Definition ls_sched : list action :=
  [Emit; Step TR; Step TR; Step TR; Step TR; Step TR; Step TR;   (* the packet reaches the events queue *)
   Step TA;                                                     (* mode := PKT *)
   Step TC; Step TC; Step TC; Step TC; Step TC; Step TC;        (* saved in the synchronous queue *)
   Step TA;                                                     (* queue cleared *)
   Step TA; Step TA; Tick; Tick; Step TA].                      (* wait_packet(1) -> None *)

Lemma sync_legacy_refuted :
  exists (cfg : config) (ws : list op) (sp : list chunk) (sched : list action),
    legacy_sync cfg = true /\
    let s := run cfg sched (init cfg (OSync 1 :: ws) sp false) in
    emitted s = [mkMsg 0 1 true] /\ pipeS s = [] /\ retrieved s = [None] /\ dispatched s = []
    /\ a_pc s = A_Done.
Proof.
  exists ls_cfg, [OWait (Some 1)], lu_spont, ls_sched. split; [reflexivity|].
  vm_compute. repeat split; reflexivity.
Qed.

(** ---- Bridge.__init__ --------------------------------------------------------------------- *)

Definition cnt (x : msg) (l : list msg) : nat := length (filter (msg_eqb x) l).

Lemma cnt_app : forall x a b, cnt x (a ++ b) = (cnt x a + cnt x b)%nat.
Proof. intros. unfold cnt. rewrite filter_app, app_length. reflexivity. Qed.

Lemma cnt_nil : forall x, cnt x [] = 0%nat.
Proof. reflexivity. Qed.

Lemma cnt_cons : forall x m l, cnt x (m :: l) = (cnt x [m] + cnt x l)%nat.
Proof. intros. change (m :: l) with ([m] ++ l). apply cnt_app. Qed.

Lemma cnt_filter_app : forall x (f : msg -> bool) a b,
  cnt x (filter f (a ++ b)) = (cnt x (filter f a) + cnt x (filter f b))%nat.
Proof. intros. rewrite filter_app. apply cnt_app. Qed.

Global Opaque cnt.

Definition bhand_c (s : bstate) : list msg :=
  match b_cpc s with
  | CC_C2 m | CC_C5 m | CC_L1 m | CC_L2 m | CC_A m | CC_T m | CC_Put m | CC_RelD m => [m]
  | _ => []
  end.
Definition bhand_x (s : bstate) : list msg :=
  match b_xpc s with X_C2 m | X_C5 m | X_R1 m | X_R2 m => [m] | _ => [] end.
Definition bhand_a (s : bstate) : list msg :=
  match b_apc s with BU_R1 m | BU_R2 m => [m] | _ => [] end.
Definition bhand_r (s : bstate) : list msg :=
  match b_rpc s with BR_P _ m => [m] | _ => [] end.

(** Every message of the scenario, wherever it currently is. *)
Definition ball (s : bstate) : list msg :=
  b_peer s ++ b_lost s ++ filter (fun m => negb (m_pkt m)) (b_deliv_o s) ++ b_lq s
  ++ bhand_c s ++ bhand_x s ++ bhand_a s ++ b_ev_o s ++ b_ev_w s ++ b_outq s
  ++ bhand_r s ++ msgs_of (b_rbuf s) ++ msgs_of (concat (b_wire s)) ++ msgs_of (concat (b_spont s)).

Record Inv_B (s : bstate) : Prop := mkInvB {
  ib_filt : b_filt s = None;
  ib_ready : b_conn s = true -> b_wready s = true;
  ib_alive : b_rpc s <> BR_Dead;
  ib_q : forall p m, b_rpc s = BR_P p m ->
           p <> Q6 /\ p <> Q7 /\ (p = Q8b true -> b_wready s = true);
  ib_rbuf : b_rpc s = BR_Read -> b_rbuf s = [];
  ib_w1 : match b_apc s with BA_F1 | BA_F2 | BA_W1b | BA_W1c => True | _ => b_wready s = true end
}.

Lemma br_next_spec : forall buf,
  match fst (br_next buf) with
  | BR_Read => msgs_of buf = [] /\ snd (br_next buf) = []
  | BR_P p m => p = Q1 /\ msgs_of buf = m :: msgs_of (snd (br_next buf))
  | BR_Dead => False
  end.
Proof. induction buf as [|[m|] b IH]; cbn; auto. Qed.

Ltac c_tac :=
  unfold ball, bhand_c, bhand_x, bhand_a, bhand_r; cbn;
  rewrite ?concat_app, ?msgs_of_app, ?cnt_app, ?cnt_filter_app; cbn [concat msgs_of filter app];
  rewrite ?cnt_app, ?cnt_nil;
  repeat match goal with
         | |- context [cnt ?x (?m :: ?l)] =>
             lazymatch l with [] => fail | _ => rewrite (cnt_cons x m l) end
         end;
  rewrite ?cnt_app, ?cnt_nil; try lia.

Lemma bstep_conserves : forall cfg a s x,
  legacy_ctor cfg = false -> Inv_B s ->
  Inv_B (bact cfg a s) /\ cnt x (ball (bact cfg a s)) = cnt x (ball s).
Proof.
  intros cfg a s x Hl HI. pose proof HI as [Hf Hr Hal Hq Hrb Hw1]. destruct a; cbn [bact].
  - (* application thread *)
    unfold bstep_A. rewrite Hl.
    destruct (b_apc s) eqn:Ea; split_match;
      (split; [constructor; cbn; auto; try (intros; discriminate); try (rewrite ?Ea in Hw1; exact Hw1); try (rewrite Ea; exact Hw1);
               try (intros p0 m0 E0; destruct (Hq _ _ E0) as (? & ? & ?); repeat split; auto; fail)
              | c_tac; rewrite ?Ea, ?Heql; c_tac]).
  - (* reader *)
    unfold bstep_R. destruct (b_rpc s) as [|p m|] eqn:Er; [| |contradiction].
    + destruct (b_wire s) as [|c w] eqn:Ew; [split; [exact HI|reflexivity]|].
      pose proof (br_next_spec c) as Hn. pose proof (Hrb eq_refl) as Eb.
      split.
      * constructor; cbn; auto.
        -- destruct (fst (br_next c)); try discriminate; contradiction.
        -- intros p m E. destruct (fst (br_next c)); try discriminate; try contradiction.
           destruct Hn as (E1 & _). inversion E; subst. repeat split; discriminate.
        -- intro E. destruct (fst (br_next c)); try discriminate; try contradiction. destruct Hn; auto.
      * c_tac. rewrite Er, Ew, Eb. c_tac.
        destruct (fst (br_next c)); try contradiction; destruct Hn as (E1 & E2); rewrite ?E1, ?E2; c_tac.
    + destruct (Hq _ _ eq_refl) as (H6 & H7 & H8).
      pose proof (br_next_spec (b_rbuf s)) as Hn.
      destruct p; try congruence; rewrite ?Hf.
      * (* Q1 *) split; [constructor; cbn; auto; try discriminate; intros p m0 E; inversion E; subst; repeat split; discriminate|].
        c_tac; rewrite ?Er; c_tac.
      * (* Q5 *) split; [constructor; cbn; auto; try discriminate; intros p m0 E; inversion E; subst; repeat split; discriminate|].
        c_tac; rewrite ?Er; c_tac.
      * (* Q8l *) split; [constructor; cbn; auto; try discriminate; intros p m0 E; inversion E; subst; repeat split; discriminate|].
        c_tac; rewrite ?Er; c_tac.
      * (* Q8a *) split; [constructor; cbn; auto; try discriminate; intros p m0 E; inversion E; subst; repeat split; try discriminate|].
        -- intro E'. inversion E' as [E'']. rewrite E''. apply Hr; auto.
        -- c_tac; rewrite ?Er; c_tac.
      * (* Q8b *)
        destruct to_wrapper.
        -- rewrite (H8 eq_refl). split.
           ++ constructor; cbn; auto.
              ** destruct (fst (br_next (b_rbuf s))); try discriminate; contradiction.
              ** intros p m0 E. destruct (fst (br_next (b_rbuf s))); try discriminate; try contradiction.
                 destruct Hn as (E1 & _). inversion E; subst. repeat split; discriminate.
              ** intro E. destruct (fst (br_next (b_rbuf s))); try discriminate; try contradiction. destruct Hn; auto.
           ++ c_tac. rewrite Er. c_tac.
              destruct (fst (br_next (b_rbuf s))); try contradiction; destruct Hn as (E1 & E2); rewrite ?E1, ?E2; c_tac.
        -- split.
           ++ constructor; cbn; auto.
              ** destruct (fst (br_next (b_rbuf s))); try discriminate; contradiction.
              ** intros p m0 E. destruct (fst (br_next (b_rbuf s))); try discriminate; try contradiction.
                 destruct Hn as (E1 & _). inversion E; subst. repeat split; discriminate.
              ** intro E. destruct (fst (br_next (b_rbuf s))); try discriminate; try contradiction. destruct Hn; auto.
           ++ c_tac. rewrite Er. c_tac.
              destruct (fst (br_next (b_rbuf s))); try contradiction; destruct Hn as (E1 & E2); rewrite ?E1, ?E2; c_tac.
  - (* old connector I/O thread *)
    unfold bstep_C.
    destruct (b_cpc s) eqn:Ec; split_match;
      (split; [constructor; cbn; auto | c_tac; rewrite ?Ec, ?Heql, ?Heqb; c_tac]).
  - (* wrapper I/O thread *)
    unfold bstep_X.
    destruct (b_xpc s) eqn:Ex; split_match;
      (split; [constructor; cbn; auto | c_tac; rewrite ?Ex, ?Heql, ?Heqb; c_tac]).
  - (* the device emits *)
    unfold bemit. destruct (b_spont s) as [|c r] eqn:Es; [split; [exact HI|reflexivity]|].
    split; [constructor; cbn; auto|]. c_tac. rewrite Es. c_tac.
  - split; [exact HI|reflexivity].
Qed.

Lemma Inv_B_init : forall held ev0 sp, Inv_B (binit held ev0 sp).
Proof. intros. constructor; cbn; auto; try discriminate; try (intros; discriminate). Qed.

Lemma Inv_B_run : forall l s0, Inv_B s0 -> Inv_B (brun (mkBC false) l s0).
Proof.
  unfold brun. induction l as [|a l IH]; intros s0 H0; cbn; auto.
  apply IH. apply (bstep_conserves (mkBC false) a s0 (mkMsg 0 0 false) eq_refl H0).
Qed.

(** bridge_conservation (the part of bridge_relays_exactly_once_per_direction that holds):
    under every schedule of application / reader / old connector I/O / wrapper I/O, the
    reader thread survives and every message of the scenario is, with its multiplicity, in
    exactly one place: relayed to the peer, handled by the old connector instead, held, or
    still on its way.  Nothing is relayed twice, nothing vanishes. *)
Lemma bridge_conservation :
  forall held ev0 sp sched x,
    let s := brun (mkBC false) sched (binit held ev0 sp) in
    b_rpc s <> BR_Dead /\ cnt x (ball s) = cnt x (held ++ ev0 ++ msgs_of (concat sp)).
Proof.
  intros held ev0 sp sched x.
  assert (H : forall l s0, Inv_B s0 ->
            Inv_B (brun (mkBC false) l s0) /\ cnt x (ball (brun (mkBC false) l s0)) = cnt x (ball s0)).
  { induction l as [|a l IH]; intros s0 H0; cbn; auto.
    destruct (bstep_conserves (mkBC false) a s0 x eq_refl H0) as (H1 & E1).
    destruct (IH _ H1) as (H2 & E2). split; auto. unfold brun in *. rewrite E2. exact E1. }
  destruct (H sched _ (Inv_B_init held ev0 sp)) as (HI & E). cbv zeta. split; [apply (ib_alive _ HI)|].
  rewrite E. unfold ball, binit, bhand_c, bhand_x, bhand_a, bhand_r. cbn.
  rewrite ?cnt_app, ?cnt_nil. lia.
Qed.

Lemma bridge_quiescent_accounts_for_all :
  forall held ev0 sp sched x,
    let s := brun (mkBC false) sched (binit held ev0 sp) in
    bquiet s = true -> b_outq s = [] ->
    cnt x (b_peer s ++ b_lost s ++ filter (fun m => negb (m_pkt m)) (b_deliv_o s) ++ b_lq s)
    = cnt x (held ++ ev0 ++ msgs_of (concat sp)).
Proof.
  intros held ev0 sp sched x s Hq Ho.
  destruct (bridge_conservation held ev0 sp sched x) as (_ & E). fold s in E. rewrite <- E.
  unfold bquiet in Hq. unfold ball, bhand_c, bhand_x, bhand_a, bhand_r.
  destruct (b_apc s); try discriminate. destruct (b_rpc s) eqn:Er; try discriminate.
  destruct (b_cpc s); try discriminate. destruct (b_xpc s); try discriminate.
  destruct (b_wire s); try discriminate. destruct (b_spont s); try discriminate.
  destruct (b_ev_o s); try discriminate. destruct (b_ev_w s); try discriminate.
  rewrite Ho. cbn.
  assert (Eb : b_rbuf s = []).
  { assert (HI : Inv_B s) by (apply Inv_B_run; apply Inv_B_init).
    apply (ib_rbuf _ HI). exact Er. }
  rewrite Eb. cbn. rewrite ?cnt_app, ?cnt_nil. lia.
Qed.

(** The full statement, and what refutes it. *)
Definition bridge_relays_exactly_once_per_direction_statement : Prop :=
  forall held ev0 sp sched,
    let s := brun (mkBC false) sched (binit held ev0 sp) in
    bquiet s = true -> b_peer s = held ++ ev0 ++ msgs_of (concat sp).

Definition p1 := mkMsg 0 1 true.
Definition p2 := mkMsg 0 2 true.

(** Bridge.__init__ attaches the wrapper, then flushes what was held: a packet arriving in
    between overtakes the held one. *)
Definition br_sched_order : list baction :=
  repeat BA 8 ++ [BEmit] ++ repeat BR 7 ++ repeat BX 7 ++ repeat BA 12.

(** An event still in the old connector's queue is processed by the old connector's I/O
    thread after the unlock: it is handed to the old connector's packet handler, never
    relayed. *)
Definition br_sched_loss : list baction := repeat BA 20 ++ repeat BC 9.

Lemma bridge_refuted :
  (exists held ev0 sp sched,
     let s := brun (mkBC false) sched (binit held ev0 sp) in
     bquiet s = true /\ b_peer s = [p2; p1] /\ held ++ ev0 ++ msgs_of (concat sp) = [p1; p2])
  /\
  (exists held ev0 sp sched,
     let s := brun (mkBC false) sched (binit held ev0 sp) in
     bquiet s = true /\ b_peer s = [] /\ b_lost s = [p1] /\ held ++ ev0 ++ msgs_of (concat sp) = [p1]).
Proof.
  split.
  - exists [p1], [], [[Some p2]], br_sched_order. vm_compute. repeat split; reflexivity.
  - exists [], [p1], [], br_sched_loss. vm_compute. repeat split; reflexivity.
Qed.

Lemma bridge_statement_refuted : ~ bridge_relays_exactly_once_per_direction_statement.
Proof.
  intro H. specialize (H [p1] [] [[Some p2]] br_sched_order). cbv zeta in H.
  assert (E : bquiet (brun (mkBC false) br_sched_order (binit [p1] [] [[Some p2]])) = true) by (vm_compute; reflexivity).
  specialize (H E).
  assert (X : list_eqb msg_eqb (b_peer (brun (mkBC false) br_sched_order (binit [p1] [] [[Some p2]])))
                       ([p1] ++ [] ++ msgs_of (concat [[Some p2]])) = false) by (vm_compute; reflexivity).
  rewrite H in X. vm_compute in X. discriminate X.
Qed.

(** Connector.__init__ as found: the reader thread dies on the half-built wrapper. *)
Lemma bridge_legacy_ctor_refuted :
  exists sp sched,
    b_rpc (brun (mkBC true) sched (binit [] [] sp)) = BR_Dead.
Proof.
  exists [[Some p1]], (repeat BA 3 ++ [BEmit] ++ repeat BR 7). vm_compute. reflexivity.
Qed.

(** When nothing is held, nothing is pending and the device only emits after __init__ has
    returned, the wrapper path alone is used; that path is FIFO (checked by the oracle on the
    implementation; see design/C05.md for why it is not a theorem here). *)

Definition nv5_sched : list action :=
  [Emit; Step TR; Step TR; Step TR; Step TR; Step TR; Step TR; Step TC; Step TC; Step TC; Step TC; Step TC;
   Step TA; Step TA; Emit] ++ concat (repeat [Step TA; Step TR; Step TC] 20).

Lemma nonvacuous5 :
  let cfg := mkConfig true false 3 false false false false in
  lock_wf true [OUnlock] /\
  let s := run cfg nv5_sched (init cfg [OUnlock] [[Some (mkMsg 0 1 true)]; [Some (mkMsg 0 2 true)]] true) in
  dispatched s = [mkMsg 0 1 true; mkMsg 0 2 true] /\ locked_q s = [] /\ locked s = false.
Proof. cbv zeta. split; [exact I|]. vm_compute. repeat split; reflexivity. Qed.
