(** C05 — invariants of the connector's lock mode and synchronous mode over the interleaving
    model of C04/Model.v, and of the bridge model of C05/Model.v. *)
From Coq Require Import List NArith Arith Bool Lia ZifyBool ZifyN ZifyNat.
From Whad Require Import C04.Model C04.Proofs C05.Model.
Import ListNotations.
Open Scope N_scope.

(** ---- lock / unlock ---------------------------------------------------------------------- *)

Definition pkts (l : list msg) : list msg := filter m_pkt l.

(** The packet the connector I/O thread holds between process_message and its dispatch /
    its insertion in the holding queue. *)
Definition hand_p (s : state) : list msg :=
  match c_pc s with
  | CC_L1 m | CC_L2 m | CC_A m | CC_T m | CC_Put m | CC_RelD m | CC_D m => [m]
  | _ => []
  end.

(** The held packet unlock() has taken out of the holding queue and not dispatched yet. *)
Definition hand_u (s : state) : list msg :=
  match a_pc s with A_U4 m => [m] | _ => [] end.

Definition a_holds (p : apc) : bool :=
  match p with A_U2 | A_U3 | A_U4 _ | A_U5 | A_U6 => true | _ => false end.
Definition c_holds (p : cpc) : bool :=
  match p with CC_T _ | CC_Put _ | CC_Rel | CC_RelD _ => true | _ => false end.
Definition draining (p : apc) : bool :=
  match p with A_U3 | A_U4 _ => true | _ => false end.

(** lock() is not called on a connector that is already locked (it would discard what is
    held, by design). *)
Fixpoint lock_wf (b : bool) (script : list op) : Prop :=
  match script with
  | [] => True
  | OLock :: r => b = false /\ lock_wf true r
  | OUnlock :: r => lock_wf false r
  | _ :: r => lock_wf b r
  end.

Definition is_lock_op (o : op) : bool := match o with OLock | OUnlock => true | _ => false end.

(** What the application thread's position says about the lock flag and the script. *)
Definition Ulock (s : state) : Prop :=
  match a_pc s with
  | A_L1 | A_L2 => hd_error (a_script s) = Some OLock /\ locked s = false /\ lock_wf true (tl (a_script s))
  | A_U1 | A_U2 | A_U3 | A_U4 _ => hd_error (a_script s) = Some OUnlock /\ lock_wf false (tl (a_script s))
  | A_U6 => hd_error (a_script s) = Some OUnlock /\ lock_wf false (tl (a_script s)) /\ locked_q s = []
  | A_U5 => hd_error (a_script s) = Some OUnlock /\ lock_wf false (tl (a_script s)) /\ locked_q s = [] /\ locked s = false
  | A_Done => True
  | _ => lock_wf (locked s) (a_script s)
         /\ match a_script s with o :: _ => is_lock_op o = false | [] => True end
  end.

Record Inv_U (s : state) : Prop := mkInvU {
  u_eq : dispatched s ++ hand_u s ++ locked_q s ++ hand_p s = pkts (delivered s);
  u_empty : locked s = false -> locked_q s = [];
  u_put : forall m, c_pc s = CC_Put m -> locked s = true;
  u_reld : forall m, c_pc s = CC_RelD m -> locked_q s = [];
  u_lk : lk s = a_holds (a_pc s) || c_holds (c_pc s);
  u_excl : a_holds (a_pc s) && c_holds (c_pc s) = false;
  u_lock : Ulock s;
  u_d : forall m, c_pc s = CC_D m -> locked_q s = [] /\ draining (a_pc s) = false;
  u_drain : draining (a_pc s) = true -> locked s = true
}.

Lemma Inv_U_ext : forall s s',
  dispatched s' = dispatched s -> locked_q s' = locked_q s -> c_pc s' = c_pc s ->
  delivered s' = delivered s -> locked s' = locked s -> lk s' = lk s -> a_pc s' = a_pc s ->
  a_script s' = a_script s -> Inv_U s -> Inv_U s'.
Proof.
  intros s s' E1 E2 E3 E4 E5 E6 E7 E8 [].
  constructor; unfold hand_p, hand_u, Ulock in *; rewrite ?E1, ?E2, ?E3, ?E4, ?E5, ?E6, ?E7, ?E8; auto.
Qed.

Lemma pstep_frame_U : forall cfg p m s,
  let s' := fst (pstep cfg p m s) in
  dispatched s' = dispatched s /\ locked_q s' = locked_q s /\ c_pc s' = c_pc s /\
  delivered s' = delivered s /\ locked s' = locked s /\ lk s' = lk s /\ a_pc s' = a_pc s /\
  a_script s' = a_script s /\ sync_mode s' = sync_mode s /\ sync_q s' = sync_q s
  /\ retrieved s' = retrieved s /\ emitted s' = emitted s /\ filt s' = filt s.
Proof. intros cfg [] m s; cbn; repeat split; auto. Qed.

Lemma Inv_U_step_W : forall cfg s, Inv_U s -> Inv_U (step_W cfg s).
Proof.
  intros cfg s H. unfold step_W. split_match; auto; apply (Inv_U_ext s); auto.
Qed.

Lemma Inv_U_step_R : forall cfg s, Inv_U s -> Inv_U (step_R cfg s).
Proof.
  intros cfg s H. unfold step_R. destruct (r_pc s) as [|p m|]; auto.
  - destruct (wire s); auto. apply (Inv_U_ext s); auto.
  - destruct (pstep_frame_U cfg p m s) as (E1 & E2 & E3 & E4 & E5 & E6 & E7 & E8 & _).
    destruct (snd (pstep cfg p m s)); apply (Inv_U_ext s); auto.
Qed.

Lemma Inv_U_tick : forall s, Inv_U s -> Inv_U (tick s).
Proof. intros s H. apply (Inv_U_ext s); auto. Qed.

Lemma Inv_U_emit : forall s, Inv_U s -> Inv_U (emit s).
Proof. intros s H. unfold emit. destruct (spont s); auto. apply (Inv_U_ext s); auto. Qed.

Lemma pkts_app : forall a b, pkts (a ++ b) = pkts a ++ pkts b.
Proof. intros. apply filter_app. Qed.

Ltac nodisc := try (intros; discriminate); auto.
Ltac uem := first [assumption | (intro; congruence) | auto].
Ltac udr Hdr := first [exact Hdr | (intros; assumption) | (let X := fresh in intro X; specialize (Hdr X); discriminate)].

Lemma Inv_U_step_C : forall cfg s, legacy_unlock cfg = false -> Inv_U s -> Inv_U (step_C cfg s).
Proof.
  intros cfg s Hl H. unfold step_C. destruct (has_conn cfg); cbn [negb]; auto.
  pose proof H as H0.
  destruct H as [Heq Hem Hput Hreld Hlk Hex Hul Hd Hdr].
  assert (Hul' : forall s', a_pc s' = a_pc s -> a_script s' = a_script s -> locked s' = locked s ->
                   locked_q s' = locked_q s -> Ulock s').
  { intros s' E1 E2 E3 E4. unfold Ulock in *. rewrite E1, E2, E3, E4. exact Hul. }
  unfold pkts in *.
  destruct (c_pc s) eqn:Ec; unfold hand_p in Heq; rewrite Ec in Heq; cbn [c_holds] in *.
  - (* Get *)
    destruct (events s); [exact H0|].
    constructor; unfold hand_p; cbn; [exact Heq|uem|nodisc|nodisc|exact Hlk|exact Hex|apply Hul'; first [reflexivity|assumption]|nodisc|udr Hdr].
  - (* C2 *)
    destruct (sync_mode s =? 2);
      (constructor; unfold hand_p; cbn; [exact Heq|uem|nodisc|nodisc|exact Hlk|exact Hex|apply Hul'; first [reflexivity|assumption]|nodisc|udr Hdr]).
  - (* C5 *)
    destruct (sync_mode s =? 1);
      [constructor; unfold hand_p; cbn; [exact Heq|uem|nodisc|nodisc|exact Hlk|exact Hex|apply Hul'; first [reflexivity|assumption]|nodisc|udr Hdr]|].
    destruct (m_pkt m) eqn:Ep;
      (constructor; unfold hand_p; cbn; [|uem|nodisc|nodisc|exact Hlk|exact Hex|apply Hul'; first [reflexivity|assumption]|nodisc|udr Hdr]);
      rewrite filter_app; cbn; rewrite Ep; rewrite <- Heq; rewrite ?app_nil_r, <- ?app_assoc; reflexivity.
  - (* S1 *)
    destruct (sync_mode s =? 2);
      (constructor; unfold hand_p; cbn; [exact Heq|uem|nodisc|nodisc|exact Hlk|exact Hex|apply Hul'; first [reflexivity|assumption]|nodisc|udr Hdr]).
  - (* S2 *)
    destruct (1 <=? sync_mode s);
      (constructor; unfold hand_p; cbn; [exact Heq|uem|nodisc|nodisc|exact Hlk|exact Hex|apply Hul'; first [reflexivity|assumption]|nodisc|udr Hdr]).
  - (* SPut *)
    constructor; unfold hand_p; cbn; [exact Heq|uem|nodisc|nodisc|exact Hlk|exact Hex|apply Hul'; first [reflexivity|assumption]|nodisc|udr Hdr].
  - (* L1 *)
    constructor; unfold hand_p; cbn; [exact Heq|uem|nodisc|nodisc|exact Hlk|exact Hex|apply Hul'; first [reflexivity|assumption]|nodisc|udr Hdr].
  - (* L2 *)
    destruct (locked s) eqn:El.
    + constructor; unfold hand_p; cbn; [exact Heq|uem|nodisc|nodisc|exact Hlk|exact Hex|apply Hul'; first [reflexivity|assumption]|nodisc|udr Hdr].
    + constructor; unfold hand_p; cbn; [exact Heq|uem|nodisc|nodisc|exact Hlk|exact Hex|apply Hul'; first [reflexivity|assumption]| |udr Hdr].
      intros m0 _. split; [apply Hem; reflexivity|].
      destruct (draining (a_pc s)) eqn:Edr; auto. specialize (Hdr eq_refl). discriminate.
  - (* A *)
    destruct (lk s) eqn:Elk; [exact H0|].
    rewrite Hl. rewrite orb_false_r in Hlk.
    constructor; unfold hand_p; cbn; [exact Heq|uem|nodisc|nodisc| | |apply Hul'; first [reflexivity|assumption]|nodisc|udr Hdr].
    + rewrite <- Hlk. reflexivity.
    + rewrite <- Hlk. reflexivity.
  - (* T *)
    destruct (locked s) eqn:El;
      (constructor; unfold hand_p; cbn; [exact Heq|uem| | |exact Hlk|exact Hex|apply Hul'; first [reflexivity|assumption]|nodisc|udr Hdr]); nodisc.
  - (* Put *)
    pose proof (Hput m eq_refl) as El. rewrite andb_true_r in Hex.
    constructor; unfold hand_p; cbn; [|intro E; congruence|nodisc|nodisc|exact Hlk|rewrite andb_true_r; exact Hex| |nodisc|udr Hdr].
    + rewrite <- Heq. rewrite <- !app_assoc. reflexivity.
    + unfold Ulock in *. cbn. destruct (a_pc s); cbn in Hex; try discriminate; auto;
        try (destruct Hul as (? & ? & ?); congruence).
  - (* Rel *)
    rewrite andb_true_r in Hex. rewrite Hex in *.
    constructor; unfold hand_p; cbn; [exact Heq|uem|nodisc|nodisc|rewrite Hex; reflexivity|rewrite andb_false_r; reflexivity|apply Hul'; first [reflexivity|assumption]|nodisc|udr Hdr].
  - (* RelD: release, the dispatch follows *)
    rewrite andb_true_r in Hex. rewrite Hex in *.
    constructor; unfold hand_p; cbn; [exact Heq|uem|nodisc|nodisc|rewrite Hex; reflexivity|rewrite andb_false_r; reflexivity|apply Hul'; first [reflexivity|assumption]| |udr Hdr].
    intros m0 _. split; [apply (Hreld m); reflexivity|].
    destruct (a_pc s); cbn in Hex |- *; auto; discriminate.
  - (* D: the packet is dispatched directly *)
    destruct (Hd m eq_refl) as (Eq & Edr).
    assert (Ehu : hand_u s = []) by (unfold hand_u; destruct (a_pc s); cbn in Edr; auto; discriminate).
    constructor; unfold hand_p; cbn; [|uem|nodisc|nodisc|exact Hlk|exact Hex|apply Hul'; first [reflexivity|assumption]|nodisc|udr Hdr].
    change (hand_u (set_c_pc CC_Get (set_dispatched (dispatched s ++ [m]) s))) with (hand_u s).
    rewrite Ehu, Eq in *. cbn in *. rewrite <- Heq. rewrite <- !app_assoc. reflexivity.
Qed.

Definition other_pc (p : apc) : bool :=
  match p with
  | A_L1 | A_L2 | A_U1 | A_U2 | A_U3 | A_U4 _ | A_U5 | A_U6 | A_Done => false
  | _ => true
  end.

Lemma other_not_holds : forall p, other_pc p = true -> a_holds p = false /\ draining p = false.
Proof. destruct p; cbn; auto; discriminate. Qed.

Lemma Ulock_other : forall s, other_pc (a_pc s) = true ->
  Ulock s <-> (lock_wf (locked s) (a_script s)
               /\ match a_script s with o :: _ => is_lock_op o = false | [] => True end).
Proof. intros s H. unfold Ulock. destruct (a_pc s); cbn in H; try discriminate; tauto. Qed.

Lemma a_begin_holds : forall cfg sc, a_holds (a_begin cfg sc) = false /\ draining (a_begin cfg sc) = false.
Proof.
  intros cfg [|[] ?]; cbn; auto; repeat match goal with |- context [if ?b then _ else _] => destruct b end; auto.
Qed.

Lemma hand_u_begin : forall cfg sc s, hand_u (set_a_pc (a_begin cfg sc) s) = [].
Proof.
  intros cfg [|[] ?] s; unfold hand_u; cbn; auto; repeat match goal with |- context [if ?b then _ else _] => destruct b end; auto.
Qed.

(** The application thread reaches the first yield point of its next operation. *)
Lemma Ulock_finish : forall cfg s1,
  lock_wf (locked s1) (tl (a_script s1)) -> Ulock (a_finish cfg s1).
Proof.
  intros cfg s1 H. unfold Ulock, a_finish. cbn.
  destruct (tl (a_script s1)) as [|o r]; cbn; auto.
  destruct o; cbn in *; auto;
    repeat match goal with |- context [if ?b then _ else _] => destruct b end; cbn; auto;
    try (destruct H; auto).
Qed.

Lemma lock_wf_tl : forall b sc,
  lock_wf b sc -> match sc with o :: _ => is_lock_op o = false | [] => True end -> lock_wf b (tl sc).
Proof. intros b [|[] r]; cbn; auto; intros; try discriminate. Qed.

Lemma hand_u_other : forall s, other_pc (a_pc s) = true -> hand_u s = [].
Proof. intros s H. unfold hand_u. destruct (a_pc s); cbn in H; auto; discriminate. Qed.

(** A step of the application thread outside lock()/unlock() that does not complete its operation. *)
Lemma Inv_U_other : forall s s',
  dispatched s' = dispatched s -> locked_q s' = locked_q s -> c_pc s' = c_pc s ->
  delivered s' = delivered s -> locked s' = locked s -> lk s' = lk s -> a_script s' = a_script s ->
  other_pc (a_pc s) = true -> other_pc (a_pc s') = true -> Inv_U s -> Inv_U s'.
Proof.
  intros s s' E1 E2 E3 E4 E5 E6 E8 O1 O2 [].
  destruct (other_not_holds _ O1) as (A1 & D1). destruct (other_not_holds _ O2) as (A2 & D2).
  constructor; unfold hand_p in *; rewrite ?E1, ?E2, ?E3, ?E4, ?E5, ?E6; auto.
  - rewrite (hand_u_other _ O2). rewrite (hand_u_other _ O1) in u_eq0. exact u_eq0.
  - rewrite A2. rewrite A1 in u_lk0. exact u_lk0.
  - rewrite A2. reflexivity.
  - apply Ulock_other; auto. rewrite E5, E8. apply Ulock_other; auto.
  - intros m E. destruct (u_d0 m E). split; auto.
  - rewrite D2. discriminate.
Qed.

(** ... and one that completes it. *)
Lemma Inv_U_other_finish : forall cfg s s1,
  dispatched s1 = dispatched s -> locked_q s1 = locked_q s -> c_pc s1 = c_pc s ->
  delivered s1 = delivered s -> locked s1 = locked s -> lk s1 = lk s -> a_script s1 = a_script s ->
  other_pc (a_pc s) = true -> Inv_U s -> Inv_U (a_finish cfg s1).
Proof.
  intros cfg s s1 E1 E2 E3 E4 E5 E6 E8 O1 [].
  destruct (other_not_holds _ O1) as (A1 & D1).
  destruct (a_begin_holds cfg (tl (a_script s1))) as (A2 & D2).
  constructor; unfold hand_p, a_finish in *; cbn; rewrite ?E1, ?E2, ?E3, ?E4, ?E5, ?E6; auto.
  - rewrite hand_u_begin. rewrite (hand_u_other _ O1) in u_eq0. exact u_eq0.
  - rewrite A2. rewrite A1 in u_lk0. exact u_lk0.
  - rewrite A2. reflexivity.
  - apply (Ulock_finish cfg s1). rewrite E5, E8. apply Ulock_other in u_lock0; auto.
    destruct u_lock0. apply lock_wf_tl; auto.
  - intros m E. destruct (u_d0 m E). split; auto.
  - rewrite D2. discriminate.
Qed.

Ltac u_other s Epc H :=
  apply (Inv_U_other s); [reflexivity .. | rewrite Epc; reflexivity | reflexivity | exact H].
Ltac u_fin cfg s Epc H :=
  match goal with |- Inv_U (a_finish _ ?s1) =>
    apply (Inv_U_other_finish cfg s s1); [reflexivity .. | rewrite Epc; reflexivity | exact H] end.

Lemma Inv_U_step_A : forall cfg s,
  legacy_unlock cfg = false -> legacy_lock cfg = false -> Inv_U s -> Inv_U (step_A cfg s).
Proof.
  intros cfg s Hlu Hll H. unfold step_A, ret, note_head, v_next.
  destruct (a_pc s) eqn:Epc; auto.
  - (* S0 *) split_match; u_other s Epc H.
  - (* S1 *) split_match; u_other s Epc H.
  - (* S2 *) split_match; first [u_other s Epc H | u_fin cfg s Epc H].
  - (* W0 *) u_other s Epc H.
  - (* W1 *) u_other s Epc H.
  - (* W2 *) split_match; auto; u_other s Epc H.
  - (* W3 *) split_match; first [u_other s Epc H | u_fin cfg s Epc H].
  - (* W4 *)
    destruct (pstep_frame_U cfg p m s) as (E1 & E2 & E3 & E4 & E5 & E6 & E7 & E8 & _).
    destruct (snd (pstep cfg p m s)); [| |u_other s Epc H];
      (apply (Inv_U_other s); cbn; auto; try (rewrite Epc; reflexivity));
      destruct (legacy_wait cfg); reflexivity.
  - (* W5 *) split_match; first [u_other s Epc H | u_fin cfg s Epc H].
  - (* V0 *) u_other s Epc H.
  - (* V1 *) split_match; u_other s Epc H.
  - (* VP *)
    destruct (pstep_frame_U cfg p m s) as (E1 & E2 & E3 & E4 & E5 & E6 & E7 & E8 & _).
    destruct (snd (pstep cfg p m s)); [| |u_other s Epc H]; split_match;
      (apply (Inv_U_other s); cbn; auto; try (rewrite Epc; reflexivity)).
  - (* V3 *) split_match; first [u_other s Epc H | u_fin cfg s Epc H].
  - (* L1: the holding queue is cleared, then the flag is set *)
    rewrite Hll. destruct H as [Heq Hem Hput Hreld Hlk Hex Hul Hd Hdr].
    unfold Ulock in Hul. rewrite Epc in Hul. destruct Hul as (Hh & Hf & Hw).
    pose proof (Hem Hf) as Eq. unfold hand_u in *. rewrite Epc in *.
    constructor; unfold hand_p, hand_u, Ulock in *; cbn; rewrite ?Epc;
      [rewrite Eq in Heq; exact Heq | auto | exact Hput | auto | exact Hlk | exact Hex | auto
      | intros m E; destruct (Hd m E); auto | discriminate].
  - (* L2 *)
    rewrite Hll. destruct H as [Heq Hem Hput Hreld Hlk Hex Hul Hd Hdr].
    unfold Ulock in Hul. rewrite Epc in Hul. destruct Hul as (Hh & Hf & Hw). unfold hand_u in *. rewrite Epc in *.
    destruct (a_begin_holds cfg (tl (a_script s))) as (A2 & D2).
    constructor; unfold hand_p, a_finish in *; cbn;
      [rewrite hand_u_begin; exact Heq | intro; discriminate | auto | exact Hreld
      | rewrite A2; exact Hlk | rewrite A2; reflexivity
      | apply (Ulock_finish cfg (set_locked true s)); exact Hw
      | intros m E; destruct (Hd m E); auto | rewrite D2; discriminate].
  - (* U1 *)
    destruct (lk s) eqn:Elk; auto. destruct H as [Heq Hem Hput Hreld Hlk Hex Hul Hd Hdr].
    unfold Ulock in Hul. unfold hand_u in *. rewrite Epc in *. cbn in Hlk. symmetry in Hlk.
    constructor; unfold hand_p, hand_u, Ulock in *; cbn; rewrite ?Epc;
      [exact Heq | exact Hem | exact Hput | exact Hreld | reflexivity | rewrite Hlk; exact Elk | exact Hul
      | intros m E; destruct (Hd m E); auto | discriminate].
  - (* U2 *)
    rewrite Hlu. destruct H as [Heq Hem Hput Hreld Hlk Hex Hul Hd Hdr]. unfold hand_u in *. rewrite Epc in *.
    unfold Ulock in Hul. rewrite Epc in Hul. destruct Hul as (Hh & Hw).
    destruct (locked_q s) eqn:Eq;
      (constructor; unfold hand_p, hand_u, Ulock in *; cbn; rewrite ?Epc, ?Eq;
       [exact Heq | auto | exact Hput | auto | exact Hlk | exact Hex | auto | | ]).
    + intros m E; destruct (Hd m E); auto.
    + discriminate.
    + intros m0 E; destruct (Hd m0 E); discriminate.
    + intros _. destruct (locked s) eqn:El; auto. specialize (Hem eq_refl). discriminate.
  - (* U3 *)
    destruct H as [Heq Hem Hput Hreld Hlk Hex Hul Hd Hdr].
    destruct (locked_q s) as [|m q] eqn:Eq; [constructor; rewrite ?Eq; auto|].
    unfold hand_u in *. rewrite Epc in *. cbn in Hex. unfold pkts in *.
    unfold Ulock in Hul. rewrite Epc in Hul. destruct Hul as (Hh & Hw).
    constructor; unfold hand_p, hand_u, Ulock in *; cbn; rewrite ?Epc;
      [ exact Heq
      | intro El; specialize (Hem El); discriminate
      | exact Hput
      | intros m0 E; rewrite E in Hex; discriminate
      | exact Hlk | exact Hex | auto
      | intros m0 E; destruct (Hd m0 E); discriminate
      | intros _; apply Hdr; reflexivity ].
  - (* U4: the held packet is dispatched *)
    destruct H as [Heq Hem Hput Hreld Hlk Hex Hul Hd Hdr].
    unfold hand_u in *. rewrite Epc in *. cbn in Hex. unfold pkts in *.
    unfold Ulock in Hul. rewrite Epc in Hul. destruct Hul as (Hh & Hw).
    constructor; unfold hand_p, hand_u, Ulock in *; cbn; rewrite ?Epc;
      [ rewrite <- Heq; rewrite <- !app_assoc; reflexivity
      | exact Hem | exact Hput | exact Hreld | exact Hlk | exact Hex | auto
      | intros m0 E; destruct (Hd m0 E); discriminate
      | discriminate ].
  - (* U5: release *)
    rewrite Hlu. destruct H as [Heq Hem Hput Hreld Hlk Hex Hul Hd Hdr].
    unfold Ulock in Hul. unfold hand_u in *. rewrite Epc in *. cbn in Hex, Hlk. destruct Hul as (Hh & Hw & Eq & Hf).
    destruct (a_begin_holds cfg (tl (a_script s))) as (A2 & D2).
    constructor; unfold hand_p, a_finish in *; cbn;
      [rewrite hand_u_begin; exact Heq | exact Hem | exact Hput | exact Hreld
      | rewrite A2, Hex; reflexivity | rewrite A2; reflexivity
      | apply (Ulock_finish cfg (set_lk false s)); cbn; rewrite Hf; exact Hw
      | intros m E; destruct (Hd m E); auto | rewrite D2; discriminate].
  - (* U6: the flag is cleared under the lock *)
    rewrite Hlu. destruct H as [Heq Hem Hput Hreld Hlk Hex Hul Hd Hdr].
    unfold Ulock in Hul. unfold hand_u in *. rewrite Epc in *. cbn in Hex, Hlk. destruct Hul as (Hh & Hw & Eq).
    constructor; unfold hand_p, hand_u, Ulock in *; cbn; rewrite ?Epc;
      [exact Heq | auto | intros m0 E; rewrite E in Hex; discriminate | exact Hreld
      | exact Hlk | exact Hex | auto | intros m E; destruct (Hd m E); auto | discriminate].
  - (* E1 *) split_match; u_other s Epc H.
  - (* E2 *) split_match; first [u_other s Epc H | u_fin cfg s Epc H].
  - (* E3 *) split_match; first [u_other s Epc H | u_fin cfg s Epc H].
  - (* K1 *) split_match; first [u_other s Epc H | u_fin cfg s Epc H].
  - (* K2 *) split_match; auto; first [u_other s Epc H | u_fin cfg s Epc H].
Qed.

Lemma Inv_U_act : forall cfg, legacy_unlock cfg = false -> legacy_lock cfg = false ->
  forall a s, Inv_U s -> Inv_U (act cfg a s).
Proof.
  intros cfg H1 H2 [[]| |] s H; cbn [act step].
  - apply Inv_U_step_A; auto.
  - apply Inv_U_step_W; auto.
  - apply Inv_U_step_R; auto.
  - apply Inv_U_step_C; auto.
  - apply Inv_U_tick; auto.
  - apply Inv_U_emit; auto.
Qed.

Lemma Inv_U_init : forall cfg script sp l0, lock_wf l0 script -> Inv_U (init cfg script sp l0).
Proof.
  intros cfg script sp l0 Hw.
  assert (Hu : Ulock (init cfg script sp l0)).
  { change (init cfg script sp l0) with
      (a_finish cfg (set_a_script (OWait None :: script) (init cfg script sp l0))).
    apply Ulock_finish. exact Hw. }
  destruct (a_begin_holds cfg script) as (A2 & D2).
  assert (Hh : hand_u (init cfg script sp l0) = []) by exact (hand_u_begin cfg script (init cfg script sp l0)).
  constructor; try exact Hu; unfold hand_p; rewrite ?Hh; unfold init in *; cbn; auto; try (intros; discriminate).
  - rewrite A2. reflexivity.
  - rewrite A2. reflexivity.
  - rewrite D2. discriminate.
Qed.

(** unlock_exactly_once_in_order (repaired lock()/unlock()/add_locked_pdu()): at every
    reachable state, under every schedule, the packets dispatched so far (by the I/O thread
    directly or by unlock()), followed by the held packet unlock() is about to dispatch, the
    packets held, and the packet in the I/O thread's hands, are exactly the packets that
    reached process_message, in arrival order; and the holding queue of an unlocked
    connector is empty (nothing stranded). *)
Lemma unlock_exactly_once_in_order :
  forall cfg script sp l0 sched,
    legacy_unlock cfg = false -> legacy_lock cfg = false -> lock_wf l0 script ->
    let s := run cfg sched (init cfg script sp l0) in
    dispatched s ++ hand_u s ++ locked_q s ++ hand_p s = pkts (delivered s)
    /\ (locked s = false -> locked_q s = []).
Proof.
  intros cfg script sp l0 sched H1 H2 Hw s.
  assert (H : Inv_U s).
  { apply run_invariant; [apply Inv_U_act; auto | apply Inv_U_init; auto]. }
  destruct H; auto.
Qed.

Lemma unlock_at_quiescence :
  forall cfg script sp l0 sched,
    legacy_unlock cfg = false -> legacy_lock cfg = false -> lock_wf l0 script ->
    let s := run cfg sched (init cfg script sp l0) in
    locked s = false -> hand_p s = [] -> hand_u s = [] -> dispatched s = pkts (delivered s).
Proof.
  intros cfg script sp l0 sched H1 H2 Hw s Hl Hh Hu.
  destruct (unlock_exactly_once_in_order cfg script sp l0 sched H1 H2 Hw) as (E & Q).
  fold s in E, Q. rewrite (Q Hl), Hh, Hu in E. rewrite !app_nil_r in E. exact E.
Qed.

(** The code as found: process_message tests is_locked() and then enqueues, unlock()
    drains under the lock and clears the flag after releasing it.  Appendix A schedule
    C7(true) . U1 . U2 . U5 . U6 . C8 . C9 . C10: the packet sits in the holding queue of an
    unlocked connector; every thread is idle; nothing will ever drain it. *)
Definition lu_cfg : config := mkConfig true false 3 false true false false.
Definition lu_script : list op := [OUnlock].
Definition lu_spont : list chunk := [[Some (mkMsg 0 1 true)]].
Definition lu_sched : list action :=
  [Emit; Step TR; Step TR; Step TR; Step TR; Step TR; Step TR;        (* the packet reaches the events queue *)
   Step TC; Step TC; Step TC; Step TC; Step TC;                       (* ... process_message, is_locked() -> True *)
   Step TA; Step TA; Step TA; Step TA;                                (* unlock() runs to completion *)
   Step TC; Step TC; Step TC].                                        (* add_locked_pdu *)

Lemma unlock_legacy_refuted :
  exists (cfg : config) (script : list op) (sp : list chunk) (sched : list action),
    legacy_unlock cfg = true /\ lock_wf true script /\
    let s := run cfg sched (init cfg script sp true) in
    locked s = false /\ locked_q s = [mkMsg 0 1 true] /\ dispatched s = []
    /\ a_pc s = A_Done /\ c_pc s = CC_Get /\ events s = [] /\ r_pc s = RD_Read /\ wire s = [].
Proof.
  exists lu_cfg, lu_script, lu_spont, lu_sched. split; [reflexivity|]. split; [exact I|].
  vm_compute. repeat split; reflexivity.
Qed.

(** lock() as found (flag set, then the holding queue cleared): a packet saved in between is
    discarded. *)
Definition ll_cfg : config := mkConfig true false 3 false false true false.
Definition ll_sched : list action :=
  [Emit; Step TR; Step TR; Step TR; Step TR; Step TR; Step TR;
   Step TC; Step TC; Step TC;                                         (* get, sync tests, process_message *)
   Step TA;                                                           (* lock(): flag := True *)
   Step TC; Step TC; Step TC; Step TC; Step TC; Step TC;              (* is_locked() -> True; held *)
   Step TA;                                                           (* lock(): queue cleared *)
   Step TA; Step TA; Step TA; Step TA; Step TA].                      (* unlock() *)

Lemma lock_legacy_refuted :
  exists (cfg : config) (script : list op) (sp : list chunk) (sched : list action),
    legacy_lock cfg = true /\ legacy_unlock cfg = false /\ lock_wf false script /\
    let s := run cfg sched (init cfg script sp false) in
    delivered s = [mkMsg 0 1 true] /\ dispatched s = [] /\ locked_q s = [] /\ hand_p s = []
    /\ a_pc s = A_Done.
Proof.
  exists ll_cfg, [OLock; OUnlock], lu_spont, ll_sched. split; [reflexivity|]. split; [reflexivity|].
  split; [cbn; auto|]. vm_compute. repeat split; reflexivity.
Qed.

(** ---- synchronous mode ------------------------------------------------------------------------ *)

Definition gotten (l : list (option msg)) : list msg :=
  flat_map (fun o => match o with Some m => [m] | None => [] end) l.

Lemma gotten_app : forall a b, gotten (a ++ b) = gotten a ++ gotten b.
Proof. intros. unfold gotten. apply flat_map_app. Qed.

(** Everything the device emitted, oldest first: processed normally, retrieved with
    wait_packet, waiting in the synchronous queue, in the I/O thread's hands, in the events
    queue, in the reader's hands / buffer, on the wire. *)
Definition pipeS (s : state) : list msg :=
  delivered s ++ gotten (retrieved s) ++ sync_q s ++ hand_c s ++ events s
  ++ hand_r s ++ msgs_of (r_buf s) ++ msgs_of (concat (wire s)).

Definition is_wait (o : op) : Prop := match o with OWait _ => True | _ => False end.
Definition pkt_chunk (c : chunk) : Prop := Forall (fun m => m_pkt m && m_conv m = true) (msgs_of c).

Definition sp_ok (p : ppc) : bool :=
  match p with P1 | P5 | P8l | P8a | P8b => true | _ => false end.

Definition k_pc (p : apc) : bool :=
  match p with A_K1 | A_K2 _ | A_Done => true | _ => false end.

Record Inv_S (s : state) : Prop := mkInvS {
  s_eq : pipeS s = emitted s;
  s_pk : Forall (fun m => m_pkt m && m_conv m = true) (emitted s);
  s_sp : Forall pkt_chunk (spont s);
  s_filt : filt s = None;
  s_inq : in_q s = [] /\ exists dl, w_pc s = WR_Get dl;
  s_mode : sync_mode s = 0 \/ sync_mode s = 1;
  s_ph0 : sync_mode s = 0 ->
          sync_q s = [] /\ retrieved s = [] /\ c_nosync (c_pc s) = true
          /\ (a_pc s = A_E3 \/ a_pc s = A_E2)
          /\ exists ws, a_script s = OSync 1 :: ws /\ Forall is_wait ws;
  s_ph1 : sync_mode s = 1 -> k_pc (a_pc s) = true /\ Forall is_wait (a_script s);
  s_rp : forall p m, r_pc s = RD_P p m -> sp_ok p = true;
  s_rbuf : r_pc s = RD_Read -> r_buf s = []
}.

Lemma Inv_S_step_W : forall cfg s, Inv_S s -> Inv_S (step_W cfg s).
Proof.
  intros cfg s H. unfold step_W. destruct (virt cfg); auto.
  destruct H as [Heq Hpk Hsp Hf (Hi & dl & Hw) Hm H0 H1 Hrp Hrb]. rewrite Hw, Hi.
  destruct dl as [d|]; [destruct (d <=? clock s)|];
    (constructor; cbn; auto; split; auto; eexists; try reflexivity; eauto).
Qed.

Lemma Inv_S_tick : forall s, Inv_S s -> Inv_S (tick s).
Proof. intros s []. constructor; cbn; auto. Qed.

Lemma Inv_S_emit : forall s, Inv_S s -> Inv_S (emit s).
Proof.
  intros s H. unfold emit. destruct (spont s) as [|c r] eqn:Es; auto.
  destruct H as [Heq Hpk Hsp Hf Hi Hm H0 H1 Hrp Hrb]. rewrite Es in Hsp.
  inversion Hsp as [|? ? Hc Hr]; subst.
  constructor; cbn; auto.
  - unfold pipeS, hand_c, hand_r in *. cbn. rewrite concat_app, msgs_of_app. cbn. rewrite app_nil_r.
    rewrite <- Heq. rewrite <- !app_assoc. reflexivity.
  - apply Forall_app; split; auto.
Qed.

Lemma Inv_S_step_R : forall cfg s, has_conn cfg = true -> Inv_S s -> Inv_S (step_R cfg s).
Proof.
  intros cfg s Hc H. unfold step_R. destruct (r_pc s) as [|p m|] eqn:Er; auto.
  - destruct (wire s) as [|c w] eqn:Ew; auto.
    destruct H as [Heq Hpk Hsp Hf Hi Hm H0 H1 Hrp Hrb].
    pose proof (Hrb Er) as Eb. pose proof (r_next_spec c) as Hn.
    constructor; cbn; auto.
    + unfold pipeS, hand_c, hand_r in *. cbn. rewrite Er, Eb, Ew in Heq. cbn in Heq.
      rewrite msgs_of_app in Heq. rewrite <- Heq.
      destruct (fst (r_next c)); try contradiction; destruct Hn as (E1 & E2); rewrite ?E1, ?E2; cbn;
        rewrite <- ?app_assoc; reflexivity.
    + intros p m E. destruct (fst (r_next c)); try discriminate; try contradiction.
      destruct Hn as (E1 & _). inversion E; subst. reflexivity.
    + intro E. destruct (fst (r_next c)); try discriminate; try contradiction. destruct Hn; auto.
  - destruct H as [Heq Hpk Hsp Hf Hi Hm H0 H1 Hrp Hrb].
    pose proof (Hrp _ _ Er) as Hok.
    pose proof (r_next_spec (r_buf s)) as Hn.
    destruct p; cbn in Hok; try discriminate; cbn [pstep fst snd]; rewrite ?Hc, ?Hf.
    + (* P1 *) constructor; cbn; auto; try (intros; discriminate).
      * unfold pipeS, hand_c, hand_r in *; cbn; rewrite Er in Heq; exact Heq.
      * intros p m0 E; inversion E; reflexivity.
    + (* P5 *) constructor; cbn; auto; try (intros; discriminate).
      * unfold pipeS, hand_c, hand_r in *; cbn; rewrite Er in Heq; exact Heq.
      * intros p m0 E; inversion E; reflexivity.
    + (* P8l *) constructor; cbn; auto; try (intros; discriminate).
      * unfold pipeS, hand_c, hand_r in *; cbn; rewrite Er in Heq; exact Heq.
      * intros p m0 E; inversion E; reflexivity.
    + (* P8a *) constructor; cbn; auto; try (intros; discriminate).
      * unfold pipeS, hand_c, hand_r in *; cbn; rewrite Er in Heq; exact Heq.
      * intros p m0 E; inversion E; reflexivity.
    + (* P8b *) constructor; cbn; auto.
      * unfold pipeS, hand_c, hand_r in *. cbn. rewrite Er in Heq. rewrite <- Heq.
        destruct (fst (r_next (r_buf s))); try contradiction; destruct Hn as (E1 & E2); rewrite ?E1, ?E2; cbn;
          rewrite <- ?app_assoc; reflexivity.
      * intros p m0 E. destruct (fst (r_next (r_buf s))); try discriminate; try contradiction.
        destruct Hn as (E1 & _). inversion E; subst. reflexivity.
      * intro E. destruct (fst (r_next (r_buf s))); try discriminate; try contradiction. destruct Hn; auto.
Qed.

Ltac s_eq Heq :=
  unfold pipeS, hand_c, hand_r in *; cbn;
  repeat match goal with E : c_pc _ = _ |- _ => rewrite E in Heq end;
  repeat match goal with E : events _ = _ |- _ => rewrite E in Heq end;
  cbn in Heq; first [exact Heq | rewrite <- Heq; rewrite <- ?app_assoc; reflexivity].

Ltac s_ph0 H0 :=
  let E0 := fresh "E0" in
  intro E0; first [ destruct (H0 E0) as (? & ? & ? & ? & ?); repeat split; auto; fail
                  | match goal with E : sync_mode _ = 1 |- _ => rewrite E in E0; discriminate end ].

Ltac s_case Heq H0 := constructor; cbn; auto; try (s_eq Heq); try (s_ph0 H0).

Lemma Inv_S_step_C : forall cfg s, Inv_S s -> Inv_S (step_C cfg s).
Proof.
  intros cfg s H. unfold step_C. destruct (has_conn cfg); cbn [negb]; auto.
  pose proof H as HH.
  destruct H as [Heq Hpk Hsp Hf Hi Hm H0 H1 Hrp Hrb].
  destruct (c_pc s) eqn:Ec.
  - (* Get *)
    destruct (events s) as [|m r] eqn:Ee; auto. s_case Heq H0.
  - (* C2 *)
    assert (E2 : (sync_mode s =? 2) = false) by (destruct Hm as [E|E]; rewrite E; reflexivity).
    rewrite E2. s_case Heq H0.
  - (* C5 *)
    destruct Hm as [E|E]; rewrite E; cbn [N.eqb Pos.eqb].
    + destruct (H0 E) as (Eq & Er & Hn & Ha & Hs).
      assert (Hp : delivered s ++ [m] ++ events s ++ hand_r s ++ msgs_of (r_buf s) ++ msgs_of (concat (wire s)) = emitted s).
      { unfold pipeS, hand_c in Heq. rewrite Ec, Eq, Er in Heq. cbn in Heq. exact Heq. }
      destruct (m_pkt m); constructor; cbn; auto;
        try (unfold pipeS, hand_c; cbn; rewrite Eq, Er; cbn; rewrite <- Hp; rewrite <- ?app_assoc; reflexivity);
        intro E'; repeat split; auto.
    + s_case Heq H0.
  - (* S1 *)
    assert (E2 : (sync_mode s =? 2) = false) by (destruct Hm as [E|E]; rewrite E; reflexivity).
    rewrite E2. destruct Hm as [E|E]; [destruct (H0 E) as (? & ? & Hn & _); cbn in Hn; discriminate|].
    s_case Heq H0.
  - (* S2 *)
    destruct Hm as [E|E]; [destruct (H0 E) as (? & ? & Hn & _); cbn in Hn; discriminate|].
    rewrite E. cbn [N.leb N.compare Pos.compare Pos.compare_cont]. s_case Heq H0.
  - (* SPut *)
    destruct Hm as [E|E]; [destruct (H0 E) as (? & ? & Hn & _); cbn in Hn; discriminate|].
    s_case Heq H0.
  - (* L1 *) s_case Heq H0.
  - (* L2 *) destruct (locked s); s_case Heq H0.
  - (* A *) destruct (lk s); auto. destruct (legacy_unlock cfg); s_case Heq H0.
  - (* T *) destruct (locked s); s_case Heq H0.
  - (* Put *) s_case Heq H0.
  - (* Rel *) s_case Heq H0.
  - (* RelD *) s_case Heq H0.
  - (* D *) s_case Heq H0.
Qed.

Lemma a_begin_waits : forall cfg ws, Forall is_wait ws -> k_pc (a_begin cfg ws) = true.
Proof. intros cfg [|[] r] H; cbn; auto; inversion H; subst; contradiction. Qed.

Lemma pipeS_In_sync : forall s m, In m (sync_q s) -> In m (pipeS s).
Proof. intros s m H. unfold pipeS. apply in_or_app; right. apply in_or_app; right. apply in_or_app; left; auto. Qed.

Lemma Inv_S_step_A : forall cfg s, legacy_sync cfg = false -> Inv_S s -> Inv_S (step_A cfg s).
Proof.
  intros cfg s Hls H. unfold step_A.
  pose proof H as HH.
  destruct H as [Heq Hpk Hsp Hf Hi Hm H0 H1 Hrp Hrb].
  assert (Hpc : a_pc s = A_E3 \/ a_pc s = A_E2 \/ k_pc (a_pc s) = true).
  { destruct Hm as [E|E]; [destruct (H0 E) as (_ & _ & _ & [?|?] & _); auto | destruct (H1 E); auto]. }
  destruct (a_pc s) eqn:Epc; auto;
    try (exfalso; destruct Hpc as [X|[X|X]]; discriminate).
  - (* E2: the mode is stored (after the queue has been cleared) *)
    destruct Hm as [E|E]; [|destruct (H1 E) as (X & _); discriminate].
    destruct (H0 E) as (Eq & Er & Hn & _ & ws & Esc & Hws).
    unfold cur_mode. rewrite Esc, Hls. cbn [N.eqb orb].
    unfold a_finish. constructor; cbn; auto; try (intros; discriminate);
      try (unfold pipeS, hand_c, hand_r in *; cbn; exact Heq).
    intros _. rewrite Esc. cbn. split; auto. apply a_begin_waits; auto.
  - (* E3: the synchronous queue is cleared first *)
    destruct Hm as [E|E]; [|destruct (H1 E) as (X & _); discriminate].
    destruct (H0 E) as (Eq & Er & Hn & _ & ws & Esc & Hws).
    unfold cur_mode. rewrite Esc, Hls. cbn [N.eqb orb].
    constructor; cbn; auto; try (intros; discriminate);
      try (unfold pipeS, hand_c, hand_r in *; cbn; rewrite Eq in Heq; exact Heq);
      try (intro E'; rewrite E in E'; discriminate).
    intros _. repeat split; auto. exists ws; auto.
  - (* K1 *)
    destruct Hm as [E|E]; [destruct (H0 E) as (_ & _ & _ & [X|X] & _); discriminate|].
    destruct (H1 E) as (_ & Hws). rewrite E. cbn [N.leb N.compare Pos.compare Pos.compare_cont].
    constructor; cbn; auto; try (intros; discriminate);
      try (intro E'; rewrite E in E'; discriminate).
  - (* K2 *)
    destruct Hm as [E|E]; [destruct (H0 E) as (_ & _ & _ & [X|X] & _); discriminate|].
    destruct (H1 E) as (_ & Hws).
    assert (Htl : Forall is_wait (tl (a_script s))) by (destruct (a_script s); cbn; auto; inversion Hws; auto).
    assert (Hfin : forall s1, sync_mode s1 = 1 -> a_script s1 = a_script s ->
               k_pc (a_pc (a_finish cfg s1)) = true /\ Forall is_wait (a_script (a_finish cfg s1))).
    { intros s1 _ E2. unfold a_finish. cbn. rewrite E2. split; auto. apply a_begin_waits; auto. }
    destruct (sync_q s) as [|m q] eqn:Eq.
    + destruct (cur_wait s) as [t|]; auto.
      destruct dl as [d|]; [destruct (d <=? clock s); auto|].
      * (* the wait times out *)
        unfold a_finish. constructor; cbn; auto; try (intros E'; rewrite E in E'; discriminate);
          try (intros _; split; auto; apply a_begin_waits; auto).
        unfold pipeS, hand_c, hand_r, gotten in *. cbn. rewrite flat_map_app. cbn. rewrite app_nil_r. rewrite Eq in Heq. rewrite Eq. exact Heq.
      * constructor; cbn; auto; try (intros E'; rewrite E in E'; discriminate).
    + (* a packet is retrieved *)
      assert (Hp : m_pkt m && m_conv m = true).
      { assert (Hin : In m (emitted s)) by (rewrite <- Heq; apply pipeS_In_sync; rewrite Eq; left; auto).
        rewrite Forall_forall in Hpk. auto. }
      rewrite Hp. unfold a_finish. constructor; cbn; auto; try (intros E'; rewrite E in E'; discriminate);
        try (intros _; split; auto; apply a_begin_waits; auto).
      unfold pipeS, hand_c, hand_r, gotten in *. cbn. rewrite flat_map_app. cbn. rewrite Eq in Heq.
      rewrite <- Heq. rewrite <- !app_assoc. reflexivity.
Qed.

Lemma Inv_S_act : forall cfg, has_conn cfg = true -> legacy_sync cfg = false ->
  forall a s, Inv_S s -> Inv_S (act cfg a s).
Proof.
  intros cfg H1 H2 [[]| |] s H; cbn [act step].
  - apply Inv_S_step_A; auto.
  - apply Inv_S_step_W; auto.
  - apply Inv_S_step_R; auto.
  - apply Inv_S_step_C; auto.
  - apply Inv_S_tick; auto.
  - apply Inv_S_emit; auto.
Qed.

Lemma Inv_S_init : forall cfg ws sp l0,
  legacy_sync cfg = false -> Forall is_wait ws -> Forall pkt_chunk sp ->
  Inv_S (init cfg (OSync 1 :: ws) sp l0).
Proof.
  intros cfg ws sp l0 Hls Hws Hsp. unfold init. cbn [a_begin N.eqb]. rewrite Hls.
  constructor; cbn; auto; try (intros; discriminate).
  - split; eauto.
  - intros _. repeat split; auto. exists ws; auto.
Qed.

(** sync_exactly_once (repaired enable_synchronous): once synchronous mode is requested, under
    every schedule and for every stream of packets: what was processed normally before the
    mode took effect, followed by what wait_packet returned, followed by what waits in the
    synchronous queue, followed by what is still on its way, is exactly what the device
    emitted, in order.  Every packet is in exactly one of these places: retrievable once, in
    arrival order, and (unlock_exactly_once_in_order: [dispatched] only holds packets of
    [delivered]) not also dispatched. *)
Lemma sync_exactly_once :
  forall cfg ws sp l0 sched,
    has_conn cfg = true -> legacy_sync cfg = false -> Forall is_wait ws -> Forall pkt_chunk sp ->
    let s := run cfg sched (init cfg (OSync 1 :: ws) sp l0) in
    pipeS s = emitted s.
Proof.
  intros cfg ws sp l0 sched Hc Hls Hws Hsp s.
  assert (H : Inv_S s).
  { apply run_invariant; [apply Inv_S_act; auto | apply Inv_S_init; auto]. }
  destruct H; auto.
Qed.

(** enable_synchronous as found (mode stored, then the queue cleared): a packet saved in
    between is neither retrievable nor dispatched. *)
Definition ls_cfg : config := mkConfig true false 3 false false false true.
Definition ls_sched : list action :=
  [Emit; Step TR; Step TR; Step TR; Step TR; Step TR; Step TR;   (* the packet reaches the events queue *)
   Step TA;                                                     (* mode := PKT *)
   Step TC; Step TC; Step TC; Step TC; Step TC; Step TC;        (* saved in the synchronous queue *)
   Step TA;                                                     (* queue cleared *)
   Step TA; Step TA; Tick; Tick; Step TA].                      (* wait_packet(1) -> None *)

Lemma sync_legacy_refuted :
  exists (cfg : config) (ws : list op) (sp : list chunk) (sched : list action),
    legacy_sync cfg = true /\
    let s := run cfg sched (init cfg (OSync 1 :: ws) sp false) in
    emitted s = [mkMsg 0 1 true] /\ pipeS s = [] /\ retrieved s = [None] /\ dispatched s = []
    /\ a_pc s = A_Done.
Proof.
  exists ls_cfg, [OWait (Some 1)], lu_spont, ls_sched. split; [reflexivity|].
  vm_compute. repeat split; reflexivity.
Qed.

(** ---- Bridge.__init__ --------------------------------------------------------------------- *)

Definition cnt (x : msg) (l : list msg) : nat := length (filter (msg_eqb x) l).

Lemma cnt_app : forall x a b, cnt x (a ++ b) = (cnt x a + cnt x b)%nat.
Proof. intros. unfold cnt. rewrite filter_app, app_length. reflexivity. Qed.

Lemma cnt_nil : forall x, cnt x [] = 0%nat.
Proof. reflexivity. Qed.

Lemma cnt_cons : forall x m l, cnt x (m :: l) = (cnt x [m] + cnt x l)%nat.
Proof. intros. change (m :: l) with ([m] ++ l). apply cnt_app. Qed.

Lemma cnt_filter_app : forall x (f : msg -> bool) a b,
  cnt x (filter f (a ++ b)) = (cnt x (filter f a) + cnt x (filter f b))%nat.
Proof. intros. rewrite filter_app. apply cnt_app. Qed.

Global Opaque cnt.

Definition shand_c (s : side) : list msg :=
  match d_cpc s with
  | CC_C2 m | CC_C5 m | CC_L1 m | CC_L2 m | CC_A m | CC_T m | CC_Put m | CC_RelD m | CC_D m => [m]
  | _ => []
  end.
Definition shand_x (s : side) : list msg :=
  match d_xpc s with X_C2 m | X_C5 m | X_R1 m | X_R2 m => [m] | _ => [] end.
Definition shand_r (s : side) : list msg :=
  match d_rpc s with BR_P _ m => [m] | _ => [] end.
Definition dir_eqb (a b : dir) : bool :=
  match a, b with DIn, DIn | DOut, DOut => true | _, _ => false end.
Definition ahand (d : dir) (p : bapc) : list msg :=
  match p with BU_R1 d' m | BU_R2 d' m => if dir_eqb d d' then [m] else [] | _ => [] end.

(** Every message of one side of the scenario, wherever it currently is. *)
Definition sbody (s : side) : list msg :=
  d_peer s ++ d_lost s ++ filter (fun m => negb (m_pkt m)) (d_deliv_o s) ++ d_lq s
  ++ shand_c s ++ shand_x s ++ d_ev_o s ++ d_ev_w s ++ d_outq s
  ++ shand_r s ++ msgs_of (d_rbuf s) ++ msgs_of (concat (d_wire s)) ++ msgs_of (concat (d_spont s)).

Definition ball (d : dir) (s : bstate) : list msg := sbody (bside d s) ++ ahand d (b_apc s).

Record SInv (s : side) : Prop := mkSInv {
  ib_ready : d_conn s = true -> d_wready s = true;
  ib_alive : d_rpc s <> BR_Dead;
  ib_q : forall p m, d_rpc s = BR_P p m ->
           p <> Q6 /\ (p = Q8b true -> d_wready s = true);
  ib_rbuf : d_rpc s = BR_Read -> d_rbuf s = []
}.

Lemma br_next_spec : forall buf,
  match fst (br_next buf) with
  | BR_Read => msgs_of buf = [] /\ snd (br_next buf) = []
  | BR_P p m => p = Q1 /\ msgs_of buf = m :: msgs_of (snd (br_next buf))
  | BR_Dead => False
  end.
Proof. induction buf as [|[m|] b IH]; cbn; auto. Qed.

Ltac c_tac :=
  unfold ball, sbody, shand_c, shand_x, shand_r; cbn;
  rewrite ?concat_app, ?msgs_of_app, ?cnt_app, ?cnt_filter_app; cbn [concat msgs_of filter app];
  rewrite ?cnt_app, ?cnt_nil;
  repeat match goal with
         | |- context [cnt ?x (?m :: ?l)] =>
             lazymatch l with [] => fail | _ => rewrite (cnt_cons x m l) end
         end;
  rewrite ?cnt_app, ?cnt_nil; try lia.

Lemma sstep_R_conserves : forall s x, SInv s ->
  SInv (sstep_R false s) /\ cnt x (sbody (sstep_R false s)) = cnt x (sbody s)
  /\ d_wready (sstep_R false s) = d_wready s /\ d_conn (sstep_R false s) = d_conn s.
Proof.
  intros s x HI. pose proof HI as [Hr Hal Hq Hrb].
  unfold sstep_R. destruct (d_rpc s) as [|p m|] eqn:Er; [| |contradiction].
  - destruct (d_wire s) as [|c w] eqn:Ew; [split; [exact HI|repeat split; reflexivity]|].
    pose proof (br_next_spec c) as Hn. pose proof (Hrb eq_refl) as Eb.
    split; [|split; [|split; reflexivity]].
    + constructor; cbn; auto.
      * destruct (fst (br_next c)); try discriminate; contradiction.
      * intros p m E. destruct (fst (br_next c)); try discriminate; try contradiction.
        destruct Hn as (E1 & _). inversion E; subst. repeat split; discriminate.
      * intro E. destruct (fst (br_next c)); try discriminate; try contradiction. destruct Hn; auto.
    + c_tac. rewrite Er, Ew, Eb. c_tac.
      destruct (fst (br_next c)); try contradiction; destruct Hn as (E1 & E2); rewrite ?E1, ?E2; c_tac.
  - destruct (Hq _ _ eq_refl) as (H6 & H8).
    pose proof (br_next_spec (d_rbuf s)) as Hn.
    destruct p; try congruence.
    + (* Q1 *) split; [constructor; cbn; auto; try discriminate; intros p m0 E; inversion E; subst; repeat split; discriminate|].
      split; [c_tac; rewrite ?Er; c_tac|split; reflexivity].
    + (* Q5: the single load of the filter *)
      destruct (d_filt s) as [f|]; [destruct (matches f m)|];
        (split; [constructor; cbn; auto; try discriminate; intros p m0 E; inversion E; subst; repeat split; discriminate|];
         split; [c_tac; rewrite ?Er; c_tac|split; reflexivity]).
    + (* Q7: kept in the device's pending queue *)
      idtac.
        split; [|split; [|split; cbn; auto]].
        -- constructor; cbn; auto.
           ++ destruct (fst (br_next (d_rbuf s))); try discriminate; contradiction.
           ++ intros p m0 E. destruct (fst (br_next (d_rbuf s))); try discriminate; try contradiction.
              destruct Hn as (E1 & _). inversion E; subst. repeat split; discriminate.
           ++ intro E. destruct (fst (br_next (d_rbuf s))); try discriminate; try contradiction. destruct Hn; auto.
        -- c_tac. rewrite Er. c_tac.
           destruct (fst (br_next (d_rbuf s))); try contradiction; destruct Hn as (E1 & E2); rewrite ?E1, ?E2; c_tac.
    + (* Q8l *) split; [constructor; cbn; auto; try discriminate; intros p m0 E; inversion E; subst; repeat split; discriminate|].
      split; [c_tac; rewrite ?Er; c_tac|split; reflexivity].
    + (* Q8a *) split; [constructor; cbn; auto; try discriminate; intros p m0 E; inversion E; subst; repeat split; try discriminate|].
      * intro E'. inversion E' as [E'']. rewrite E''. apply Hr; auto.
      * split; [c_tac; rewrite ?Er; c_tac|split; reflexivity].
    + (* Q8b *)
      destruct to_wrapper.
      * pose proof (H8 eq_refl) as Hw. rewrite Hw.
        split; [|split; [|split; cbn; auto]].
        -- constructor; cbn; auto.
           ++ destruct (fst (br_next (d_rbuf s))); try discriminate; contradiction.
           ++ intros p m0 E. destruct (fst (br_next (d_rbuf s))); try discriminate; try contradiction.
              destruct Hn as (E1 & _). inversion E; subst. repeat split; discriminate.
           ++ intro E. destruct (fst (br_next (d_rbuf s))); try discriminate; try contradiction. destruct Hn; auto.
        -- c_tac. rewrite Er. c_tac.
           destruct (fst (br_next (d_rbuf s))); try contradiction; destruct Hn as (E1 & E2); rewrite ?E1, ?E2; c_tac.
      * idtac.
        split; [|split; [|split; cbn; auto]].
        -- constructor; cbn; auto.
           ++ destruct (fst (br_next (d_rbuf s))); try discriminate; contradiction.
           ++ intros p m0 E. destruct (fst (br_next (d_rbuf s))); try discriminate; try contradiction.
              destruct Hn as (E1 & _). inversion E; subst. repeat split; discriminate.
           ++ intro E. destruct (fst (br_next (d_rbuf s))); try discriminate; try contradiction. destruct Hn; auto.
        -- c_tac. rewrite Er. c_tac.
           destruct (fst (br_next (d_rbuf s))); try contradiction; destruct Hn as (E1 & E2); rewrite ?E1, ?E2; c_tac.
Qed.

Lemma sstep_C_conserves : forall s x, SInv s ->
  SInv (sstep_C s) /\ cnt x (sbody (sstep_C s)) = cnt x (sbody s)
  /\ d_wready (sstep_C s) = d_wready s /\ d_conn (sstep_C s) = d_conn s.
Proof.
  intros s x HI. pose proof HI as [Hr Hal Hq Hrb]. unfold sstep_C.
  destruct (d_cpc s) eqn:Ec; split_match;
    (split; [constructor; cbn; auto | split; [c_tac; rewrite ?Ec, ?Heql, ?Heqb; c_tac | split; reflexivity]]).
Qed.

Lemma sstep_X_conserves : forall s x, SInv s ->
  SInv (sstep_X s) /\ cnt x (sbody (sstep_X s)) = cnt x (sbody s)
  /\ d_wready (sstep_X s) = d_wready s /\ d_conn (sstep_X s) = d_conn s.
Proof.
  intros s x HI. pose proof HI as [Hr Hal Hq Hrb]. unfold sstep_X.
  destruct (d_xpc s) eqn:Ex; split_match;
    (split; [constructor; cbn; auto | split; [c_tac; rewrite ?Ex, ?Heql, ?Heqb; c_tac | split; reflexivity]]).
Qed.

Lemma semit_conserves : forall s x, SInv s ->
  SInv (semit s) /\ cnt x (sbody (semit s)) = cnt x (sbody s)
  /\ d_wready (semit s) = d_wready s /\ d_conn (semit s) = d_conn s.
Proof.
  intros s x HI. pose proof HI as [Hr Hal Hq Hrb]. unfold semit.
  destruct (d_spont s) as [|c r] eqn:Es; [split; [exact HI|repeat split; reflexivity]|].
  split; [constructor; cbn; auto|]. split; [c_tac; rewrite Es; c_tac|split; reflexivity].
Qed.

(** Which wrappers have their event queue once the application thread is at [p]. *)
Definition ready_by (d : dir) (p : bapc) : bool :=
  match p with
  | BA_F1 | BA_F2 | BA_W1b | BA_W1c => false
  | BA_W1 | BA_W2b | BA_W2c => match d with DIn => true | DOut => false end
  | _ => true
  end.

Record Inv_B (s : bstate) : Prop := mkInvB {
  gb_in : SInv (b_in s);
  gb_out : SInv (b_out s);
  gb_ready : forall d, ready_by d (b_apc s) = true -> d_wready (bside d s) = true
}.

Lemma bside_bupd_same : forall d f s, bside d (bupd d f s) = f (bside d s).
Proof. intros [] f s; reflexivity. Qed.
Lemma bside_bupd_other : forall d d' f s, d <> d' -> bside d' (bupd d f s) = bside d' s.
Proof. intros [] [] f s H; try reflexivity; congruence. Qed.
Lemma bapc_bupd : forall d f s, b_apc (bupd d f s) = b_apc s.
Proof. intros [] f s; reflexivity. Qed.

(** A step of one of the three threads of side [d]. *)
Lemma side_step_conserves : forall (f : side -> side) d s x,
  (forall y, SInv y -> SInv (f y) /\ cnt x (sbody (f y)) = cnt x (sbody y)
                       /\ d_wready (f y) = d_wready y /\ d_conn (f y) = d_conn y) ->
  Inv_B s ->
  Inv_B (bupd d f s) /\ forall d', cnt x (ball d' (bupd d f s)) = cnt x (ball d' s).
Proof.
  intros f d s x Hf [Hi Ho Hr].
  assert (Hd : SInv (bside d s)) by (destruct d; auto).
  destruct (Hf _ Hd) as (H1 & H2 & H3 & H4).
  split.
  - constructor.
    + destruct d; cbn; auto.
    + destruct d; cbn; auto.
    + intros d' Hrd. rewrite bapc_bupd in Hrd. specialize (Hr d' Hrd).
      destruct d, d'; cbn in *; auto; congruence.
  - intros d'. unfold ball. rewrite bapc_bupd, !cnt_app.
    destruct d, d'; cbn [bside bupd b_in b_out]; auto; rewrite H2; reflexivity.
Qed.

Lemma bstep_A_conserves : forall cfg s x, legacy_ctor cfg = false -> Inv_B s ->
  Inv_B (bstep_A cfg s) /\ forall d', cnt x (ball d' (bstep_A cfg s)) = cnt x (ball d' s).
Proof.
  intros cfg s x Hl HI. pose proof HI as [[Hr1 Hal1 Hq1 Hrb1] [Hr2 Hal2 Hq2 Hrb2] Hrd].
  unfold bstep_A. rewrite Hl.
  destruct (b_apc s) eqn:Ea; try destruct d; split_match;
    (split;
     [ constructor; [constructor|constructor|]; cbn; auto; try (intros; discriminate);
       try (intros p0 m0 E0; destruct (Hq1 _ _ E0) as (? & ?); repeat split; auto; fail);
       try (intros p0 m0 E0; destruct (Hq2 _ _ E0) as (? & ?); repeat split; auto; fail);
       try (intros _; apply (Hrd DIn); reflexivity);
       try (intros _; apply (Hrd DOut); reflexivity);
       try (intros [] Hx; cbn in Hx |- *; try discriminate; auto;
            first [apply (Hrd DIn); exact Hx | apply (Hrd DOut); exact Hx
                  | apply (Hrd DIn); reflexivity | apply (Hrd DOut); reflexivity])
     | intros []; unfold ahand; cbn [bside] in *; c_tac; rewrite ?Ea, ?Heql; unfold ahand; c_tac ]).
Qed.

Lemma bact_conserves : forall cfg a s x, legacy_ctor cfg = false -> legacy_filter cfg = false -> Inv_B s ->
  Inv_B (bact cfg a s) /\ forall d, cnt x (ball d (bact cfg a s)) = cnt x (ball d s).
Proof.
  intros cfg a s x Hl Hlf HI. destruct a; cbn [bact].
  - apply bstep_A_conserves; auto.
  - rewrite Hlf. apply side_step_conserves; auto. intros; apply sstep_R_conserves; auto.
  - apply side_step_conserves; auto. intros; apply sstep_C_conserves; auto.
  - apply side_step_conserves; auto. intros; apply sstep_X_conserves; auto.
  - destruct (quiet cfg && negb (bdone s)); [split; auto|].
    apply side_step_conserves; auto. intros; apply semit_conserves; auto.
  - split; auto.
Qed.

Lemma SInv_sinit : forall l f0 held ev0 sp, SInv (sinit l f0 held ev0 sp).
Proof. intros. constructor; cbn; auto; try discriminate; try (intros; discriminate). Qed.

Lemma Inv_B_init : forall si so, SInv si -> SInv so -> d_wready si = false \/ True ->
  Inv_B (binit2 si so).
Proof. intros si so Hi Ho _. constructor; cbn; auto. intros []; discriminate. Qed.

Lemma brun_conserves : forall cfg l s x, legacy_ctor cfg = false -> legacy_filter cfg = false -> Inv_B s ->
  Inv_B (brun cfg l s) /\ forall d, cnt x (ball d (brun cfg l s)) = cnt x (ball d s).
Proof.
  intros cfg l. unfold brun. induction l as [|a l IH]; intros s x Hl Hlf HI; cbn; auto.
  destruct (bact_conserves cfg a s x Hl Hlf HI) as (H1 & E1).
  destruct (IH _ x Hl Hlf H1) as (H2 & E2). split; auto. intro d. rewrite E2. apply E1.
Qed.

(** bridge_conservation (the part of bridge_relays_exactly_once_per_direction that holds under
    EVERY schedule, for messages of every kind, in both directions): the reader threads
    survive and every message of either side is, with its multiplicity, in exactly one place:
    relayed to the peer, handled by the old connector instead, held, or still on its way.
    Nothing is relayed twice, nothing vanishes. *)
Lemma bridge_conservation :
  forall q li fi hi ei spi lo fo ho eo spo sched x d,
    let s := brun (mkBC false q false) sched (binit2 (sinit li fi hi ei spi) (sinit lo fo ho eo spo)) in
    d_rpc (bside d s) <> BR_Dead
    /\ cnt x (ball d s) = cnt x (match d with DIn => hi ++ ei ++ msgs_of (concat spi)
                                          | DOut => ho ++ eo ++ msgs_of (concat spo) end).
Proof.
  intros q li fi hi ei spi lo fo ho eo spo sched x d s.
  assert (H0 : Inv_B (binit2 (sinit li fi hi ei spi) (sinit lo fo ho eo spo)))
    by (apply Inv_B_init; auto using SInv_sinit).
  destruct (brun_conserves (mkBC false q false) sched _ x eq_refl eq_refl H0) as (HI & E). fold s in HI, E.
  split.
  - destruct HI as [Hi Ho _]. destruct d; cbn; [apply (ib_alive _ Hi)|apply (ib_alive _ Ho)].
  - rewrite E. destruct d; unfold ball, sbody, shand_c, shand_x, shand_r, ahand; cbn;
      rewrite ?cnt_app, ?cnt_nil; lia.
Qed.

(** The full statement, and what refutes it. *)
Definition bridge_relays_exactly_once_per_direction_statement : Prop :=
  forall li hi ei spi lo ho eo spo sched,
    let s := brun (mkBC false false false) sched (binit2 (sinit li None hi ei spi) (sinit lo None ho eo spo)) in
    bquiet s = true ->
    d_peer (b_in s) = hi ++ ei ++ msgs_of (concat spi)
    /\ d_peer (b_out s) = ho ++ eo ++ msgs_of (concat spo).

Definition p1 := mkMsg 0 1 true.
Definition p2 := mkMsg 0 2 true.

(** Bridge.__init__ attaches the wrapper, then flushes what was held: a packet arriving in
    between overtakes the held one. *)
Definition br_sched_order : list baction :=
  repeat BA 8 ++ [BEmit DIn] ++ repeat (BR DIn) 7 ++ repeat (BX DIn) 7 ++ repeat BA 20.

(** An event still in the old connector's queue is processed by the old connector's I/O
    thread after the unlock: it is handed to the old connector's packet handler, never
    relayed. *)
Definition br_sched_loss : list baction := repeat BA 24 ++ repeat (BC DIn) 10.

Lemma bridge_refuted :
  (let s := brun (mkBC false false false) br_sched_order (binit [p1] [] [[Some p2]]) in
   bquiet s = true /\ d_peer (b_in s) = [p2; p1])
  /\
  (let s := brun (mkBC false false false) br_sched_loss (binit [] [p1] []) in
   bquiet s = true /\ d_peer (b_in s) = [] /\ d_lost (b_in s) = [p1]).
Proof. split; vm_compute; repeat split; reflexivity. Qed.

Lemma bridge_statement_refuted : ~ bridge_relays_exactly_once_per_direction_statement.
Proof.
  intro H. specialize (H true [p1] [] [[Some p2]] false [] [] [] br_sched_order). cbv zeta in H.
  assert (E : bquiet (brun (mkBC false false false) br_sched_order (binit [p1] [] [[Some p2]])) = true) by (vm_compute; reflexivity).
  destruct (H E) as (H1 & _).
  assert (X : list_eqb msg_eqb (d_peer (b_in (brun (mkBC false false false) br_sched_order (binit [p1] [] [[Some p2]]))))
                       ([p1] ++ [] ++ msgs_of (concat [[Some p2]])) = false) by (vm_compute; reflexivity).
  unfold binit in X. rewrite H1 in X. vm_compute in X. discriminate X.
Qed.

(** Connector.__init__ as found: the reader thread dies on the half-built wrapper. *)
Lemma bridge_legacy_ctor_refuted :
  exists sp sched,
    d_rpc (b_in (brun (mkBC true false false) sched (binit [] [] sp))) = BR_Dead.
Proof.
  exists [[Some p1]], (repeat BA 3 ++ [BEmit DIn] ++ repeat (BR DIn) 7). vm_compute. reflexivity.
Qed.

(** ---- a bridge created on a quiet link relays everything, in order --------------------------- *)

Definition stage_conn (d : dir) (p : bapc) : bool :=
  match p with
  | BA_F1 | BA_F2 | BA_W1b | BA_W1c | BA_W1 => false
  | BA_W2b | BA_W2c | BA_W2 => match d with DIn => true | DOut => false end
  | _ => true
  end.

(** Once the application thread is past the unlock of side [d]. *)
Definition past_unlock (d : dir) (p : bapc) : bool :=
  match d, p with
  | DIn, (BA_L1 DOut | BA_L2 DOut | BU_1 DOut | BU_2 DOut | BU_3 DOut | BU_R1 DOut _ | BU_R2 DOut _
         | BU_6 DOut | BU_5 DOut) => true
  | _, _ => false
  end.

Definition b5_pc (d : dir) (p : bapc) : bool :=
  match p with BU_5 d' => dir_eqb d d' | _ => false end.

(** The filter of side [d]'s device has been reset (B1 / B2 of DESIGN Appendix A). *)
Definition past_F (d : dir) (p : bapc) : bool :=
  match p with
  | BA_F1 => false
  | BA_F2 => match d with DIn => true | DOut => false end
  | _ => true
  end.

Definition drained_pc (d : dir) (p : bapc) : bool :=
  match p with BU_6 d' | BU_5 d' => dir_eqb d d' | _ => false end.

(** While Bridge.__init__ runs on a quiet link, nothing but the application thread moves. *)
Record QA (held : list msg) (sp : list chunk) (d : dir) (s : bstate) : Prop := mkQA {
  qa_idle : d_wire (bside d s) = [] /\ d_spont (bside d s) = sp /\ d_rpc (bside d s) = BR_Read
            /\ d_rbuf (bside d s) = [] /\ d_ev_o (bside d s) = [] /\ d_cpc (bside d s) = CC_Get
            /\ d_ev_w (bside d s) = [] /\ d_xpc (bside d s) = X_Get
            /\ (past_F d (b_apc s) = true -> d_filt (bside d s) = None);
  qa_conn : stage_conn d (b_apc s) = true -> d_conn (bside d s) = true;
  qa_ready : ready_by d (b_apc s) = true -> d_wready (bside d s) = true;
  qa_eq : d_peer (bside d s) ++ ahand d (b_apc s) ++ d_lq (bside d s) = held;
  qa_unl : d_locked (bside d s) = false -> d_lq (bside d s) = [];
  qa_dr : drained_pc d (b_apc s) = true -> d_lq (bside d s) = [];
  qa_b5 : b5_pc d (b_apc s) = true -> d_locked (bside d s) = false;
  qa_past : past_unlock d (b_apc s) = true -> d_locked (bside d s) = false
}.

(** Afterwards everything goes through the wrapper, which is FIFO. *)
Record QB (held : list msg) (sp : list chunk) (x : side) : Prop := mkQB {
  qb_st : d_conn x = true /\ d_wready x = true /\ d_filt x = None /\ d_ev_o x = [] /\ d_cpc x = CC_Get;
  qb_rp : forall p m, d_rpc x = BR_P p m -> p <> Q6 /\ p <> Q7 /\ p <> Q8b false;
  qb_rb : d_rpc x = BR_Read -> d_rbuf x = [];
  qb_al : d_rpc x <> BR_Dead;
  qb_eq : d_peer x ++ shand_x x ++ d_ev_w x ++ shand_r x ++ msgs_of (d_rbuf x)
          ++ msgs_of (concat (d_wire x)) ++ msgs_of (concat (d_spont x)) = held ++ msgs_of (concat sp)
}.

Definition QInv (hi ho : list msg) (spi spo : list chunk) (s : bstate) : Prop :=
  if bdone s then QB hi spi (b_in s) /\ QB ho spo (b_out s)
  else QA hi spi DIn s /\ QA ho spo DOut s.

Lemma QB_R : forall held sp x, QB held sp x -> QB held sp (sstep_R false x).
Proof.
  intros held sp x HQ. pose proof HQ as [(Hc & Hw & Hf & He & Hp) Hrp Hrb Hal Heq]. unfold sstep_R.
  destruct (d_rpc x) as [|p m|] eqn:Er; [| |contradiction].
  - destruct (d_wire x) as [|c w] eqn:Ew; [exact HQ|].
    pose proof (br_next_spec c) as Hn. pose proof (Hrb eq_refl) as Eb.
    constructor; cbn; auto.
    + intros p m E. destruct (fst (br_next c)); try discriminate; try contradiction.
      destruct Hn as (E1 & _). inversion E; subst. repeat split; discriminate.
    + intro E. destruct (fst (br_next c)); try discriminate; try contradiction. destruct Hn; auto.
    + destruct (fst (br_next c)); try discriminate; contradiction.
    + unfold shand_x, shand_r in *. cbn. rewrite ?Er, ?Ew, ?Eb in Heq. cbn in Heq. rewrite msgs_of_app in Heq.
      rewrite <- Heq.
      destruct (fst (br_next c)); try contradiction; destruct Hn as (E1 & E2); rewrite ?E1, ?E2; cbn;
        rewrite <- ?app_assoc; reflexivity.
  - destruct (Hrp _ _ eq_refl) as (H6 & H7 & H8).
    pose proof (br_next_spec (d_rbuf x)) as Hn.
    destruct p; try congruence; rewrite ?Hf, ?Hc.
    + constructor; cbn; auto; try discriminate.
      * intros p m0 E; inversion E; subst; repeat split; discriminate.
      * unfold shand_x, shand_r in *; cbn; rewrite Er in Heq; exact Heq.
    + constructor; cbn; auto; try discriminate.
      * intros p m0 E; inversion E; subst; repeat split; discriminate.
      * unfold shand_x, shand_r in *; cbn; rewrite Er in Heq; exact Heq.
    + constructor; cbn; auto; try discriminate.
      * intros p m0 E; inversion E; subst; repeat split; discriminate.
      * unfold shand_x, shand_r in *; cbn; rewrite Er in Heq; exact Heq.
    + constructor; cbn; auto; try discriminate.
      * intros p m0 E; inversion E; subst; repeat split; discriminate.
      * unfold shand_x, shand_r in *; cbn; rewrite Er in Heq; exact Heq.
    + destruct to_wrapper; [|congruence]. rewrite Hw.
      constructor; cbn; auto.
      * intros p m0 E. destruct (fst (br_next (d_rbuf x))); try discriminate; try contradiction.
        destruct Hn as (E1 & _). inversion E; subst. repeat split; discriminate.
      * intro E. destruct (fst (br_next (d_rbuf x))); try discriminate; try contradiction. destruct Hn; auto.
      * destruct (fst (br_next (d_rbuf x))); try discriminate; contradiction.
      * unfold shand_x, shand_r in *. cbn. rewrite Er in Heq. rewrite <- Heq.
        destruct (fst (br_next (d_rbuf x))); try contradiction; destruct Hn as (E1 & E2); rewrite ?E1, ?E2; cbn;
          rewrite <- ?app_assoc; reflexivity.
Qed.

Lemma QB_C : forall held sp x, QB held sp x -> sstep_C x = x.
Proof. intros held sp x [(Hc & Hw & Hf & He & Hp) _ _ _ _]. unfold sstep_C. rewrite Hp, He. reflexivity. Qed.

Lemma QB_X : forall held sp x, QB held sp x -> QB held sp (sstep_X x).
Proof.
  intros held sp x HQ. pose proof HQ as [Hst Hrp Hrb Hal Heq]. unfold sstep_X.
  destruct (d_xpc x) eqn:Ex; split_match; try exact HQ; constructor; cbn; auto;
    unfold shand_x, shand_r in *; cbn; rewrite ?Ex, ?Heql in Heq; cbn in Heq;
    first [exact Heq | rewrite <- Heq; rewrite <- ?app_assoc; reflexivity].
Qed.

Lemma QB_emit : forall held sp x, QB held sp x -> QB held sp (semit x).
Proof.
  intros held sp x HQ. pose proof HQ as [Hst Hrp Hrb Hal Heq]. unfold semit.
  destruct (d_spont x) as [|c r] eqn:Es; [exact HQ|].
  constructor; cbn; auto. unfold shand_x, shand_r in *. cbn.
  rewrite ?Es in Heq. rewrite <- Heq. cbn [concat]. rewrite concat_app, !msgs_of_app. cbn. rewrite ?app_nil_r, <- ?app_assoc. reflexivity.
Qed.

Lemma bupd_id : forall d f s, f (bside d s) = bside d s -> bupd d f s = s.
Proof. intros [] f [si so p] E; cbn in *; rewrite E; reflexivity. Qed.

Lemma QA_idle_R : forall h sp d s lf, QA h sp d s -> sstep_R lf (bside d s) = bside d s.
Proof. intros h sp d s lf [(E1 & _ & E3 & _) _ _ _ _ _ _ _]. unfold sstep_R. rewrite E3, E1. reflexivity. Qed.
Lemma QA_idle_C : forall h sp d s, QA h sp d s -> sstep_C (bside d s) = bside d s.
Proof. intros h sp d s [(_ & _ & _ & _ & E5 & E6 & _) _ _ _ _ _ _ _]. unfold sstep_C. rewrite E6, E5. reflexivity. Qed.
Lemma QA_idle_X : forall h sp d s, QA h sp d s -> sstep_X (bside d s) = bside d s.
Proof. intros h sp d s [(_ & _ & _ & _ & _ & _ & E7 & E8 & _) _ _ _ _ _ _ _]. unfold sstep_X. rewrite E8, E7. reflexivity. Qed.

Lemma QA_frame : forall h sp d s s',
  bside d s' = bside d s -> b_apc s' = b_apc s -> QA h sp d s -> QA h sp d s'.
Proof. intros h sp d s s' E1 E2 []. constructor; rewrite ?E1, ?E2; auto. Qed.

Lemma bdone_bupd : forall d f s, bdone (bupd d f s) = bdone s.
Proof. intros [] f s; reflexivity. Qed.

Lemma QInv_side_step : forall hi ho spi spo (f : side -> side) d s,
  (forall h sp x, QB h sp x -> QB h sp (f x)) ->
  (forall h sp d' s', QA h sp d' s' -> f (bside d' s') = bside d' s') ->
  QInv hi ho spi spo s -> QInv hi ho spi spo (bupd d f s).
Proof.
  intros hi ho spi spo f d s HB HA H. unfold QInv in *. rewrite bdone_bupd.
  destruct (bdone s).
  - destruct H as (H1 & H2). destruct d; cbn; split; auto.
  - destruct H as (H1 & H2).
    assert (E : bupd d f s = s).
    { apply bupd_id. destruct d; [apply (HA _ _ _ _ H1)|apply (HA _ _ _ _ H2)]. }
    rewrite E. split; auto.
Qed.

Lemma QB_C' : forall h sp x, QB h sp x -> QB h sp (sstep_C x).
Proof. intros h sp x H. rewrite (QB_C h sp x H). exact H. Qed.

Lemma QA_emit_never : forall h sp d s, QA h sp d s -> semit (bside d s) = bside d s -> True.
Proof. auto. Qed.

Lemma QB_of_QA : forall h sp d s,
  QA h sp d s -> d_conn (bside d s) = true -> d_wready (bside d s) = true ->
  d_lq (bside d s) = [] -> ahand d (b_apc s) = [] -> past_F d (b_apc s) = true ->
  QB h sp (bside d s).
Proof.
  intros h sp d s [(E1 & E2 & E3 & E4 & E5 & E6 & E7 & E8 & E9) _ _ Heq _ _ _ _] Hc Hw Hq Ha Hf.
  specialize (E9 Hf).
  constructor; auto.
  - intros p m E. rewrite E3 in E. discriminate.
  - rewrite E3. discriminate.
  - unfold shand_x, shand_r. rewrite E8, E7, E3, E4, E1, E2. cbn.
    rewrite Hq, Ha in Heq. rewrite !app_nil_r in Heq. rewrite Heq. reflexivity.
Qed.

Lemma QB_lk : forall h sp x k,
  QB h sp x -> QB h sp (sset_o (d_ev_o x) (d_cpc x) (d_locked x) k (d_lq x) (d_deliv_o x) (d_lost x) x).
Proof. intros h sp x k []. constructor; auto. Qed.

Ltac qa_fin :=
  repeat match goal with
  | H : _ /\ _ |- _ => destruct H
  end;
  repeat split; auto; intros; cbn in *; try discriminate; try congruence; auto;
  try (match goal with H : ?A -> _ :: _ = [] , H' : ?A |- _ => specialize (H H'); discriminate end);
  try (rewrite <- app_assoc; assumption).

Lemma QInv_step_A : forall hi ho spi spo q s,
  QInv hi ho spi spo s -> QInv hi ho spi spo (bstep_A (mkBC false q false) s).
Proof.
  intros hi ho spi spo q s H. unfold QInv in *.
  destruct (bdone s) eqn:Ed.
  - assert (E : bstep_A (mkBC false q false) s = s)
      by (unfold bstep_A; unfold bdone in Ed; destruct (b_apc s); try discriminate; reflexivity).
    rewrite E, Ed. exact H.
  - destruct H as (HI & HO).
    pose proof HI as [(I1 & I2 & I3 & I4 & I5 & I6 & I7 & I8 & I9) Ic Ir Ie Iu Idr Ib5 Ip].
    pose proof HO as [(O1 & O2 & O3 & O4 & O5 & O6 & O7 & O8 & O9) Oc Or Oe Ou Odr Ob5 Op].
    unfold bstep_A. cbn [legacy_ctor].
    destruct (b_apc s) eqn:Ea; try discriminate; try destruct d; cbn [bside] in *.
    all: split_match.
    all: cbn [bdone bset_a b_apc after_side] in *; try discriminate.
    all: try (split; constructor; cbn; rewrite ?Ea, ?Heql in *; cbn in *; qa_fin; fail).
    + (* the output connector is not locked: __init__ returns *)
      split.
      * apply (QB_of_QA hi spi DIn s); auto; rewrite ?Ea; cbn; auto;
          try (apply Iu; apply Ip; rewrite ?Ea; reflexivity).
      * apply (QB_of_QA ho spo DOut s); auto; rewrite ?Ea; cbn; auto.
    + (* the output connector has been unlocked: __init__ returns *)
      split.
      * apply (QB_of_QA hi spi DIn s); auto; rewrite ?Ea; cbn; auto;
          try (apply Iu; apply Ip; rewrite ?Ea; reflexivity).
      * cbn. apply QB_lk. apply (QB_of_QA ho spo DOut s); auto; rewrite ?Ea; cbn; auto;
          try (apply Odr; rewrite ?Ea; reflexivity).
Qed.

Lemma QInv_act : forall hi ho spi spo a s,
  QInv hi ho spi spo s -> QInv hi ho spi spo (bact (mkBC false true false) a s).
Proof.
  intros hi ho spi spo a s H. destruct a; cbn [bact].
  - apply QInv_step_A; auto.
  - apply QInv_side_step; auto using QB_R. intros; eapply QA_idle_R; eauto.
  - apply QInv_side_step; auto using QB_C'. intros; eapply QA_idle_C; eauto.
  - apply QInv_side_step; auto using QB_X. intros; eapply QA_idle_X; eauto.
  - cbn [quiet]. destruct (bdone s) eqn:Ed; cbn [andb negb]; auto.
    unfold QInv in *. rewrite bdone_bupd, Ed in *. destruct H as (H1 & H2).
    destruct d; cbn; split; auto using QB_emit.
  - auto.
Qed.

Lemma QInv_init : forall li fi hi spi lo fo ho spo,
  (li = false -> hi = []) -> (lo = false -> ho = []) ->
  QInv hi ho spi spo (binit2 (sinit li fi hi [] spi) (sinit lo fo ho [] spo)).
Proof.
  intros li fi hi spi lo fo ho spo Hi Ho. unfold QInv. cbn.
  split; constructor; cbn; auto; try (intros; discriminate); repeat split; auto; try (intros; discriminate).
Qed.

Lemma QInv_run : forall hi ho spi spo l s0,
  QInv hi ho spi spo s0 -> QInv hi ho spi spo (brun (mkBC false true false) l s0).
Proof.
  intros hi ho spi spo. unfold brun. induction l as [|a l IH]; intros s0 H0; cbn; auto.
  apply IH. apply QInv_act; auto.
Qed.

(** bridge_quiet_link: when the bridge is created on a quiet link (no event pending in the
    old connectors, the devices only emit once Bridge.__init__ has returned), then under EVERY
    schedule, in BOTH directions and for messages of EVERY kind: once __init__ has returned,
    what was relayed, followed by what is on its way through the wrapper, is exactly what was
    held followed by what the device emitted -- so at quiescence every message has been
    relayed exactly once and in order. *)
Lemma bridge_quiet_link :
  forall li fi hi spi lo fo ho spo sched,
    (li = false -> hi = []) -> (lo = false -> ho = []) ->
    let s := brun (mkBC false true false) sched (binit2 (sinit li fi hi [] spi) (sinit lo fo ho [] spo)) in
    bdone s = true ->
    QB hi spi (b_in s) /\ QB ho spo (b_out s).
Proof.
  intros li fi hi spi lo fo ho spo sched Hi Ho s Hd.
  assert (H : QInv hi ho spi spo s).
  { apply QInv_run. apply QInv_init; auto. }
  unfold QInv in H. rewrite Hd in H. exact H.
Qed.

Lemma bridge_quiet_link_quiescent :
  forall li fi hi spi lo fo ho spo sched,
    (li = false -> hi = []) -> (lo = false -> ho = []) ->
    let s := brun (mkBC false true false) sched (binit2 (sinit li fi hi [] spi) (sinit lo fo ho [] spo)) in
    bquiet s = true ->
    d_peer (b_in s) = hi ++ msgs_of (concat spi) /\ d_peer (b_out s) = ho ++ msgs_of (concat spo).
Proof.
  intros li fi hi spi lo fo ho spo sched Hi Ho s Hq.
  unfold bquiet in Hq. apply andb_true_iff in Hq as [Hq Hq2]. apply andb_true_iff in Hq as [Hd Hq1].
  destruct (bridge_quiet_link li fi hi spi lo fo ho spo sched Hi Ho Hd) as (H1 & H2). fold s in H1, H2.
  assert (L : forall h sp x, QB h sp x -> squiet x = true -> d_peer x = h ++ msgs_of (concat sp)).
  { intros h sp x [_ _ Hrb _ Heq] Q. unfold squiet in Q. unfold shand_x, shand_r in Heq.
    destruct (d_rpc x) eqn:Er; try discriminate. destruct (d_cpc x); try discriminate.
    destruct (d_xpc x); try discriminate. destruct (d_wire x); try discriminate.
    destruct (d_spont x); try discriminate. destruct (d_ev_o x); try discriminate.
    destruct (d_ev_w x); try discriminate. rewrite (Hrb eq_refl) in Heq. cbn in Heq.
    rewrite app_nil_r in Heq. exact Heq. }
  split; eapply L; eauto.
Qed.

Definition nv5_sched : list action :=
  [Emit; Step TR; Step TR; Step TR; Step TR; Step TR; Step TR; Step TC; Step TC; Step TC; Step TC; Step TC;
   Step TA; Step TA; Emit] ++ concat (repeat [Step TA; Step TR; Step TC] 24).

Lemma nonvacuous5 :
  let cfg := mkConfig true false 3 false false false false in
  lock_wf true [OUnlock] /\
  let s := run cfg nv5_sched (init cfg [OUnlock] [[Some (mkMsg 0 1 true)]; [Some (mkMsg 0 2 true)]] true) in
  dispatched s = [mkMsg 0 1 true; mkMsg 0 2 true] /\ locked_q s = [] /\ locked s = false.
Proof. cbv zeta. split; [exact I|]. vm_compute. repeat split; reflexivity. Qed.

(** Non-vacuity of the quiet-link theorem: both connectors locked, holding an ordinary PDU, a
    packet-type message without scapy counterpart (class 13) and another PDU; each device then
    emits one more message (a non-packet one on the input side). *)
Definition nvq_hi := [mkMsg 0 1 true; mkMsg 13 2 true; mkMsg 0 3 true].
Definition nvq_ho := [mkMsg 0 11 true; mkMsg 13 12 true].
Definition nvq_sched : list baction :=
  repeat BA 60 ++ [BEmit DIn; BEmit DOut]
  ++ concat (repeat [BR DIn; BX DIn; BR DOut; BX DOut] 30).

Lemma nonvacuous_quiet :
  let s := brun (mkBC false true false) nvq_sched
             (binit2 (sinit true None nvq_hi [] [[Some (mkMsg 7 4 false)]]) (sinit true (Some 3) nvq_ho [] [[Some (mkMsg 0 13 true); Some (mkMsg 3 14 false)]])) in
  bquiet s = true
  /\ d_peer (b_in s) = nvq_hi ++ [mkMsg 7 4 false] /\ d_peer (b_out s) = nvq_ho ++ [mkMsg 0 13 true; mkMsg 3 14 false].
Proof. vm_compute. repeat split; reflexivity. Qed.

(** ---- synchronous mode across mode transitions ------------------------------------------------ *)

(** Accounting of everything the connector I/O thread has taken from the events queue, for ANY
    script (any sequence of enable_synchronous(...) / wait_packet / lock / unlock / commands),
    any schedule: processed normally, retrieved by wait_packet, waiting in the synchronous queue,
    discarded by the queue clear of an enable_synchronous call (by design), dropped by
    add_sync_event because the mode was switched OFF between its tests, or in the thread's
    hands. *)
Definition sync_account (s : state) : list msg :=
  delivered s ++ got s ++ sync_q s ++ cleared s ++ dropped s ++ hand_c s.

Definition Inv_A (s : state) : Prop := forall x, cnt x (taken s) = cnt x (sync_account s).

Lemma Inv_A_ext : forall s s',
  taken s' = taken s -> delivered s' = delivered s -> got s' = got s -> sync_q s' = sync_q s ->
  cleared s' = cleared s -> dropped s' = dropped s -> c_pc s' = c_pc s -> Inv_A s -> Inv_A s'.
Proof.
  intros s s' E1 E2 E3 E4 E5 E6 E7 H x. unfold sync_account, hand_c. rewrite E1, E2, E3, E4, E5, E6, E7. apply H.
Qed.

Lemma pstep_frame_A2 : forall cfg p m s,
  let s' := fst (pstep cfg p m s) in
  taken s' = taken s /\ delivered s' = delivered s /\ got s' = got s /\ sync_q s' = sync_q s /\
  cleared s' = cleared s /\ dropped s' = dropped s /\ c_pc s' = c_pc s /\ sync_mode s' = sync_mode s
  /\ a_script s' = a_script s /\ a_pc s' = a_pc s.
Proof. intros cfg [] m s; cbn; repeat split; auto. Qed.

Ltac a_tac :=
  unfold sync_account, hand_c; cbn;
  rewrite ?cnt_app, ?cnt_nil;
  repeat match goal with
         | |- context [cnt ?x (?m :: ?l)] =>
             lazymatch l with [] => fail | _ => rewrite (cnt_cons x m l) end
         end;
  rewrite ?cnt_app, ?cnt_nil;
  repeat match goal with
         | H : context [cnt ?x (?m :: ?l)] |- _ =>
             lazymatch l with [] => fail | _ => rewrite (cnt_cons x m l) in H end
         end;
  try lia.

Lemma Inv_A_act : forall cfg a s, Inv_A s -> Inv_A (act cfg a s).
Proof.
  intros cfg [[]| |] s H; cbn [act step].
  - (* application thread *)
    unfold step_A, ret, a_finish, note_head, v_next.
    destruct (a_pc s) eqn:Ea;
      try (destruct (pstep_frame_A2 cfg p m s) as (E1 & E2 & E3 & E4 & E5 & E6 & E7 & _));
      split_match; try exact H;
      try (apply (Inv_A_ext s); cbn; auto; fail).
    all: intro x; specialize (H x); unfold sync_account, hand_c in H; rewrite ?cnt_app in H;
      a_tac; rewrite ?Heql in *; a_tac.
  - unfold step_W. split_match; first [exact H | (apply (Inv_A_ext s); auto)].
  - unfold step_R. destruct (r_pc s) as [|p m|]; try exact H.
    + destruct (wire s); first [exact H | (apply (Inv_A_ext s); auto)].
    + destruct (pstep_frame_A2 cfg p m s) as (E1 & E2 & E3 & E4 & E5 & E6 & E7 & _).
      destruct (snd (pstep cfg p m s)); first [exact H | (apply (Inv_A_ext s); auto)].
  - (* connector I/O thread *)
    unfold step_C. destruct (has_conn cfg); cbn [negb]; try exact H.
    destruct (c_pc s) eqn:Ec; split_match; try exact H.
    all: intro x; specialize (H x); unfold sync_account, hand_c in H; rewrite Ec in H; rewrite ?cnt_app, ?cnt_nil in H;
      a_tac; rewrite ?Heql in *; a_tac.
  - exact H.
  - unfold emit. destruct (spont s); first [exact H | (apply (Inv_A_ext s); auto)].
Qed.

(** sync_transitions_account: under every schedule, for every script. *)
Lemma sync_transitions_account :
  forall cfg script sp l0 sched x,
    let s := run cfg sched (init cfg script sp l0) in
    cnt x (taken s) = cnt x (delivered s ++ got s ++ sync_q s ++ cleared s ++ dropped s ++ hand_c s).
Proof.
  intros cfg script sp l0 sched x s.
  assert (H : Inv_A s).
  { apply run_invariant; [intros; apply Inv_A_act; auto|]. intro y. unfold sync_account, hand_c, init. cbn. reflexivity. }
  apply H.
Qed.

(** No packet is silently dropped by add_sync_event as long as the application only ENABLES
    synchronous mode (OFF -> PKT, OFF -> ALL, PKT -> ALL, ALL -> PKT, in any order, any number of
    times): whatever the interleaving of the two mode tests of on_device_event and the two mode
    tests of add_sync_event with the application's stores. *)
Definition enable_only (o : op) : Prop := match o with OSync m => m <> 0 | _ => True end.

Definition c_syncpc (p : cpc) : bool :=
  match p with CC_S1 _ | CC_S2 _ | CC_SPut _ => true | _ => false end.

Record Inv_D (s : state) : Prop := mkInvD {
  dd_none : dropped s = [];
  dd_mode : c_syncpc (c_pc s) = true -> 1 <= sync_mode s;
  dd_script : Forall enable_only (a_script s);
  dd_e : e_pc (a_pc s) = true -> exists m t, a_script s = OSync m :: t
}.

Lemma a_begin_e : forall cfg sc, e_pc (a_begin cfg sc) = true -> exists m t, sc = OSync m :: t.
Proof.
  intros cfg [|[] ?]; cbn; intros; try discriminate; eauto;
    repeat match goal with H : context [if ?b then _ else _] |- _ => destruct b end; discriminate.
Qed.

Lemma Inv_D_ext : forall s s',
  dropped s' = dropped s -> sync_mode s' = sync_mode s -> c_pc s' = c_pc s -> a_script s' = a_script s ->
  (e_pc (a_pc s') = true -> e_pc (a_pc s) = true) -> Inv_D s -> Inv_D s'.
Proof. intros s s' E1 E2 E3 E4 E5 []. constructor; rewrite ?E1, ?E2, ?E3, ?E4; auto. Qed.

Lemma Inv_D_finish : forall cfg s s1,
  dropped s1 = dropped s -> (1 <= sync_mode s -> 1 <= sync_mode s1) -> c_pc s1 = c_pc s -> a_script s1 = a_script s ->
  Inv_D s -> Inv_D (a_finish cfg s1).
Proof.
  intros cfg s s1 E1 E2 E3 E4 []. unfold a_finish. constructor; cbn; rewrite ?E1, ?E3, ?E4; auto.
  - destruct (a_script s); cbn; auto. inversion dd_script0; auto.
  - apply a_begin_e.
Qed.

Lemma Inv_D_act : forall cfg a s, Inv_D s -> Inv_D (act cfg a s).
Proof.
  intros cfg [[]| |] s H; cbn [act step].
  - (* application thread *)
    unfold step_A, ret, note_head, v_next.
    destruct (a_pc s) eqn:Ea;
      try (destruct (pstep_frame_A2 cfg p m s) as (E1 & E2 & E3 & E4 & E5 & E6 & E7 & E8 & E9 & E10));
      split_match; try exact H;
      try (apply (Inv_D_ext s); cbn; auto; try (intros; discriminate); fail);
      try (match goal with |- Inv_D (a_finish _ ?s1) => apply (Inv_D_finish cfg s s1); cbn; auto; fail end).
    all: try (apply (Inv_D_ext s); cbn; auto; rewrite Ea; auto; fail).
    all: try (match goal with |- Inv_D (a_finish _ ?s1) => apply (Inv_D_finish cfg s s1); cbn; auto; fail end).
    all: destruct H as [D1 D2 D3 D4]; destruct (D4 ltac:(rewrite Ea; reflexivity)) as (m0 & t & Esc);
      assert (Hm : 1 <= cur_mode s)
        by (unfold cur_mode; rewrite Esc in *; inversion D3 as [|? ? Hh _]; subst; cbn in Hh; lia).
    all: first [ constructor; cbn; auto; intros _; exists m0, t; auto
               | match goal with |- Inv_D (a_finish _ ?s1) =>
                   apply (Inv_D_finish cfg s s1); cbn; auto; constructor; auto end ].
  - unfold step_W. split_match; first [exact H | (apply (Inv_D_ext s); auto)].
  - unfold step_R. destruct (r_pc s) as [|p m|]; try exact H.
    + destruct (wire s); first [exact H | (apply (Inv_D_ext s); auto)].
    + destruct (pstep_frame_A2 cfg p m s) as (E1 & E2 & E3 & E4 & E5 & E6 & E7 & E8 & E9 & E10).
      destruct (snd (pstep cfg p m s)); first [exact H | (apply (Inv_D_ext s); cbn; auto; rewrite ?E10; auto)].
  - (* connector I/O thread *)
    unfold step_C. destruct (has_conn cfg); cbn [negb]; try exact H.
    destruct H as [D1 D2 D3 D4].
    destruct (c_pc s) eqn:Ec; split_match; try (constructor; auto; rewrite ?Ec; auto; fail);
      constructor; cbn; auto; try (intros; discriminate);
      try (intros _; first [ (apply N.eqb_eq in Heqb; lia) | (apply N.leb_le in Heqb; lia)
                           | (apply N.eqb_eq in Heqb0; lia) | (apply D2; reflexivity) ]);
      try (exfalso; specialize (D2 eq_refl); apply N.leb_gt in Heqb; lia).
  - constructor; destruct H; auto.
  - unfold emit. destruct (spont s); first [exact H | (apply (Inv_D_ext s); auto)].
Qed.

Lemma sync_enable_never_drops :
  forall cfg script sp l0 sched,
    Forall enable_only script ->
    dropped (run cfg sched (init cfg script sp l0)) = [].
Proof.
  intros cfg script sp l0 sched Hs.
  assert (H : Inv_D (run cfg sched (init cfg script sp l0))).
  { apply run_invariant; [intros; apply Inv_D_act; auto|].
    constructor; unfold init; cbn; auto; [intros; discriminate | apply a_begin_e]. }
  destruct H; auto.
Qed.

(** Disabling synchronous mode discards what is queued (by design); a packet add_sync_event is
    saving at that very moment is dropped the same way (the only way [dropped] grows). *)
Lemma sync_disable_may_drop :
  let cfg := mkConfig true false 3 false false false false in
  let s := run cfg ([Emit] ++ repeat (Step TR) 6 ++ [Step TA; Step TA] ++ repeat (Step TC) 4
                    ++ [Step TA; Step TA] ++ [Step TC])
               (init cfg [OSync 1; OSync 0] [[Some (mkMsg 0 1 true)]] false) in
  dropped s = [mkMsg 0 1 true] /\ sync_mode s = 0.
Proof. vm_compute. split; reflexivity. Qed.

(** Device.put_message as found (two loads of the filter): a stale message filter on a device
    whose bridge is created UNDER TRAFFIC -- the reader thread is between the two loads when
    Bridge.__init__ resets the filter to None; it then calls None and dies (TypeError).  With the
    single load (repaired) no schedule does that: [bridge_conservation] holds for arbitrary
    stale filters. *)
Lemma bridge_legacy_filter_refuted :
  exists sched,
    d_rpc (b_in (brun (mkBC false false true) sched
                   (binit2 (sinit true (Some 3) [] [] [[Some p1]]) (sinit false None [] [] [])))) = BR_Dead.
Proof. exists ([BEmit DIn] ++ repeat (BR DIn) 3 ++ [BA] ++ [BR DIn]). vm_compute. reflexivity. Qed.

