(** AES-128 (FIPS-197) cipher and inverse cipher, executable under [vm_compute].
    State = list of 16 N in the FIPS input order (byte i is row i mod 4, column i / 4).
    S-box and inverse S-box are 256-entry list literals, xtime is arithmetic on N, the key
    schedule is computed once per call. Stdlib only, no axioms. *)
From Coq Require Import List NArith ZArith Arith Bool Lia ZifyBool ZifyN ZifyNat.
From Whad Require Import Lib.Bytes Lib.Xor.
Import ListNotations.
Local Open Scope N_scope.

Definition sbox_table : list N :=
  [
   99; 124; 119; 123; 242; 107; 111; 197; 48; 1; 103; 43; 254; 215; 171; 118;
   202; 130; 201; 125; 250; 89; 71; 240; 173; 212; 162; 175; 156; 164; 114; 192;
   183; 253; 147; 38; 54; 63; 247; 204; 52; 165; 229; 241; 113; 216; 49; 21;
   4; 199; 35; 195; 24; 150; 5; 154; 7; 18; 128; 226; 235; 39; 178; 117;
   9; 131; 44; 26; 27; 110; 90; 160; 82; 59; 214; 179; 41; 227; 47; 132;
   83; 209; 0; 237; 32; 252; 177; 91; 106; 203; 190; 57; 74; 76; 88; 207;
   208; 239; 170; 251; 67; 77; 51; 133; 69; 249; 2; 127; 80; 60; 159; 168;
   81; 163; 64; 143; 146; 157; 56; 245; 188; 182; 218; 33; 16; 255; 243; 210;
   205; 12; 19; 236; 95; 151; 68; 23; 196; 167; 126; 61; 100; 93; 25; 115;
   96; 129; 79; 220; 34; 42; 144; 136; 70; 238; 184; 20; 222; 94; 11; 219;
   224; 50; 58; 10; 73; 6; 36; 92; 194; 211; 172; 98; 145; 149; 228; 121;
   231; 200; 55; 109; 141; 213; 78; 169; 108; 86; 244; 234; 101; 122; 174; 8;
   186; 120; 37; 46; 28; 166; 180; 198; 232; 221; 116; 31; 75; 189; 139; 138;
   112; 62; 181; 102; 72; 3; 246; 14; 97; 53; 87; 185; 134; 193; 29; 158;
   225; 248; 152; 17; 105; 217; 142; 148; 155; 30; 135; 233; 206; 85; 40; 223;
   140; 161; 137; 13; 191; 230; 66; 104; 65; 153; 45; 15; 176; 84; 187; 22
  ]%N.

Definition inv_sbox_table : list N :=
  [
   82; 9; 106; 213; 48; 54; 165; 56; 191; 64; 163; 158; 129; 243; 215; 251;
   124; 227; 57; 130; 155; 47; 255; 135; 52; 142; 67; 68; 196; 222; 233; 203;
   84; 123; 148; 50; 166; 194; 35; 61; 238; 76; 149; 11; 66; 250; 195; 78;
   8; 46; 161; 102; 40; 217; 36; 178; 118; 91; 162; 73; 109; 139; 209; 37;
   114; 248; 246; 100; 134; 104; 152; 22; 212; 164; 92; 204; 93; 101; 182; 146;
   108; 112; 72; 80; 253; 237; 185; 218; 94; 21; 70; 87; 167; 141; 157; 132;
   144; 216; 171; 0; 140; 188; 211; 10; 247; 228; 88; 5; 184; 179; 69; 6;
   208; 44; 30; 143; 202; 63; 15; 2; 193; 175; 189; 3; 1; 19; 138; 107;
   58; 145; 17; 65; 79; 103; 220; 234; 151; 242; 207; 206; 240; 180; 230; 115;
   150; 172; 116; 34; 231; 173; 53; 133; 226; 249; 55; 232; 28; 117; 223; 110;
   71; 241; 26; 113; 29; 41; 197; 137; 111; 183; 98; 14; 170; 24; 190; 27;
   252; 86; 62; 75; 198; 210; 121; 32; 154; 219; 192; 254; 120; 205; 90; 244;
   31; 221; 168; 51; 136; 7; 199; 49; 177; 18; 16; 89; 39; 128; 236; 95;
   96; 81; 127; 169; 25; 181; 74; 13; 45; 229; 122; 159; 147; 201; 156; 239;
   160; 224; 59; 77; 174; 42; 245; 176; 200; 235; 187; 60; 131; 83; 153; 97;
   23; 43; 4; 126; 186; 119; 214; 38; 225; 105; 20; 99; 85; 33; 12; 125
  ]%N.

Definition sub_byte (x : N) : N := nth (N.to_nat x) sbox_table 0.
Definition inv_sub_byte (x : N) : N := nth (N.to_nat x) inv_sbox_table 0.

(** multiplication by x in GF(2^8) modulo x^8+x^4+x^3+x+1 *)
Definition xtime (x : N) : N :=
  let y := 2 * x in if y <? 256 then y else N.lxor (y - 256) 27.

(** force a list to exactly 16 entries (identity on 16-byte lists) *)
Definition fit16 (l : bytes) : bytes := firstn 16 (l ++ zeros 16).

Definition sub_bytes (s : bytes) : bytes := map sub_byte s.
Definition inv_sub_bytes (s : bytes) : bytes := map inv_sub_byte s.

Definition shift_rows (s : bytes) : bytes :=
  match s with
  | [s0;s1;s2;s3;s4;s5;s6;s7;s8;s9;s10;s11;s12;s13;s14;s15] =>
    [s0;s5;s10;s15;s4;s9;s14;s3;s8;s13;s2;s7;s12;s1;s6;s11]
  | _ => s
  end.

Definition inv_shift_rows (s : bytes) : bytes :=
  match s with
  | [s0;s1;s2;s3;s4;s5;s6;s7;s8;s9;s10;s11;s12;s13;s14;s15] =>
    [s0;s13;s10;s7;s4;s1;s14;s11;s8;s5;s2;s15;s12;s9;s6;s3]
  | _ => s
  end.

(** one column of MixColumns: (2 3 1 1 / 1 2 3 1 / 1 1 2 3 / 3 1 1 2) *)
Definition mix_col (a0 a1 a2 a3 : N) : bytes :=
  let t := N.lxor (N.lxor a0 a1) (N.lxor a2 a3) in
  [ N.lxor (N.lxor a0 t) (xtime (N.lxor a0 a1));
    N.lxor (N.lxor a1 t) (xtime (N.lxor a1 a2));
    N.lxor (N.lxor a2 t) (xtime (N.lxor a2 a3));
    N.lxor (N.lxor a3 t) (xtime (N.lxor a3 a0)) ].

Fixpoint mix_columns (s : bytes) : bytes :=
  match s with
  | a0 :: a1 :: a2 :: a3 :: t => mix_col a0 a1 a2 a3 ++ mix_columns t
  | _ => []
  end.

(** InvMixColumns = MixColumns after the (5 0 4 0 / 0 5 0 4 / 4 0 5 0 / 0 4 0 5) preprocessing *)
Definition inv_mix_col (a0 a1 a2 a3 : N) : bytes :=
  let u := xtime (xtime (N.lxor a0 a2)) in
  let v := xtime (xtime (N.lxor a1 a3)) in
  mix_col (N.lxor a0 u) (N.lxor a1 v) (N.lxor a2 u) (N.lxor a3 v).

Fixpoint inv_mix_columns (s : bytes) : bytes :=
  match s with
  | a0 :: a1 :: a2 :: a3 :: t => inv_mix_col a0 a1 a2 a3 ++ inv_mix_columns t
  | _ => []
  end.

(** * key schedule: 11 round keys of 16 bytes *)
Definition next_round_key (rk : bytes) (rc : N) : bytes :=
  match rk with
  | [k0;k1;k2;k3;k4;k5;k6;k7;k8;k9;k10;k11;k12;k13;k14;k15] =>
    let w4 := [N.lxor k0 (N.lxor (sub_byte k13) rc); N.lxor k1 (sub_byte k14);
               N.lxor k2 (sub_byte k15); N.lxor k3 (sub_byte k12)] in
    let w5 := xor_bytes [k4;k5;k6;k7] w4 in
    let w6 := xor_bytes [k8;k9;k10;k11] w5 in
    let w7 := xor_bytes [k12;k13;k14;k15] w6 in
    w4 ++ w5 ++ w6 ++ w7
  | _ => rk
  end.

Fixpoint expand_from (rk : bytes) (rcons : list N) : list bytes :=
  match rcons with
  | [] => []
  | rc :: t => let rk' := next_round_key rk rc in rk' :: expand_from rk' t
  end.

Definition rcon_list : list N := [1; 2; 4; 8; 16; 32; 64; 128; 27; 54].

Definition round_keys (key : bytes) : list bytes :=
  let k := fit16 key in k :: expand_from k rcon_list.

(** * cipher *)
Fixpoint enc_rounds (s : bytes) (rks : list bytes) : bytes :=
  match rks with
  | [] => s
  | rk :: rest =>
    match rest with
    | [] => xor_bytes (shift_rows (sub_bytes s)) rk
    | _ => enc_rounds (xor_bytes (mix_columns (shift_rows (sub_bytes s))) rk) rest
    end
  end.

Definition aes128_enc (key blk : bytes) : bytes :=
  match round_keys key with
  | rk0 :: rks => fit16 (enc_rounds (xor_bytes (fit16 blk) rk0) rks)
  | [] => zeros 16
  end.

(** * inverse cipher (FIPS-197 5.3), round keys taken in reverse order *)
Fixpoint dec_rounds (s : bytes) (rks : list bytes) : bytes :=
  match rks with
  | [] => s
  | rk :: rest =>
    match rest with
    | [] => xor_bytes (inv_sub_bytes (inv_shift_rows s)) rk
    | _ => dec_rounds (inv_mix_columns (xor_bytes (inv_sub_bytes (inv_shift_rows s)) rk)) rest
    end
  end.

Definition aes128_dec (key blk : bytes) : bytes :=
  match rev (round_keys key) with
  | rk10 :: rks => fit16 (dec_rounds (xor_bytes (fit16 blk) rk10) rks)
  | [] => zeros 16
  end.

(** * lengths *)
Lemma fit16_length l : length (fit16 l) = 16%nat.
Proof.
  unfold fit16. rewrite firstn_length, app_length, zeros_length. lia.
Qed.

Lemma fit16_id l : length l = 16%nat -> fit16 l = l.
Proof.
  intros H. unfold fit16. rewrite firstn_app, H, Nat.sub_diag.
  change (firstn 0 (zeros 16)) with (@nil N). rewrite app_nil_r. apply firstn_all2. lia.
Qed.

Lemma aes128_enc_length : forall k b, length (aes128_enc k b) = 16%nat.
Proof.
  intros k b. unfold aes128_enc. destruct (round_keys k); [apply zeros_length|apply fit16_length].
Qed.

Lemma aes128_dec_length : forall k b, length (aes128_dec k b) = 16%nat.
Proof.
  intros k b. unfold aes128_dec. destruct (rev (round_keys k)); [apply zeros_length|apply fit16_length].
Qed.

(** * table facts (finite sweeps over the 256 byte values) *)
Definition all_bytes : list N := map N.of_nat (seq 0 256).

Lemma in_all_bytes x : x < 256 -> In x all_bytes.
Proof.
  intros H. unfold all_bytes. apply in_map_iff. exists (N.to_nat x). split; [lia|].
  apply in_seq. lia.
Qed.

Lemma inv_sub_sub_byte x : x < 256 -> inv_sub_byte (sub_byte x) = x.
Proof.
  intros H.
  assert (A : forallb (fun x => inv_sub_byte (sub_byte x) =? x) all_bytes = true) by (vm_compute; reflexivity).
  rewrite forallb_forall in A. apply N.eqb_eq. apply A. apply in_all_bytes; exact H.
Qed.

Lemma sub_inv_sub_byte x : x < 256 -> sub_byte (inv_sub_byte x) = x.
Proof.
  intros H.
  assert (A : forallb (fun x => sub_byte (inv_sub_byte x) =? x) all_bytes = true) by (vm_compute; reflexivity).
  rewrite forallb_forall in A. apply N.eqb_eq. apply A. apply in_all_bytes; exact H.
Qed.

Lemma sub_byte_lt x : sub_byte x < 256.
Proof.
  unfold sub_byte.
  assert (A : forallb (fun y => y <? 256) sbox_table = true) by (vm_compute; reflexivity).
  rewrite forallb_forall in A.
  destruct (Nat.lt_ge_cases (N.to_nat x) (length sbox_table)) as [Hlt|Hge].
  - apply N.ltb_lt. apply A. apply nth_In. exact Hlt.
  - rewrite nth_overflow by exact Hge. lia.
Qed.

(** * FIPS-197 vectors *)
Definition fips197_B_key : bytes :=
  [0x2b;0x7e;0x15;0x16;0x28;0xae;0xd2;0xa6;0xab;0xf7;0x15;0x88;0x09;0xcf;0x4f;0x3c].
Definition fips197_B_pt : bytes :=
  [0x32;0x43;0xf6;0xa8;0x88;0x5a;0x30;0x8d;0x31;0x31;0x98;0xa2;0xe0;0x37;0x07;0x34].
Definition fips197_B_ct : bytes :=
  [0x39;0x25;0x84;0x1d;0x02;0xdc;0x09;0xfb;0xdc;0x11;0x85;0x97;0x19;0x6a;0x0b;0x32].

Definition fips197_C1_key : bytes :=
  [0x00;0x01;0x02;0x03;0x04;0x05;0x06;0x07;0x08;0x09;0x0a;0x0b;0x0c;0x0d;0x0e;0x0f].
Definition fips197_C1_pt : bytes :=
  [0x00;0x11;0x22;0x33;0x44;0x55;0x66;0x77;0x88;0x99;0xaa;0xbb;0xcc;0xdd;0xee;0xff].
Definition fips197_C1_ct : bytes :=
  [0x69;0xc4;0xe0;0xd8;0x6a;0x7b;0x04;0x30;0xd8;0xcd;0xb7;0x80;0x70;0xb4;0xc5;0x5a].

(** last round key of Appendix A.1 *)
Example aes128_key_expansion_A1 :
  nth 10 (round_keys fips197_B_key) [] =
  [0xd0;0x14;0xf9;0xa8;0xc9;0xee;0x25;0x89;0xe1;0x3f;0x0c;0xc8;0xb6;0x63;0x0c;0xa6].
Proof. vm_compute. reflexivity. Qed.

Example aes128_fips197 : aes128_enc fips197_B_key fips197_B_pt = fips197_B_ct.
Proof. vm_compute. reflexivity. Qed.

Example aes128_fips197_dec : aes128_dec fips197_B_key fips197_B_ct = fips197_B_pt.
Proof. vm_compute. reflexivity. Qed.

Example aes128_fips197_C1 : aes128_enc fips197_C1_key fips197_C1_pt = fips197_C1_ct.
Proof. vm_compute. reflexivity. Qed.

Example aes128_fips197_C1_dec : aes128_dec fips197_C1_key fips197_C1_ct = fips197_C1_pt.
Proof. vm_compute. reflexivity. Qed.
