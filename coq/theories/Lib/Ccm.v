(** CCM (RFC 3610 / NIST SP 800-38C) over an arbitrary block function [E].
    Every theorem holds for every [E] with 16-byte outputs; [E := aes128_enc] only for
    evaluation (the Examples at the end). Stdlib only, no axioms. *)
From Coq Require Import List NArith ZArith Arith Bool Lia ZifyBool ZifyN ZifyNat.
From Whad Require Import Lib.Bytes Lib.Xor Lib.Aes.
Import ListNotations.
Ltac Zify.zify_post_hook ::= Z.to_euclidean_division_equations.

Lemma bytes_eqb_refl a : bytes_eqb a a = true.
Proof. apply bytes_eqb_eq. reflexivity. Qed.

(** * Formatting (independent of the block function) *)

(** M = tag length in bytes (4, 6, .., 16), L = 15 - nonce length (2..8). *)

(** Flags byte of B0: 64*Adata + 8*((M-2)/2) + (L-1) *)
Definition ccm_flags (M L : nat) (adata : bool) : N :=
  ((if adata then 64 else 0) + 8 * N.of_nat ((M - 2) / 2) + N.of_nat (L - 1))%N.

Definition ccm_b0 (M L : nat) (nonce : bytes) (alen mlen : nat) : bytes :=
  ccm_flags M L (negb (Nat.eqb alen 0)) :: nonce ++ be_bytes L (N.of_nat mlen).

(** l(a) encoding: nothing when there is no AAD, else a 2-byte big-endian length
    (RFC 3610 form for 0 < l(a) < 2^16 - 2^8), then the AAD, zero padded to 16. *)
Definition ccm_encode_aad (aad : bytes) : bytes :=
  match aad with
  | [] => []
  | _ => pad16 (be_bytes 2 (N.of_nat (length aad)) ++ aad)
  end.

(** The CBC-MAC input as one byte string: B0 || encoded AAD || padded message *)
Definition ccm_auth_string (M L : nat) (nonce aad msg : bytes) : bytes :=
  ccm_b0 M L nonce (length aad) (length msg) ++ ccm_encode_aad aad ++ pad16 msg.

Definition ccm_auth_blocks (M L : nat) (nonce aad msg : bytes) : list bytes :=
  chunks16 (ccm_auth_string M L nonce aad msg).

(** A_i = (L-1) || nonce || i on L bytes *)
Definition ccm_ctr_block (L : nat) (nonce : bytes) (i : N) : bytes :=
  N.of_nat (L - 1) :: nonce ++ be_bytes L i.

(** ** the authenticated encoding is injective *)
Lemma ccm_auth_blocks_concat M L nonce aad msg :
  concat (ccm_auth_blocks M L nonce aad msg) = ccm_auth_string M L nonce aad msg.
Proof. apply chunks16_concat. Qed.

Lemma ccm_b0_length M L nonce alen mlen : length (ccm_b0 M L nonce alen mlen) = S (length nonce + L).
Proof. unfold ccm_b0. cbn [length]. rewrite app_length, be_bytes_length. reflexivity. Qed.

Lemma ccm_auth_string_length_mod M L nonce aad msg : length nonce + L = 15 ->
  Nat.modulo (length (ccm_auth_string M L nonce aad msg)) 16 = 0.
Proof.
  intros HL. unfold ccm_auth_string. rewrite !app_length, ccm_b0_length, HL.
  assert (Ha : Nat.modulo (length (ccm_encode_aad aad)) 16 = 0).
  { unfold ccm_encode_aad. destruct aad; [reflexivity|apply pad16_length_mod]. }
  pose proof (pad16_length_mod msg). lia.
Qed.

(** every authentication block has 16 bytes when the nonce has 15 - L bytes *)
Lemma ccm_auth_blocks_length M L nonce aad msg : length nonce + L = 15 ->
  Forall (fun b => length b = 16) (ccm_auth_blocks M L nonce aad msg).
Proof. intros HL. apply chunks16_block_length. apply ccm_auth_string_length_mod; exact HL. Qed.

Lemma app_inj_length {A} (a a' b b' : list A) : length a = length a' -> a ++ b = a' ++ b' -> a = a' /\ b = b'.
Proof.
  revert a'. induction a as [|x a IH]; intros [|y a'] Hl H; cbn in *; try discriminate.
  - split; [reflexivity|exact H].
  - inversion H; subst. destruct (IH a') as [-> ->]; [lia|assumption|]. split; reflexivity.
Qed.

Lemma pad16_inj_length (a b : bytes) : length a = length b -> pad16 a = pad16 b -> a = b.
Proof.
  intros Hl H. unfold pad16 in H. apply app_inj_length in H; [tauto|exact Hl].
Qed.

Lemma ccm_flags_adata M L a a' : L <= 8 -> ccm_flags M L a = ccm_flags M L a' -> a = a'.
Proof.
  unfold ccm_flags. intros HL H. destruct a, a'; try reflexivity; lia.
Qed.

(** Same M and L, nonces of equal length, lengths within the ranges of their length fields:
    equal CBC-MAC inputs force equal nonce, AAD and message. *)
Theorem ccm_auth_string_injective : forall M L nonce nonce' aad aad' msg msg',
    L <= 8 -> length nonce = length nonce' ->
    (N.of_nat (length msg) < 256 ^ N.of_nat L)%N -> (N.of_nat (length msg') < 256 ^ N.of_nat L)%N ->
    (N.of_nat (length aad) < 65536)%N -> (N.of_nat (length aad') < 65536)%N ->
    ccm_auth_string M L nonce aad msg = ccm_auth_string M L nonce' aad' msg' ->
    nonce = nonce' /\ aad = aad' /\ msg = msg'.
Proof.
  intros M L n n' aad aad' msg msg' HL Hn Hm Hm' Ha Ha' H.
  unfold ccm_auth_string in H.
  apply app_inj_length in H; [|rewrite !ccm_b0_length; lia].
  destruct H as [H0 Hrest].
  unfold ccm_b0 in H0. injection H0 as Hflags Hnl.
  apply app_inj_length in Hnl; [|exact Hn]. destruct Hnl as [-> Hml].
  apply be_bytes_inj in Hml; [|assumption|assumption].
  apply ccm_flags_adata in Hflags; [|exact HL].
  assert (Hmlen : length msg = length msg') by lia. clear Hml.
  split; [reflexivity|].
  unfold ccm_encode_aad in Hrest.
  destruct aad as [|a0 aad], aad' as [|a0' aad']; cbn [length Nat.eqb negb] in Hflags; try discriminate.
  - cbn [app] in Hrest. split; [reflexivity|]. apply pad16_inj_length; assumption.
  - (* both have AAD: the two length bytes are the first two bytes of the rest *)
    assert (Hal : length (a0 :: aad) = length (a0' :: aad')).
    { unfold pad16 in Hrest. rewrite <- !app_assoc in Hrest.
      apply app_inj_length in Hrest; [|rewrite !be_bytes_length; reflexivity].
      destruct Hrest as [Hb _]. apply be_bytes_inj in Hb; [lia| |].
      - change (256 ^ N.of_nat 2)%N with 65536%N. lia.
      - change (256 ^ N.of_nat 2)%N with 65536%N. lia. }
    apply app_inj_length in Hrest.
    + destruct Hrest as [Hpa Hpm].
      apply pad16_inj_length in Hpa; [|rewrite !app_length, !be_bytes_length; lia].
      apply app_inj_length in Hpa; [|rewrite !be_bytes_length; reflexivity].
      destruct Hpa as [_ ->]. split; [reflexivity|]. apply pad16_inj_length; assumption.
    + rewrite !pad16_length, !app_length, !be_bytes_length, Hal. reflexivity.
Qed.

Theorem ccm_auth_blocks_injective : forall M L nonce nonce' aad aad' msg msg',
    L <= 8 -> length nonce = length nonce' ->
    (N.of_nat (length msg) < 256 ^ N.of_nat L)%N -> (N.of_nat (length msg') < 256 ^ N.of_nat L)%N ->
    (N.of_nat (length aad) < 65536)%N -> (N.of_nat (length aad') < 65536)%N ->
    ccm_auth_blocks M L nonce aad msg = ccm_auth_blocks M L nonce' aad' msg' ->
    nonce = nonce' /\ aad = aad' /\ msg = msg'.
Proof.
  intros M L n n' aad aad' msg msg' HL Hn Hm Hm' Ha Ha' H.
  apply (ccm_auth_string_injective M L n n' aad aad' msg msg'); try assumption.
  rewrite <- !ccm_auth_blocks_concat. rewrite H. reflexivity.
Qed.

Section CCM.
  Variable E : bytes -> bytes -> bytes.            (* key -> 16-byte block -> 16-byte block *)
  Hypothesis E_length : forall k b, length (E k b) = 16.

  Definition cbc_mac (key : bytes) (blocks : list bytes) : bytes :=
    fold_left (fun x b => E key (xor_bytes x b)) blocks (zeros 16).

  (** S_1 || S_2 || ... || S_n *)
  Definition ccm_keystream (L : nat) (key nonce : bytes) (n : nat) : bytes :=
    flat_map (fun j => E key (ccm_ctr_block L nonce (N.of_nat j))) (seq 1 n).

  Definition ccm_nblocks (len : nat) : nat := (len + 15) / 16.

  Definition ccm_keystream_xor (L : nat) (key nonce data : bytes) : bytes :=
    xor_bytes data (ccm_keystream L key nonce (ccm_nblocks (length data))).

  Definition ccm_tag (M L : nat) (key nonce aad msg : bytes) : bytes :=
    firstn M (xor_bytes (cbc_mac key (ccm_auth_blocks M L nonce aad msg))
                        (E key (ccm_ctr_block L nonce 0))).

  Definition ccm_encrypt (M L : nat) (key nonce aad msg : bytes) : bytes * bytes :=
    (ccm_keystream_xor L key nonce msg, ccm_tag M L key nonce aad msg).

  Definition ccm_decrypt (M L : nat) (key nonce aad ct tag : bytes) : option bytes :=
    let m := ccm_keystream_xor L key nonce ct in
    if bytes_eqb tag (ccm_tag M L key nonce aad m) then Some m else None.

  (** ** lengths *)
  Lemma ccm_keystream_length L key nonce n : length (ccm_keystream L key nonce n) = 16 * n.
  Proof.
    unfold ccm_keystream.
    assert (G : forall s, length (flat_map (fun j => E key (ccm_ctr_block L nonce (N.of_nat j))) (seq s n)) = 16 * n).
    { induction n; intros s; cbn [seq flat_map]; [rewrite Nat.mul_0_r; reflexivity|].
      rewrite app_length, E_length, IHn. lia. }
    apply G.
  Qed.

  Lemma ccm_keystream_covers L key nonce (d : bytes) :
    length (ccm_keystream L key nonce (ccm_nblocks (length d))) >= length d.
  Proof. rewrite ccm_keystream_length. unfold ccm_nblocks. lia. Qed.

  Lemma ccm_keystream_xor_length L key nonce d : length (ccm_keystream_xor L key nonce d) = length d.
  Proof.
    unfold ccm_keystream_xor. apply xor_bytes_length_le. apply ccm_keystream_covers.
  Qed.

  (** ** CTR mode is an involution (for every list of N; [wf_bytes] is not needed) *)
  Lemma ccm_keystream_xor_involutive L key nonce d :
    ccm_keystream_xor L key nonce (ccm_keystream_xor L key nonce d) = d.
  Proof.
    unfold ccm_keystream_xor at 1. rewrite ccm_keystream_xor_length.
    unfold ccm_keystream_xor. apply xor_bytes_involutive_gen. apply ccm_keystream_covers.
  Qed.

  Lemma ccm_keystream_xor_inj L key nonce d d' :
    ccm_keystream_xor L key nonce d = ccm_keystream_xor L key nonce d' -> d = d'.
  Proof.
    intros H. rewrite <- (ccm_keystream_xor_involutive L key nonce d), H.
    apply ccm_keystream_xor_involutive.
  Qed.

  Lemma cbc_mac_length key blocks : length (cbc_mac key blocks) = 16.
  Proof.
    unfold cbc_mac. rewrite <- fold_left_rev_right.
    destruct (rev blocks) as [|b r]; cbn [fold_right]; [apply zeros_length|apply E_length].
  Qed.

  Lemma ccm_tag_length M L key nonce aad msg : M <= 16 -> length (ccm_tag M L key nonce aad msg) = M.
  Proof.
    intros HM. unfold ccm_tag. rewrite firstn_length, xor_bytes_length, cbc_mac_length, E_length. lia.
  Qed.

  (** ** round trip *)
  Theorem ccm_decrypt_encrypt : forall M L key nonce aad msg, wf_bytes msg = true ->
      let '(ct, tag) := ccm_encrypt M L key nonce aad msg in ccm_decrypt M L key nonce aad ct tag = Some msg.
  Proof.
    intros M L key nonce aad msg _. unfold ccm_encrypt, ccm_decrypt.
    rewrite ccm_keystream_xor_involutive. rewrite bytes_eqb_refl. reflexivity.
  Qed.

  (** same, without the range condition and with the pair projected *)
  Theorem ccm_decrypt_encrypt_gen : forall M L key nonce aad msg,
      ccm_decrypt M L key nonce aad (fst (ccm_encrypt M L key nonce aad msg))
                  (snd (ccm_encrypt M L key nonce aad msg)) = Some msg.
  Proof.
    intros. cbn [ccm_encrypt fst snd]. unfold ccm_decrypt.
    rewrite ccm_keystream_xor_involutive. rewrite bytes_eqb_refl. reflexivity.
  Qed.

  (** ** decryption succeeds iff the received tag is the recomputed tag *)
  Theorem ccm_decrypt_iff_tag : forall M L key nonce aad ct tag m,
      ccm_decrypt M L key nonce aad ct tag = Some m <->
      (m = ccm_keystream_xor L key nonce ct /\ tag = ccm_tag M L key nonce aad m).
  Proof.
    intros M L key nonce aad ct tag m. unfold ccm_decrypt.
    destruct (bytes_eqb tag (ccm_tag M L key nonce aad (ccm_keystream_xor L key nonce ct))) eqn:Eq.
    - apply bytes_eqb_eq in Eq. split.
      + intros H. injection H as <-. split; [reflexivity|exact Eq].
      + intros [-> _]. reflexivity.
    - split; [discriminate|].
      intros [-> Ht]. rewrite Ht in Eq. rewrite bytes_eqb_refl in Eq. discriminate.
  Qed.

  Corollary ccm_decrypt_none_iff : forall M L key nonce aad ct tag,
      ccm_decrypt M L key nonce aad ct tag = None <->
      tag <> ccm_tag M L key nonce aad (ccm_keystream_xor L key nonce ct).
  Proof.
    intros. unfold ccm_decrypt.
    destruct (bytes_eqb tag _) eqn:Eq.
    - apply bytes_eqb_eq in Eq. split; [discriminate|]. intros H; contradiction.
    - split; [|reflexivity]. intros _ H. rewrite H, bytes_eqb_refl in Eq. discriminate.
  Qed.

  (** The tag depends on (nonce, aad, msg) only through the block list and A_0. *)
  Lemma ccm_tag_eq_blocks M L key nonce aad msg aad' msg' :
    ccm_auth_blocks M L nonce aad msg = ccm_auth_blocks M L nonce aad' msg' ->
    ccm_tag M L key nonce aad msg = ccm_tag M L key nonce aad' msg'.
  Proof. intros H. unfold ccm_tag. rewrite H. reflexivity. Qed.
End CCM.

(** * Test vectors with [E := aes128_enc] *)
Local Open Scope N_scope.

(** RFC 3610 packet vector #1 (M = 8, L = 2) *)
Definition rfc3610_key : bytes :=
  [0xC0;0xC1;0xC2;0xC3;0xC4;0xC5;0xC6;0xC7;0xC8;0xC9;0xCA;0xCB;0xCC;0xCD;0xCE;0xCF].
Definition rfc3610_1_nonce : bytes :=
  [0x00;0x00;0x00;0x03;0x02;0x01;0x00;0xA0;0xA1;0xA2;0xA3;0xA4;0xA5].
Definition rfc3610_1_aad : bytes := [0x00;0x01;0x02;0x03;0x04;0x05;0x06;0x07].
Definition rfc3610_1_msg : bytes :=
  [0x08;0x09;0x0A;0x0B;0x0C;0x0D;0x0E;0x0F;0x10;0x11;0x12;0x13;0x14;0x15;0x16;0x17;
   0x18;0x19;0x1A;0x1B;0x1C;0x1D;0x1E].
Definition rfc3610_1_ct : bytes :=
  [0x58;0x8C;0x97;0x9A;0x61;0xC6;0x63;0xD2;0xF0;0x66;0xD0;0xC2;0xC0;0xF9;0x89;0x80;
   0x6D;0x5F;0x6B;0x61;0xDA;0xC3;0x84].
Definition rfc3610_1_tag : bytes := [0x17;0xE8;0xD1;0x2C;0xFD;0xF9;0x26;0xE0].

Example ccm_rfc3610_vector1_b0 :
  ccm_b0 8 2 rfc3610_1_nonce 8 23 =
  [0x59;0x00;0x00;0x00;0x03;0x02;0x01;0x00;0xA0;0xA1;0xA2;0xA3;0xA4;0xA5;0x00;0x17].
Proof. vm_compute. reflexivity. Qed.

Example ccm_rfc3610_vector1 :
  ccm_encrypt aes128_enc 8 2 rfc3610_key rfc3610_1_nonce rfc3610_1_aad rfc3610_1_msg
  = (rfc3610_1_ct, rfc3610_1_tag).
Proof. vm_compute. reflexivity. Qed.

Example ccm_rfc3610_vector1_dec :
  ccm_decrypt aes128_enc 8 2 rfc3610_key rfc3610_1_nonce rfc3610_1_aad rfc3610_1_ct rfc3610_1_tag
  = Some rfc3610_1_msg.
Proof. vm_compute. reflexivity. Qed.

Example ccm_rfc3610_vector1_bad_tag :
  ccm_decrypt aes128_enc 8 2 rfc3610_key rfc3610_1_nonce rfc3610_1_aad rfc3610_1_ct
              [0x17;0xE8;0xD1;0x2C;0xFD;0xF9;0x26;0xE1] = None.
Proof. vm_compute. reflexivity. Qed.

(** BLE link layer (M = 4, L = 2): Bluetooth Core spec Vol 6 Part C 1.2, first encrypted
    packet master -> slave (LL_START_ENC_RSP): session key 99AD1B5226A37E3E058E3B8E27C2C666,
    IV = 24ABDCBA BEBAAFDE, packet counter 0, direction bit 1, header 0x0F masked to 0x03,
    payload 06 -> 9F, MIC CD A7 F4 48. *)
Definition ble_sample_sk : bytes :=
  [0x99;0xAD;0x1B;0x52;0x26;0xA3;0x7E;0x3E;0x05;0x8E;0x3B;0x8E;0x27;0xC2;0xC6;0x66].
Definition ble_sample_nonce_m0 : bytes :=
  [0x00;0x00;0x00;0x00;0x80;0x24;0xAB;0xDC;0xBA;0xBE;0xBA;0xAF;0xDE].

Example ccm_ble_m4_l2 :
  ccm_encrypt aes128_enc 4 2 ble_sample_sk ble_sample_nonce_m0 [0x03] [0x06]
  = ([0x9F], [0xCD;0xA7;0xF4;0x48]).
Proof. vm_compute. reflexivity. Qed.

Example ccm_ble_m4_l2_dec :
  ccm_decrypt aes128_enc 4 2 ble_sample_sk ble_sample_nonce_m0 [0x03] [0x9F] [0xCD;0xA7;0xF4;0x48]
  = Some [0x06].
Proof. vm_compute. reflexivity. Qed.
