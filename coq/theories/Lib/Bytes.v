(** Byte strings as lists of N, Python-style slicing and little-endian integers. *)
From Coq Require Import List NArith ZArith Arith Bool Lia ZifyBool ZifyN ZifyNat.
Import ListNotations.
Ltac Zify.zify_post_hook ::= Z.to_euclidean_division_equations.

Definition bytes := list N.

Definition wf_byte (b : N) : bool := N.ltb b 256.
Definition wf_bytes (l : bytes) : bool := forallb wf_byte l.

(** Python [l[a:b]] for 0 <= a, 0 <= b (clamping like Python does). *)
Definition slice (a b : nat) (l : bytes) : bytes := firstn (b - a) (skipn a l).

Definition nlen (l : bytes) : N := N.of_nat (length l).

(** struct.pack('<H', n) for n < 65536 *)
Definition le16 (n : N) : bytes := [N.modulo n 256; N.div n 256].
(** struct.unpack('<H', b[:2])[0] on a list of at least two bytes *)
Definition un_le16 (l : bytes) : N :=
  match l with a :: b :: _ => a + 256 * b | _ => 0 end.

Definition le32 (n : N) : bytes :=
  [N.modulo n 256; N.modulo (N.div n 256) 256; N.modulo (N.div n 65536) 256; N.modulo (N.div n 16777216) 256].

Fixpoint bytes_eqb (a b : bytes) : bool :=
  match a, b with
  | [], [] => true
  | x :: a', y :: b' => N.eqb x y && bytes_eqb a' b'
  | _, _ => false
  end.

Lemma bytes_eqb_eq a : forall b, bytes_eqb a b = true <-> a = b.
Proof.
  induction a as [|x a IH]; intros [|y b]; simpl; split; intro H; try reflexivity; try discriminate.
  - apply andb_true_iff in H as [H1 H2]. apply N.eqb_eq in H1. apply IH in H2. congruence.
  - inversion H; subst. rewrite N.eqb_refl. simpl. apply IH. reflexivity.
Qed.

Lemma wf_bytes_app a b : wf_bytes (a ++ b) = wf_bytes a && wf_bytes b.
Proof. unfold wf_bytes. apply forallb_app. Qed.

Lemma un_le16_le16 n rest : (n < 65536)%N -> un_le16 (le16 n ++ rest) = n.
Proof.
  intros H. unfold le16, un_le16. cbn [app]. lia.
Qed.

Lemma wf_le16 n : (n < 65536)%N -> wf_bytes (le16 n) = true.
Proof.
  intros H. unfold wf_bytes, le16, wf_byte. cbn [forallb]. lia.
Qed.
