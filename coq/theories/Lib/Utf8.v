(** Strict UTF-8 (RFC 3629) as implemented by CPython's [bytes.decode('utf-8')] /
    [str.encode('utf-8')] with the default error handler: overlong forms, surrogates
    (U+D800..U+DFFF) and code points above U+10FFFF are rejected by the decoder
    ([None] = UnicodeDecodeError) and refused by the encoder ([None] =
    UnicodeEncodeError).  A text is the list of its code points.
    Validated against CPython by the C15 check: all 1- and 2-byte strings exhaustively,
    3/4-byte strings and all code-point classes sampled. *)
From Coq Require Import List NArith ZArith Arith Bool Lia ZifyBool ZifyN ZifyNat.
From Whad Require Import Lib.Bytes.
Import ListNotations.
Ltac Zify.zify_post_hook ::= Z.to_euclidean_division_equations.
Open Scope N_scope.

Definition text := list N.

Definition in_range (lo hi b : N) : bool := (lo <=? b) && (b <=? hi).
Definition is_cont (b : N) : bool := in_range 128 191 b.

(** [bytes.decode('utf-8')] *)
Fixpoint utf8_decode (l : bytes) : option text :=
  match l with
  | [] => Some []
  | b0 :: r0 =>
    if b0 <? 128 then option_map (cons b0) (utf8_decode r0)
    else if in_range 194 223 b0 then
      match r0 with
      | b1 :: r1 =>
          if is_cont b1
          then option_map (cons ((b0 - 192) * 64 + (b1 - 128))) (utf8_decode r1)
          else None
      | _ => None
      end
    else if in_range 224 239 b0 then
      match r0 with
      | b1 :: b2 :: r2 =>
          if in_range (if b0 =? 224 then 160 else 128) (if b0 =? 237 then 159 else 191) b1
             && is_cont b2
          then option_map (cons ((b0 - 224) * 4096 + (b1 - 128) * 64 + (b2 - 128))) (utf8_decode r2)
          else None
      | _ => None
      end
    else if in_range 240 244 b0 then
      match r0 with
      | b1 :: b2 :: b3 :: r3 =>
          if in_range (if b0 =? 240 then 144 else 128) (if b0 =? 244 then 143 else 191) b1
             && is_cont b2 && is_cont b3
          then option_map (cons ((b0 - 240) * 262144 + (b1 - 128) * 4096 + (b2 - 128) * 64 + (b3 - 128)))
                          (utf8_decode r3)
          else None
      | _ => None
      end
    else None
  end.

(** A Unicode scalar value (what a Python [str] obtained from a decoder holds). *)
Definition valid_cp (c : N) : bool := (c <? 55296) || ((57343 <? c) && (c <? 1114112)).
Definition valid_text (t : text) : bool := forallb valid_cp t.

(** [chr(c).encode('utf-8')] *)
Definition utf8_enc1 (c : N) : option bytes :=
  if c <? 128 then Some [c]
  else if c <? 2048 then Some [192 + c / 64; 128 + c mod 64]
  else if c <? 65536 then
    if in_range 55296 57343 c then None
    else Some [224 + c / 4096; 128 + (c / 64) mod 64; 128 + c mod 64]
  else if c <? 1114112 then
    Some [240 + c / 262144; 128 + (c / 4096) mod 64; 128 + (c / 64) mod 64; 128 + c mod 64]
  else None.

(** [s.encode('utf-8')] *)
Fixpoint utf8_encode (t : text) : option bytes :=
  match t with
  | [] => Some []
  | c :: r =>
      match utf8_enc1 c, utf8_encode r with
      | Some a, Some b => Some (a ++ b)
      | _, _ => None
      end
  end.

(** ** Lemmas *)

Lemma some_inj {A} (x y : A) : Some x = Some y -> x = y.
Proof. congruence. Qed.

Ltac brk :=
  repeat match goal with
  | H : context[N.ltb ?a ?b] |- _ => destruct (N.ltb_spec a b)
  | |- context[N.ltb ?a ?b] => destruct (N.ltb_spec a b)
  | H : context[N.leb ?a ?b] |- _ => destruct (N.leb_spec a b)
  | |- context[N.leb ?a ?b] => destruct (N.leb_spec a b)
  | H : context[N.eqb ?a ?b] |- _ => destruct (N.eqb_spec a b)
  | |- context[N.eqb ?a ?b] => destruct (N.eqb_spec a b)
  end.

Lemma utf8_enc1_valid c : valid_cp c = true <-> exists a, utf8_enc1 c = Some a.
Proof.
  unfold valid_cp, utf8_enc1, in_range. split.
  - intros H. brk; cbn [andb orb] in *; try discriminate; try lia; eauto.
  - intros [a H]. brk; cbn [andb orb] in *; try discriminate; try reflexivity; lia.
Qed.

Lemma utf8_enc1_length c a : utf8_enc1 c = Some a -> (1 <= length a <= 4)%nat.
Proof.
  unfold utf8_enc1. intros H.
  destruct (c <? 128); [inversion H; cbn; lia|].
  destruct (c <? 2048); [inversion H; cbn; lia|].
  destruct (c <? 65536).
  - destruct (in_range 55296 57343 c); [discriminate|inversion H; cbn; lia].
  - destruct (c <? 1114112); [inversion H; cbn; lia|discriminate].
Qed.

Lemma utf8_enc1_wf c a : utf8_enc1 c = Some a -> wf_bytes a = true.
Proof.
  unfold utf8_enc1, wf_bytes, wf_byte. intros H.
  destruct (N.ltb_spec c 128); [apply some_inj in H; subst a; cbn [forallb]; lia|].
  destruct (N.ltb_spec c 2048); [apply some_inj in H; subst a; cbn [forallb]; lia|].
  destruct (N.ltb_spec c 65536).
  - destruct (in_range 55296 57343 c); [discriminate|]. apply some_inj in H; subst a; cbn [forallb]; lia.
  - destruct (N.ltb_spec c 1114112); [|discriminate]. apply some_inj in H; subst a; cbn [forallb]; lia.
Qed.

(** Decoding what the encoder produced for one code point, whatever follows. *)
Lemma utf8_decode_enc1 c a rest :
  utf8_enc1 c = Some a -> utf8_decode (a ++ rest) = option_map (cons c) (utf8_decode rest).
Proof.
  unfold utf8_enc1. intros H.
  destruct (N.ltb_spec c 128).
  { apply some_inj in H; subst a. cbn [app utf8_decode].
    destruct (N.ltb_spec c 128); [reflexivity|lia]. }
  destruct (N.ltb_spec c 2048).
  { apply some_inj in H; subst a. cbn [app utf8_decode].
    assert (E0 : (192 + c / 64 <? 128) = false) by lia. rewrite E0.
    assert (E1 : in_range 194 223 (192 + c / 64) = true) by (unfold in_range; lia). rewrite E1.
    assert (E2 : is_cont (128 + c mod 64) = true) by (unfold is_cont, in_range; lia). rewrite E2.
    replace ((192 + c / 64 - 192) * 64 + (128 + c mod 64 - 128)) with c by lia. reflexivity. }
  destruct (N.ltb_spec c 65536).
  { destruct (in_range 55296 57343 c) eqn:Es; [discriminate|].
    apply some_inj in H; subst a. cbn [app utf8_decode].
    assert (E0 : (224 + c / 4096 <? 128) = false) by lia. rewrite E0.
    assert (E1 : in_range 194 223 (224 + c / 4096) = false) by (unfold in_range; lia). rewrite E1.
    assert (E2 : in_range 224 239 (224 + c / 4096) = true) by (unfold in_range; lia). rewrite E2.
    assert (E3 : in_range (if 224 + c / 4096 =? 224 then 160 else 128)
                          (if 224 + c / 4096 =? 237 then 159 else 191) (128 + (c / 64) mod 64) = true).
    { unfold in_range in *.
      destruct (N.eqb_spec (224 + c / 4096) 224); destruct (N.eqb_spec (224 + c / 4096) 237); lia. }
    rewrite E3.
    assert (E4 : is_cont (128 + c mod 64) = true) by (unfold is_cont, in_range; lia). rewrite E4.
    cbn [andb].
    replace ((224 + c / 4096 - 224) * 4096 + (128 + (c / 64) mod 64 - 128) * 64 + (128 + c mod 64 - 128))
      with c by lia.
    reflexivity. }
  destruct (N.ltb_spec c 1114112); [|discriminate].
  apply some_inj in H; subst a. cbn [app utf8_decode].
  assert (E0 : (240 + c / 262144 <? 128) = false) by lia. rewrite E0.
  assert (E1 : in_range 194 223 (240 + c / 262144) = false) by (unfold in_range; lia). rewrite E1.
  assert (E2 : in_range 224 239 (240 + c / 262144) = false) by (unfold in_range; lia). rewrite E2.
  assert (E2' : in_range 240 244 (240 + c / 262144) = true) by (unfold in_range; lia). rewrite E2'.
  assert (E3 : in_range (if 240 + c / 262144 =? 240 then 144 else 128)
                        (if 240 + c / 262144 =? 244 then 143 else 191) (128 + (c / 4096) mod 64) = true).
  { unfold in_range.
    destruct (N.eqb_spec (240 + c / 262144) 240); destruct (N.eqb_spec (240 + c / 262144) 244); lia. }
  rewrite E3.
  assert (E4 : is_cont (128 + (c / 64) mod 64) = true) by (unfold is_cont, in_range; lia). rewrite E4.
  assert (E5 : is_cont (128 + c mod 64) = true) by (unfold is_cont, in_range; lia). rewrite E5.
  cbn [andb].
  replace ((240 + c / 262144 - 240) * 262144 + (128 + (c / 4096) mod 64 - 128) * 4096
           + (128 + (c / 64) mod 64 - 128) * 64 + (128 + c mod 64 - 128)) with c by lia.
  reflexivity.
Qed.

Lemma utf8_decode_encode_app t : forall b rest,
  utf8_encode t = Some b -> utf8_decode (b ++ rest) = option_map (app t) (utf8_decode rest).
Proof.
  induction t as [|c t IH]; intros b rest H; cbn [utf8_encode] in H.
  - inversion H; subst. cbn [app]. destruct (utf8_decode rest); reflexivity.
  - destruct (utf8_enc1 c) as [a|] eqn:Ea; [|discriminate].
    destruct (utf8_encode t) as [b'|] eqn:Eb; [|discriminate].
    inversion H; subst. rewrite <- app_assoc.
    rewrite (utf8_decode_enc1 c a _ Ea), (IH b' rest eq_refl).
    destruct (utf8_decode rest); reflexivity.
Qed.

Lemma utf8_decode_encode t b : utf8_encode t = Some b -> utf8_decode b = Some t.
Proof.
  intros H. rewrite <- (app_nil_r b), (utf8_decode_encode_app t b [] H).
  cbn. rewrite app_nil_r. reflexivity.
Qed.

Lemma utf8_encode_valid t : valid_text t = true <-> exists b, utf8_encode t = Some b.
Proof.
  induction t as [|c t IH]; cbn [valid_text forallb utf8_encode].
  - split; eauto.
  - fold (valid_text t). rewrite andb_true_iff, utf8_enc1_valid, IH. split.
    + intros [[a Ha] [b Hb]]. rewrite Ha, Hb. eauto.
    + intros [b H]. destruct (utf8_enc1 c); [|discriminate].
      destruct (utf8_encode t); [|discriminate]. eauto.
Qed.

Lemma utf8_encode_wf t : forall b, utf8_encode t = Some b -> wf_bytes b = true.
Proof.
  induction t as [|c t IH]; intros b H; cbn [utf8_encode] in H.
  - inversion H. reflexivity.
  - destruct (utf8_enc1 c) as [a|] eqn:Ea; [|discriminate].
    destruct (utf8_encode t) as [b'|] eqn:Eb; [|discriminate].
    inversion H; subst. rewrite wf_bytes_app, (utf8_enc1_wf _ _ Ea), (IH _ eq_refl). reflexivity.
Qed.

(** A successful decode of a non-empty byte string is a non-empty text. *)
Lemma utf8_decode_nonempty b0 r : utf8_decode (b0 :: r) <> Some [].
Proof.
  cbn [utf8_decode]. intro H.
  repeat match type of H with
  | (if ?c then _ else _) = _ => destruct c
  | match ?l with [] => _ | _ :: _ => _ end = _ => destruct l
  | option_map _ ?o = _ => destruct o; cbn in H
  end; discriminate.
Qed.

(** Whatever the decoder accepts is a text of Unicode scalar values (so it can be
    encoded again: no UnicodeEncodeError on decoded text). *)
Lemma utf8_decode_valid_aux n : forall l t,
  (length l <= n)%nat -> utf8_decode l = Some t -> valid_text t = true.
Proof.
  induction n as [|n IH]; intros l t Hl H.
  { destruct l; [apply some_inj in H; subst; reflexivity | cbn in Hl; lia]. }
  destruct l as [|b0 r0]; [apply some_inj in H; subst; reflexivity|].
  cbn [utf8_decode] in H. cbn [length] in Hl.
  destruct (N.ltb_spec b0 128).
  { destruct (utf8_decode r0) as [t0|] eqn:E; [|discriminate]. cbn [option_map] in H.
    apply some_inj in H; subst t. cbn [valid_text forallb]. fold (valid_text t0).
    rewrite (IH r0 t0 ltac:(lia) E). unfold valid_cp. lia. }
  destruct (in_range 194 223 b0) eqn:E1.
  { destruct r0 as [|b1 r1]; [discriminate|]. destruct (is_cont b1) eqn:E2; [|discriminate].
    cbn [length] in Hl.
    destruct (utf8_decode r1) as [t0|] eqn:E; [|discriminate]. cbn [option_map] in H.
    apply some_inj in H; subst t. cbn [valid_text forallb]. fold (valid_text t0).
    rewrite (IH r1 t0 ltac:(lia) E). unfold valid_cp, is_cont, in_range in *. lia. }
  destruct (in_range 224 239 b0) eqn:E2.
  { destruct r0 as [|b1 [|b2 r2]]; try discriminate.
    match type of H with (if ?c then _ else _) = _ => destruct c eqn:E3 end; [|discriminate].
    cbn [length] in Hl.
    destruct (utf8_decode r2) as [t0|] eqn:E; [|discriminate]. cbn [option_map] in H.
    apply some_inj in H; subst t. cbn [valid_text forallb]. fold (valid_text t0).
    rewrite (IH r2 t0 ltac:(lia) E). unfold valid_cp, is_cont, in_range in *.
    destruct (N.eqb_spec b0 224); destruct (N.eqb_spec b0 237); lia. }
  destruct (in_range 240 244 b0) eqn:E3; [|discriminate].
  destruct r0 as [|b1 [|b2 [|b3 r3]]]; try discriminate.
  match type of H with (if ?c then _ else _) = _ => destruct c eqn:E4 end; [|discriminate].
  cbn [length] in Hl.
  destruct (utf8_decode r3) as [t0|] eqn:E; [|discriminate]. cbn [option_map] in H.
  apply some_inj in H; subst t. cbn [valid_text forallb]. fold (valid_text t0).
  rewrite (IH r3 t0 ltac:(lia) E). unfold valid_cp, is_cont, in_range in *.
  destruct (N.eqb_spec b0 240); destruct (N.eqb_spec b0 244); lia.
Qed.

Lemma utf8_decode_valid l t : utf8_decode l = Some t -> valid_text t = true.
Proof. apply (utf8_decode_valid_aux (length l)). lia. Qed.
