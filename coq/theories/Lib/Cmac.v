(** AES-CMAC (RFC 4493 / NIST SP 800-38B) over an arbitrary block function [E].
    [E := aes128_enc] only for the test vectors. Stdlib only, no axioms. *)
From Coq Require Import List NArith ZArith Arith Bool Lia ZifyBool ZifyN ZifyNat.
From Whad Require Import Lib.Bytes Lib.Xor Lib.Aes.
Import ListNotations.
Ltac Zify.zify_post_hook ::= Z.to_euclidean_division_equations.

(** shift a big-endian byte string left by one bit: (carry out, shifted string) *)
Fixpoint shl1 (l : bytes) : N * bytes :=
  match l with
  | [] => (0%N, [])
  | b :: t => let '(c, t') := shl1 t in (N.div b 128, (N.modulo (2 * b) 256 + c)%N :: t')
  end.

(** doubling in GF(2^128) (RFC 4493 2.3: shift, xor const_Rb = 0x87 when the msb was set) *)
Definition cmac_dbl (l : bytes) : bytes :=
  let '(c, l') := shl1 l in
  if N.eqb c 0 then l' else xor_bytes l' (zeros (length l' - 1) ++ [135%N]).

Lemma shl1_length l : length (snd (shl1 l)) = length l.
Proof.
  induction l as [|b t IH]; [reflexivity|]. cbn [shl1]. destruct (shl1 t) as [c t'].
  cbn [snd length] in *. rewrite IH. reflexivity.
Qed.

Lemma cmac_dbl_length l : length (cmac_dbl l) = length l.
Proof.
  unfold cmac_dbl. pose proof (shl1_length l) as H. destruct (shl1 l) as [c l']. cbn [snd] in H.
  destruct (N.eqb c 0); [exact H|].
  rewrite xor_bytes_length, app_length, zeros_length. cbn [length]. lia.
Qed.

Section CMAC.
  Variable E : bytes -> bytes -> bytes.            (* key -> 16-byte block -> 16-byte block *)

  Definition cmac_subkeys (key : bytes) : bytes * bytes :=
    let l := E key (zeros 16) in
    let k1 := cmac_dbl l in
    (k1, cmac_dbl k1).

  (** last block: complete -> xor K1, else 10* padding and xor K2 *)
  Definition cmac_last (k1 k2 blk : bytes) : bytes :=
    if Nat.eqb (length blk) 16 then xor_bytes blk k1
    else xor_bytes (blk ++ [128%N] ++ zeros (15 - length blk)) k2.

  (** structural recursion over the list of 16-byte chunks (last one possibly shorter) *)
  Fixpoint cmac_blocks (key k1 k2 x : bytes) (blocks : list bytes) : bytes :=
    match blocks with
    | [] => E key (xor_bytes x (cmac_last k1 k2 []))       (* empty message *)
    | b :: rest =>
      match rest with
      | [] => E key (xor_bytes x (cmac_last k1 k2 b))
      | _ => cmac_blocks key k1 k2 (E key (xor_bytes x b)) rest
      end
    end.

  Definition cmac (key msg : bytes) : bytes :=
    let '(k1, k2) := cmac_subkeys key in
    cmac_blocks key k1 k2 (zeros 16) (chunks16 msg).

  (** truncated MAC, e.g. LoRaWAN MIC = cmac(...)[0:4] *)
  Definition cmac_trunc (n : nat) (key msg : bytes) : bytes := firstn n (cmac key msg).

  Hypothesis E_length : forall k b, length (E k b) = 16.

  Lemma cmac_blocks_length key k1 k2 : forall blocks x, length (cmac_blocks key k1 k2 x blocks) = 16.
  Proof.
    induction blocks as [|b rest IH]; intros x; cbn [cmac_blocks]; [apply E_length|].
    destruct rest; [apply E_length|apply IH].
  Qed.

  Lemma cmac_length key msg : length (cmac key msg) = 16.
  Proof. unfold cmac. destruct (cmac_subkeys key). apply cmac_blocks_length. Qed.

  Lemma cmac_subkeys_length key :
    length (fst (cmac_subkeys key)) = 16 /\ length (snd (cmac_subkeys key)) = 16.
  Proof. unfold cmac_subkeys. cbn [fst snd]. rewrite !cmac_dbl_length, E_length. split; reflexivity. Qed.
End CMAC.

(** * RFC 4493 section 4 test vectors with [E := aes128_enc] *)
Local Open Scope N_scope.

Definition rfc4493_key : bytes :=
  [0x2b;0x7e;0x15;0x16;0x28;0xae;0xd2;0xa6;0xab;0xf7;0x15;0x88;0x09;0xcf;0x4f;0x3c].

Definition rfc4493_msg64 : bytes :=
  [0x6b;0xc1;0xbe;0xe2;0x2e;0x40;0x9f;0x96;0xe9;0x3d;0x7e;0x11;0x73;0x93;0x17;0x2a;
   0xae;0x2d;0x8a;0x57;0x1e;0x03;0xac;0x9c;0x9e;0xb7;0x6f;0xac;0x45;0xaf;0x8e;0x51;
   0x30;0xc8;0x1c;0x46;0xa3;0x5c;0xe4;0x11;0xe5;0xfb;0xc1;0x19;0x1a;0x0a;0x52;0xef;
   0xf6;0x9f;0x24;0x45;0xdf;0x4f;0x9b;0x17;0xad;0x2b;0x41;0x7b;0xe6;0x6c;0x37;0x10].

Example cmac_rfc4493_subkeys :
  cmac_subkeys aes128_enc rfc4493_key =
  ([0xfb;0xee;0xd6;0x18;0x35;0x71;0x33;0x66;0x7c;0x85;0xe0;0x8f;0x72;0x36;0xa8;0xde],
   [0xf7;0xdd;0xac;0x30;0x6a;0xe2;0x66;0xcc;0xf9;0x0b;0xc1;0x1e;0xe4;0x6d;0x51;0x3b]).
Proof. vm_compute. reflexivity. Qed.

Example cmac_rfc4493_len0 :
  cmac aes128_enc rfc4493_key [] =
  [0xbb;0x1d;0x69;0x29;0xe9;0x59;0x37;0x28;0x7f;0xa3;0x7d;0x12;0x9b;0x75;0x67;0x46].
Proof. vm_compute. reflexivity. Qed.

Example cmac_rfc4493_len16 :
  cmac aes128_enc rfc4493_key (firstn 16 rfc4493_msg64) =
  [0x07;0x0a;0x16;0xb4;0x6b;0x4d;0x41;0x44;0xf7;0x9b;0xdd;0x9d;0xd0;0x4a;0x28;0x7c].
Proof. vm_compute. reflexivity. Qed.

Example cmac_rfc4493_len40 :
  cmac aes128_enc rfc4493_key (firstn 40 rfc4493_msg64) =
  [0xdf;0xa6;0x67;0x47;0xde;0x9a;0xe6;0x30;0x30;0xca;0x32;0x61;0x14;0x97;0xc8;0x27].
Proof. vm_compute. reflexivity. Qed.

Example cmac_rfc4493_len64 :
  cmac aes128_enc rfc4493_key rfc4493_msg64 =
  [0x51;0xf0;0xbe;0xbf;0x7e;0x3b;0x9d;0x92;0xfc;0x49;0x74;0x17;0x79;0x36;0x3c;0xfe].
Proof. vm_compute. reflexivity. Qed.
