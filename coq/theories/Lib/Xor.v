(** Byte-wise xor, big-endian integers, 16-byte chunking and zero padding:
    the common base of Lib/Aes.v, Lib/Ccm.v, Lib/Cmac.v. Stdlib only, no axioms. *)
From Coq Require Import List NArith ZArith Arith Bool Lia ZifyBool ZifyN ZifyNat.
From Whad Require Import Lib.Bytes.
Import ListNotations.
Ltac Zify.zify_post_hook ::= Z.to_euclidean_division_equations.

(** * xor of two byte strings (zip; length of the shorter one) *)
Fixpoint xor_bytes (a b : bytes) : bytes :=
  match a, b with
  | x :: a', y :: b' => N.lxor x y :: xor_bytes a' b'
  | _, _ => []
  end.

Lemma xor_bytes_length a : forall b, length (xor_bytes a b) = Nat.min (length a) (length b).
Proof. induction a as [|x a IH]; intros [|y b]; cbn [xor_bytes length Nat.min]; auto. Qed.

Lemma xor_bytes_length_le a b : length a <= length b -> length (xor_bytes a b) = length a.
Proof. intros H. rewrite xor_bytes_length. lia. Qed.

Lemma xor_bytes_nil_r a : xor_bytes a [] = [].
Proof. destruct a; reflexivity. Qed.

(** Involution holds for every list of N (no range condition is needed). *)
Lemma xor_bytes_involutive_gen d : forall k, length k >= length d -> xor_bytes (xor_bytes d k) k = d.
Proof.
  induction d as [|x d IH]; intros [|y k] H; cbn [xor_bytes length] in *; try reflexivity; try lia.
  rewrite N.lxor_assoc, N.lxor_nilpotent, N.lxor_0_r. f_equal. apply IH. lia.
Qed.

(** The form named in CRYPTO_INTERFACE.md. *)
Lemma xor_bytes_involutive d k :
  length k >= length d -> wf_bytes d = true -> xor_bytes (xor_bytes d k) k = d.
Proof. intros H _. apply xor_bytes_involutive_gen; exact H. Qed.

Lemma xor_bytes_comm a : forall b, xor_bytes a b = xor_bytes b a.
Proof. induction a as [|x a IH]; intros [|y b]; cbn [xor_bytes]; auto. rewrite N.lxor_comm, IH. reflexivity. Qed.

Lemma xor_bytes_app a1 : forall b1 a2 b2, length a1 = length b1 ->
  xor_bytes (a1 ++ a2) (b1 ++ b2) = xor_bytes a1 b1 ++ xor_bytes a2 b2.
Proof.
  induction a1 as [|x a IH]; intros [|y b] a2 b2 H; cbn [length] in H; try discriminate; cbn [app xor_bytes].
  - reflexivity.
  - f_equal. apply IH. lia.
Qed.

(** xor with a longer key only uses the key's prefix *)
Lemma xor_bytes_firstn_r a : forall b, xor_bytes a b = xor_bytes a (firstn (length a) b).
Proof. induction a as [|x a IH]; intros [|y b]; cbn [xor_bytes length firstn]; auto. f_equal. apply IH. Qed.

(** xor is injective in its first argument for a key that is long enough *)
Lemma xor_bytes_inj_l a a' k : length a <= length k -> length a' <= length k ->
  xor_bytes a k = xor_bytes a' k -> a = a'.
Proof.
  intros Ha Ha' H.
  rewrite <- (xor_bytes_involutive_gen a k) by lia.
  rewrite <- (xor_bytes_involutive_gen a' k) by lia. rewrite H. reflexivity.
Qed.

Lemma lxor_lt_256 a b : (a < 256)%N -> (b < 256)%N -> (N.lxor a b < 256)%N.
Proof.
  intros Ha Hb.
  destruct (N.eq_dec (N.lxor a b) 0) as [->|Hz]; [lia|].
  change 256%N with (2 ^ 8)%N. apply N.log2_lt_pow2; [lia|].
  pose proof (N.log2_lxor a b) as Hl.
  assert (N.log2 a < 8)%N.
  { destruct (N.eq_dec a 0) as [->|]; [cbn; lia|]. apply N.log2_lt_pow2; [lia|exact Ha]. }
  assert (N.log2 b < 8)%N.
  { destruct (N.eq_dec b 0) as [->|]; [cbn; lia|]. apply N.log2_lt_pow2; [lia|exact Hb]. }
  lia.
Qed.

Lemma wf_xor_bytes a : forall b, wf_bytes a = true -> wf_bytes b = true -> wf_bytes (xor_bytes a b) = true.
Proof.
  unfold wf_bytes.
  induction a as [|x a IH]; intros [|y b] Ha Hb; cbn [xor_bytes forallb] in *; try reflexivity.
  apply andb_true_iff in Ha as [Hx Ha]. apply andb_true_iff in Hb as [Hy Hb].
  apply andb_true_iff; split; [|apply IH; assumption].
  unfold wf_byte in *. apply N.ltb_lt. apply lxor_lt_256; apply N.ltb_lt; assumption.
Qed.

(** * zeros *)
Definition zeros (n : nat) : bytes := repeat 0%N n.

Lemma zeros_length n : length (zeros n) = n.
Proof. apply repeat_length. Qed.

Lemma wf_zeros n : wf_bytes (zeros n) = true.
Proof. induction n; cbn; auto. Qed.

(** * big-endian encoding on [n] bytes (value taken modulo 256^n) *)
Fixpoint be_bytes (n : nat) (v : N) : bytes :=
  match n with
  | O => []
  | S n' => be_bytes n' (N.div v 256) ++ [N.modulo v 256]
  end.

Fixpoint be_value_acc (acc : N) (l : bytes) : N :=
  match l with
  | [] => acc
  | b :: t => be_value_acc (256 * acc + b) t
  end.
Definition be_value (l : bytes) : N := be_value_acc 0 l.

Lemma be_bytes_length n : forall v, length (be_bytes n v) = n.
Proof. induction n; intros v; cbn [be_bytes]; [reflexivity|]. rewrite app_length, IHn. cbn. lia. Qed.

Lemma wf_be_bytes n : forall v, wf_bytes (be_bytes n v) = true.
Proof.
  induction n; intros v; cbn [be_bytes]; [reflexivity|].
  rewrite wf_bytes_app, IHn. cbn. unfold wf_byte.
  assert (v mod 256 < 256)%N by (apply N.mod_lt; lia). lia.
Qed.

Lemma be_value_acc_app l1 : forall acc l2, be_value_acc acc (l1 ++ l2) = be_value_acc (be_value_acc acc l1) l2.
Proof. induction l1 as [|b l1 IH]; intros; cbn [app be_value_acc]; auto. Qed.

Lemma be_value_be_bytes n : forall v, (v < 256 ^ N.of_nat n)%N -> be_value (be_bytes n v) = v.
Proof.
  unfold be_value.
  induction n; intros v H.
  - cbn in *. lia.
  - cbn [be_bytes]. rewrite be_value_acc_app. rewrite IHn.
    + cbn [be_value_acc]. lia.
    + rewrite Nat2N.inj_succ, N.pow_succ_r' in H.
      apply N.div_lt_upper_bound; lia.
Qed.

Lemma be_bytes_inj n v w : (v < 256 ^ N.of_nat n)%N -> (w < 256 ^ N.of_nat n)%N ->
  be_bytes n v = be_bytes n w -> v = w.
Proof.
  intros Hv Hw H. rewrite <- (be_value_be_bytes n v Hv), <- (be_value_be_bytes n w Hw), H. reflexivity.
Qed.

(** * zero padding to a multiple of 16 and cutting into 16-byte blocks *)
Definition pad_len (n : nat) : nat := (16 - Nat.modulo n 16) mod 16.
Definition pad16 (l : bytes) : bytes := l ++ zeros (pad_len (length l)).

Lemma pad16_length l : length (pad16 l) = 16 * Nat.div (length l + 15) 16.
Proof. unfold pad16, pad_len. rewrite app_length, zeros_length. lia. Qed.

Lemma pad16_length_mod l : Nat.modulo (length (pad16 l)) 16 = 0.
Proof. rewrite pad16_length. rewrite Nat.mul_comm. apply Nat.mod_mul. lia. Qed.

Lemma pad16_firstn l : firstn (length l) (pad16 l) = l.
Proof. unfold pad16. rewrite firstn_app, Nat.sub_diag, firstn_all. cbn. apply app_nil_r. Qed.

Lemma wf_pad16 l : wf_bytes (pad16 l) = wf_bytes l.
Proof. unfold pad16. rewrite wf_bytes_app, wf_zeros. apply andb_true_r. Qed.

(** [chunks16_fuel (length l) l] cuts [l] into consecutive 16-byte blocks (the last one
    may be shorter). The fuel is the length of the list: it is never exhausted
    ([chunks16_concat] shows no byte is dropped). *)
Fixpoint chunks16_fuel (fuel : nat) (l : bytes) : list bytes :=
  match fuel with
  | O => []
  | S f => match l with
           | [] => []
           | _ => firstn 16 l :: chunks16_fuel f (skipn 16 l)
           end
  end.
Definition chunks16 (l : bytes) : list bytes := chunks16_fuel (length l) l.

Lemma chunks16_fuel_concat f : forall l, length l <= f -> concat (chunks16_fuel f l) = l.
Proof.
  induction f; intros l H.
  - destruct l; [reflexivity|cbn in H; lia].
  - cbn [chunks16_fuel]. destruct l as [|b l]; [reflexivity|].
    cbn [concat]. rewrite IHf.
    + apply firstn_skipn.
    + rewrite skipn_length. cbn [length] in *. lia.
Qed.

Lemma chunks16_concat l : concat (chunks16 l) = l.
Proof. apply chunks16_fuel_concat. lia. Qed.

Lemma chunks16_fuel_block_length f : forall l, length l <= f -> Nat.modulo (length l) 16 = 0 ->
  Forall (fun b => length b = 16) (chunks16_fuel f l).
Proof.
  induction f; intros l H Hm; cbn [chunks16_fuel]; [constructor|].
  destruct l as [|b l]; [constructor|].
  assert (Hl : 16 <= length (b :: l)).
  { destruct (Nat.lt_ge_cases (length (b :: l)) 16) as [Hlt|]; [|assumption].
    rewrite Nat.mod_small in Hm by assumption. cbn in Hm. lia. }
  constructor.
  - rewrite firstn_length. lia.
  - apply IHf.
    + rewrite skipn_length. cbn [length] in *. lia.
    + rewrite skipn_length.
      assert (E : length (b :: l) = (length (b :: l) - 16) + 1 * 16) by lia.
      rewrite E in Hm. rewrite Nat.mod_add in Hm by lia. exact Hm.
Qed.

Lemma chunks16_block_length l : Nat.modulo (length l) 16 = 0 ->
  Forall (fun b => length b = 16) (chunks16 l).
Proof. apply chunks16_fuel_block_length. lia. Qed.
