(** Gallina counterparts of the Python operations emitted by the pure-function
    translator harness/translators/pyfun.py (see design/PYTRANS.md).

    Python ints are translated to [nat] (lengths, indices, counts) or [N] (byte values,
    counters, bit operations); [bytes] / [bytearray] values to [bytes] = [list N].
    Each operation agrees with Python ON THE DOMAIN stated next to it; the translator
    collects these side conditions into the [gen_<f>_pre] predicate it emits beside each
    [gen_<f>].  Stdlib only, no axioms. *)
From Coq Require Import List NArith ZArith Arith Bool Lia ZifyBool ZifyN ZifyNat.
From Whad Require Import Lib.Bytes.
Import ListNotations.
Ltac Zify.zify_post_hook ::= Z.to_euclidean_division_equations.

(** ** Sequences *)

(** [len(x)] *)
Definition py_len {A} (l : list A) : nat := length l.

(** [l[a:b]] for non-negative [a], [b] (Python clamps both to [len(l)]; [b < a] gives []). *)
Definition py_slice {A} (a b : nat) (l : list A) : list A := firstn (b - a) (skipn a l).
(** [l[a:]] and [l[:b]] *)
Definition py_slice_from {A} (a : nat) (l : list A) : list A := skipn a l.
Definition py_slice_to {A} (b : nat) (l : list A) : list A := firstn b l.

(** [l[i]] on bytes.  Domain: [i < len(l)] (Python raises IndexError otherwise). *)
Definition py_index (i : nat) (l : bytes) : N := nth i l 0%N.

(** [bytes(x)] for [x] a bytes-like object, and [bytes([...])] / [bytes(list_of_ints)].
    Domain of the second form: every element < 256 (Python raises ValueError otherwise). *)
Definition py_bytes (l : list N) : bytes := l.
Definition all_bytes (l : list N) : Prop := Forall (fun x => (x < 256)%N) l.

(** [[f(i) for i in range(n)]], and
    [for i in range(n): acc.append(f(i))] (= [acc ++ py_range_map f n]). *)
Definition py_range_map {A} (f : nat -> A) (n : nat) : list A := map f (seq 0 n).

(** ** Integer arithmetic *)

(** [a // b], [a % b] on non-negative ints.  Domain: [0 < b] (ZeroDivisionError otherwise). *)
Definition py_floordiv (a b : nat) : nat := a / b.
Definition py_mod (a b : nat) : nat := a mod b.
Definition py_floordiv_N (a b : N) : N := N.div a b.
Definition py_mod_N (a b : N) : N := N.modulo a b.

(** [int(a / b)]: binary64 division of two ints followed by truncation.
    Domain: [0 < b], [a < 2^53], [b < 2^53].  There both operands convert exactly, the
    correctly rounded quotient [fl(a/b)] lies in [[q, q+1]] for [q = a // b] (rounding is
    monotone and [q], [q+1 <= 2^53] are representable), and it can only be [q+1] when
    [a/b] is within half an ulp of [q+1], which forces [a >= 2^53]
    (argument in design/PYTRANS.md; IEEE-754 itself is NOT formalised here — this is the
    one semantic assumption of the translator, probed on adversarial pairs every run). *)
Definition two53 : N := 9007199254740992%N.
Definition py_int_truediv (a b : nat) : nat := a / b.
Definition py_int_truediv_N (a b : N) : N := N.div a b.
Definition py_truediv_ok (a b : N) : Prop := (a < two53 /\ b < two53 /\ 0 < b)%N.

(** [a - b] on non-negative ints.  Domain: [b <= a] (Python would go negative). *)
(** emitted as [a - b] directly. *)

(** [min(a, b)], [max(a, b)] are emitted as [Nat.min]/[N.min]/[Nat.max]/[N.max];
    [&], [|], [>>], [<<] as [N.land], [N.lor], [N.shiftr], [N.shiftl]. *)

(** ** struct.pack / struct.unpack (little endian, single unsigned field) *)

(** [pack('<H', v)] = [py_pack_le 2 v], [pack('<I'|'<L', v)] = [py_pack_le 4 v],
    [pack('<Q', v)] = [py_pack_le 8 v], [pack('B', v)] = [py_pack_le 1 v].
    Domain: [v < 256^n] (struct.error otherwise). *)
Fixpoint py_pack_le (n : nat) (v : N) : bytes :=
  match n with
  | O => []
  | S n' => N.modulo v 256 :: py_pack_le n' (N.div v 256)
  end.

(** big-endian fields ('>H', '>I', ...) *)
Definition py_pack_be (n : nat) (v : N) : bytes := rev (py_pack_le n v).

(** [unpack(fmt, b)[0]] for the same formats.  Domain: [len(b)] = size of the format
    and every element < 256. *)
Fixpoint py_unpack_le (l : bytes) : N :=
  match l with
  | [] => 0%N
  | x :: r => (x + 256 * py_unpack_le r)%N
  end.

Definition py_unpack_be (l : bytes) : N := py_unpack_le (rev l).

(** [for i in range(n): acc += f(i)] on bytes / lists is [acc ++ py_concat (py_range_map f n)] *)
Definition py_concat {A} (l : list (list A)) : list A := concat l.

(** [x[:-m]] and [x[-m:]] for an int [m >= 0] ([x[:-0]] is empty, [x[-0:]] is [x]) *)
Definition py_slice_to_neg {A} (m : nat) (l : list A) : list A :=
  match m with O => [] | _ => firstn (length l - m) l end.
Definition py_slice_from_neg {A} (m : nat) (l : list A) : list A :=
  match m with O => l | _ => skipn (length l - m) l end.

(** ** Boolean equality used by the differential validation of the translator *)

Fixpoint list_eqb {A} (eqb : A -> A -> bool) (a b : list A) : bool :=
  match a, b with
  | [], [] => true
  | x :: a', y :: b' => eqb x y && list_eqb eqb a' b'
  | _, _ => false
  end.

Fixpoint bad_idx {A} (chk : A -> bool) (i : nat) (l : list A) : list nat :=
  match l with
  | [] => []
  | c :: r => if chk c then bad_idx chk (S i) r else i :: bad_idx chk (S i) r
  end.

(** ** Relation to the standard library and to Lib.Bytes *)

Lemma py_len_length {A} (l : list A) : py_len l = length l.
Proof. reflexivity. Qed.

Lemma py_len_nlen (l : bytes) : N.of_nat (py_len l) = nlen l.
Proof. reflexivity. Qed.

Lemma py_slice_firstn_skipn {A} a b (l : list A) : py_slice a b l = firstn (b - a) (skipn a l).
Proof. reflexivity. Qed.

Lemma py_slice_slice a b (l : bytes) : py_slice a b l = slice a b l.
Proof. reflexivity. Qed.

Lemma py_slice_0 {A} b (l : list A) : py_slice 0 b l = firstn b l.
Proof. unfold py_slice. rewrite Nat.sub_0_r. reflexivity. Qed.

Lemma py_slice_to_slice {A} b (l : list A) : py_slice_to b l = py_slice 0 b l.
Proof. symmetry. apply py_slice_0. Qed.

Lemma py_slice_from_skipn {A} a (l : list A) : py_slice_from a l = skipn a l.
Proof. reflexivity. Qed.

Lemma py_slice_length {A} a b (l : list A) :
  length (py_slice a b l) = Nat.min (b - a) (length l - a).
Proof. unfold py_slice. rewrite firstn_length, skipn_length. reflexivity. Qed.

Lemma py_slice_all {A} b (l : list A) : length l <= b -> py_slice 0 b l = l.
Proof. intros H. rewrite py_slice_0. apply firstn_all2. exact H. Qed.

Lemma py_bytes_id l : py_bytes l = l.
Proof. reflexivity. Qed.

Lemma py_range_map_map_seq {A} (f : nat -> A) n : py_range_map f n = map f (seq 0 n).
Proof. reflexivity. Qed.

Lemma py_range_map_length {A} (f : nat -> A) n : length (py_range_map f n) = n.
Proof. unfold py_range_map. rewrite map_length, seq_length. reflexivity. Qed.

Lemma py_range_map_ext {A} (f g : nat -> A) n :
  (forall i, i < n -> f i = g i) -> py_range_map f n = py_range_map g n.
Proof.
  intros H. unfold py_range_map. apply map_ext_in. intros i Hi.
  apply in_seq in Hi. apply H. lia.
Qed.

Lemma py_floordiv_div a b : py_floordiv a b = a / b.
Proof. reflexivity. Qed.

Lemma py_mod_mod a b : py_mod a b = a mod b.
Proof. reflexivity. Qed.

(** On its domain [int(a/b)] is floor division (the domain is the IEEE-754 assumption
    above; inside Coq the two are the same function). *)
Lemma py_int_truediv_floordiv a b :
  py_truediv_ok (N.of_nat a) (N.of_nat b) -> py_int_truediv a b = py_floordiv a b.
Proof. reflexivity. Qed.

Lemma py_int_truediv_div a b : py_int_truediv a b = a / b.
Proof. reflexivity. Qed.

Lemma py_int_truediv_N_floordiv a b :
  py_truediv_ok a b -> py_int_truediv_N a b = py_floordiv_N a b.
Proof. reflexivity. Qed.

(** Lengths of 16-bit-announced frames are far inside the domain of [int(a/b)]. *)
Lemma py_truediv_ok_small a b : (a < 65536 + 65536)%N -> (0 < b)%N -> (b < two53)%N -> py_truediv_ok a b.
Proof. unfold py_truediv_ok, two53. lia. Qed.

(** *** bit operations *)

Lemma py_land_255 x : N.land x 255 = (x mod 256)%N.
Proof. change 255%N with (N.ones 8). rewrite N.land_ones. reflexivity. Qed.

Lemma py_land_ones x n : N.land x (N.ones n) = (x mod 2 ^ n)%N.
Proof. apply N.land_ones. Qed.

Lemma py_land_65535 x : N.land x 65535 = (x mod 65536)%N.
Proof. change 65535%N with (N.ones 16). rewrite N.land_ones. reflexivity. Qed.

(** [for ..: acc += bytes([e])] and [bytes([e for ..])] are the same list *)
Lemma concat_map_singleton {A B} (f : A -> B) (l : list A) : concat (map (fun i => [f i]) l) = map f l.
Proof. induction l as [|x l IH]; [reflexivity|]. cbn [map concat app]. rewrite IH. reflexivity. Qed.

Lemma py_shiftr_8 x : N.shiftr x 8 = (x / 256)%N.
Proof. rewrite N.shiftr_div_pow2. reflexivity. Qed.

Lemma py_shiftl_8 x : N.shiftl x 8 = (256 * x)%N.
Proof. rewrite N.shiftl_mul_pow2. change (2 ^ 8)%N with 256%N. lia. Qed.

Lemma testbit_small a n k : (a < 2 ^ n)%N -> (n <= k)%N -> N.testbit a k = false.
Proof.
  intros Ha Hk. rewrite <- (N.mod_small a (2 ^ n)) by exact Ha.
  apply N.mod_pow2_bits_high. exact Hk.
Qed.

(** [a | (b << n)] is [a + 2^n * b] when [a < 2^n]. *)
Lemma py_lor_shiftl a b n : (a < 2 ^ n)%N -> N.lor a (N.shiftl b n) = (a + 2 ^ n * b)%N.
Proof.
  intros Ha.
  assert (Hd : N.land a (N.shiftl b n) = 0%N).
  { apply N.bits_inj. intro k. rewrite N.land_spec, N.bits_0.
    destruct (N.ltb k n) eqn:E.
    - apply N.ltb_lt in E. rewrite N.shiftl_spec_low by exact E. apply andb_false_r.
    - apply N.ltb_ge in E. rewrite (testbit_small a n k Ha E). reflexivity. }
  rewrite <- N.lxor_lor by exact Hd.
  rewrite <- N.add_nocarry_lxor by exact Hd.
  rewrite N.shiftl_mul_pow2. lia.
Qed.

Lemma py_lor_shiftl_8 a b : (a < 256)%N -> N.lor a (N.shiftl b 8) = (a + 256 * b)%N.
Proof. intros H. apply (py_lor_shiftl a b 8). exact H. Qed.

(** [x | 0x80] for [x < 128] *)
Lemma py_lor_128 x : (x < 128)%N -> N.lor x 128 = (x + 128)%N.
Proof.
  intros H. change 128%N with (N.shiftl 1 7) at 1.
  rewrite (py_lor_shiftl x 1 7) by exact H. reflexivity.
Qed.

Lemma py_lor_0_r x : N.lor x 0 = x.
Proof. apply N.lor_0_r. Qed.

(** *** pack / unpack *)

Lemma py_pack_le_length n v : length (py_pack_le n v) = n.
Proof. revert v; induction n as [|n IH]; intros v; cbn [py_pack_le length]; [reflexivity|]. rewrite IH. reflexivity. Qed.

Lemma py_pack_le_1 v : (v < 256)%N -> py_pack_le 1 v = [v].
Proof. intros H. cbn [py_pack_le]. rewrite N.mod_small by exact H. reflexivity. Qed.

Lemma py_pack_le_2 v : (v < 65536)%N -> py_pack_le 2 v = le16 v.
Proof.
  intros H. cbn [py_pack_le]. unfold le16.
  rewrite (N.mod_small (v / 256) 256) by lia. reflexivity.
Qed.

Lemma py_pack_le_4 v : py_pack_le 4 v = le32 v.
Proof.
  cbn [py_pack_le]. unfold le32.
  rewrite !N.div_div by lia. reflexivity.
Qed.

Lemma wf_py_pack_le n v : wf_bytes (py_pack_le n v) = true.
Proof.
  revert v; induction n as [|n IH]; intros v; cbn [py_pack_le]; [reflexivity|].
  unfold wf_bytes in *. cbn [forallb]. rewrite IH. unfold wf_byte.
  assert (v mod 256 < 256)%N by (apply N.mod_lt; lia). lia.
Qed.

Lemma py_pack_le_firstn n m v : m <= n -> firstn m (py_pack_le n v) = py_pack_le m v.
Proof.
  revert m v; induction n as [|n IH]; intros m v H.
  - assert (m = 0) by lia. subst. reflexivity.
  - destruct m as [|m]; [reflexivity|]. cbn [py_pack_le firstn]. rewrite IH by lia. reflexivity.
Qed.

Lemma py_pack_le_nth n v i : i < n -> nth i (py_pack_le n v) 0%N = ((v / 256 ^ N.of_nat i) mod 256)%N.
Proof.
  revert v i; induction n as [|n IH]; intros v i H; [lia|].
  destruct i as [|i]; cbn [py_pack_le nth].
  - cbn [N.of_nat]. rewrite N.pow_0_r, N.div_1_r. reflexivity.
  - rewrite IH by lia. rewrite N.div_div by lia.
    rewrite Nat2N.inj_succ, N.pow_succ_r'. reflexivity.
Qed.

Lemma py_pack_be_length n v : length (py_pack_be n v) = n.
Proof. unfold py_pack_be. rewrite rev_length. apply py_pack_le_length. Qed.

Lemma py_pack_le_S n v : py_pack_le (S n) v = (v mod 256)%N :: py_pack_le n (v / 256)%N.
Proof. reflexivity. Qed.

Lemma py_pack_be_S n v : py_pack_be (S n) v = py_pack_be n (v / 256)%N ++ [(v mod 256)%N].
Proof. unfold py_pack_be. cbn [py_pack_le rev]. reflexivity. Qed.

Lemma py_unpack_le_2 l : 2 <= length l -> py_unpack_le (py_slice 0 2 l) = un_le16 l.
Proof.
  intros H. destruct l as [|a [|b r]]; cbn [length] in H; try lia.
  unfold py_slice. cbn [Nat.sub skipn firstn py_unpack_le un_le16]. lia.
Qed.

Lemma py_unpack_pack n v : (v < 256 ^ N.of_nat n)%N -> py_unpack_le (py_pack_le n v) = v.
Proof.
  revert v; induction n as [|n IH]; intros v H; cbn [py_pack_le py_unpack_le].
  - cbn in H. lia.
  - rewrite Nat2N.inj_succ, N.pow_succ_r' in H.
    rewrite IH by (apply N.div_lt_upper_bound; lia).
    pose proof (N.div_mod v 256 ltac:(lia)). lia.
Qed.

(** ** Tactics for the generated [gen_<f>_pre] predicates and for equality proofs that should
    survive behaviour-preserving rewrites of the source *)

(** split a conjunction of side conditions into its atoms (introducing the loop indices) *)
Ltac py_pre_split :=
  repeat lazymatch goal with
  | |- _ /\ _ => split
  | |- True => exact I
  | |- forall _, _ => intro
  end.

(** unfold every PyOps operation that is a plain renaming of a stdlib function *)
Ltac py_unfold :=
  cbv beta zeta delta [py_len py_slice_from py_slice_to py_bytes py_range_map py_floordiv py_mod
                       py_floordiv_N py_mod_N py_int_truediv py_int_truediv_N py_index py_concat].
Ltac py_unfold_in H :=
  cbv beta zeta delta [py_len py_slice_from py_slice_to py_bytes py_range_map py_floordiv py_mod
                       py_floordiv_N py_mod_N py_int_truediv py_int_truediv_N py_index] in H.

(** Closing tactic for the equality lemmas of GenEq.v: the generated term and the model term compute the
    same lengths / indices / slices up to re-association of the arithmetic, let-bound intermediates and a
    common sub-expression hoisted out of (or pushed into) the branches of an [if].  It unfolds the
    generated lets and the PyOps / Bytes renamings of slicing, case-splits on every tested boolean once,
    peels equal heads with [f_equal] and leaves linear arithmetic on nat / N (with the euclidean-division
    hook) to [lia].  It proves no equation that is not linear-arithmetically valid: an off-by-one in a
    bound leaves an unprovable [lia] goal. *)
Ltac py_norm :=
  cbv beta zeta delta [py_len py_slice py_slice_from py_slice_to py_bytes py_range_map py_floordiv py_mod
                       py_floordiv_N py_mod_N py_int_truediv py_int_truediv_N py_index py_concat slice nlen];
  cbn [app]; rewrite ?Nat.sub_0_r; cbn [skipn].

Ltac py_split_ifs :=
  repeat match goal with
  | |- context [if ?c then _ else _] => let E := fresh "Ec" in destruct c eqn:E; cbv beta iota zeta
  end.

Ltac py_close :=
  first [ reflexivity | lia | congruence
        | match goal with |- (_, _) = (_, _) => f_equal; py_close end
        | match goal with |- firstn _ _ = firstn _ _ => f_equal; py_close end
        | match goal with |- skipn _ _ = skipn _ _ => f_equal; py_close end
        | match goal with |- _ :: _ = _ :: _ => f_equal; py_close end
        | match goal with |- _ ++ _ = _ ++ _ => f_equal; py_close end
        | match goal with |- map _ _ = map _ _ => f_equal; py_close end
        | match goal with |- seq _ _ = seq _ _ => f_equal; py_close end
        | match goal with |- N.to_nat _ = N.to_nat _ => f_equal; py_close end
        | match goal with |- N.of_nat _ = N.of_nat _ => f_equal; py_close end ].

Ltac py_arith :=
  first [ reflexivity
        | timeout 30 (py_norm; py_split_ifs; py_close) ].

(** *** equality tests *)

Lemma list_eqb_eq {A} (eqb : A -> A -> bool) :
  (forall x y, eqb x y = true <-> x = y) ->
  forall a b, list_eqb eqb a b = true <-> a = b.
Proof.
  intros He a. induction a as [|x a IH]; intros [|y b]; cbn [list_eqb]; split; intro H;
    try reflexivity; try discriminate.
  - apply andb_true_iff in H as [H1 H2]. apply He in H1. apply IH in H2. congruence.
  - inversion H; subst. apply andb_true_iff. split; [apply He; reflexivity | apply IH; reflexivity].
Qed.
