(** C04/C05 — interleaving small-step model of the device/connector message plumbing of
    whad/device/device.py (Device.put_message, wait_for_message, send_message,
    send_command, VirtualDevice.send_message, DevInThread.run, DevOutThread.run) and
    whad/device/connector.py (ConnIoThread.run, Connector.on_device_event,
    process_message, lock, unlock, is_locked, add_locked_pdu, enable_synchronous,
    add_sync_event, wait_packet).

    One thread = one program-counter automaton; ONE ATOMIC STEP PER SHARED ACCESS
    (attribute load/store, Queue.put/get/empty/clear, Lock acquire/release, clock read),
    followed by the thread-local code up to the next shared access.  The program
    counters are exactly the yield points of the forced-schedule harness
    (harness/impl/C04_sched.py); DESIGN.md Appendix A names them.  A blocked step (get on
    an empty queue before its deadline, acquire of a held lock, read on a silent device)
    leaves the state unchanged.  [Tick] and [Emit] are scheduler actions.

    Definitions only — no proofs in this file. *)
From Coq Require Import List NArith Bool.
Import ListNotations.
Open Scope N_scope.

(** ---- messages ------------------------------------------------------------------- *)

(** A decoded hub message: [m_cls] is what message filters look at, [m_uid] identifies
    the message, [m_pkt] says whether it is an AbstractPacket (the only kind affected by
    the connector's lock mode). *)
Record msg := mkMsg { m_cls : N; m_uid : N; m_pkt : bool }.

Definition msg_eqb (a b : msg) : bool :=
  (m_cls a =? m_cls b) && (m_uid a =? m_uid b) && Bool.eqb (m_pkt a) (m_pkt b).

(** A frame on the wire: [None] is a frame the host cannot decode (hub.parse -> None). *)
Definition frame := option msg.
Definition chunk := list frame.

Fixpoint msgs_of (c : chunk) : list msg :=
  match c with
  | [] => []
  | Some m :: r => m :: msgs_of r
  | None :: r => msgs_of r
  end.

(** Class 13 stands for packet-type messages that have no scapy counterpart
    ([to_packet()] returns None, e.g. a BLE advertisement of type ADV_UNKNOWN). *)
Definition m_conv (m : msg) : bool := negb (m_cls m =? 13).

(** message_filter: a filter is identified by the class it keeps. *)
Definition matches (f : N) (m : msg) : bool := m_cls m =? f.

(** ---- what the application thread does -------------------------------------------- *)

Inductive op :=
| OCmd (fc : N) (react : list chunk)  (* send_command(cmd, keep = filter fc); [react] is what
                                         the device emits once the command has been written *)
| OSend (fk : option N) (react : list chunk)
                                      (* send_message(msg, keep): no wait; [fk] = None: no filter given *)
| OLock                               (* Connector.lock() *)
| OUnlock                             (* Connector.unlock() *)
| OSync (mode : N)                    (* enable_synchronous: 0 = off, 1 = packets, 2 = all *)
| OWait (t : option N).               (* wait_packet(timeout) *)

Inductive result := ROk (m : msg) | RTimeout.

Record config := mkConfig {
  has_conn : bool;        (* a connector is attached to the device *)
  virt : bool;            (* VirtualDevice: synchronous handler, no writer thread *)
  tmo : N;                (* Device.__timeout, in clock ticks *)
  legacy_wait : bool;     (* wait_for_message as found: deadline evaluated on Empty only *)
  legacy_unlock : bool;   (* unlock/add_locked_pdu as found: check-then-enqueue *)
  legacy_lock : bool;     (* lock() as found: flag stored before the holding queue is cleared *)
  legacy_sync : bool      (* enable_synchronous as found: mode stored before the clear *)
}.

(** ---- program counters -------------------------------------------------------------- *)

(** Device.put_message(m): run by the reader thread, by the caller when it re-puts a
    message that does not match, and by a virtual device's handler. *)
Inductive ppc :=
| P1    (* load __connector *)
| P2    (* out_q.put(m)            (no connector) *)
| P5    (* load __msg_filter once into a local; test it and apply it *)
| P6    (* the code as found: a SECOND load of __msg_filter, then the call; no longer reached *)
| P7    (* out_q.put(m)            (filter matched) *)
| P8l   (* load connector          (argument of the debug log) *)
| P8a   (* load connector *)
| P8b.  (* events.put(MessageReceived m) *)

Inductive pres := PNext (p : ppc) | PFin | PCrash.

Inductive apc :=
| A_Done | A_Crash
(* send_command, native device *)
| A_S0            (* load opened *)
| A_S1            (* store __msg_filter := keep *)
| A_S2            (* in_q.put(command) *)
| A_W0            (* load opened *)
| A_W1            (* start := clock *)
| A_W2 (dl : option N)   (* out_q.get(timeout) *)
| A_W3 (m : msg)  (* load __msg_filter, apply *)
| A_W4 (p : ppc) (m : msg)   (* put_message(m) *)
| A_W5            (* read clock, compare with the deadline *)
(* send_command, virtual device *)
| A_V0            (* acquire the virtual device's lock *)
| A_V1            (* store __msg_filter := keep; the handler starts *)
| A_VP (p : ppc) (m : msg)   (* handler: put_message(m) *)
| A_V3            (* release the lock *)
(* Connector.lock *)
| A_L1 | A_L2
(* Connector.unlock *)
| A_U1            (* acquire __lock *)
| A_U2            (* locked_q.empty() *)
| A_U3            (* locked_q.get() *)
| A_U4 (m : msg)  (* dispatch (callback / packet dispatch routine) *)
| A_U5            (* release __lock *)
| A_U6            (* store __locked := False *)
(* enable_synchronous *)
| A_E1            (* load __sync_mode (only when disabling) *)
| A_E2            (* store __sync_mode *)
| A_E3            (* sync_q.clear() *)
(* wait_packet *)
| A_K1            (* load __sync_mode *)
| A_K2 (dl : option N).  (* sync_q.get(timeout) *)

Inductive rpc :=
| RD_Read                    (* device.read() *)
| RD_P (p : ppc) (m : msg)   (* ingest -> put_message(m) *)
| RD_Dead.

Inductive wpc :=
| WR_Get (dl : option N)     (* in_q.get(timeout = 1) *)
| WR_Acq (c : list chunk)    (* acquire the interface lock *)
| WR_Write (c : list chunk)  (* device.write(serialized command) *)
| WR_Rel.                    (* release the interface lock *)

Inductive cpc :=
| CC_Get                     (* events.get() *)
| CC_C2 (m : msg)            (* on_device_event: load __sync_mode (== ALL ?) *)
| CC_C5 (m : msg)            (* load __sync_mode (== PKT ?); else process_message *)
| CC_S1 (m : msg)            (* add_sync_event: load __sync_mode (== ALL ?) *)
| CC_S2 (m : msg)            (* add_sync_event: load __sync_mode (>= PKT ?) *)
| CC_SPut (m : msg)          (* sync_q.put *)
| CC_L1 (m : msg)            (* is_locked: load __locked (argument of the log) *)
| CC_L2 (m : msg)            (* is_locked: load __locked (returned) *)
| CC_A (m : msg)             (* add_locked_pdu: acquire __lock *)
| CC_T (m : msg)             (* repaired add_locked_pdu: load __locked under the lock *)
| CC_Put (m : msg)           (* locked_q.put *)
| CC_Rel                     (* release __lock *)
| CC_RelD (m : msg)          (* repaired: release __lock, then dispatch directly *)
| CC_D (m : msg).            (* the packet dispatch routine (__process_pkt_message -> on_packet) *)

(** ---- state ----------------------------------------------------------------------------- *)

Record state := mkState {
  out_q : list msg;
  in_q : list (list chunk);
  events : list msg;
  filt : option N;
  clock : N;
  wire : list chunk;
  spont : list chunk;
  locked : bool;
  lk : bool;
  locked_q : list msg;
  sync_mode : N;
  sync_q : list msg;
  a_pc : apc;
  a_script : list op;
  a_start : N;
  a_vbuf : list msg;
  a_late : nat;
  r_pc : rpc;
  r_buf : list frame;
  w_pc : wpc;
  c_pc : cpc;
  emitted : list msg;
  delivered : list msg;
  dispatched : list msg;
  returned : list (op * result);
  retrieved : list (option msg);
  dropped : list msg;
  taken : list msg;
  got : list msg;
  cleared : list msg
}.

Definition set_out_q (v : list msg) (s : state) : state :=
  {| out_q := v; in_q := in_q s; events := events s; filt := filt s; clock := clock s; wire := wire s; spont := spont s; locked := locked s; lk := lk s; locked_q := locked_q s; sync_mode := sync_mode s; sync_q := sync_q s; a_pc := a_pc s; a_script := a_script s; a_start := a_start s; a_vbuf := a_vbuf s; a_late := a_late s; r_pc := r_pc s; r_buf := r_buf s; w_pc := w_pc s; c_pc := c_pc s; emitted := emitted s; delivered := delivered s; dispatched := dispatched s; returned := returned s; retrieved := retrieved s; dropped := dropped s; taken := taken s; got := got s; cleared := cleared s |}.
Definition set_in_q (v : list (list chunk)) (s : state) : state :=
  {| out_q := out_q s; in_q := v; events := events s; filt := filt s; clock := clock s; wire := wire s; spont := spont s; locked := locked s; lk := lk s; locked_q := locked_q s; sync_mode := sync_mode s; sync_q := sync_q s; a_pc := a_pc s; a_script := a_script s; a_start := a_start s; a_vbuf := a_vbuf s; a_late := a_late s; r_pc := r_pc s; r_buf := r_buf s; w_pc := w_pc s; c_pc := c_pc s; emitted := emitted s; delivered := delivered s; dispatched := dispatched s; returned := returned s; retrieved := retrieved s; dropped := dropped s; taken := taken s; got := got s; cleared := cleared s |}.
Definition set_events (v : list msg) (s : state) : state :=
  {| out_q := out_q s; in_q := in_q s; events := v; filt := filt s; clock := clock s; wire := wire s; spont := spont s; locked := locked s; lk := lk s; locked_q := locked_q s; sync_mode := sync_mode s; sync_q := sync_q s; a_pc := a_pc s; a_script := a_script s; a_start := a_start s; a_vbuf := a_vbuf s; a_late := a_late s; r_pc := r_pc s; r_buf := r_buf s; w_pc := w_pc s; c_pc := c_pc s; emitted := emitted s; delivered := delivered s; dispatched := dispatched s; returned := returned s; retrieved := retrieved s; dropped := dropped s; taken := taken s; got := got s; cleared := cleared s |}.
Definition set_filt (v : option N) (s : state) : state :=
  {| out_q := out_q s; in_q := in_q s; events := events s; filt := v; clock := clock s; wire := wire s; spont := spont s; locked := locked s; lk := lk s; locked_q := locked_q s; sync_mode := sync_mode s; sync_q := sync_q s; a_pc := a_pc s; a_script := a_script s; a_start := a_start s; a_vbuf := a_vbuf s; a_late := a_late s; r_pc := r_pc s; r_buf := r_buf s; w_pc := w_pc s; c_pc := c_pc s; emitted := emitted s; delivered := delivered s; dispatched := dispatched s; returned := returned s; retrieved := retrieved s; dropped := dropped s; taken := taken s; got := got s; cleared := cleared s |}.
Definition set_clock (v : N) (s : state) : state :=
  {| out_q := out_q s; in_q := in_q s; events := events s; filt := filt s; clock := v; wire := wire s; spont := spont s; locked := locked s; lk := lk s; locked_q := locked_q s; sync_mode := sync_mode s; sync_q := sync_q s; a_pc := a_pc s; a_script := a_script s; a_start := a_start s; a_vbuf := a_vbuf s; a_late := a_late s; r_pc := r_pc s; r_buf := r_buf s; w_pc := w_pc s; c_pc := c_pc s; emitted := emitted s; delivered := delivered s; dispatched := dispatched s; returned := returned s; retrieved := retrieved s; dropped := dropped s; taken := taken s; got := got s; cleared := cleared s |}.
Definition set_wire (v : list chunk) (s : state) : state :=
  {| out_q := out_q s; in_q := in_q s; events := events s; filt := filt s; clock := clock s; wire := v; spont := spont s; locked := locked s; lk := lk s; locked_q := locked_q s; sync_mode := sync_mode s; sync_q := sync_q s; a_pc := a_pc s; a_script := a_script s; a_start := a_start s; a_vbuf := a_vbuf s; a_late := a_late s; r_pc := r_pc s; r_buf := r_buf s; w_pc := w_pc s; c_pc := c_pc s; emitted := emitted s; delivered := delivered s; dispatched := dispatched s; returned := returned s; retrieved := retrieved s; dropped := dropped s; taken := taken s; got := got s; cleared := cleared s |}.
Definition set_spont (v : list chunk) (s : state) : state :=
  {| out_q := out_q s; in_q := in_q s; events := events s; filt := filt s; clock := clock s; wire := wire s; spont := v; locked := locked s; lk := lk s; locked_q := locked_q s; sync_mode := sync_mode s; sync_q := sync_q s; a_pc := a_pc s; a_script := a_script s; a_start := a_start s; a_vbuf := a_vbuf s; a_late := a_late s; r_pc := r_pc s; r_buf := r_buf s; w_pc := w_pc s; c_pc := c_pc s; emitted := emitted s; delivered := delivered s; dispatched := dispatched s; returned := returned s; retrieved := retrieved s; dropped := dropped s; taken := taken s; got := got s; cleared := cleared s |}.
Definition set_locked (v : bool) (s : state) : state :=
  {| out_q := out_q s; in_q := in_q s; events := events s; filt := filt s; clock := clock s; wire := wire s; spont := spont s; locked := v; lk := lk s; locked_q := locked_q s; sync_mode := sync_mode s; sync_q := sync_q s; a_pc := a_pc s; a_script := a_script s; a_start := a_start s; a_vbuf := a_vbuf s; a_late := a_late s; r_pc := r_pc s; r_buf := r_buf s; w_pc := w_pc s; c_pc := c_pc s; emitted := emitted s; delivered := delivered s; dispatched := dispatched s; returned := returned s; retrieved := retrieved s; dropped := dropped s; taken := taken s; got := got s; cleared := cleared s |}.
Definition set_lk (v : bool) (s : state) : state :=
  {| out_q := out_q s; in_q := in_q s; events := events s; filt := filt s; clock := clock s; wire := wire s; spont := spont s; locked := locked s; lk := v; locked_q := locked_q s; sync_mode := sync_mode s; sync_q := sync_q s; a_pc := a_pc s; a_script := a_script s; a_start := a_start s; a_vbuf := a_vbuf s; a_late := a_late s; r_pc := r_pc s; r_buf := r_buf s; w_pc := w_pc s; c_pc := c_pc s; emitted := emitted s; delivered := delivered s; dispatched := dispatched s; returned := returned s; retrieved := retrieved s; dropped := dropped s; taken := taken s; got := got s; cleared := cleared s |}.
Definition set_locked_q (v : list msg) (s : state) : state :=
  {| out_q := out_q s; in_q := in_q s; events := events s; filt := filt s; clock := clock s; wire := wire s; spont := spont s; locked := locked s; lk := lk s; locked_q := v; sync_mode := sync_mode s; sync_q := sync_q s; a_pc := a_pc s; a_script := a_script s; a_start := a_start s; a_vbuf := a_vbuf s; a_late := a_late s; r_pc := r_pc s; r_buf := r_buf s; w_pc := w_pc s; c_pc := c_pc s; emitted := emitted s; delivered := delivered s; dispatched := dispatched s; returned := returned s; retrieved := retrieved s; dropped := dropped s; taken := taken s; got := got s; cleared := cleared s |}.
Definition set_sync_mode (v : N) (s : state) : state :=
  {| out_q := out_q s; in_q := in_q s; events := events s; filt := filt s; clock := clock s; wire := wire s; spont := spont s; locked := locked s; lk := lk s; locked_q := locked_q s; sync_mode := v; sync_q := sync_q s; a_pc := a_pc s; a_script := a_script s; a_start := a_start s; a_vbuf := a_vbuf s; a_late := a_late s; r_pc := r_pc s; r_buf := r_buf s; w_pc := w_pc s; c_pc := c_pc s; emitted := emitted s; delivered := delivered s; dispatched := dispatched s; returned := returned s; retrieved := retrieved s; dropped := dropped s; taken := taken s; got := got s; cleared := cleared s |}.
Definition set_sync_q (v : list msg) (s : state) : state :=
  {| out_q := out_q s; in_q := in_q s; events := events s; filt := filt s; clock := clock s; wire := wire s; spont := spont s; locked := locked s; lk := lk s; locked_q := locked_q s; sync_mode := sync_mode s; sync_q := v; a_pc := a_pc s; a_script := a_script s; a_start := a_start s; a_vbuf := a_vbuf s; a_late := a_late s; r_pc := r_pc s; r_buf := r_buf s; w_pc := w_pc s; c_pc := c_pc s; emitted := emitted s; delivered := delivered s; dispatched := dispatched s; returned := returned s; retrieved := retrieved s; dropped := dropped s; taken := taken s; got := got s; cleared := cleared s |}.
Definition set_a_pc (v : apc) (s : state) : state :=
  {| out_q := out_q s; in_q := in_q s; events := events s; filt := filt s; clock := clock s; wire := wire s; spont := spont s; locked := locked s; lk := lk s; locked_q := locked_q s; sync_mode := sync_mode s; sync_q := sync_q s; a_pc := v; a_script := a_script s; a_start := a_start s; a_vbuf := a_vbuf s; a_late := a_late s; r_pc := r_pc s; r_buf := r_buf s; w_pc := w_pc s; c_pc := c_pc s; emitted := emitted s; delivered := delivered s; dispatched := dispatched s; returned := returned s; retrieved := retrieved s; dropped := dropped s; taken := taken s; got := got s; cleared := cleared s |}.
Definition set_a_script (v : list op) (s : state) : state :=
  {| out_q := out_q s; in_q := in_q s; events := events s; filt := filt s; clock := clock s; wire := wire s; spont := spont s; locked := locked s; lk := lk s; locked_q := locked_q s; sync_mode := sync_mode s; sync_q := sync_q s; a_pc := a_pc s; a_script := v; a_start := a_start s; a_vbuf := a_vbuf s; a_late := a_late s; r_pc := r_pc s; r_buf := r_buf s; w_pc := w_pc s; c_pc := c_pc s; emitted := emitted s; delivered := delivered s; dispatched := dispatched s; returned := returned s; retrieved := retrieved s; dropped := dropped s; taken := taken s; got := got s; cleared := cleared s |}.
Definition set_a_start (v : N) (s : state) : state :=
  {| out_q := out_q s; in_q := in_q s; events := events s; filt := filt s; clock := clock s; wire := wire s; spont := spont s; locked := locked s; lk := lk s; locked_q := locked_q s; sync_mode := sync_mode s; sync_q := sync_q s; a_pc := a_pc s; a_script := a_script s; a_start := v; a_vbuf := a_vbuf s; a_late := a_late s; r_pc := r_pc s; r_buf := r_buf s; w_pc := w_pc s; c_pc := c_pc s; emitted := emitted s; delivered := delivered s; dispatched := dispatched s; returned := returned s; retrieved := retrieved s; dropped := dropped s; taken := taken s; got := got s; cleared := cleared s |}.
Definition set_a_vbuf (v : list msg) (s : state) : state :=
  {| out_q := out_q s; in_q := in_q s; events := events s; filt := filt s; clock := clock s; wire := wire s; spont := spont s; locked := locked s; lk := lk s; locked_q := locked_q s; sync_mode := sync_mode s; sync_q := sync_q s; a_pc := a_pc s; a_script := a_script s; a_start := a_start s; a_vbuf := v; a_late := a_late s; r_pc := r_pc s; r_buf := r_buf s; w_pc := w_pc s; c_pc := c_pc s; emitted := emitted s; delivered := delivered s; dispatched := dispatched s; returned := returned s; retrieved := retrieved s; dropped := dropped s; taken := taken s; got := got s; cleared := cleared s |}.
Definition set_a_late (v : nat) (s : state) : state :=
  {| out_q := out_q s; in_q := in_q s; events := events s; filt := filt s; clock := clock s; wire := wire s; spont := spont s; locked := locked s; lk := lk s; locked_q := locked_q s; sync_mode := sync_mode s; sync_q := sync_q s; a_pc := a_pc s; a_script := a_script s; a_start := a_start s; a_vbuf := a_vbuf s; a_late := v; r_pc := r_pc s; r_buf := r_buf s; w_pc := w_pc s; c_pc := c_pc s; emitted := emitted s; delivered := delivered s; dispatched := dispatched s; returned := returned s; retrieved := retrieved s; dropped := dropped s; taken := taken s; got := got s; cleared := cleared s |}.
Definition set_r_pc (v : rpc) (s : state) : state :=
  {| out_q := out_q s; in_q := in_q s; events := events s; filt := filt s; clock := clock s; wire := wire s; spont := spont s; locked := locked s; lk := lk s; locked_q := locked_q s; sync_mode := sync_mode s; sync_q := sync_q s; a_pc := a_pc s; a_script := a_script s; a_start := a_start s; a_vbuf := a_vbuf s; a_late := a_late s; r_pc := v; r_buf := r_buf s; w_pc := w_pc s; c_pc := c_pc s; emitted := emitted s; delivered := delivered s; dispatched := dispatched s; returned := returned s; retrieved := retrieved s; dropped := dropped s; taken := taken s; got := got s; cleared := cleared s |}.
Definition set_r_buf (v : list frame) (s : state) : state :=
  {| out_q := out_q s; in_q := in_q s; events := events s; filt := filt s; clock := clock s; wire := wire s; spont := spont s; locked := locked s; lk := lk s; locked_q := locked_q s; sync_mode := sync_mode s; sync_q := sync_q s; a_pc := a_pc s; a_script := a_script s; a_start := a_start s; a_vbuf := a_vbuf s; a_late := a_late s; r_pc := r_pc s; r_buf := v; w_pc := w_pc s; c_pc := c_pc s; emitted := emitted s; delivered := delivered s; dispatched := dispatched s; returned := returned s; retrieved := retrieved s; dropped := dropped s; taken := taken s; got := got s; cleared := cleared s |}.
Definition set_w_pc (v : wpc) (s : state) : state :=
  {| out_q := out_q s; in_q := in_q s; events := events s; filt := filt s; clock := clock s; wire := wire s; spont := spont s; locked := locked s; lk := lk s; locked_q := locked_q s; sync_mode := sync_mode s; sync_q := sync_q s; a_pc := a_pc s; a_script := a_script s; a_start := a_start s; a_vbuf := a_vbuf s; a_late := a_late s; r_pc := r_pc s; r_buf := r_buf s; w_pc := v; c_pc := c_pc s; emitted := emitted s; delivered := delivered s; dispatched := dispatched s; returned := returned s; retrieved := retrieved s; dropped := dropped s; taken := taken s; got := got s; cleared := cleared s |}.
Definition set_c_pc (v : cpc) (s : state) : state :=
  {| out_q := out_q s; in_q := in_q s; events := events s; filt := filt s; clock := clock s; wire := wire s; spont := spont s; locked := locked s; lk := lk s; locked_q := locked_q s; sync_mode := sync_mode s; sync_q := sync_q s; a_pc := a_pc s; a_script := a_script s; a_start := a_start s; a_vbuf := a_vbuf s; a_late := a_late s; r_pc := r_pc s; r_buf := r_buf s; w_pc := w_pc s; c_pc := v; emitted := emitted s; delivered := delivered s; dispatched := dispatched s; returned := returned s; retrieved := retrieved s; dropped := dropped s; taken := taken s; got := got s; cleared := cleared s |}.
Definition set_emitted (v : list msg) (s : state) : state :=
  {| out_q := out_q s; in_q := in_q s; events := events s; filt := filt s; clock := clock s; wire := wire s; spont := spont s; locked := locked s; lk := lk s; locked_q := locked_q s; sync_mode := sync_mode s; sync_q := sync_q s; a_pc := a_pc s; a_script := a_script s; a_start := a_start s; a_vbuf := a_vbuf s; a_late := a_late s; r_pc := r_pc s; r_buf := r_buf s; w_pc := w_pc s; c_pc := c_pc s; emitted := v; delivered := delivered s; dispatched := dispatched s; returned := returned s; retrieved := retrieved s; dropped := dropped s; taken := taken s; got := got s; cleared := cleared s |}.
Definition set_delivered (v : list msg) (s : state) : state :=
  {| out_q := out_q s; in_q := in_q s; events := events s; filt := filt s; clock := clock s; wire := wire s; spont := spont s; locked := locked s; lk := lk s; locked_q := locked_q s; sync_mode := sync_mode s; sync_q := sync_q s; a_pc := a_pc s; a_script := a_script s; a_start := a_start s; a_vbuf := a_vbuf s; a_late := a_late s; r_pc := r_pc s; r_buf := r_buf s; w_pc := w_pc s; c_pc := c_pc s; emitted := emitted s; delivered := v; dispatched := dispatched s; returned := returned s; retrieved := retrieved s; dropped := dropped s; taken := taken s; got := got s; cleared := cleared s |}.
Definition set_dispatched (v : list msg) (s : state) : state :=
  {| out_q := out_q s; in_q := in_q s; events := events s; filt := filt s; clock := clock s; wire := wire s; spont := spont s; locked := locked s; lk := lk s; locked_q := locked_q s; sync_mode := sync_mode s; sync_q := sync_q s; a_pc := a_pc s; a_script := a_script s; a_start := a_start s; a_vbuf := a_vbuf s; a_late := a_late s; r_pc := r_pc s; r_buf := r_buf s; w_pc := w_pc s; c_pc := c_pc s; emitted := emitted s; delivered := delivered s; dispatched := v; returned := returned s; retrieved := retrieved s; dropped := dropped s; taken := taken s; got := got s; cleared := cleared s |}.
Definition set_returned (v : list (op * result)) (s : state) : state :=
  {| out_q := out_q s; in_q := in_q s; events := events s; filt := filt s; clock := clock s; wire := wire s; spont := spont s; locked := locked s; lk := lk s; locked_q := locked_q s; sync_mode := sync_mode s; sync_q := sync_q s; a_pc := a_pc s; a_script := a_script s; a_start := a_start s; a_vbuf := a_vbuf s; a_late := a_late s; r_pc := r_pc s; r_buf := r_buf s; w_pc := w_pc s; c_pc := c_pc s; emitted := emitted s; delivered := delivered s; dispatched := dispatched s; returned := v; retrieved := retrieved s; dropped := dropped s; taken := taken s; got := got s; cleared := cleared s |}.
Definition set_retrieved (v : list (option msg)) (s : state) : state :=
  {| out_q := out_q s; in_q := in_q s; events := events s; filt := filt s; clock := clock s; wire := wire s; spont := spont s; locked := locked s; lk := lk s; locked_q := locked_q s; sync_mode := sync_mode s; sync_q := sync_q s; a_pc := a_pc s; a_script := a_script s; a_start := a_start s; a_vbuf := a_vbuf s; a_late := a_late s; r_pc := r_pc s; r_buf := r_buf s; w_pc := w_pc s; c_pc := c_pc s; emitted := emitted s; delivered := delivered s; dispatched := dispatched s; returned := returned s; retrieved := v; dropped := dropped s; taken := taken s; got := got s; cleared := cleared s |}.
Definition set_dropped (v : list msg) (s : state) : state :=
  {| out_q := out_q s; in_q := in_q s; events := events s; filt := filt s; clock := clock s; wire := wire s; spont := spont s; locked := locked s; lk := lk s; locked_q := locked_q s; sync_mode := sync_mode s; sync_q := sync_q s; a_pc := a_pc s; a_script := a_script s; a_start := a_start s; a_vbuf := a_vbuf s; a_late := a_late s; r_pc := r_pc s; r_buf := r_buf s; w_pc := w_pc s; c_pc := c_pc s; emitted := emitted s; delivered := delivered s; dispatched := dispatched s; returned := returned s; retrieved := retrieved s; dropped := v; taken := taken s; got := got s; cleared := cleared s |}.
Definition set_taken (v : list msg) (s : state) : state :=
  {| out_q := out_q s; in_q := in_q s; events := events s; filt := filt s; clock := clock s; wire := wire s; spont := spont s; locked := locked s; lk := lk s; locked_q := locked_q s; sync_mode := sync_mode s; sync_q := sync_q s; a_pc := a_pc s; a_script := a_script s; a_start := a_start s; a_vbuf := a_vbuf s; a_late := a_late s; r_pc := r_pc s; r_buf := r_buf s; w_pc := w_pc s; c_pc := c_pc s; emitted := emitted s; delivered := delivered s; dispatched := dispatched s; returned := returned s; retrieved := retrieved s; dropped := dropped s; taken := v; got := got s; cleared := cleared s |}.
Definition set_got (v : list msg) (s : state) : state :=
  {| out_q := out_q s; in_q := in_q s; events := events s; filt := filt s; clock := clock s; wire := wire s; spont := spont s; locked := locked s; lk := lk s; locked_q := locked_q s; sync_mode := sync_mode s; sync_q := sync_q s; a_pc := a_pc s; a_script := a_script s; a_start := a_start s; a_vbuf := a_vbuf s; a_late := a_late s; r_pc := r_pc s; r_buf := r_buf s; w_pc := w_pc s; c_pc := c_pc s; emitted := emitted s; delivered := delivered s; dispatched := dispatched s; returned := returned s; retrieved := retrieved s; dropped := dropped s; taken := taken s; got := v; cleared := cleared s |}.
Definition set_cleared (v : list msg) (s : state) : state :=
  {| out_q := out_q s; in_q := in_q s; events := events s; filt := filt s; clock := clock s; wire := wire s; spont := spont s; locked := locked s; lk := lk s; locked_q := locked_q s; sync_mode := sync_mode s; sync_q := sync_q s; a_pc := a_pc s; a_script := a_script s; a_start := a_start s; a_vbuf := a_vbuf s; a_late := a_late s; r_pc := r_pc s; r_buf := r_buf s; w_pc := w_pc s; c_pc := c_pc s; emitted := emitted s; delivered := delivered s; dispatched := dispatched s; returned := returned s; retrieved := retrieved s; dropped := dropped s; taken := taken s; got := got s; cleared := v |}.

(** ---- Device.put_message ------------------------------------------------------------------ *)

Definition pstep (cfg : config) (p : ppc) (m : msg) (s : state) : state * pres :=
  match p with
  | P1 => (s, if has_conn cfg then PNext P5 else PNext P2)
  | P2 => (set_out_q (out_q s ++ [m]) s, PFin)
  | P5 => (s, match filt s with
              | None => PNext P8l
              | Some f => if matches f m then PNext P7 else PNext P8l
              end)
  | P6 => (s, match filt s with
              | None => PCrash      (* calling None: TypeError in the running thread *)
              | Some f => if matches f m then PNext P7 else PNext P8l
              end)
  | P7 => (set_out_q (out_q s ++ [m]) s, PFin)
  | P8l => (s, PNext P8a)
  | P8a => (s, PNext P8b)
  | P8b => (set_events (events s ++ [m]) s, PFin)
  end.

(** ---- reader thread: DevOutThread.run / ingest ---------------------------------------------- *)

(** After a chunk has been read, frames that do not decode are skipped locally. *)
Fixpoint r_next (buf : list frame) : rpc * list frame :=
  match buf with
  | [] => (RD_Read, [])
  | None :: r => r_next r
  | Some m :: r => (RD_P P1 m, r)
  end.

Definition step_R (cfg : config) (s : state) : state :=
  match r_pc s with
  | RD_Read =>
      match wire s with
      | [] => s
      | c :: w => set_r_pc (fst (r_next c)) (set_r_buf (snd (r_next c)) (set_wire w s))
      end
  | RD_P p m =>
      match snd (pstep cfg p m s) with
      | PNext p' => set_r_pc (RD_P p' m) (fst (pstep cfg p m s))
      | PFin => set_r_pc (fst (r_next (r_buf s))) (set_r_buf (snd (r_next (r_buf s))) (fst (pstep cfg p m s)))
      | PCrash => set_r_pc RD_Dead s
      end
  | RD_Dead => s
  end.

(** ---- writer thread: DevInThread.run ------------------------------------------------------------ *)

Definition step_W (cfg : config) (s : state) : state :=
  if virt cfg then s else
  match w_pc s with
  | WR_Get dl =>
      match in_q s with
      | c :: q => set_w_pc (WR_Acq c) (set_in_q q s)
      | [] => match dl with
              | None => set_w_pc (WR_Get (Some (clock s + 1))) s
              | Some d => if d <=? clock s then set_w_pc (WR_Get None) s else s
              end
      end
  | WR_Acq c => set_w_pc (WR_Write c) s
  | WR_Write c =>
      set_w_pc WR_Rel (set_wire (wire s ++ c) (set_emitted (emitted s ++ msgs_of (concat c)) s))
  | WR_Rel => set_w_pc (WR_Get None) s
  end.

(** ---- connector I/O thread: ConnIoThread.run / on_device_event / process_message ---------- *)

Definition step_C (cfg : config) (s : state) : state :=
  if negb (has_conn cfg) then s else
  match c_pc s with
  | CC_Get =>
      match events s with
      | [] => s
      | m :: r => set_c_pc (CC_C2 m) (set_events r (set_taken (taken s ++ [m]) s))
      end
  | CC_C2 m => if sync_mode s =? 2 then set_c_pc (CC_S1 m) s else set_c_pc (CC_C5 m) s
  | CC_C5 m =>
      if sync_mode s =? 1 then set_c_pc (CC_S1 m) s
      else if m_pkt m then set_c_pc (CC_L1 m) (set_delivered (delivered s ++ [m]) s)
           else set_c_pc CC_Get (set_delivered (delivered s ++ [m]) s)
  | CC_S1 m => if sync_mode s =? 2 then set_c_pc (CC_SPut m) s else set_c_pc (CC_S2 m) s
  | CC_S2 m =>
      if 1 <=? sync_mode s then set_c_pc (CC_SPut m) s
      else set_c_pc CC_Get (set_dropped (dropped s ++ [m]) s)
  | CC_SPut m => set_c_pc CC_Get (set_sync_q (sync_q s ++ [m]) s)
  | CC_L1 m => set_c_pc (CC_L2 m) s
  | CC_L2 m =>
      if locked s then set_c_pc (CC_A m) s else set_c_pc (CC_D m) s
  | CC_A m =>
      if lk s then s
      else set_c_pc (if legacy_unlock cfg then CC_Put m else CC_T m) (set_lk true s)
  | CC_T m => if locked s then set_c_pc (CC_Put m) s else set_c_pc (CC_RelD m) s
  | CC_Put m => set_c_pc CC_Rel (set_locked_q (locked_q s ++ [m]) s)
  | CC_Rel => set_c_pc CC_Get (set_lk false s)
  | CC_RelD m => set_c_pc (CC_D m) (set_lk false s)
  | CC_D m => set_c_pc CC_Get (set_dispatched (dispatched s ++ [m]) s)
  end.

(** ---- application thread ------------------------------------------------------------------------- *)

(** First yield point of the next operation. *)
Definition a_begin (cfg : config) (script : list op) : apc :=
  match script with
  | [] => A_Done
  | OCmd _ _ :: _ => if virt cfg then A_V0 else A_S0
  | OSend _ _ :: _ => if virt cfg then A_V0 else A_S0
  | OLock :: _ => A_L1
  | OUnlock :: _ => A_U1
  | OSync m :: _ => if m =? 0 then A_E1 else if legacy_sync cfg then A_E2 else A_E3
  | OWait _ :: _ => A_K1
  end.

Definition a_finish (cfg : config) (s : state) : state :=
  set_a_pc (a_begin cfg (tl (a_script s))) (set_a_script (tl (a_script s)) s).

Definition cur_fc (s : state) : N :=
  match a_script s with OCmd fc _ :: _ => fc | _ => 0 end.
Definition cur_react (s : state) : list chunk :=
  match a_script s with OCmd _ r :: _ => r | OSend _ r :: _ => r | _ => [] end.
(** The filter the running send installs ([None]: none given). *)
Definition cur_fk (s : state) : option N :=
  match a_script s with OCmd fc _ :: _ => Some fc | OSend k _ :: _ => k | _ => None end.
Definition cur_is_cmd (s : state) : bool :=
  match a_script s with OCmd _ _ :: _ => true | _ => false end.
Definition cur_mode (s : state) : N :=
  match a_script s with OSync m :: _ => m | _ => 0 end.
Definition cur_wait (s : state) : option N :=
  match a_script s with OWait t :: _ => t | _ => None end.

(** Ghost: the finished command is recorded with its result. *)
Definition ret (cfg : config) (r : result) (s : state) : state :=
  a_finish cfg (set_returned (returned s ++ [(hd OLock (a_script s), r)]) s).

(** Ghost: the caller starts an [out_q.get] (head of the wait loop) although the deadline
    of the command has already passed. *)
Definition note_head (cfg : config) (dl : option N) (s : state) : state :=
  match dl with
  | None => if tmo cfg <? clock s - a_start s then set_a_late (S (a_late s)) s else s
  | Some _ => s
  end.

(** The virtual handler takes the next message of the reaction, or leaves. *)
Definition v_next (ms : list msg) (s : state) : state :=
  match ms with
  | [] => set_a_pc A_V3 (set_a_vbuf [] s)
  | m :: r => set_a_pc (A_VP P1 m) (set_a_vbuf r s)
  end.

Definition step_A (cfg : config) (s : state) : state :=
  match a_pc s with
  | A_Done => s
  | A_Crash => s
  | A_S0 => set_a_pc (match cur_fk s with Some _ => A_S1 | None => A_S2 end) s
  | A_S1 => set_a_pc A_S2 (match cur_fk s with Some f => set_filt (Some f) s | None => s end)
  | A_S2 =>
      if cur_is_cmd s then set_a_pc A_W0 (set_in_q (in_q s ++ [cur_react s]) s)
      else a_finish cfg (set_in_q (in_q s ++ [cur_react s]) s)
  | A_W0 => set_a_pc A_W1 s
  | A_W1 => set_a_pc (A_W2 None) (set_a_start (clock s) (set_a_late 0%nat s))
  | A_W2 dl =>
      match out_q s with
      | m :: q => set_a_pc (A_W3 m) (set_out_q q (note_head cfg dl s))
      | [] => match dl with
              | None => set_a_pc (A_W2 (Some (clock s + tmo cfg))) (note_head cfg dl s)
              | Some d => if d <=? clock s then set_a_pc A_W5 s else s
              end
      end
  | A_W3 m =>
      match filt s with
      | None => set_a_pc A_Crash s
      | Some f => if matches f m then ret cfg (ROk m) s else set_a_pc (A_W4 P1 m) s
      end
  | A_W4 p m =>
      match snd (pstep cfg p m s) with
      | PNext p' => set_a_pc (A_W4 p' m) (fst (pstep cfg p m s))
      | PFin => set_a_pc (if legacy_wait cfg then A_W2 None else A_W5) (fst (pstep cfg p m s))
      | PCrash => set_a_pc A_Crash s
      end
  | A_W5 =>
      if tmo cfg <? clock s - a_start s then ret cfg RTimeout s else set_a_pc (A_W2 None) s
  | A_V0 => set_a_pc A_V1 s
  | A_V1 =>
      v_next (msgs_of (concat (cur_react s)))
             (set_filt (cur_fk s)
                (set_emitted (emitted s ++ msgs_of (concat (cur_react s))) s))
  | A_VP p m =>
      match snd (pstep cfg p m s) with
      | PNext p' => set_a_pc (A_VP p' m) (fst (pstep cfg p m s))
      | PFin => v_next (a_vbuf s) (fst (pstep cfg p m s))
      | PCrash => set_a_pc A_Crash s
      end
  | A_V3 => if cur_is_cmd s then set_a_pc A_W0 s else a_finish cfg s
  | A_L1 =>
      if legacy_lock cfg then set_a_pc A_L2 (set_locked true s)
      else set_a_pc A_L2 (set_locked_q [] s)
  | A_L2 =>
      if legacy_lock cfg then a_finish cfg (set_locked_q [] s)
      else a_finish cfg (set_locked true s)
  | A_U1 => if lk s then s else set_a_pc A_U2 (set_lk true s)
  | A_U2 =>
      match locked_q s with
      | [] => set_a_pc (if legacy_unlock cfg then A_U5 else A_U6) s
      | _ :: _ => set_a_pc A_U3 s
      end
  | A_U3 =>
      match locked_q s with
      | m :: q => set_a_pc (A_U4 m) (set_locked_q q s)
      | [] => s
      end
  | A_U4 m => set_a_pc A_U2 (set_dispatched (dispatched s ++ [m]) s)
  | A_U5 =>
      if legacy_unlock cfg then set_a_pc A_U6 (set_lk false s)
      else a_finish cfg (set_lk false s)
  | A_U6 =>
      if legacy_unlock cfg then a_finish cfg (set_locked false s)
      else set_a_pc A_U5 (set_locked false s)
  | A_E1 => if sync_mode s =? 0 then set_a_pc A_E3 s else set_a_pc A_E2 s
  | A_E2 =>
      if (cur_mode s =? 0) || legacy_sync cfg
      then set_a_pc A_E3 (set_sync_mode (cur_mode s) s)
      else a_finish cfg (set_sync_mode (cur_mode s) s)
  | A_E3 =>
      if (cur_mode s =? 0) || legacy_sync cfg
      then a_finish cfg (set_sync_q [] (set_cleared (cleared s ++ sync_q s) s))
      else set_a_pc A_E2 (set_sync_q [] (set_cleared (cleared s ++ sync_q s) s))
  | A_K1 =>
      if 1 <=? sync_mode s then set_a_pc (A_K2 None) s
      else a_finish cfg (set_retrieved (retrieved s ++ [None]) s)
  | A_K2 dl =>
      match sync_q s with
      | m :: q =>
          a_finish cfg (set_sync_q q (set_got (got s ++ [m])
            (set_retrieved (retrieved s ++ [if m_pkt m && m_conv m then Some m else None]) s)))
      | [] =>
          match cur_wait s with
          | None => s
          | Some t =>
              match dl with
              | None => set_a_pc (A_K2 (Some (clock s + t))) s
              | Some d => if d <=? clock s
                          then a_finish cfg (set_retrieved (retrieved s ++ [None]) s)
                          else s
              end
          end
      end
  end.

(** ---- scheduler ---------------------------------------------------------------------------------------- *)

Inductive tid := TA | TW | TR | TC.
Inductive action := Step (t : tid) | Tick | Emit.

Definition step (cfg : config) (t : tid) (s : state) : state :=
  match t with
  | TA => step_A cfg s
  | TW => step_W cfg s
  | TR => step_R cfg s
  | TC => step_C cfg s
  end.

Definition tick (s : state) : state := set_clock (clock s + 1) s.

(** The device spontaneously emits its next chunk (notifications, noise). *)
Definition emit (s : state) : state :=
  match spont s with
  | [] => s
  | c :: r => set_spont r (set_wire (wire s ++ [c]) (set_emitted (emitted s ++ msgs_of c) s))
  end.

Definition act (cfg : config) (a : action) (s : state) : state :=
  match a with
  | Step t => step cfg t s
  | Tick => tick s
  | Emit => emit s
  end.

Definition run (cfg : config) (l : list action) (s : state) : state :=
  fold_left (fun s a => act cfg a s) l s.

Definition init (cfg : config) (script : list op) (sp : list chunk) (locked0 : bool) : state :=
  {| out_q := []; in_q := []; events := []; filt := None; clock := 0;
     wire := []; spont := sp;
     locked := locked0; lk := false; locked_q := []; sync_mode := 0; sync_q := [];
     a_pc := a_begin cfg script; a_script := script; a_start := 0; a_vbuf := []; a_late := 0%nat;
     r_pc := RD_Read; r_buf := []; w_pc := WR_Get None; c_pc := CC_Get;
     emitted := []; delivered := []; dispatched := []; returned := [];
     retrieved := []; dropped := []; taken := []; got := []; cleared := [] |}.

(** ---- correspondence with the implementation (evaluated by the harness) -------------- *)

Fixpoint list_eqb {A} (eqb : A -> A -> bool) (a b : list A) : bool :=
  match a, b with
  | [], [] => true
  | x :: a', y :: b' => eqb x y && list_eqb eqb a' b'
  | _, _ => false
  end.

Definition result_eqb (a b : result) : bool :=
  match a, b with
  | ROk m, ROk n => msg_eqb m n
  | RTimeout, RTimeout => true
  | _, _ => false
  end.

Definition omsg_eqb (a b : option msg) : bool :=
  match a, b with
  | Some m, Some n => msg_eqb m n
  | None, None => true
  | _, _ => false
  end.

Definition action_of (n : N) : action :=
  match n with
  | 0 => Step TA | 1 => Step TW | 2 => Step TR | 3 => Step TC | 4 => Tick | _ => Emit
  end.

(** What the harness observes of one forced schedule. *)
Record obs := mkObs {
  o_returned : list result;
  o_delivered : list msg;
  o_dispatched : list msg;
  o_retrieved : list (option msg);
  o_out_q : list msg;
  o_events : list msg;
  o_locked_q : list msg;
  o_sync_q : list msg;
  o_clock : N;
  o_locked : bool;
  o_late : nat;
  o_adone : bool;
  o_cleared : list msg
}.

Definition a_done (s : state) : bool :=
  match a_pc s with A_Done => true | _ => false end.

Definition obs_of (s : state) : obs :=
  {| o_returned := map snd (returned s); o_delivered := delivered s; o_dispatched := dispatched s;
     o_retrieved := retrieved s; o_out_q := out_q s; o_events := events s;
     o_locked_q := locked_q s; o_sync_q := sync_q s; o_clock := clock s;
     o_locked := locked s; o_late := a_late s; o_adone := a_done s; o_cleared := cleared s |}.

Definition obs_eqb (a b : obs) : bool :=
  list_eqb result_eqb (o_returned a) (o_returned b)
  && list_eqb msg_eqb (o_delivered a) (o_delivered b)
  && list_eqb msg_eqb (o_dispatched a) (o_dispatched b)
  && list_eqb omsg_eqb (o_retrieved a) (o_retrieved b)
  && list_eqb msg_eqb (o_out_q a) (o_out_q b)
  && list_eqb msg_eqb (o_events a) (o_events b)
  && list_eqb msg_eqb (o_locked_q a) (o_locked_q b)
  && list_eqb msg_eqb (o_sync_q a) (o_sync_q b)
  && (o_clock a =? o_clock b)
  && Bool.eqb (o_locked a) (o_locked b)
  && Nat.eqb (o_late a) (o_late b)
  && Bool.eqb (o_adone a) (o_adone b)
  && list_eqb msg_eqb (o_cleared a) (o_cleared b).

(** One case: configuration, script, spontaneous chunks, initial lock mode, schedule
    (thread ids / tick / emit as numbers) and what the implementation did under it. *)
Definition case := (config * list op * list chunk * bool * list N * obs)%type.

Definition run_case (c : case) : obs :=
  let '(cfg, script, sp, l0, sched, _) := c in
  obs_of (run cfg (map action_of sched) (init cfg script sp l0)).

Definition check_case (c : case) : bool :=
  let '(_, _, _, _, _, o) := c in obs_eqb (run_case c) o.
