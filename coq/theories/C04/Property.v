(** C04 — property theorems only (each closed by [exact]); see Proofs.v.

    [run cfg sched s0] executes an arbitrary list of scheduler actions (one atomic step of
    the caller / writer / reader / connector I/O thread, a clock tick, a spontaneous
    emission of the device) on the interleaving model of Model.v.  Every theorem
    quantifies over ALL schedules [sched] (no bound), all scripts of the application
    thread, all device histories (reactions to commands, spontaneous chunks, frames that do
    not decode), and over the configuration: connector attached or not, native or virtual
    device (synchronous handler), any timeout.  The model is the model of the REPAIRED code
    when the [legacy_*] flags are false. *)
From Coq Require Import List NArith Arith Bool.
From Whad Require Import C04.Model C04.Proofs.
Import ListNotations.
Open Scope N_scope.

(** 1. Commands get their own answer.  H1 [wf_cmd]: the device's reaction to each command
    holds exactly one message kept by a command filter (the model emits the reaction only
    after the writer thread wrote the command).  H2 [no_resp]: spontaneous traffic holds
    none.  Then every command that completed before the first timeout returned the response
    to that very command ([routed]; pointwise form below). *)
Theorem C04_response_routing :
  forall (cfg : config) (script : list op) (sp : list chunk) (l0 : bool) (sched : list action),
    Forall (wf_cmd (fcs script)) script -> Forall (no_resp (fcs script)) sp ->
    routed (fcs script) (returned (run cfg sched (init cfg script sp l0))) = true.
Proof. exact response_routing. Qed.

Theorem C04_response_routing_pointwise :
  forall cfg script sp l0 sched (k : nat) (o : op) (m : msg),
    Forall (wf_cmd (fcs script)) script -> Forall (no_resp (fcs script)) sp ->
    let l := returned (run cfg sched (init cfg script sp l0)) in
    nth_error l k = Some (o, ROk m) -> all_ok (firstn k l) = true ->
    resp_of (fcs script) o = Some m.
Proof. exact response_routing_pointwise. Qed.

(** 2. Notifications exactly once, in order.  With a connector attached, at EVERY reachable
    state: delivered ++ (in the connector I/O thread's hands) ++ (events queue) ++ (in the
    handler's / reader's hands, reader buffer) ++ (on the wire)  =  emitted, restricted to
    notifications (messages no command filter keeps).  For a virtual device the statement
    covers the synchronous path (no spontaneous traffic). *)
Theorem C04_notifications_exactly_once_in_order :
  forall cfg script sp l0 sched,
    has_conn cfg = true -> forallb no_sync_op script = true -> (virt cfg = true -> sp = []) ->
    let s := run cfg sched (init cfg script sp l0) in
    nf (fcs script) (pipeline s) = nf (fcs script) (emitted s).
Proof. exact notifications_exactly_once_in_order. Qed.

(** Hence when nothing is in flight any more, what reached process_message is exactly what
    was emitted: no loss, no duplicate, no reordering. *)
Theorem C04_notifications_at_quiescence :
  forall cfg script sp l0 sched,
    has_conn cfg = true -> forallb no_sync_op script = true -> (virt cfg = true -> sp = []) ->
    let s := run cfg sched (init cfg script sp l0) in
    drained s -> nf (fcs script) (delivered s) = nf (fcs script) (emitted s).
Proof. exact notifications_at_quiescence. Qed.

(** 3. Timeout bound (repaired wait loop), whatever is queued, with and without connector,
    native and virtual: the caller starts at most ONE wait after the command's deadline;
    once it has, the deadline test that follows sees [clock - start > timeout] (and raises
    Timeout, [C04_late_then_timeout]); every wait started on time ends within
    [start + 2 * timeout]. *)
Theorem C04_timeout_bound :
  forall cfg script sp l0 sched,
    legacy_wait cfg = false ->
    let s := run cfg sched (init cfg script sp l0) in
    (a_late s <= 1)%nat
    /\ (a_late s = 1%nat -> in_loop (a_pc s) = true -> tmo cfg < clock s - a_start s)
    /\ (forall d, a_pc s = A_W2 (Some d) -> a_late s = 0%nat -> d <= a_start s + 2 * tmo cfg).
Proof. exact timeout_bound. Qed.

Theorem C04_late_then_timeout :
  forall cfg s, a_pc s = A_W5 -> tmo cfg < clock s - a_start s ->
    returned (step_A cfg s) = returned s ++ [(hd OLock (a_script s), RTimeout)].
Proof. exact late_then_timeout. Qed.

(** The wait loop as found (deadline evaluated only on queue.Empty) refutes the bound:
    without a connector one unrelated queued message is re-enqueued for ever. *)
Theorem C04_timeout_bound_legacy_refuted :
  exists (cfg : config) (script : list op) (sched : list action),
    legacy_wait cfg = true /\
    let s := run cfg sched (init cfg script [] false) in
    (a_late s > 1)%nat /\ returned s = [] /\ tmo cfg < clock s - a_start s.
Proof. exact timeout_bound_legacy_refuted. Qed.

(** 4. A frame the host cannot decode does not block later messages: whatever undecodable
    frames the history holds, the reader thread stays alive (and theorem 2 holds with them,
    [emitted] listing the decodable messages only). *)
Theorem C04_undecodable_does_not_block :
  forall cfg script sp l0 sched,
    has_conn cfg = true -> forallb no_sync_op script = true -> (virt cfg = true -> sp = []) ->
    r_pc (run cfg sched (init cfg script sp l0)) <> RD_Dead.
Proof. exact reader_alive. Qed.

(** Device.put_message reads the message filter ONCE (repaired): for EVERY configuration, script
    (including filter resets: send_message without filter on a virtual device stores None) and
    schedule, the reader thread is never at a second filter load and never dies. *)
Theorem C04_reader_never_dies :
  forall cfg script sp l0 sched,
    let s := run cfg sched (init cfg script sp l0) in
    r_pc s <> RD_Dead /\ (forall m, r_pc s <> RD_P P6 m).
Proof. exact reader_never_dies. Qed.

(** 5. Virtual devices (VirtualDevice.send_message: handler run synchronously by the caller
    under the device's lock): the statements above hold with [virt cfg = true]; spelled out
    for the notifications. *)
Theorem C04_virtual_notifications :
  forall cfg script l0 sched,
    virt cfg = true -> has_conn cfg = true -> forallb no_sync_op script = true ->
    let s := run cfg sched (init cfg script [] l0) in
    nf (fcs script) (delivered s ++ hand_c s ++ events s ++ hand_a s ++ a_vbuf s)
    = nf (fcs script) (emitted s).
Proof. exact virtual_notifications. Qed.

(** Non-vacuity: a script of two commands whose reactions carry notifications around the
    response (one undecodable frame in between) meets H1/H2; under a concrete schedule both
    commands return their own response and all five notifications are delivered in order. *)
Example C04_nonvacuous :
  let cfg := mkConfig true false 3 false false false false in
  let script := nv_script in
  Forall (wf_cmd (fcs script)) script /\ Forall (no_resp (fcs script)) nv_spont
  /\ let s := run cfg nv_sched (init cfg script nv_spont false) in
     map snd (returned s) = [ROk (mkMsg 3 11 false); ROk (mkMsg 4 21 false)]
     /\ delivered s = [mkMsg 0 1 true; mkMsg 0 10 true; mkMsg 0 12 true; mkMsg 5 20 false; mkMsg 0 22 true].
Proof. exact nonvacuous. Qed.
