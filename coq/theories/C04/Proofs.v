(** C04 — invariants of the interleaving model, proved inductive over every schedule. *)
From Coq Require Import List NArith Arith Bool Lia ZifyBool ZifyN ZifyNat.
From Whad Require Import C04.Model.
Import ListNotations.
Open Scope N_scope.

(** ---- generic machinery ------------------------------------------------------------- *)

(** An invariant preserved by every action holds after every schedule. *)
Lemma run_invariant :
  forall (cfg : config) (I : state -> Prop),
    (forall a s, I s -> I (act cfg a s)) ->
    forall l s, I s -> I (run cfg l s).
Proof.
  intros cfg I HI l. unfold run. induction l as [|a l IH]; intros s Hs; cbn; auto.
Qed.

Lemma run_app : forall cfg l1 l2 s, run cfg (l1 ++ l2) s = run cfg l2 (run cfg l1 s).
Proof. intros. unfold run. apply fold_left_app. Qed.

(** Case analysis helpers: split every [match]/[if] of the goal. *)
Ltac split_match :=
  repeat match goal with
  | |- context [match ?x with _ => _ end] => destruct x eqn:?
  end.

Ltac inv_pc :=
  repeat match goal with
  | H : _ = _ |- _ => first [ discriminate H | (injection H; clear H; intros; subst) ]
  end.

(** ---- timeout bound -------------------------------------------------------------------- *)

Definition in_loop (p : apc) : bool :=
  match p with
  | A_W2 _ | A_W3 _ | A_W4 _ _ | A_W5 => true
  | _ => false
  end.

(** [a_late] counts, for the running command, the waits ([out_q.get]) the caller started
    after the command's deadline. *)
Definition Inv_T (cfg : config) (s : state) : Prop :=
  (a_late s <= 1)%nat
  /\ (a_start s <= clock s)
  /\ (a_late s = 1%nat -> in_loop (a_pc s) = true -> tmo cfg < clock s - a_start s)
  /\ (a_pc s = A_W2 None -> a_late s = 0%nat)
  /\ (forall d, a_pc s = A_W2 (Some d) -> a_late s = 0%nat -> d <= a_start s + 2 * tmo cfg).

Lemma Inv_T_init : forall cfg script sp l0, Inv_T cfg (init cfg script sp l0).
Proof.
  intros. unfold Inv_T, init; cbn. repeat split; try lia; intros; try discriminate.
  all: destruct script as [|[] ?]; cbn in *; try discriminate;
      repeat match goal with H : context [if ?b then _ else _] |- _ => destruct b end; discriminate.
Qed.

Lemma a_begin_not_loop : forall cfg sc, in_loop (a_begin cfg sc) = false.
Proof. intros cfg [|[] ?]; cbn; auto; repeat match goal with |- context [if ?b then _ else _] => destruct b end; auto. Qed.

Lemma a_begin_not_W2 : forall cfg sc d, a_begin cfg sc <> A_W2 d.
Proof. intros cfg sc d H. pose proof (a_begin_not_loop cfg sc) as E. rewrite H in E. discriminate. Qed.

Lemma pstep_time : forall cfg p m s,
  clock (fst (pstep cfg p m s)) = clock s /\ a_start (fst (pstep cfg p m s)) = a_start s
  /\ a_late (fst (pstep cfg p m s)) = a_late s.
Proof. intros cfg [] m s; cbn; auto. Qed.

Local Opaque N.mul N.add N.sub N.ltb N.leb N.eqb.

Ltac finT :=
  unfold ret, a_finish, v_next, note_head, Inv_T in *; cbn in *;
  rewrite ?a_begin_not_loop in *;
  repeat split; intros; inv_pc;
  try discriminate; try (exfalso; eapply a_begin_not_W2; eassumption);
  auto; try lia.

Lemma Inv_T_step_A : forall cfg s, legacy_wait cfg = false -> Inv_T cfg s -> Inv_T cfg (step_A cfg s).
Proof.
  intros cfg s Hl (H1 & H0 & H2 & H3 & H4). unfold step_A, note_head, v_next.
  destruct (a_pc s) eqn:Epc; cbn [in_loop] in *.
  all: try (destruct (pstep_time cfg p m s) as (Ec & Es & Ela)).
  all: split_match; rewrite ?Hl in *.
  all: try (unfold Inv_T; cbn; rewrite ?Epc, ?Ec, ?Es, ?Ela; repeat split; auto; intros; try discriminate; fail).
  all: finT.
Qed.

(** The other threads do not touch the caller's locals nor the clock. *)
Lemma pstep_frame_A : forall cfg p m s,
  a_pc (fst (pstep cfg p m s)) = a_pc s /\ a_script (fst (pstep cfg p m s)) = a_script s
  /\ a_vbuf (fst (pstep cfg p m s)) = a_vbuf s.
Proof. intros cfg [] m s; cbn; auto. Qed.

Lemma step_R_frame : forall cfg s,
  a_pc (step_R cfg s) = a_pc s /\ a_late (step_R cfg s) = a_late s
  /\ a_start (step_R cfg s) = a_start s /\ clock (step_R cfg s) = clock s
  /\ a_script (step_R cfg s) = a_script s /\ a_vbuf (step_R cfg s) = a_vbuf s.
Proof.
  intros. unfold step_R. destruct (r_pc s) as [|p m|]; [destruct (wire s)| |]; cbn; auto 10.
  destruct (pstep_time cfg p m s) as (? & ? & ?). destruct (pstep_frame_A cfg p m s) as (? & ? & ?).
  destruct (snd (pstep cfg p m s)); cbn; auto 10.
Qed.

Lemma step_W_frame : forall cfg s,
  a_pc (step_W cfg s) = a_pc s /\ a_late (step_W cfg s) = a_late s
  /\ a_start (step_W cfg s) = a_start s /\ clock (step_W cfg s) = clock s
  /\ a_script (step_W cfg s) = a_script s /\ a_vbuf (step_W cfg s) = a_vbuf s.
Proof.
  intros. unfold step_W. split_match; cbn; auto 10.
Qed.

Lemma step_C_frame : forall cfg s,
  a_pc (step_C cfg s) = a_pc s /\ a_late (step_C cfg s) = a_late s
  /\ a_start (step_C cfg s) = a_start s /\ clock (step_C cfg s) = clock s
  /\ a_script (step_C cfg s) = a_script s /\ a_vbuf (step_C cfg s) = a_vbuf s.
Proof.
  intros. unfold step_C. split_match; cbn; auto 10.
Qed.

Lemma Inv_T_frame : forall cfg s s',
  a_pc s' = a_pc s -> a_late s' = a_late s -> a_start s' = a_start s -> clock s <= clock s' ->
  Inv_T cfg s -> Inv_T cfg s'.
Proof.
  intros cfg s s' E1 E2 E3 E4 (H1 & H0 & H2 & H3 & H4). unfold Inv_T. rewrite E1, E2, E3.
  split; [auto|]. split; [lia|]. split; [|auto].
  intros Hl Hp. specialize (H2 Hl Hp). lia.
Qed.

Lemma Inv_T_act : forall cfg, legacy_wait cfg = false ->
  forall a s, Inv_T cfg s -> Inv_T cfg (act cfg a s).
Proof.
  intros cfg Hl [[]| |] s H; cbn [act step].
  - apply Inv_T_step_A; auto.
  - destruct (step_W_frame cfg s) as (? & ? & ? & E & _). apply Inv_T_frame with (s := s); auto. lia.
  - destruct (step_R_frame cfg s) as (? & ? & ? & E & _). apply Inv_T_frame with (s := s); auto. lia.
  - destruct (step_C_frame cfg s) as (? & ? & ? & E & _). apply Inv_T_frame with (s := s); auto. lia.
  - apply Inv_T_frame with (s := s); auto; unfold tick; cbn; lia.
  - unfold emit. destruct (spont s); auto.
Qed.

(** timeout_bound: under every schedule, with and without connector, native or virtual,
    whatever is queued. *)
Lemma timeout_bound :
  forall cfg script sp l0 sched,
    legacy_wait cfg = false ->
    let s := run cfg sched (init cfg script sp l0) in
    (a_late s <= 1)%nat
    /\ (a_late s = 1%nat -> in_loop (a_pc s) = true -> tmo cfg < clock s - a_start s)
    /\ (forall d, a_pc s = A_W2 (Some d) -> a_late s = 0%nat -> d <= a_start s + 2 * tmo cfg).
Proof.
  intros cfg script sp l0 sched Hl s.
  assert (H : Inv_T cfg s).
  { apply run_invariant; [apply Inv_T_act; auto | apply Inv_T_init]. }
  destruct H as (H1 & _ & H2 & _ & H4). auto.
Qed.

(** After a late head, the next deadline test (W5) ends the command with Timeout. *)
Lemma late_then_timeout :
  forall cfg s, a_pc s = A_W5 -> tmo cfg < clock s - a_start s ->
    returned (step_A cfg s) = returned s ++ [(hd OLock (a_script s), RTimeout)].
Proof.
  intros cfg s Hp Hl. unfold step_A. rewrite Hp.
  destruct (tmo cfg <? clock s - a_start s) eqn:E; [reflexivity|]. apply N.ltb_ge in E. lia.
Qed.

(** ---- notifications: exactly once, in order ---------------------------------------------- *)

Lemma msgs_of_app : forall a b, msgs_of (a ++ b) = msgs_of a ++ msgs_of b.
Proof. induction a as [|[m|] a IH]; intros; cbn; rewrite ?IH; auto. Qed.

Lemma r_next_spec : forall buf,
  match fst (r_next buf) with
  | RD_Read => msgs_of buf = [] /\ snd (r_next buf) = []
  | RD_P p m => p = P1 /\ msgs_of buf = m :: msgs_of (snd (r_next buf))
  | RD_Dead => False
  end.
Proof. induction buf as [|[m|] b IH]; cbn; auto. Qed.

Section Notif.
Variable FC : list N.   (* the filter classes used by the commands of the script *)

(** A message is a response iff some command's filter keeps it; a notification otherwise. *)
Definition isr (m : msg) : bool := existsb (N.eqb (m_cls m)) FC.
Definition isn (m : msg) : bool := negb (isr m).
Definition nf (l : list msg) : list msg := filter isn l.

Lemma nf_app : forall a b, nf (a ++ b) = nf a ++ nf b.
Proof. intros. apply filter_app. Qed.

Lemma matches_isn : forall f m, In f FC -> matches f m = true -> isn m = false.
Proof.
  unfold matches, isn, isr. intros f m Hin Hm. apply N.eqb_eq in Hm.
  apply negb_false_iff. apply existsb_exists. exists f. split; auto. apply N.eqb_eq; auto.
Qed.

Definition hand_c (s : state) : list msg :=
  match c_pc s with
  | CC_C2 m | CC_C5 m | CC_S1 m | CC_S2 m | CC_SPut m => [m]
  | _ => []
  end.
Definition hand_r (s : state) : list msg := match r_pc s with RD_P _ m => [m] | _ => [] end.
Definition hand_a (s : state) : list msg := match a_pc s with A_VP _ m => [m] | _ => [] end.

(** Everything between the device and process_message, oldest first. *)
Definition pipeline (s : state) : list msg :=
  delivered s ++ hand_c s ++ events s ++ hand_a s ++ a_vbuf s
  ++ hand_r s ++ msgs_of (r_buf s) ++ msgs_of (concat (wire s)).

Definition ppc_ok (p : ppc) (m : msg) : Prop := p <> P2 /\ (p = P7 -> isn m = false).

Definition vpc (p : apc) : bool :=
  match p with A_V0 | A_V1 | A_VP _ _ | A_V3 => true | _ => false end.

Definition e_pc (p : apc) : bool :=
  match p with A_E1 | A_E2 | A_E3 => true | _ => false end.

Definition cmd_pc (p : apc) : bool :=
  match p with A_S0 | A_S1 | A_S2 | A_V0 | A_V1 => true | _ => false end.

Definition c_nosync (p : cpc) : bool :=
  match p with CC_S1 _ | CC_S2 _ | CC_SPut _ => false | _ => true end.

Definition cmd_in_FC (o : op) : Prop :=
  match o with
  | OCmd fc _ => In fc FC
  | OSend (Some f) _ => In f FC
  | OSync _ => False
  | _ => True
  end.

Definition is_send_op (o : op) : bool :=
  match o with OCmd _ _ | OSend _ _ => true | _ => false end.

Definition Npipe (s : state) : Prop := nf (pipeline s) = nf (emitted s).

Definition no_p6 (s : state) : Prop :=
  (forall m, r_pc s <> RD_P P6 m) /\ (forall m, a_pc s <> A_W4 P6 m) /\ (forall m, a_pc s <> A_VP P6 m).

Record Nside (cfg : config) (s : state) : Prop := mkNside {
  ns_sync : sync_mode s = 0;
  ns_script : Forall cmd_in_FC (a_script s);
  ns_filt : forall f, filt s = Some f -> In f FC;
  ns_outq : nf (out_q s) = [];
  ns_w3 : forall m, a_pc s = A_W3 m -> isn m = false;
  ns_w4 : forall p m, a_pc s = A_W4 p m -> isn m = false /\ p <> P2;
  ns_vp : forall p m, a_pc s = A_VP p m -> ppc_ok p m;
  ns_rp : forall p m, r_pc s = RD_P p m -> ppc_ok p m;
  ns_c : c_nosync (c_pc s) = true;
  ns_vbuf : hand_a s = [] -> a_vbuf s = [];
  ns_nat : virt cfg = false -> vpc (a_pc s) = false;
  ns_p6 : filt s = None -> no_p6 s;
  ns_rbuf : r_pc s = RD_Read -> r_buf s = [];
  ns_noE : e_pc (a_pc s) = false;
  ns_cmd : cmd_pc (a_pc s) = true -> exists o t, a_script s = o :: t /\ is_send_op o = true
}.

Lemma Nside_ext : forall cfg s s',
  sync_mode s' = sync_mode s -> a_script s' = a_script s -> filt s' = filt s ->
  out_q s' = out_q s -> a_pc s' = a_pc s -> r_pc s' = r_pc s -> c_pc s' = c_pc s ->
  a_vbuf s' = a_vbuf s -> r_buf s' = r_buf s -> Nside cfg s -> Nside cfg s'.
Proof.
  intros cfg s s' E1 E2 E3 E4 E5 E6 E7 E8 E9 [].
  constructor; unfold hand_a, no_p6 in *; rewrite ?E1, ?E2, ?E3, ?E4, ?E5, ?E6, ?E7, ?E8, ?E9; auto.
Qed.

Ltac side_same Hs :=
  match type of Hs with Nside ?cfg ?s => apply (Nside_ext cfg s); [reflexivity .. | exact Hs] end.

Definition Nvirt (cfg : config) (s : state) : Prop :=
  virt cfg = true -> wire s = [] /\ spont s = [] /\ r_pc s = RD_Read /\ r_buf s = [].

Definition Inv_N (cfg : config) (s : state) : Prop := Npipe s /\ Nside cfg s /\ Nvirt cfg s.

Ltac nf_norm :=
  unfold Npipe, pipeline in *; cbn [delivered events a_vbuf r_buf wire emitted out_q] in *;
  rewrite ?nf_app in *; rewrite ?concat_app, ?msgs_of_app, ?nf_app in *;
  cbn [concat msgs_of app] in *; rewrite ?app_nil_r in *; rewrite <- ?app_assoc in *.

Lemma Inv_N_step_W : forall cfg s, Inv_N cfg s -> Inv_N cfg (step_W cfg s).
Proof.
  intros cfg s H. unfold step_W. destruct (virt cfg) eqn:Ev; auto.
  destruct (w_pc s) eqn:Ew; split_match; try exact H;
    try (destruct H as (Hp & Hs & Hv); split; [exact Hp|split; [side_same Hs|exact Hv]]).
  destruct H as (Hp & Hs & Hv). split; [|split; [side_same Hs|]].
  - unfold Npipe in *.
    match goal with |- nf (pipeline ?s') = _ =>
      assert (E : pipeline s' = pipeline s ++ msgs_of (concat c)) end.
    { unfold pipeline, hand_c, hand_r, hand_a; cbn. rewrite concat_app, msgs_of_app, !app_assoc. reflexivity. }
    rewrite E. cbn [emitted set_w_pc set_wire set_emitted]. rewrite !nf_app, Hp. reflexivity.
  - intro; congruence.
Qed.

Lemma Inv_N_tick : forall cfg s, Inv_N cfg s -> Inv_N cfg (tick s).
Proof. intros cfg s (Hp & Hs & Hv). split; [exact Hp|split; [side_same Hs|exact Hv]]. Qed.

Lemma Inv_N_emit : forall cfg s, Inv_N cfg s -> Inv_N cfg (emit s).
Proof.
  intros cfg s H. unfold emit. destruct (spont s) as [|c r] eqn:Es; auto.
  destruct H as (Hp & Hs & Hv). split; [|split; [side_same Hs|]].
  - unfold Npipe in *.
    match goal with |- nf (pipeline ?s') = _ =>
      assert (E : pipeline s' = pipeline s ++ msgs_of c) end.
    { unfold pipeline, hand_c, hand_r, hand_a; cbn. rewrite concat_app, msgs_of_app, !app_assoc.
      cbn. rewrite app_nil_r. reflexivity. }
    rewrite E. cbn [emitted set_spont set_wire set_emitted]. rewrite !nf_app, Hp. reflexivity.
  - intro Hv'. destruct (Hv Hv') as (_ & E & _). congruence.
Qed.

Ltac side_tac Hs :=
  destruct Hs as [Q1 Q2 Q3 Q4 Q5 Q6 Q7 Q8 Q9 Q10 Q11 Q12 Q13 Q14 Q15];
  unfold ppc_ok, no_p6 in *; constructor; cbn;
  repeat split; auto; intros; cbn in *; inv_pc; try discriminate; try congruence; auto;
  try (edestruct Q6 as [? ?]; eauto; fail);
  try (edestruct Q7 as [? ?]; eauto; fail);
  try (edestruct Q8 as [? ?]; eauto; fail);
  try (edestruct Q12 as (? & ? & ?); eauto; fail);
  try (apply Q15; match goal with E : a_pc _ = _ |- _ => rewrite E end; reflexivity);
  try (apply Q10; unfold hand_a; match goal with E : a_pc _ = _ |- _ => rewrite E end; reflexivity);
  try (match goal with H : virt _ = false |- _ => specialize (Q11 H) end;
       match goal with E : a_pc _ = _ |- _ => rewrite E in Q11 end; discriminate).

Lemma Inv_N_step_C : forall cfg s, Inv_N cfg s -> Inv_N cfg (step_C cfg s).
Proof.
  intros cfg s (Hp & Hs & Hv). unfold step_C. destruct (has_conn cfg); cbn [negb]; [|split; [|split]; assumption].
  assert (Hsync : sync_mode s = 0) by (destruct Hs; auto).
  assert (Hns : c_nosync (c_pc s) = true) by (destruct Hs; auto).
  destruct (c_pc s) eqn:Ec; cbn in Hns; try discriminate.
  all: split_match.
  all: try (apply N.eqb_eq in Heqb; lia).
  all: (split; [|split; [side_tac Hs|exact Hv]]).
  all: unfold Npipe in *;
    match goal with |- nf (pipeline ?s') = _ => assert (E : pipeline s' = pipeline s) end;
    [unfold pipeline, hand_c, hand_r, hand_a; cbn; rewrite ?Ec; cbn;
     rewrite <- ?app_assoc; cbn; try reflexivity; try (rewrite Heql; reflexivity)
    | first [exact Hp | rewrite E; exact Hp]].
Qed.

Lemma pstep_inv : forall cfg p m s,
  has_conn cfg = true -> (forall f, filt s = Some f -> In f FC) ->
  ppc_ok p m -> (filt s = None -> p <> P6) ->
  match snd (pstep cfg p m s) with
  | PNext p' => fst (pstep cfg p m s) = s /\ ppc_ok p' m /\ (filt s = None -> p' <> P6)
  | PFin => (isn m = false /\ fst (pstep cfg p m s) = set_out_q (out_q s ++ [m]) s)
            \/ fst (pstep cfg p m s) = set_events (events s ++ [m]) s
  | PCrash => False
  end.
Proof.
  intros cfg p m s Hc Hf [Hp2 Hp7] Hp6. unfold ppc_ok.
  destruct p; cbn; rewrite ?Hc; try congruence.
  - repeat split; try discriminate.
  - destruct (filt s) eqn:Ef; [|repeat split; discriminate].
    destruct (matches n m) eqn:Em; repeat split; try discriminate.
    intros _. eapply matches_isn; eauto.
  - destruct (filt s) eqn:Ef; [|apply Hp6; auto].
    destruct (matches n m) eqn:Em; repeat split; try discriminate.
    intros _. eapply matches_isn; eauto.
  - left; auto.
  - repeat split; discriminate.
  - repeat split; discriminate.
  - right; auto.
Qed.

Lemma nf_cons : forall m l, nf (m :: l) = nf [m] ++ nf l.
Proof. intros. change (m :: l) with ([m] ++ l). apply nf_app. Qed.

Lemma nf_drop : forall a m b, isn m = false -> nf (a ++ [m] ++ b) = nf (a ++ b).
Proof. intros a m b H. rewrite !nf_app. unfold nf at 2; cbn. rewrite H. reflexivity. Qed.

Lemma nf_single_r : forall m, isn m = false -> nf [m] = [].
Proof. intros m H. unfold nf; cbn. rewrite H. reflexivity. Qed.

Lemma native_no_hand_a : forall cfg s, Nside cfg s -> virt cfg = false -> hand_a s = [] /\ a_vbuf s = [].
Proof.
  intros cfg s Hs Ev. assert (E : hand_a s = []).
  { pose proof (ns_nat _ _ Hs Ev) as V. unfold hand_a. destruct (a_pc s); try reflexivity; discriminate. }
  split; auto. apply (ns_vbuf _ _ Hs); auto.
Qed.

Lemma Inv_N_step_R : forall cfg s, has_conn cfg = true -> Inv_N cfg s -> Inv_N cfg (step_R cfg s).
Proof.
  intros cfg s Hc (Hp & Hs & Hv). unfold step_R.
  destruct (r_pc s) as [|p m|] eqn:Er.
  - (* read *)
    destruct (wire s) as [|c w] eqn:Ew; [split; [|split]; assumption|].
    assert (Evf : virt cfg = false).
    { destruct (virt cfg) eqn:E; auto. destruct (Hv E) as (E' & _). congruence. }
    pose proof (ns_rbuf _ _ Hs Er) as Eb.
    pose proof (r_next_spec c) as Hn.
    split; [|split].
    + unfold Npipe in *. transitivity (nf (pipeline s)); [|exact Hp]. f_equal.
      unfold pipeline, hand_c, hand_r, hand_a. cbn. rewrite Er, Eb, Ew. cbn.
      rewrite msgs_of_app. destruct (fst (r_next c)); try contradiction.
      * destruct Hn as (E1 & E2). rewrite E1, E2. reflexivity.
      * destruct Hn as (E1 & E2). rewrite E2. cbn. rewrite <- ?app_assoc. reflexivity.
    + destruct (fst (r_next c)) eqn:En; try contradiction.
      * destruct Hn as (E1 & E2). side_tac Hs.
      * destruct Hn as (E1 & E2). subst p. side_tac Hs.
    + intro; congruence.
  - (* put_message *)
    pose proof (pstep_inv cfg p m s Hc (ns_filt _ _ Hs) (ns_rp _ _ Hs _ _ Er)) as Hps.
    assert (H6 : filt s = None -> p <> P6).
    { intros Ef Ep. subst p. destruct (ns_p6 _ _ Hs Ef) as (A & _). eapply A; eauto. }
    specialize (Hps H6).
    assert (Evf : virt cfg = false).
    { destruct (virt cfg) eqn:E; auto. destruct (Hv E) as (_ & _ & E' & _). congruence. }
    destruct (native_no_hand_a cfg s Hs Evf) as (Eha & Evb).
    destruct (snd (pstep cfg p m s)) as [p'| |]; try contradiction.
    + destruct Hps as (E & Hok & H6'). rewrite E.
      split; [|split].
      * unfold Npipe in *. transitivity (nf (pipeline s)); [|exact Hp]. f_equal. unfold pipeline, hand_c, hand_r, hand_a. cbn. rewrite Er. reflexivity.
      * destruct Hok. side_tac Hs. intro Eq; inversion Eq; subst. eapply H6'; eauto.
      * intro; congruence.
    + pose proof (r_next_spec (r_buf s)) as Hn.
      destruct Hps as [(Hm & E)|E]; rewrite E; cbn [r_buf set_out_q set_events].
      * (* kept for the caller *)
        split; [|split].
        -- unfold Npipe in *. transitivity (nf (pipeline s)); [|exact Hp]. unfold pipeline, hand_c, hand_r, hand_a. cbn. rewrite Er.
           rewrite !nf_app. rewrite (nf_single_r m Hm). cbn [app].
           destruct (fst (r_next (r_buf s))); try contradiction; destruct Hn as (E1 & E2).
           ++ rewrite E1, E2. reflexivity.
           ++ rewrite E2, (nf_cons m0 (msgs_of _)), <- !app_assoc. reflexivity.
        -- destruct (fst (r_next (r_buf s))) eqn:En; try contradiction; destruct Hn as (E1 & E2).
           ++ side_tac Hs. rewrite nf_app, Q4, (nf_single_r m Hm). reflexivity.
           ++ subst p0. side_tac Hs. rewrite nf_app, Q4, (nf_single_r m Hm). reflexivity.
        -- intro; congruence.
      * (* forwarded to the connector *)
        split; [|split].
        -- unfold Npipe in *. transitivity (nf (pipeline s)); [|exact Hp]. f_equal.
           unfold pipeline, hand_c, hand_r, hand_a in *. cbn. rewrite Er, Eha, Evb. cbn [app].
           rewrite <- !app_assoc. cbn [app].
           destruct (fst (r_next (r_buf s))); try contradiction;
             destruct Hn as (E1 & E2); rewrite ?E1, ?E2; cbn; reflexivity.
        -- destruct (fst (r_next (r_buf s))) eqn:En; try contradiction; destruct Hn as (E1 & E2).
           ++ side_tac Hs.
           ++ subst p0. side_tac Hs.
        -- intro; congruence.
  - split; [|split]; assumption.
Qed.

Lemma cur_fk_in : forall cfg s, Nside cfg s -> cmd_pc (a_pc s) = true ->
  forall f, cur_fk s = Some f -> In f FC.
Proof.
  intros cfg s Hs Hc f Hf. destruct (ns_cmd _ _ Hs Hc) as (o & t & Esc & Ho).
  pose proof (ns_script _ _ Hs) as F. rewrite Esc in F. inversion F as [|? ? Hh _]; subst.
  unfold cur_fk in Hf. rewrite Esc in Hf. destruct o as [fc r|k r| | | |]; cbn in *; try discriminate.
  - inversion Hf; subst; auto.
  - subst k. auto.
Qed.

Lemma a_begin_side : forall cfg sc, Forall cmd_in_FC sc ->
  (forall m, a_begin cfg sc <> A_W3 m) /\ (forall p m, a_begin cfg sc <> A_W4 p m)
  /\ (forall p m, a_begin cfg sc <> A_VP p m)
  /\ e_pc (a_begin cfg sc) = false /\ (virt cfg = false -> vpc (a_begin cfg sc) = false)
  /\ (cmd_pc (a_begin cfg sc) = true -> exists o t, sc = o :: t /\ is_send_op o = true).
Proof.
  intros cfg sc HF. destruct sc as [|o t]; cbn.
  - repeat split; intros; try discriminate; auto.
  - inversion HF as [|? ? Ho _]; subst. destruct o; cbn in *; try contradiction.
    + destruct (virt cfg) eqn:Ev; repeat split; intros; try discriminate; auto; eauto.
    + destruct (virt cfg) eqn:Ev; repeat split; intros; try discriminate; auto; eauto.
    + repeat split; intros; try discriminate; auto.
    + repeat split; intros; try discriminate; auto.
    + repeat split; intros; try discriminate; auto.
Qed.

Lemma hand_a_finish : forall cfg s, hand_a (a_finish cfg s) = [].
Proof.
  intros. unfold hand_a, a_finish. cbn. destruct (tl (a_script s)) as [|[] ?]; cbn; auto;
    repeat match goal with |- context [if ?b then _ else _] => destruct b end; auto.
Qed.

Lemma Nside_finish : forall cfg s s', Nside cfg s -> hand_a s = [] ->
  sync_mode s' = sync_mode s -> a_script s' = a_script s -> filt s' = filt s ->
  out_q s' = out_q s -> r_pc s' = r_pc s -> c_pc s' = c_pc s -> a_vbuf s' = a_vbuf s ->
  r_buf s' = r_buf s -> Nside cfg (a_finish cfg s').
Proof.
  intros cfg s s' [Q1 Q2 Q3 Q4 Q5 Q6 Q7 Q8 Q9 Q10 Q11 Q12 Q13 Q14 Q15] Ha E1 E2 E3 E4 E6 E7 E8 E9.
  assert (HF : Forall cmd_in_FC (tl (a_script s))).
  { destruct (a_script s); cbn; auto. inversion Q2; auto. }
  destruct (a_begin_side cfg _ HF) as (B1 & B2 & B3 & B4 & B5 & B6).
  pose proof (hand_a_finish cfg s') as Hf.
  unfold a_finish in *. constructor; cbn in *; rewrite ?E1, ?E2, ?E3, ?E4, ?E6, ?E7, ?E8, ?E9; auto.
  - intros m H. exfalso; eapply B1; eauto.
  - intros p m H. exfalso; eapply B2; eauto.
  - intros p m H. exfalso; eapply B3; eauto.
  - intros Ef. destruct (Q12 Ef) as (A1 & A2 & A3). split; [|split]; intros m H; cbn in H.
    + rewrite E6 in H. eapply A1; eauto.
    + eapply B2; eauto.
    + eapply B3; eauto.
Qed.

Lemma pipeline_a_pc : forall s s',
  delivered s' = delivered s -> c_pc s' = c_pc s -> events s' = events s -> hand_a s' = hand_a s ->
  a_vbuf s' = a_vbuf s -> r_pc s' = r_pc s -> r_buf s' = r_buf s -> wire s' = wire s ->
  pipeline s' = pipeline s.
Proof.
  intros s s' E1 E2 E3 E4 E5 E6 E7 E8. unfold pipeline, hand_c, hand_r.
  rewrite E1, E2, E3, E4, E5, E6, E7, E8. reflexivity.
Qed.

Lemma nf_cons_nil : forall m l, nf (m :: l) = [] -> isn m = false /\ nf l = [].
Proof. intros m l H. unfold nf in *; cbn in H. destruct (isn m); [discriminate|auto]. Qed.

(** A step of the caller that neither moves a message nor touches what Inv_N looks at,
    except its own program counter. *)
Ltac pc_move s Epc Hp Hs Hv :=
  split; [ unfold Npipe in *; (transitivity (nf (pipeline s)); [|exact Hp]); f_equal;
           apply pipeline_a_pc; try reflexivity; (unfold hand_a; cbn; rewrite Epc; reflexivity)
         | split; [side_tac Hs | exact Hv] ].

Ltac fin_move cfg s s' Epc Hp Hs Hv :=
  split; [ unfold Npipe in *; (transitivity (nf (pipeline s)); [|exact Hp]); f_equal;
           apply pipeline_a_pc; try reflexivity;
           (rewrite hand_a_finish; unfold hand_a; rewrite Epc; reflexivity)
         | split; [ apply (Nside_finish cfg s s'); auto; unfold hand_a; rewrite Epc; reflexivity
                  | exact Hv] ].

Lemma Inv_N_step_A : forall cfg s, has_conn cfg = true -> Inv_N cfg s -> Inv_N cfg (step_A cfg s).
Proof.
  intros cfg s Hc (Hp & Hs & Hv). unfold step_A.
  destruct (a_pc s) eqn:Epc.
  - (* Done *) split; [|split]; assumption.
  - (* Crash *) split; [|split]; assumption.
  - (* S0 *) destruct (cur_fk s); pc_move s Epc Hp Hs Hv.
  - (* S1 *)
    assert (Hfk : forall f, cur_fk s = Some f -> In f FC) by (apply (cur_fk_in cfg s Hs); rewrite Epc; reflexivity).
    destruct (cur_fk s) as [f|] eqn:Efk; [specialize (Hfk f eq_refl)|]; pc_move s Epc Hp Hs Hv.
  - (* S2 *)
    destruct (cur_is_cmd s); [pc_move s Epc Hp Hs Hv|].
    match goal with |- Inv_N _ (a_finish _ ?s1) => fin_move cfg s s1 Epc Hp Hs Hv end.
  - (* W0 *) pc_move s Epc Hp Hs Hv.
  - (* W1 *) pc_move s Epc Hp Hs Hv.
  - (* W2 *)
    destruct (out_q s) as [|m q] eqn:Eq.
    + destruct dl as [d|]; [destruct (d <=? clock s)|]; unfold note_head; split_match;
        first [ split; [|split]; assumption | pc_move s Epc Hp Hs Hv ].
    + destruct (nf_cons_nil m q) as (Hm & Hq); [rewrite <- Eq; apply (ns_outq _ _ Hs)|].
      unfold note_head; split_match; pc_move s Epc Hp Hs Hv.
  - (* W3 *)
    destruct (filt s) as [f|] eqn:Ef; [|pc_move s Epc Hp Hs Hv].
    destruct (matches f m) eqn:Em.
    + unfold ret.
      match goal with |- Inv_N _ (a_finish _ ?s1) => fin_move cfg s s1 Epc Hp Hs Hv end.
    + pose proof (ns_w3 _ _ Hs _ Epc). pc_move s Epc Hp Hs Hv.
  - (* W4 *)
    destruct (ns_w4 _ _ Hs _ _ Epc) as (Hm & Hp2).
    assert (Hok : ppc_ok p m) by (split; auto).
    assert (H6 : filt s = None -> p <> P6).
    { intros Ef Ep. subst p. destruct (ns_p6 _ _ Hs Ef) as (_ & A & _). eapply A; eauto. }
    pose proof (pstep_inv cfg p m s Hc (ns_filt _ _ Hs) Hok H6) as Hps.
    destruct (snd (pstep cfg p m s)) as [p'| |]; try contradiction.
    + destruct Hps as (E & (Hok1 & Hok2) & H6'). rewrite E. pc_move s Epc Hp Hs Hv.
      intro Eq; inversion Eq; subst. eapply H6'; eauto.
    + destruct Hps as [(_ & E)|E]; rewrite E.
      * split; [|split; [|exact Hv]].
        -- unfold Npipe in *. transitivity (nf (pipeline s)); [|exact Hp]. f_equal.
           apply pipeline_a_pc; try reflexivity. unfold hand_a; cbn; rewrite Epc.
           destruct (legacy_wait cfg); reflexivity.
        -- destruct (legacy_wait cfg); side_tac Hs; rewrite nf_app, Q4, (nf_single_r m Hm); reflexivity.
      * split; [|split; [|exact Hv]].
        -- unfold Npipe in *. transitivity (nf (pipeline s)); [|exact Hp].
           unfold pipeline, hand_c, hand_r, hand_a. cbn. rewrite Epc.
           assert (Eh : match (if legacy_wait cfg then A_W2 None else A_W5) with A_VP _ m0 => [m0] | _ => [] end = @nil msg)
             by (destruct (legacy_wait cfg); reflexivity).
           rewrite Eh. rewrite !nf_app. rewrite (nf_single_r m Hm). cbn [app]. rewrite app_nil_r. reflexivity.
        -- destruct (legacy_wait cfg); side_tac Hs.
  - (* W5 *)
    destruct (tmo cfg <? clock s - a_start s).
    + unfold ret. match goal with |- Inv_N _ (a_finish _ ?s1) => fin_move cfg s s1 Epc Hp Hs Hv end.
    + pc_move s Epc Hp Hs Hv.
  - (* V0 *) pc_move s Epc Hp Hs Hv.
  - (* V1 *)
    assert (Hfk : forall f, cur_fk s = Some f -> In f FC) by (apply (cur_fk_in cfg s Hs); rewrite Epc; reflexivity).
    assert (Evt : virt cfg = true).
    { destruct (virt cfg) eqn:E; auto. pose proof (ns_nat _ _ Hs E) as V. rewrite Epc in V. discriminate. }
    destruct (Hv Evt) as (Ew & Esp & Er & Eb).
    assert (Eha : hand_a s = []) by (unfold hand_a; rewrite Epc; reflexivity).
    pose proof (ns_vbuf _ _ Hs Eha) as Evb.
    set (ms := msgs_of (concat (cur_react s))).
    assert (Epl : forall s', delivered s' = delivered s -> c_pc s' = c_pc s -> events s' = events s ->
               hand_a s' ++ a_vbuf s' = ms -> r_pc s' = r_pc s -> r_buf s' = r_buf s -> wire s' = wire s ->
               pipeline s' = pipeline s ++ ms).
    { intros s' E1 E2 E3 E4 E5 E6 E7. unfold pipeline, hand_c, hand_r. rewrite E1, E2, E3, E5, E6, E7, Er, Eb, Ew, Eha, Evb.
      cbn. rewrite !app_nil_r. rewrite <- E4. rewrite <- !app_assoc. reflexivity. }
    unfold v_next. fold ms. destruct ms as [|m0 rest] eqn:Ems.
    + split; [|split].
      * unfold Npipe in *. rewrite Epl; try reflexivity. cbn [emitted set_a_pc set_a_vbuf set_filt set_emitted].
        rewrite !nf_app, Hp. reflexivity.
      * side_tac Hs.
      * exact Hv.
    + split; [|split].
      * unfold Npipe in *. rewrite Epl; try reflexivity. cbn [emitted set_a_pc set_a_vbuf set_filt set_emitted].
        rewrite !nf_app, Hp. reflexivity.
      * side_tac Hs.
      * exact Hv.
  - (* VP *)
    pose proof (ns_vp _ _ Hs _ _ Epc) as Hok.
    assert (H6 : filt s = None -> p <> P6).
    { intros Ef Ep. subst p. destruct (ns_p6 _ _ Hs Ef) as (_ & _ & A). eapply A; eauto. }
    pose proof (pstep_inv cfg p m s Hc (ns_filt _ _ Hs) Hok H6) as Hps.
    destruct (snd (pstep cfg p m s)) as [p'| |]; try contradiction.
    + destruct Hps as (E & (Hok1 & Hok2) & H6'). rewrite E. pc_move s Epc Hp Hs Hv.
      intro Eq; inversion Eq; subst. eapply H6'; eauto.
    + destruct Hps as [(Hm & E)|E]; rewrite E; unfold v_next; cbn [a_vbuf set_out_q set_events];
        destruct (a_vbuf s) as [|m1 rest] eqn:Evb.
      * split; [|split; [side_tac Hs; rewrite nf_app, Q4, (nf_single_r m Hm); reflexivity|exact Hv]].
        unfold Npipe in *. transitivity (nf (pipeline s)); [|exact Hp].
        match goal with |- nf (pipeline ?s1) = _ =>
          assert (E2 : pipeline s1 = (delivered s ++ hand_c s ++ events s) ++ (hand_r s ++ msgs_of (r_buf s) ++ msgs_of (concat (wire s))))
            by (unfold pipeline, hand_c, hand_r, hand_a; cbn; rewrite <- !app_assoc; reflexivity) end.
        assert (E1 : pipeline s = (delivered s ++ hand_c s ++ events s) ++ [m] ++ (hand_r s ++ msgs_of (r_buf s) ++ msgs_of (concat (wire s))))
          by (unfold pipeline, hand_a; rewrite Epc, Evb; cbn; rewrite <- !app_assoc; reflexivity).
        rewrite E1, E2, nf_drop; auto.
      * split; [|split; [side_tac Hs; rewrite nf_app, Q4, (nf_single_r m Hm); reflexivity|exact Hv]].
        unfold Npipe in *. transitivity (nf (pipeline s)); [|exact Hp].
        match goal with |- nf (pipeline ?s1) = _ =>
          assert (E2 : pipeline s1 = (delivered s ++ hand_c s ++ events s) ++ (m1 :: rest ++ hand_r s ++ msgs_of (r_buf s) ++ msgs_of (concat (wire s))))
            by (unfold pipeline, hand_c, hand_r, hand_a; cbn; rewrite <- !app_assoc; reflexivity) end.
        assert (E1 : pipeline s = (delivered s ++ hand_c s ++ events s) ++ [m] ++ (m1 :: rest ++ hand_r s ++ msgs_of (r_buf s) ++ msgs_of (concat (wire s))))
          by (unfold pipeline, hand_a; rewrite Epc, Evb; cbn; rewrite <- !app_assoc; reflexivity).
        rewrite E1, E2, nf_drop; auto.
      * split; [|split; [side_tac Hs|exact Hv]].
        unfold Npipe in *. transitivity (nf (pipeline s)); [|exact Hp]. f_equal.
        unfold pipeline, hand_c, hand_r, hand_a. cbn. rewrite Epc, Evb. rewrite <- !app_assoc. reflexivity.
      * split; [|split; [side_tac Hs|exact Hv]].
        unfold Npipe in *. transitivity (nf (pipeline s)); [|exact Hp]. f_equal.
        unfold pipeline, hand_c, hand_r, hand_a. cbn. rewrite Epc, Evb. rewrite <- !app_assoc. reflexivity.
  - (* V3 *)
    destruct (cur_is_cmd s); [pc_move s Epc Hp Hs Hv|].
    match goal with |- Inv_N _ (a_finish _ ?s1) => fin_move cfg s s1 Epc Hp Hs Hv end.
  - (* L1 *) destruct (legacy_lock cfg); pc_move s Epc Hp Hs Hv.
  - (* L2 *) destruct (legacy_lock cfg);
      match goal with |- Inv_N _ (a_finish _ ?s1) => fin_move cfg s s1 Epc Hp Hs Hv end.
  - (* U1 *) destruct (lk s); [split; [|split]; assumption|pc_move s Epc Hp Hs Hv].
  - (* U2 *) destruct (locked_q s); destruct (legacy_unlock cfg); pc_move s Epc Hp Hs Hv.
  - (* U3 *) destruct (locked_q s); [split; [|split]; assumption|pc_move s Epc Hp Hs Hv].
  - (* U4 *) pc_move s Epc Hp Hs Hv.
  - (* U5 *) destruct (legacy_unlock cfg);
      [pc_move s Epc Hp Hs Hv | match goal with |- Inv_N _ (a_finish _ ?s1) => fin_move cfg s s1 Epc Hp Hs Hv end].
  - (* U6 *) destruct (legacy_unlock cfg);
      [match goal with |- Inv_N _ (a_finish _ ?s1) => fin_move cfg s s1 Epc Hp Hs Hv end | pc_move s Epc Hp Hs Hv].
  - (* E1 *) pose proof (ns_noE _ _ Hs) as X. rewrite Epc in X. discriminate.
  - (* E2 *) pose proof (ns_noE _ _ Hs) as X. rewrite Epc in X. discriminate.
  - (* E3 *) pose proof (ns_noE _ _ Hs) as X. rewrite Epc in X. discriminate.
  - (* K1 *)
    destruct (1 <=? sync_mode s); [pc_move s Epc Hp Hs Hv|].
    match goal with |- Inv_N _ (a_finish _ ?s1) => fin_move cfg s s1 Epc Hp Hs Hv end.
  - (* K2 *)
    destruct (sync_q s) as [|m q].
    + destruct (cur_wait s); [destruct dl; [destruct (n0 <=? clock s)|]|];
        first [ split; [|split]; assumption | pc_move s Epc Hp Hs Hv
              | match goal with |- Inv_N _ (a_finish _ ?s1) => fin_move cfg s s1 Epc Hp Hs Hv end ].
    + match goal with |- Inv_N _ (a_finish _ ?s1) => fin_move cfg s s1 Epc Hp Hs Hv end.
Qed.

Lemma Inv_N_act : forall cfg, has_conn cfg = true ->
  forall a s, Inv_N cfg s -> Inv_N cfg (act cfg a s).
Proof.
  intros cfg Hc [[]| |] s H; cbn [act step].
  - apply Inv_N_step_A; auto.
  - apply Inv_N_step_W; auto.
  - apply Inv_N_step_R; auto.
  - apply Inv_N_step_C; auto.
  - apply Inv_N_tick; auto.
  - apply Inv_N_emit; auto.
Qed.

Lemma Inv_N_init : forall cfg script sp l0,
  Forall cmd_in_FC script -> (virt cfg = true -> sp = []) -> Inv_N cfg (init cfg script sp l0).
Proof.
  intros cfg script sp l0 HF Hsp.
  destruct (a_begin_side cfg script HF) as (B1 & B2 & B3 & B4 & B5 & B6).
  split; [|split].
  - unfold Npipe, pipeline, hand_c, hand_r, hand_a, init; cbn.
    destruct (a_begin cfg script); try reflexivity. exfalso; eapply B3; reflexivity.
  - constructor; unfold init, hand_a, no_p6; cbn; auto; intros; try discriminate.
    + exfalso; eapply B1; eauto.
    + exfalso; eapply B2; eauto.
    + exfalso; eapply B3; eauto.
    + repeat split; intros; try discriminate; auto.
  - intro Hv. unfold init; cbn. auto.
Qed.

End Notif.

(** The filter classes of a script. *)
Definition fcs (script : list op) : list N :=
  flat_map (fun o => match o with OCmd fc _ => [fc] | OSend (Some f) _ => [f] | _ => [] end) script.

Definition no_sync_op (o : op) : bool := match o with OSync _ => false | _ => true end.

Lemma script_in_fcs : forall script, forallb no_sync_op script = true ->
  Forall (cmd_in_FC (fcs script)) script.
Proof.
  intros script H. apply Forall_forall. intros o Ho.
  assert (Hn : no_sync_op o = true) by (eapply forallb_forall in H; eauto).
  destruct o as [fc react|[f|] react| | | |]; cbn in *; auto; try discriminate.
  - unfold fcs. apply in_flat_map. exists (OCmd fc react). split; auto. cbn; auto.
  - unfold fcs. apply in_flat_map. exists (OSend (Some f) react). split; auto. cbn; auto.
Qed.

(** notifications_exactly_once_in_order: at every reachable state, what has reached
    process_message, followed by what is still on its way (in the connector I/O thread's
    hands, in the events queue, in the handler / reader thread's hands, in the reader's
    buffer, on the wire), is exactly what the device emitted -- restricted to notifications,
    i.e. to messages no command filter keeps. *)
Lemma notifications_exactly_once_in_order :
  forall cfg script sp l0 sched,
    has_conn cfg = true -> forallb no_sync_op script = true -> (virt cfg = true -> sp = []) ->
    let s := run cfg sched (init cfg script sp l0) in
    nf (fcs script) (pipeline s) = nf (fcs script) (emitted s).
Proof.
  intros cfg script sp l0 sched Hc Hn Hsp s.
  assert (H : Inv_N (fcs script) cfg s).
  { apply run_invariant; [apply Inv_N_act; auto | apply Inv_N_init; auto using script_in_fcs]. }
  destruct H as (H & _). exact H.
Qed.

Definition drained (s : state) : Prop :=
  hand_c s = [] /\ events s = [] /\ hand_a s = [] /\ a_vbuf s = [] /\ hand_r s = []
  /\ r_buf s = [] /\ wire s = [].

Lemma notifications_at_quiescence :
  forall cfg script sp l0 sched,
    has_conn cfg = true -> forallb no_sync_op script = true -> (virt cfg = true -> sp = []) ->
    let s := run cfg sched (init cfg script sp l0) in
    drained s -> nf (fcs script) (delivered s) = nf (fcs script) (emitted s).
Proof.
  intros cfg script sp l0 sched Hc Hn Hsp s (E1 & E2 & E3 & E4 & E5 & E6 & E7).
  pose proof (notifications_exactly_once_in_order cfg script sp l0 sched Hc Hn Hsp) as H.
  fold s in H. unfold pipeline in H. rewrite E1, E2, E3, E4, E5, E6, E7 in H. cbn in H.
  rewrite !app_nil_r in H. exact H.
Qed.

Lemma pstep_frame_R : forall cfg p m s,
  r_pc (fst (pstep cfg p m s)) = r_pc s /\ r_buf (fst (pstep cfg p m s)) = r_buf s
  /\ wire (fst (pstep cfg p m s)) = wire s.
Proof. intros cfg [] m s; cbn; auto. Qed.

Lemma step_A_frame_R : forall cfg s,
  r_pc (step_A cfg s) = r_pc s /\ r_buf (step_A cfg s) = r_buf s /\ wire (step_A cfg s) = wire s.
Proof.
  intros. unfold step_A, ret, a_finish, note_head, v_next.
  destruct (a_pc s); try (destruct (pstep_frame_R cfg p m s) as (? & ? & ?)); split_match; cbn; auto.
Qed.

Lemma step_W_frame_R : forall cfg s,
  r_pc (step_W cfg s) = r_pc s /\ r_buf (step_W cfg s) = r_buf s.
Proof. intros. unfold step_W. split_match; cbn; auto. Qed.

Lemma step_C_frame_R : forall cfg s,
  r_pc (step_C cfg s) = r_pc s /\ r_buf (step_C cfg s) = r_buf s /\ wire (step_C cfg s) = wire s.
Proof. intros. unfold step_C. split_match; cbn; auto. Qed.

(** undecodable_does_not_block: whatever undecodable frames the history contains, the reader
    thread stays alive and the conservation law above still holds (frames that do not
    decode are skipped; [emitted] only lists decodable messages). *)
Lemma reader_alive :
  forall cfg script sp l0 sched,
    has_conn cfg = true -> forallb no_sync_op script = true -> (virt cfg = true -> sp = []) ->
    r_pc (run cfg sched (init cfg script sp l0)) <> RD_Dead.
Proof.
  intros cfg script sp l0 sched Hc Hn Hsp.
  set (I := fun s => Inv_N (fcs script) cfg s /\ r_pc s <> RD_Dead).
  assert (H : I (run cfg sched (init cfg script sp l0))).
  { apply run_invariant.
    - intros a s (HI & Hr). split; [apply Inv_N_act; auto|].
      destruct a as [[]| |]; cbn [act step].
      + destruct (step_A_frame_R cfg s) as (E & _). rewrite E. auto.
      + destruct (step_W_frame_R cfg s) as (E & _). rewrite E. auto.
      + (* the reader itself *)
        destruct HI as (_ & Hs & _). unfold step_R.
        destruct (r_pc s) as [|p m|] eqn:Er; [|clear Hr|congruence].
        * destruct (wire s); [rewrite Er; discriminate|]. cbn.
          pose proof (r_next_spec c) as X. destruct (fst (r_next c)); [discriminate|discriminate|contradiction].
        * pose proof (pstep_inv (fcs script) cfg p m s Hc (ns_filt _ _ _ Hs) (ns_rp _ _ _ Hs _ _ Er)) as Hps.
          assert (H6 : filt s = None -> p <> P6).
          { intros Ef Ep. subst p. destruct (ns_p6 _ _ _ Hs Ef) as (A & _). eapply A; eauto. }
          specialize (Hps H6).
          destruct (snd (pstep cfg p m s)); try contradiction; cbn; try discriminate.
          pose proof (r_next_spec (r_buf s)) as X. destruct (fst (r_next (r_buf s))); [discriminate|discriminate|contradiction].
      + destruct (step_C_frame_R cfg s) as (E & _). rewrite E. auto.
      + cbn. auto.
      + unfold emit. destruct (spont s); cbn; auto.
    - split; [apply Inv_N_init; auto using script_in_fcs | cbn; discriminate]. }
  destruct H; auto.
Qed.

(** ---- response routing --------------------------------------------------------------------- *)

Lemma msg_eqb_eq : forall a b, msg_eqb a b = true <-> a = b.
Proof.
  intros [c1 u1 p1] [c2 u2 p2]. unfold msg_eqb; cbn. split.
  - intro H. apply andb_true_iff in H as [H H3]. apply andb_true_iff in H as [H1 H2].
    apply N.eqb_eq in H1, H2. apply Bool.eqb_prop in H3. subst; auto.
  - intro H. inversion H; subst. rewrite !N.eqb_refl. destruct p2; reflexivity.
Qed.

Section Routing.
Variable FC : list N.

(** The response to a command: the one message of the device's reaction that some command
    filter keeps. *)
Definition resp_of (o : op) : option msg :=
  match o with
  | OCmd _ react => match filter (isr FC) (msgs_of (concat react)) with [x] => Some x | _ => None end
  | _ => None
  end.

Definition own (o : op) (m : msg) : bool :=
  match resp_of o with Some x => msg_eqb x m | None => false end.

(** Weight of a message still on its way to the caller while command [o] runs: 0 for a
    notification, 1 for the response to [o], 2 for any other response. *)
Definition wt (o : op) (m : msg) : nat :=
  if isr FC m then (if own o m then 1 else 2)%nat else 0%nat.

Fixpoint wsum (o : op) (l : list msg) : nat :=
  match l with [] => 0%nat | m :: r => (wt o m + wsum o r)%nat end.

Lemma wsum_app : forall o a b, wsum o (a ++ b) = (wsum o a + wsum o b)%nat.
Proof. induction a; intros; cbn; auto. rewrite IHa. lia. Qed.

Lemma wsum_zero_any : forall o o' l, wsum o l = 0%nat -> wsum o' l = 0%nat.
Proof.
  induction l as [|m l IH]; cbn; auto. intro H.
  assert (wt o m = 0%nat) by lia. assert (wsum o l = 0%nat) by lia.
  rewrite IH by auto. unfold wt in *. destruct (isr FC m); [destruct (own o m); discriminate|reflexivity].
Qed.

Lemma wsum_no_resp : forall o l, filter (isr FC) l = [] -> wsum o l = 0%nat.
Proof.
  induction l as [|m l IH]; cbn; auto. unfold wt. destruct (isr FC m); [discriminate|]. auto.
Qed.

Lemma wsum_filter : forall o l, wsum o l = wsum o (filter (isr FC) l).
Proof.
  induction l as [|m l IH]; cbn; auto. unfold wt at 1. destruct (isr FC m) eqn:E; cbn; auto.
  unfold wt. rewrite E. lia.
Qed.

(** H1: the reaction to a command holds exactly one message that a command filter keeps; what
    answers a message sent without waiting (send_message) holds none. *)
Definition wf_cmd (o : op) : Prop :=
  match o with
  | OCmd fc react => In fc FC /\ exists x, filter (isr FC) (msgs_of (concat react)) = [x]
  | OSend k react => (forall f, k = Some f -> In f FC) /\ filter (isr FC) (msgs_of (concat react)) = []
  | _ => True
  end.

Lemma wsum_reaction : forall fc react, wf_cmd (OCmd fc react) ->
  wsum (OCmd fc react) (msgs_of (concat react)) = 1%nat.
Proof.
  intros fc react (_ & x & Hx). rewrite wsum_filter, Hx. cbn.
  assert (Hr : isr FC x = true).
  { assert (In x (filter (isr FC) (msgs_of (concat react)))) by (rewrite Hx; left; auto).
    apply filter_In in H. tauto. }
  unfold wt, own. cbn. rewrite Hr, Hx. replace (msg_eqb x x) with true; auto.
  symmetry. apply msg_eqb_eq; auto.
Qed.

Definition is_cmd_op (o : op) : bool := match o with OCmd _ _ => true | _ => false end.

(** H2: what the device emits spontaneously matches no command filter. *)
Definition no_resp (c : chunk) : Prop := filter (isr FC) (msgs_of c) = [].

Definition react_msgs (r : list chunk) : list msg := msgs_of (concat r).
Definition inq_msgs (s : state) : list msg := flat_map react_msgs (in_q s).
Definition hand_w (s : state) : list msg :=
  match w_pc s with WR_Acq c | WR_Write c => react_msgs c | _ => [] end.
Definition hand_k (s : state) : list msg :=
  match a_pc s with A_W3 m | A_W4 _ m => [m] | _ => [] end.

(** Everything that can still reach the caller's filter test. *)
Definition upstream (s : state) : list msg :=
  inq_msgs s ++ hand_w s ++ msgs_of (concat (wire s)) ++ msgs_of (r_buf s) ++ hand_r s
  ++ out_q s ++ hand_k s ++ hand_a s ++ a_vbuf s.

Definition cur_op (s : state) : op := hd OLock (a_script s).
Definition W (s : state) : nat := wsum (cur_op s) (upstream s).

Definition wait_phase (p : apc) : bool :=
  match p with
  | A_W0 | A_W1 | A_W2 _ | A_W3 _ | A_W4 _ _ | A_W5 | A_VP _ _ | A_V3 | A_Crash => true
  | _ => false
  end.

Definition is_ok (x : op * result) : bool := match snd x with ROk _ => true | RTimeout => false end.
Definition all_ok (l : list (op * result)) : bool := forallb is_ok l.

(** Every command, up to the first one that timed out, returned its own response. *)
Fixpoint routed (l : list (op * result)) : bool :=
  match l with
  | [] => true
  | (o, ROk m) :: r => own o m && routed r
  | (_, RTimeout) :: _ => true
  end.

Lemma routed_snoc_ok : forall l o m,
  routed l = true -> (all_ok l = true -> own o m = true) -> routed (l ++ [(o, ROk m)]) = true.
Proof.
  induction l as [|[o' [m'|]] l IH]; intros o m Hr Ho; cbn in *.
  - rewrite Ho; auto.
  - apply andb_true_iff in Hr as [H1 H2]. rewrite H1. cbn. apply IH; auto.
  - auto.
Qed.

Lemma routed_snoc_to : forall l o, routed l = true -> routed (l ++ [(o, RTimeout)]) = true.
Proof.
  induction l as [|[o' [m'|]] l IH]; intros o Hr; cbn in *; auto.
  apply andb_true_iff in Hr as [H1 H2]. rewrite H1. cbn. apply IH; auto.
Qed.

Lemma all_ok_snoc : forall l x, all_ok (l ++ [x]) = all_ok l && is_ok x.
Proof. intros. unfold all_ok. rewrite forallb_app. cbn. rewrite andb_true_r. reflexivity. Qed.

Record Rside (s : state) : Prop := mkRside {
  rs_script : Forall wf_cmd (a_script s);
  rs_spont : Forall no_resp (spont s);
  rs_filt : forall f, filt s = Some f -> In f FC;
  rs_cmd : cmd_pc (a_pc s) = true -> exists o t, a_script s = o :: t /\ is_send_op o = true;
  rs_routed : routed (returned s) = true
}.

(** A command (not a mere send_message) is past its send phase. *)
Definition waiting (s : state) : bool := wait_phase (a_pc s) && cur_is_cmd s.

Definition Inv_R (s : state) : Prop :=
  Rside s
  /\ (all_ok (returned s) = true ->
      if waiting s then (W s <= 1)%nat else W s = 0%nat).


Lemma Rside_ext : forall s s',
  a_script s' = a_script s -> spont s' = spont s -> filt s' = filt s -> a_pc s' = a_pc s ->
  returned s' = returned s -> Rside s -> Rside s'.
Proof. intros s s' E1 E2 E3 E4 E5 []. constructor; rewrite ?E1, ?E2, ?E3, ?E4, ?E5; auto. Qed.

(** A step that changes neither the running command, nor the phase, nor the results, and
    does not add weight upstream. *)
Lemma Inv_R_keep : forall s s',
  a_script s' = a_script s -> spont s' = spont s -> filt s' = filt s -> a_pc s' = a_pc s ->
  returned s' = returned s -> (W s' <= W s)%nat -> Inv_R s -> Inv_R s'.
Proof.
  intros s s' E1 E2 E3 E4 E5 Hw (Hs & Hq). split; [eapply Rside_ext; eauto|].
  unfold waiting, cur_is_cmd in *. rewrite E1, E4, E5. intro Ho. specialize (Hq Ho).
  destruct (wait_phase (a_pc s) && _); lia.
Qed.

Ltac w_tac :=
  unfold W, upstream, inq_msgs, hand_w, hand_k, hand_r, hand_a, cur_op; cbn -[react_msgs flat_map];
  rewrite ?flat_map_app, ?concat_app, ?msgs_of_app; cbn [flat_map concat msgs_of];
  rewrite ?wsum_app; cbn [wsum app]; rewrite ?wsum_app; unfold react_msgs; try lia.

Lemma Inv_R_step_W : forall cfg s, Inv_R s -> Inv_R (step_W cfg s).
Proof.
  intros cfg s H. unfold step_W. destruct (virt cfg); auto.
  destruct (w_pc s) eqn:Ew; split_match; auto; apply (Inv_R_keep s); auto; w_tac; rewrite ?Ew, ?Heql; w_tac.
Qed.

Lemma Inv_R_step_C : forall cfg s, Inv_R s -> Inv_R (step_C cfg s).
Proof.
  intros cfg s H. unfold step_C. destruct (has_conn cfg); cbn [negb]; auto.
  destruct (c_pc s) eqn:Ec; split_match; auto; apply (Inv_R_keep s); auto.
Qed.

Lemma Inv_R_tick : forall s, Inv_R s -> Inv_R (tick s).
Proof. intros s H. apply (Inv_R_keep s); auto. Qed.

Lemma Inv_R_emit : forall s, Inv_R s -> Inv_R (emit s).
Proof.
  intros s (Hs & Hq). unfold emit. destruct (spont s) as [|c r] eqn:Es; [split; auto|].
  pose proof (rs_spont _ Hs) as F. rewrite Es in F. inversion F as [|? ? Hc Hr]; subst.
  split.
  - destruct Hs. constructor; cbn; auto.
  - cbn [returned a_pc set_spont set_wire set_emitted]. intro Ho. specialize (Hq Ho).
    assert (E : W (set_spont r (set_wire (wire s ++ [c]) (set_emitted (emitted s ++ msgs_of c) s))) = W s).
    { w_tac. rewrite app_nil_r. rewrite (wsum_no_resp _ (msgs_of c)); auto. }
    rewrite E. exact Hq.
Qed.

Lemma wsum_r_next : forall o b,
  wsum o (msgs_of b) =
  (wsum o (msgs_of (snd (r_next b))) + wsum o (match fst (r_next b) with RD_P _ m => [m] | _ => [] end))%nat.
Proof.
  intros o b. pose proof (r_next_spec b) as H. destruct (fst (r_next b)); try contradiction.
  - destruct H as (E1 & E2). rewrite E1, E2. reflexivity.
  - destruct H as (_ & E2). rewrite E2. cbn. lia.
Qed.

Lemma Inv_R_step_R : forall cfg s, Inv_R s -> Inv_R (step_R cfg s).
Proof.
  intros cfg s H. unfold step_R. destruct (r_pc s) as [|p m|] eqn:Er; auto.
  - destruct (wire s) as [|c w] eqn:Ew; auto.
    apply (Inv_R_keep s); auto. w_tac. rewrite Er, Ew. w_tac.
    rewrite (wsum_r_next _ c). lia.
  - destruct p; cbn [pstep fst snd]; split_match; apply (Inv_R_keep s); auto; w_tac; rewrite ?Er; w_tac;
      try (rewrite (wsum_r_next _ (r_buf s)); lia).
Qed.

Lemma a_begin_idle : forall cfg sc, wait_phase (a_begin cfg sc) = false.
Proof. intros cfg [|[] ?]; cbn; auto; repeat match goal with |- context [if ?b then _ else _] => destruct b end; auto. Qed.

Lemma wait_finish : forall cfg s1, waiting (a_finish cfg s1) = false.
Proof. intros. unfold waiting, a_finish. cbn. rewrite a_begin_idle. reflexivity. Qed.

Lemma a_begin_cmd : forall cfg sc, cmd_pc (a_begin cfg sc) = true ->
  exists o t, sc = o :: t /\ is_send_op o = true.
Proof.
  intros cfg [|[] ?]; cbn; intros; try discriminate; eauto;
    repeat match goal with H : context [if ?b then _ else _] |- _ => destruct b end; discriminate.
Qed.

Lemma Inv_R_pc : forall s s',
  a_script s' = a_script s -> spont s' = spont s -> (forall f, filt s' = Some f -> In f FC) ->
  (cmd_pc (a_pc s') = true -> cmd_pc (a_pc s) = true) -> returned s' = returned s ->
  (waiting s = true -> waiting s' = true) ->
  (W s' <= W s)%nat -> Inv_R s -> Inv_R s'.
Proof.
  intros s s' E1 E2 Hf Hc E5 Hph Hw ([] & Hq). split.
  - constructor; rewrite ?E1, ?E2, ?E5; auto.
  - rewrite E5. intro Ho. specialize (Hq Ho).
    destruct (waiting s) eqn:P1; destruct (waiting s') eqn:P2; try lia;
      specialize (Hph eq_refl); discriminate.
Qed.

(** An operation other than a command completes (or a command completes: see below). *)
Lemma Inv_R_finish : forall cfg s s1,
  a_script s1 = a_script s -> spont s1 = spont s -> filt s1 = filt s -> returned s1 = returned s ->
  upstream (a_finish cfg s1) = upstream s ->
  waiting s = false -> Inv_R s -> Inv_R (a_finish cfg s1).
Proof.
  intros cfg s s1 E1 E2 E3 E5 Eu Hph ([] & Hq). split.
  - constructor; unfold a_finish; cbn; rewrite ?E1, ?E2, ?E3, ?E5; auto.
    + destruct (a_script s); cbn; auto. inversion rs_script0; auto.
    + apply a_begin_cmd.
  - cbn [returned a_finish set_a_pc set_a_script]. rewrite E5. intro Ho. specialize (Hq Ho).
    rewrite Hph in Hq. rewrite wait_finish.
    unfold W in *. rewrite Eu. eapply wsum_zero_any; eauto.
Qed.

Ltac pcm s Epc H :=
  apply (Inv_R_pc s);
  [ reflexivity | reflexivity
  | try (destruct H as ([] & _); assumption)
  | cbn; rewrite ?Epc; cbn; auto
  | reflexivity
  | unfold waiting; cbn; rewrite ?Epc; cbn; first [discriminate | auto]
  | w_tac; rewrite ?Epc; w_tac
  | exact H ].

Ltac finm cfg s Epc H :=
  match goal with |- Inv_R (a_finish _ ?s1) =>
    apply (Inv_R_finish cfg s s1);
    [ reflexivity | reflexivity | reflexivity | reflexivity
    | unfold upstream, inq_msgs, hand_w, hand_k, hand_r, hand_a; cbn; rewrite Epc;
      (destruct (a_begin cfg (tl (a_script s))) eqn:Eb; try reflexivity;
       pose proof (a_begin_idle cfg (tl (a_script s))) as X; rewrite Eb in X; discriminate)
    | unfold waiting; rewrite Epc; reflexivity
    | exact H ]
  end.

Lemma upstream_finish : forall cfg s1,
  wait_phase (a_pc s1) = false \/ True ->
  upstream (a_finish cfg s1) =
  inq_msgs s1 ++ hand_w s1 ++ msgs_of (concat (wire s1)) ++ msgs_of (r_buf s1) ++ hand_r s1
  ++ out_q s1 ++ [] ++ [] ++ a_vbuf s1.
Proof.
  intros cfg s1 _. unfold upstream, inq_msgs, hand_w, hand_k, hand_r, hand_a, a_finish. cbn.
  pose proof (a_begin_idle cfg (tl (a_script s1))) as X.
  destruct (a_begin cfg (tl (a_script s1))); try reflexivity; discriminate.
Qed.

Lemma Inv_R_step_A : forall cfg s, Inv_R s -> Inv_R (step_A cfg s).
Proof.
  intros cfg s H. unfold step_A. destruct (a_pc s) eqn:Epc; auto.
  - (* S0 *) destruct (cur_fk s); pcm s Epc H.
  - (* S1 *)
    destruct (cur_fk s) as [f|] eqn:Efk; [|pcm s Epc H].
    destruct H as (Hs & Hq).
    destruct (rs_cmd _ Hs) as (o & t & Esc & Ho); [rewrite Epc; reflexivity|].
    assert (Hwf : wf_cmd o) by (pose proof (rs_script _ Hs) as F; rewrite Esc in F; inversion F; auto).
    assert (Hfc : In f FC).
    { unfold cur_fk in Efk. rewrite Esc in Efk. destruct o; cbn in *; try discriminate.
      - inversion Efk; subst. destruct Hwf; auto.
      - destruct Hwf as (Hk & _). auto. }
    apply (Inv_R_pc s); try reflexivity; [| | | |split; auto].
    + cbn. intros f0 Ef. inversion Ef; subst; auto.
    + cbn. rewrite Epc. auto.
    + unfold waiting. rewrite Epc. discriminate.
    + w_tac; rewrite ?Epc; w_tac.
  - (* S2 *)
    destruct H as (Hs & Hq).
    destruct (rs_cmd _ Hs) as (o & t & Esc & Ho); [rewrite Epc; reflexivity|].
    assert (Hwf : wf_cmd o) by (pose proof (rs_script _ Hs) as F; rewrite Esc in F; inversion F; auto).
    unfold waiting in Hq. rewrite Epc in Hq. cbn [wait_phase andb] in Hq.
    unfold cur_is_cmd, cur_react. rewrite Esc. destruct o as [fc r|k r| | | |]; try discriminate.
    + (* a command: its reaction is on its way *)
      split; [destruct Hs; constructor; cbn; auto; intros; discriminate|].
      cbn [returned]. intro Ho'. specialize (Hq Ho').
      assert (Ew : waiting (set_a_pc A_W0 (set_in_q (in_q s ++ [r]) s)) = true)
        by (unfold waiting, cur_is_cmd; cbn; rewrite Esc; reflexivity).
      rewrite Ew.
      assert (E : W (set_a_pc A_W0 (set_in_q (in_q s ++ [r]) s)) = (W s + 1)%nat).
      { w_tac. rewrite Epc, Esc. cbn [hd]. w_tac.
        rewrite (wsum_reaction fc r Hwf). cbn [wsum]. lia. }
      rewrite E, Hq. lia.
    + (* send_message: nothing in the reaction looks like a response *)
      destruct Hwf as (Hk & Hnr).
      split.
      * destruct Hs. constructor; unfold a_finish; cbn; auto.
        -- rewrite Esc in *. cbn. inversion rs_script0; auto.
        -- apply a_begin_cmd.
      * cbn [returned a_finish set_a_pc set_a_script set_in_q]. intro Ho'. specialize (Hq Ho').
        rewrite (wait_finish cfg (set_in_q (in_q s ++ [r]) s)).
        unfold W in *. rewrite upstream_finish by auto. apply (wsum_zero_any (cur_op s)).
        change (wsum (cur_op s) (inq_msgs (set_in_q (in_q s ++ [r]) s) ++ hand_w s ++ msgs_of (concat (wire s))
                                 ++ msgs_of (r_buf s) ++ hand_r s ++ out_q s ++ [] ++ [] ++ a_vbuf s) = 0%nat).
        unfold upstream, hand_k, hand_a in Hq. rewrite Epc in Hq.
        unfold inq_msgs in *. cbn [in_q set_in_q]. rewrite flat_map_app. cbn [flat_map]. unfold react_msgs at 2.
        rewrite !wsum_app in *. cbn [wsum] in *. rewrite (wsum_no_resp _ _ Hnr). lia.
  - (* W0 *) pcm s Epc H.
  - (* W1 *) pcm s Epc H.
  - (* W2 *)
    destruct (out_q s) as [|m q] eqn:Eq.
    + destruct dl as [d|]; [destruct (d <=? clock s)|]; unfold note_head; split_match; auto; pcm s Epc H.
    + unfold note_head; split_match; pcm s Epc H; rewrite ?Eq; w_tac.
  - (* W3 *)
    destruct (filt s) as [f|] eqn:Ef; [|pcm s Epc H].
    destruct (matches f m) eqn:Em; [|pcm s Epc H].
    destruct H as (Hs & Hq).
    assert (Hr : isr FC m = true).
    { pose proof (rs_filt _ Hs f Ef) as Hin. pose proof (matches_isn FC f m Hin Em) as X.
      unfold isn in X. apply negb_false_iff in X. exact X. }
    set (rest := inq_msgs s ++ hand_w s ++ msgs_of (concat (wire s)) ++ msgs_of (r_buf s) ++ hand_r s ++ out_q s).
    assert (EW : W s = (wsum (cur_op s) rest + wt (cur_op s) m + wsum (cur_op s) (a_vbuf s))%nat).
    { unfold rest. w_tac. rewrite Epc. w_tac. }
    unfold ret. split.
    + destruct Hs. constructor; unfold a_finish; cbn; auto.
      * destruct (a_script s); cbn; auto. inversion rs_script0; auto.
      * apply a_begin_cmd.
      * apply routed_snoc_ok; auto. intro Ho. specialize (Hq Ho).
        assert (Hq' : (W s <= 1)%nat) by (destruct (waiting s); lia).
        fold (cur_op s). unfold wt in EW. rewrite Hr in EW. destruct (own (cur_op s) m); auto. lia.
    + cbn [returned a_finish set_a_pc set_a_script set_returned]. rewrite all_ok_snoc. intro Ho.
      apply andb_true_iff in Ho as [Ho _]. specialize (Hq Ho).
      assert (Hq' : (W s <= 1)%nat) by (destruct (waiting s); lia).
      match goal with |- context [waiting ?x] => change (waiting x) with (waiting (a_finish cfg (set_returned (returned s ++ [(hd OLock (a_script s), ROk m)]) s))) end.
      rewrite wait_finish.
      assert (Hz : wsum (cur_op s) rest = 0%nat /\ wsum (cur_op s) (a_vbuf s) = 0%nat).
      { unfold wt in EW. rewrite Hr in EW. destruct (own (cur_op s) m); lia. }
      destruct Hz as (Hz1 & Hz2).
      unfold W. rewrite upstream_finish by auto. apply (wsum_zero_any (cur_op s)).
      change (wsum (cur_op s) (inq_msgs s ++ hand_w s ++ msgs_of (concat (wire s)) ++ msgs_of (r_buf s)
                               ++ hand_r s ++ out_q s ++ [] ++ [] ++ a_vbuf s) = 0%nat).
      unfold rest in Hz1. rewrite !wsum_app in *. cbn [wsum] in *. lia.
  - (* W4 *)
    destruct p; cbn [pstep fst snd]; split_match; pcm s Epc H.
  - (* W5 *)
    destruct (tmo cfg <? clock s - a_start s); [|pcm s Epc H].
    destruct H as (Hs & Hq). unfold ret. split.
    + destruct Hs. constructor; unfold a_finish; cbn; auto.
      * destruct (a_script s); cbn; auto. inversion rs_script0; auto.
      * apply a_begin_cmd.
      * apply routed_snoc_to; auto.
    + cbn [returned a_finish set_a_pc set_a_script set_returned]. rewrite all_ok_snoc. cbn.
      rewrite andb_false_r. discriminate.
  - (* V0 *) pcm s Epc H.
  - (* V1 *)
    destruct H as (Hs & Hq).
    destruct (rs_cmd _ Hs) as (o & t & Esc & Ho); [rewrite Epc; reflexivity|].
    assert (Hwf : wf_cmd o) by (pose proof (rs_script _ Hs) as F; rewrite Esc in F; inversion F; auto).
    assert (Hfk : forall f, cur_fk s = Some f -> In f FC).
    { intros f Efk. unfold cur_fk in Efk. rewrite Esc in Efk. destruct o; cbn in *; try discriminate.
      - inversion Efk; subst. destruct Hwf; auto.
      - destruct Hwf as (Hk & _). auto. }
    unfold waiting in Hq. rewrite Epc in Hq. cbn [wait_phase andb] in Hq.
    assert (Hone : (wsum o (msgs_of (concat (cur_react s))) <= 1)%nat
                   /\ (is_cmd_op o = false -> wsum o (msgs_of (concat (cur_react s))) = 0%nat)).
    { unfold cur_react. rewrite Esc. destruct o as [fc r|k r| | | |]; try discriminate.
      - rewrite (wsum_reaction fc r Hwf). split; [lia|discriminate].
      - destruct Hwf as (_ & Hnr). rewrite (wsum_no_resp _ _ Hnr). split; auto. }
    destruct Hone as (Hone & Hzero).
    assert (Eop : cur_op s = o) by (unfold cur_op; rewrite Esc; reflexivity).
    assert (Ecmd : cur_is_cmd s = is_cmd_op o) by (unfold cur_is_cmd; rewrite Esc; destruct o; reflexivity).
    set (ms := msgs_of (concat (cur_react s))) in *.
    assert (Rs : forall s', a_script s' = a_script s -> spont s' = spont s -> filt s' = cur_fk s ->
                   returned s' = returned s -> cmd_pc (a_pc s') = false -> Rside s').
    { intros s' E1 E2 E3 E5 E6. destruct Hs. constructor; rewrite ?E1, ?E2, ?E3, ?E5, ?E6; auto. discriminate. }
    assert (Fin : forall s', a_script s' = a_script s -> spont s' = spont s -> filt s' = cur_fk s ->
                   returned s' = returned s -> cmd_pc (a_pc s') = false -> wait_phase (a_pc s') = true ->
                   (W s' <= W s + wsum o ms)%nat -> Inv_R s').
    { intros s' E1 E2 E3 E5 E6 E7 Hw. split; [apply Rs; auto|].
      rewrite E5. intro Ho'. specialize (Hq Ho'). unfold waiting, cur_is_cmd. rewrite E7, E1. fold (cur_is_cmd s).
      rewrite Ecmd. cbn [andb]. destruct (is_cmd_op o) eqn:Eo; [lia|]. specialize (Hzero eq_refl). lia. }
    unfold v_next. fold ms. destruct ms as [|m0 rest] eqn:Ems.
    + apply Fin; try reflexivity. rewrite <- Eop. w_tac; rewrite ?Epc; w_tac.
    + apply Fin; try reflexivity. rewrite <- Eop. w_tac; rewrite ?Epc; w_tac.
  - (* VP *)
    destruct p; cbn [pstep fst snd]; unfold v_next; split_match; pcm s Epc H; rewrite ?Heql; w_tac.
  - (* V3 *)
    destruct (cur_is_cmd s) eqn:Ecmd; [pcm s Epc H; rewrite Ecmd; auto|].
    match goal with |- Inv_R (a_finish _ ?s1) =>
      apply (Inv_R_finish cfg s s1); [reflexivity|reflexivity|reflexivity|reflexivity| | |exact H] end.
    + unfold upstream, inq_msgs, hand_w, hand_k, hand_r, hand_a; cbn; rewrite Epc.
      destruct (a_begin cfg (tl (a_script s))) eqn:Eb; try reflexivity;
        pose proof (a_begin_idle cfg (tl (a_script s))) as X; rewrite Eb in X; discriminate.
    + unfold waiting. rewrite Ecmd. apply andb_false_r.
  - (* L1 *) destruct (legacy_lock cfg); pcm s Epc H.
  - (* L2 *) destruct (legacy_lock cfg); finm cfg s Epc H.
  - (* U1 *) destruct (lk s); auto. pcm s Epc H.
  - (* U2 *) destruct (locked_q s); destruct (legacy_unlock cfg); pcm s Epc H.
  - (* U3 *) destruct (locked_q s); auto. pcm s Epc H.
  - (* U4 *) pcm s Epc H.
  - (* U5 *) destruct (legacy_unlock cfg); [pcm s Epc H|finm cfg s Epc H].
  - (* U6 *) destruct (legacy_unlock cfg); [finm cfg s Epc H|pcm s Epc H].
  - (* E1 *) destruct (sync_mode s =? 0); pcm s Epc H.
  - (* E2 *) destruct ((cur_mode s =? 0) || legacy_sync cfg); [pcm s Epc H|finm cfg s Epc H].
  - (* E3 *) destruct ((cur_mode s =? 0) || legacy_sync cfg); [finm cfg s Epc H|pcm s Epc H].
  - (* K1 *) destruct (1 <=? sync_mode s); [pcm s Epc H|finm cfg s Epc H].
  - (* K2 *)
    destruct (sync_q s) as [|m q].
    + destruct (cur_wait s); [destruct dl; [destruct (n0 <=? clock s)|]|]; auto;
        first [pcm s Epc H | finm cfg s Epc H].
    + finm cfg s Epc H.
Qed.

Lemma Inv_R_act : forall cfg a s, Inv_R s -> Inv_R (act cfg a s).
Proof.
  intros cfg [[]| |] s H; cbn [act step].
  - apply Inv_R_step_A; auto.
  - apply Inv_R_step_W; auto.
  - apply Inv_R_step_R; auto.
  - apply Inv_R_step_C; auto.
  - apply Inv_R_tick; auto.
  - apply Inv_R_emit; auto.
Qed.

Lemma Inv_R_init : forall cfg script sp l0,
  Forall wf_cmd script -> Forall no_resp sp -> Inv_R (init cfg script sp l0).
Proof.
  intros cfg script sp l0 H1 H2. split.
  - constructor; unfold init; cbn; auto; [intros; discriminate | apply a_begin_cmd].
  - intros _. unfold waiting, init. cbn [a_pc]. rewrite a_begin_idle. cbn [andb].
    unfold W, upstream, inq_msgs, hand_w, hand_k, hand_r, hand_a. cbn.
    pose proof (a_begin_idle cfg script) as X.
    destruct (a_begin cfg script); try reflexivity; discriminate.
Qed.

Lemma routed_spec : forall l k o m,
  routed l = true -> nth_error l k = Some (o, ROk m) ->
  all_ok (firstn k l) = true -> resp_of o = Some m.
Proof.
  induction l as [|[o' r'] l IH]; intros k o m Hr Hn Hk.
  - destruct k; discriminate.
  - destruct k as [|k]; cbn in *.
    + inversion Hn; subst. apply andb_true_iff in Hr as [Ho _]. unfold own in Ho.
      destruct (resp_of o); [|discriminate]. apply msg_eqb_eq in Ho. subst; auto.
    + destruct r' as [m'|]; cbn in Hk; [|discriminate].
      apply andb_true_iff in Hr as [_ Hr]. eapply IH; eauto.
Qed.

End Routing.

(** response_routing.  H1: the reaction to each command holds exactly one message that a
    command filter keeps (its response; the model emits it only after the writer wrote the
    command).  H2: spontaneous traffic holds none.  Then, under every schedule, with or
    without a connector, native or virtual: every command that completed before the first
    timeout returned the response to that very command. *)
Lemma response_routing :
  forall cfg script sp l0 sched,
    Forall (wf_cmd (fcs script)) script -> Forall (no_resp (fcs script)) sp ->
    routed (fcs script) (returned (run cfg sched (init cfg script sp l0))) = true.
Proof.
  intros cfg script sp l0 sched H1 H2.
  assert (H : Inv_R (fcs script) (run cfg sched (init cfg script sp l0))).
  { apply run_invariant; [intros; apply Inv_R_act; auto | apply Inv_R_init; auto]. }
  destruct H as (Hs & _). apply (rs_routed _ _ Hs).
Qed.

Lemma response_routing_pointwise :
  forall cfg script sp l0 sched k o m,
    Forall (wf_cmd (fcs script)) script -> Forall (no_resp (fcs script)) sp ->
    let l := returned (run cfg sched (init cfg script sp l0)) in
    nth_error l k = Some (o, ROk m) -> all_ok (firstn k l) = true ->
    resp_of (fcs script) o = Some m.
Proof.
  intros cfg script sp l0 sched k o m H1 H2 l Hn Hk.
  eapply routed_spec; eauto. apply response_routing; auto.
Qed.

(** ---- the wait loop as found (deadline evaluated on Empty only) refutes the bound ------- *)

Transparent N.mul N.add N.sub N.ltb N.leb N.eqb.

Definition legacy_cfg : config := mkConfig false false 1 true false false false.
Definition legacy_script : list op := [OCmd 3 [[Some (mkMsg 0 1 true)]]].
(** The caller sends, the writer writes, the reader queues the unrelated message; then the
    caller spins: get, filter, re-put, get, ... while the clock passes the deadline. *)
Definition legacy_sched : list action :=
  [Step TA; Step TA; Step TA; Step TW; Step TW; Step TW; Step TW; Step TR; Step TR; Step TR;
   Step TA; Step TA; Step TA; Step TA; Step TA; Step TA; Tick; Tick; Tick]
  ++ concat (repeat [Step TA; Step TA; Step TA; Step TA] 3).

Lemma timeout_bound_legacy_refuted :
  exists (cfg : config) (script : list op) (sched : list action),
    legacy_wait cfg = true /\
    let s := run cfg sched (init cfg script [] false) in
    (a_late s > 1)%nat /\ returned s = [] /\ tmo cfg < clock s - a_start s.
Proof.
  exists legacy_cfg, legacy_script, legacy_sched. split; [reflexivity|]. vm_compute. repeat split; auto.
Qed.

(** The same schedule on the repaired loop ends with Timeout at the first late test. *)
Lemma timeout_bound_witness_repaired :
  let cfg := mkConfig false false 1 false false false false in
  let s := run cfg legacy_sched (init cfg legacy_script [] false) in
  map snd (returned s) = [RTimeout] /\ (a_late s <= 1)%nat.
Proof. vm_compute. split; auto. Qed.

Lemma virtual_notifications :
  forall cfg script l0 sched,
    virt cfg = true -> has_conn cfg = true -> forallb no_sync_op script = true ->
    let s := run cfg sched (init cfg script [] l0) in
    nf (fcs script) (delivered s ++ hand_c s ++ events s ++ hand_a s ++ a_vbuf s)
    = nf (fcs script) (emitted s).
Proof.
  intros cfg script l0 sched Hv Hc Hn s.
  assert (H : Inv_N (fcs script) cfg s).
  { apply run_invariant; [apply Inv_N_act; auto | apply Inv_N_init; auto using script_in_fcs]. }
  destruct H as (Hp & _ & Hvi). destruct (Hvi Hv) as (Ew & _ & Er & Eb).
  unfold Npipe, pipeline, hand_r in Hp. rewrite Er, Eb, Ew in Hp. cbn [msgs_of concat app] in Hp.
  rewrite <- Hp. f_equal. rewrite !app_nil_r. reflexivity.
Qed.

(** ---- a concrete run meeting H1/H2 (non-vacuity) ------------------------------------------- *)

Definition nv_script : list op :=
  [OCmd 3 [[Some (mkMsg 0 10 true); None; Some (mkMsg 3 11 false)]; [Some (mkMsg 0 12 true)]];
   OCmd 4 [[Some (mkMsg 5 20 false); Some (mkMsg 4 21 false); Some (mkMsg 0 22 true)]]].
Definition nv_spont : list chunk := [[Some (mkMsg 0 1 true)]].
Definition nv_sched : list action :=
  concat (repeat [Emit; Step TA; Step TW; Step TR; Step TC] 60).

Lemma nonvacuous :
  let cfg := mkConfig true false 3 false false false false in
  let script := nv_script in
  Forall (wf_cmd (fcs script)) script /\ Forall (no_resp (fcs script)) nv_spont
  /\ let s := run cfg nv_sched (init cfg script nv_spont false) in
     map snd (returned s) = [ROk (mkMsg 3 11 false); ROk (mkMsg 4 21 false)]
     /\ delivered s = [mkMsg 0 1 true; mkMsg 0 10 true; mkMsg 0 12 true; mkMsg 5 20 false; mkMsg 0 22 true].
Proof.
  cbv zeta. split; [|split].
  - repeat constructor; cbn; auto; eexists; reflexivity.
  - repeat constructor.
  - vm_compute. split; reflexivity.
Qed.

(** ---- put_message reads the filter once: no reset of the filter can kill a thread ----------- *)

Lemma pstep_no_p6 : forall cfg p m s,
  p <> P6 ->
  match snd (pstep cfg p m s) with
  | PNext p' => p' <> P6
  | PFin => True
  | PCrash => False
  end.
Proof.
  intros cfg p m s Hp. destruct p; cbn; try discriminate; try congruence; auto.
  - destruct (has_conn cfg); discriminate.
  - destruct (filt s); [destruct (matches n m)|]; discriminate.
Qed.

(** reader_never_dies: for EVERY configuration (connector or not, native or virtual with an
    asynchronous producer), every script -- including send_message without filter on a virtual
    device, which stores None into the filter -- and every schedule, the reader thread is never
    at a second filter load and never dies. *)
Lemma reader_never_dies :
  forall cfg script sp l0 sched,
    let s := run cfg sched (init cfg script sp l0) in
    r_pc s <> RD_Dead /\ (forall m, r_pc s <> RD_P P6 m).
Proof.
  intros cfg script sp l0 sched s.
  set (I := fun s => r_pc s <> RD_Dead /\ (forall m, r_pc s <> RD_P P6 m)).
  assert (H : I s).
  { apply run_invariant.
    - intros a s0 (H1 & H2). destruct a as [[]| |]; cbn [act step].
      + destruct (step_A_frame_R cfg s0) as (E & _). unfold I. rewrite E. auto.
      + destruct (step_W_frame_R cfg s0) as (E & _). unfold I. rewrite E. auto.
      + unfold I, step_R. destruct (r_pc s0) as [|p m|] eqn:Er; [| |congruence].
        * destruct (wire s0); [rewrite Er; split; [discriminate|intros; discriminate]|]. cbn.
          pose proof (r_next_spec c) as X. destruct (fst (r_next c)); try contradiction.
          -- split; [discriminate|intros; discriminate].
          -- destruct X as (Ep & _). subst p. split; [discriminate|intros m1 E; inversion E].
        * assert (Hp : p <> P6) by (intro Ep; subst p; apply (H2 m); reflexivity).
          pose proof (pstep_no_p6 cfg p m s0 Hp) as X.
          destruct (snd (pstep cfg p m s0)); try contradiction; cbn.
          -- split; [discriminate|]. intros m1 E. inversion E; subst. apply X; reflexivity.
          -- pose proof (r_next_spec (r_buf s0)) as Y. destruct (fst (r_next (r_buf s0))); try contradiction.
             ++ split; [discriminate|intros; discriminate].
             ++ destruct Y as (Ep & _). subst p0. split; [discriminate|intros m1 E; inversion E].
      + destruct (step_C_frame_R cfg s0) as (E & _). unfold I. rewrite E. auto.
      + unfold I. cbn. auto.
      + unfold I, emit. destruct (spont s0); cbn; auto.
    - unfold I, init. cbn. split; [discriminate|intros; discriminate]. }
  exact H.
Qed.
