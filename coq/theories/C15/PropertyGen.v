(** C15 — tie between the source and the model, as theorems (each closed by [exact]; see
    GenEq.v).  [gen_*] are the definitions of Gen.v, generated from
    whad/ble/profile/advdata.py by harness/translators/pyfun.py; the check regenerates them on
    every run and re-checks these statements against the regenerated text. *)
From Coq Require Import String List NArith Arith Bool.
From Whad Require Import Lib.Bytes Lib.Utf8 Lib.PyOps C15.Model.
From Whad Require Import C15.Gen C15.GenEq.
Import ListNotations.
Open Scope nat_scope.

(** AdvDataFieldList.from_bytes: [unpack('<BB', adv_data[:2])], the fit test
    [len(adv_data[2:]) >= length - 1], the payload slice [adv_data[2:2+length-1]] and the advance
    [adv_data[length+1:]] are the terms of the model's [parse_loop]. *)
Theorem C15_gen_tlv_header_eq :
  forall (data : bytes) (l : N), 2 <= length data -> Ok (gen_tlv_header data l) = unpack_BB (slice 0 2 data).
Proof. exact gen_tlv_header_eq. Qed.

Theorem C15_gen_tlv_arith_eq :
  forall (data : bytes) (l : N),
    gen_tlv_fits data l = (N.to_nat l <=? length (skipn 2 data) + 1)
    /\ gen_tlv_payload data l = slice 2 (N.to_nat l + 1) data
    /\ gen_tlv_rest data l = skipn (N.to_nat l + 1) data
    /\ gen_tlv_more data l = negb (length data <? 2)
    /\ gen_tlv_overflow data l = negb (31 <? length data).
Proof.
  exact (fun data l => conj (gen_tlv_fits_eq data l) (conj (gen_tlv_payload_eq data l) (conj (gen_tlv_rest_eq data l)
         (conj (gen_tlv_more_eq data l) (gen_tlv_overflow_eq data l))))).
Qed.

Theorem C15_gen_tlv_domain :
  forall (data : bytes) (l : N),
    (2 <= length data -> gen_tlv_header_pre data l)
    /\ ((1 <= l)%N -> gen_tlv_fits_pre data l /\ gen_tlv_payload_pre data l).
Proof. exact (fun data l => conj (gen_tlv_header_pre_ok data l) (gen_tlv_arith_pre_ok data l)). Qed.

(** The model's [parse_loop] / [from_bytes] are the hand-written while/raise/dispatch skeleton
    (GenEq.v) over exactly these generated pieces — for every urllib behaviour, fuel and data. *)
Theorem C15_gen_parse_loop_eq :
  forall (urlnorm : text -> url_result) (fuel : nat) (data : bytes),
    parse_loop_gen urlnorm fuel data = parse_loop urlnorm fuel data.
Proof. exact parse_loop_gen_eq. Qed.

Theorem C15_gen_from_bytes_eq :
  forall (urlnorm : text -> url_result) (data : bytes), from_bytes_gen urlnorm data = from_bytes urlnorm data.
Proof. exact from_bytes_gen_eq. Qed.

(** Fixed-size record decoders: the length tests and the struct.unpack / shift-or value
    computations of AdvSlaveConnIntervalRange, AdvAppearance and AdvAdvertisingInterval. *)
Theorem C15_gen_decode_connrange_eq :
  forall p : bytes,
    decode_connrange p
    = if gen_connrange_len_ok p
      then let ab := gen_connrange_values p in mk_connrange (fst ab) (snd ab)
      else Raise AdvDataError.
Proof. exact decode_connrange_gen. Qed.

Theorem C15_gen_decode_appearance_eq :
  forall p : bytes,
    decode_appearance p
    = if gen_appearance_len_ok p then mk_appearance (gen_appearance_value p) else Raise AdvDataError.
Proof. exact decode_appearance_gen. Qed.

Theorem C15_gen_decode_advinterval_eq :
  forall p : bytes, wf_bytes p = true ->
    decode_advinterval p
    = if gen_advinterval_len2 p then mk_advinterval (gen_advinterval_value2 p)
      else if gen_advinterval_len3 p then mk_advinterval (gen_advinterval_value3 p)
      else if gen_advinterval_len4 p then mk_advinterval (gen_advinterval_value4 p)
      else Raise AdvDataError.
Proof. exact decode_advinterval_gen. Qed.

(** Non-vacuity: a flags record followed by a tx-power record. *)
Example C15_gen_nonvacuous :
  gen_tlv_header [2; 1; 6; 2; 10; 4]%N 0 = (2%N, 1%N)
  /\ gen_tlv_payload [2; 1; 6; 2; 10; 4]%N 2 = [6%N]
  /\ gen_tlv_rest [2; 1; 6; 2; 10; 4]%N 2 = [2; 10; 4]%N
  /\ gen_advinterval_value3 [1; 2; 3]%N = 197121%N.
Proof. repeat split; vm_compute; reflexivity. Qed.
