(** C15 — the Gallina generated from whad/ble/profile/advdata.py by
    harness/translators/pyfun.py (snapshot: Gen.v; regenerated and re-checked against this
    very file on every run) is EQUAL to the TLV arithmetic of the model's
    [from_bytes]/[parse_loop] and to the length tests / value computations of three
    fixed-size record decoders ([decode_connrange], [decode_appearance], [decode_advinterval]). *)
From Coq Require Import String List NArith ZArith Arith Bool Lia ZifyBool ZifyN ZifyNat.
From Whad Require Import Lib.Bytes Lib.Utf8 Lib.PyOps C15.Model.
From Whad Require Import C15.Gen.
Import ListNotations.
Ltac Zify.zify_post_hook ::= Z.to_euclidean_division_equations.
Open Scope nat_scope.

(** ** AdvDataFieldList.from_bytes *)

(** the overflow test in its normal form (the branch that only raises goes last): no overflow *)
Lemma gen_tlv_overflow_eq data l : gen_tlv_overflow data l = negb (31 <? length data).
Proof. unfold gen_tlv_overflow. py_unfold. destruct (31 <? length data) eqn:E; lia. Qed.

Lemma gen_tlv_more_eq data l : gen_tlv_more data l = negb (length data <? 2).
Proof. unfold gen_tlv_more. py_unfold. destruct (length data <? 2) eqn:E; lia. Qed.

Lemma unpack1 a : py_unpack_le [a] = a.
Proof. cbn [py_unpack_le]. lia. Qed.

Lemma gen_tlv_header_eq data l :
  2 <= length data -> Ok (gen_tlv_header data l) = unpack_BB (slice 0 2 data).
Proof.
  intros H. destruct data as [|a [|b t]]; cbn [length] in H; try lia.
  unfold gen_tlv_header, py_slice, slice. cbn [Nat.sub skipn firstn].
  rewrite !unpack1. reflexivity.
Qed.

Lemma gen_tlv_header_pre_ok data l : 2 <= length data -> gen_tlv_header_pre data l.
Proof. intros H. unfold gen_tlv_header_pre, py_len. rewrite py_slice_length. lia. Qed.

Lemma gen_tlv_fits_eq data l :
  gen_tlv_fits data l = (N.to_nat l <=? length (skipn 2 data) + 1).
Proof.
  unfold gen_tlv_fits. py_unfold.
  destruct (N.to_nat l <=? length (skipn 2 data) + 1) eqn:E; lia.
Qed.

Lemma gen_tlv_payload_eq data l : gen_tlv_payload data l = slice 2 (N.to_nat l + 1) data.
Proof. unfold gen_tlv_payload. py_arith. Qed.

Lemma gen_tlv_rest_eq data l : gen_tlv_rest data l = skipn (N.to_nat l + 1) data.
Proof. unfold gen_tlv_rest. py_arith. Qed.

(** [length - 1] and [2 + length - 1] stay non-negative for every length byte >= 1 (for a zero
    length byte Python computes -1 where the translation truncates to 0: the two tests and
    slices still agree there, which [gen_tlv_fits_eq] / [gen_tlv_payload_eq] show against the
    model and the differential validation shows against CPython). *)
Lemma gen_tlv_arith_pre_ok data l : (1 <= l)%N -> gen_tlv_fits_pre data l /\ gen_tlv_payload_pre data l.
Proof. intros H. unfold gen_tlv_fits_pre, gen_tlv_payload_pre. lia. Qed.

(** The model's loop over the generated pieces (hand-written: the [while] / [raise] skeleton
    and the dispatch on the tag). *)
Section WithUrllibGen.
  Variable urlnorm : text -> url_result.

  Fixpoint parse_loop_gen (fuel : nat) (data : bytes) : outcome (list rec) :=
    if negb (gen_tlv_more data 0) then Ok []
    else match fuel with
    | O => Raise OutOfFuel
    | S f =>
        let lt := gen_tlv_header data 0 in
        if gen_tlv_fits data (fst lt) then
          let payload := gen_tlv_payload data (fst lt) in
          let rest := gen_tlv_rest data (fst lt) in
          match decode urlnorm (snd lt) payload with
          | Some o => r <- o ;; l <- parse_loop_gen f rest ;; Ok (r :: l)
          | None => parse_loop_gen f rest
          end
        else Raise AdvDataError
    end.

  Definition from_bytes_gen (data : bytes) : outcome (list rec) :=
    if gen_tlv_overflow data 0 then parse_loop_gen (length data) data
    else Raise AdvDataFieldListOverflow.

  Lemma parse_loop_gen_eq fuel : forall data, parse_loop_gen fuel data = parse_loop urlnorm fuel data.
  Proof.
    induction fuel as [|f IH]; intros data.
    - cbn [parse_loop_gen parse_loop]. rewrite gen_tlv_more_eq, negb_involutive. reflexivity.
    - cbn [parse_loop_gen parse_loop]. rewrite gen_tlv_more_eq, negb_involutive.
      destruct (length data <? 2) eqn:E; [reflexivity|].
      apply Nat.ltb_ge in E.
      rewrite <- (gen_tlv_header_eq data 0%N E). cbn [bind]. cbv zeta.
      rewrite gen_tlv_fits_eq, gen_tlv_payload_eq, gen_tlv_rest_eq.
      destruct (N.to_nat (fst (gen_tlv_header data 0)) <=? length (skipn 2 data) + 1); [|reflexivity].
      destruct (decode urlnorm (snd (gen_tlv_header data 0)) _) as [o|]; [|apply IH].
      destruct o as [r|e]; cbn [bind]; [|reflexivity]. rewrite IH. reflexivity.
  Qed.

  Lemma from_bytes_gen_eq data : from_bytes_gen data = from_bytes urlnorm data.
  Proof.
    unfold from_bytes_gen, from_bytes. rewrite gen_tlv_overflow_eq, parse_loop_gen_eq.
    destruct (31 <? length data); reflexivity.
  Qed.
End WithUrllibGen.

(** ** fixed-size record decoders *)

Lemma decode_connrange_gen p :
  decode_connrange p
  = if gen_connrange_len_ok p
    then let ab := gen_connrange_values p in mk_connrange (fst ab) (snd ab)
    else Raise AdvDataError.
Proof.
  unfold decode_connrange, gen_connrange_len_ok. py_unfold.
  destruct (length p =? 4) eqn:E; [|reflexivity]. apply Nat.eqb_eq in E.
  destruct p as [|a [|b [|c [|d [|x t]]]]]; cbn [length] in E; try lia.
  unfold gen_connrange_values, py_slice. cbn [Nat.sub skipn firstn py_unpack_le unpack_HH bind fst snd].
  f_equal; lia.
Qed.

Lemma decode_appearance_gen p :
  decode_appearance p
  = if gen_appearance_len_ok p then mk_appearance (gen_appearance_value p) else Raise AdvDataError.
Proof.
  unfold decode_appearance, gen_appearance_len_ok. py_unfold.
  destruct (length p =? 2) eqn:E; [|reflexivity]. apply Nat.eqb_eq in E.
  destruct p as [|a [|b [|x t]]]; cbn [length] in E; try lia.
  unfold gen_appearance_value. cbn [py_unpack_le unpack_H bind]. f_equal; lia.
Qed.

Lemma wf3 a b c : wf_bytes [a; b; c] = true -> (a < 256 /\ b < 256 /\ c < 256)%N.
Proof. unfold wf_bytes, wf_byte. cbn [forallb]. lia. Qed.

Lemma decode_advinterval_gen p :
  wf_bytes p = true ->
  decode_advinterval p
  = if gen_advinterval_len2 p then mk_advinterval (gen_advinterval_value2 p)
    else if gen_advinterval_len3 p then mk_advinterval (gen_advinterval_value3 p)
    else if gen_advinterval_len4 p then mk_advinterval (gen_advinterval_value4 p)
    else Raise AdvDataError.
Proof.
  intros W. unfold decode_advinterval, gen_advinterval_len2, gen_advinterval_len3, gen_advinterval_len4. py_unfold.
  destruct (length p =? 2) eqn:E2.
  { apply Nat.eqb_eq in E2. destruct p as [|a [|b [|x t]]]; cbn [length] in E2; try lia.
    unfold gen_advinterval_value2. cbn [py_unpack_le unpack_H bind]. f_equal; lia. }
  destruct (length p =? 3) eqn:E3.
  { apply Nat.eqb_eq in E3. destruct p as [|a [|b [|c [|x t]]]]; cbn [length] in E3; try lia.
    destruct (wf3 a b c W) as (Ha & Hb & Hc).
    unfold gen_advinterval_value3, py_index, index. cbn [nth nth_error bind].
    rewrite (py_lor_shiftl a b 8) by exact Ha.
    rewrite (py_lor_shiftl _ c 16) by (change (2 ^ 8)%N with 256%N; change (2 ^ 16)%N with 65536%N; lia).
    f_equal. }
  destruct (length p =? 4) eqn:E4; [|reflexivity].
  apply Nat.eqb_eq in E4. destruct p as [|a [|b [|c [|d [|x t]]]]]; cbn [length] in E4; try lia.
  unfold gen_advinterval_value4. cbn [py_unpack_le unpack_I bind]. f_equal; lia.
Qed.
