(** C15 — executable model of whad/ble/profile/advdata.py (repaired tree):
    every record class reachable from [AdvDataFieldList.EIR_HANDLERS] (22 handlers; the
    Eddystone-URL specialisation of the 0x16 record is a constructor only), their
    constructors ([mk_*]), their [from_bytes] decoders ([decode_*]),
    [AdvDataField.to_bytes], [AdvDataFieldList.to_bytes] / [from_bytes].
    Python exceptions are values: every [struct.unpack], index and constructor check
    is a partial operation returning [Raise cls] outside its domain.
    [urllib.parse.urlparse(url)] followed by [._replace(scheme='').geturl()] (used by
    [AdvURI.__init__]) is third-party behaviour: a Section variable.
    No proofs in this file. *)
From Coq Require Import String Ascii List NArith Arith Bool.
From Whad Require Import Lib.Bytes Lib.Utf8.
Import ListNotations.
Open Scope N_scope.

(** ** Exceptions and outcomes *)

Inductive exn :=
| AdvDataError | AdvDataFieldListOverflow
| StructError | IndexError | ValueError | UnicodeDecodeError | UnicodeEncodeError
| AttributeError | InvalidUUIDException | InvalidBDAddressException
| OtherExn     (* any other class observed on the implementation side *)
| OutOfFuel.   (* model artefact; [parse_loop_fuel_enough] shows it is never returned *)

Inductive outcome (A : Type) := Ok (a : A) | Raise (e : exn).
Arguments Ok {A} a.
Arguments Raise {A} e.

Definition bind {A B} (o : outcome A) (f : A -> outcome B) : outcome B :=
  match o with Ok a => f a | Raise e => Raise e end.
Notation "x <- o ;; k" := (bind o (fun x => k)) (at level 61, o at next level, right associativity).

Fixpoint mapM {A B} (f : A -> outcome B) (l : list A) : outcome (list B) :=
  match l with
  | [] => Ok []
  | x :: r => y <- f x ;; ys <- mapM f r ;; Ok (y :: ys)
  end.

(** [try: o  except <classes matched by sub>: raise AdvDataError] *)
Definition catch_as_adv {A} (sub : exn -> bool) (o : outcome A) : outcome A :=
  match o with
  | Raise e => if sub e then Raise AdvDataError else Raise e
  | x => x
  end.
(** Python class hierarchy: UnicodeDecodeError, UnicodeEncodeError < UnicodeError < ValueError *)
Definition is_unicode_decode_error (e : exn) : bool :=
  match e with UnicodeDecodeError => true | _ => false end.
Definition is_value_error (e : exn) : bool :=
  match e with ValueError | UnicodeDecodeError | UnicodeEncodeError => true | _ => false end.

(** ** Primitive partial operations *)

(** [p[i]] *)
Definition index (p : bytes) (i : nat) : outcome N :=
  match nth_error p i with Some b => Ok b | None => Raise IndexError end.
(** [struct.unpack('<BB', p)] / '<H' / '<HH' / '<I' : exact length or struct.error *)
Definition unpack_BB (p : bytes) : outcome (N * N) :=
  match p with [a; b] => Ok (a, b) | _ => Raise StructError end.
Definition unpack_H (p : bytes) : outcome N :=
  match p with [a; b] => Ok (a + 256 * b) | _ => Raise StructError end.
Definition unpack_HH (p : bytes) : outcome (N * N) :=
  match p with [a; b; c; d] => Ok (a + 256 * b, c + 256 * d) | _ => Raise StructError end.
Definition unpack_I (p : bytes) : outcome N :=
  match p with [a; b; c; d] => Ok (a + 256 * b + 65536 * c + 16777216 * d) | _ => Raise StructError end.
(** [struct.pack('<H', n)] for n >= 0 : struct.error when out of range *)
Definition pack_H (n : N) : outcome bytes := if n <? 65536 then Ok (le16 n) else Raise StructError.
Definition le24 (n : N) : bytes := [n mod 256; (n / 256) mod 256; (n / 65536) mod 256].

Definition decode_utf8 (p : bytes) : outcome text :=
  match utf8_decode p with Some t => Ok t | None => Raise UnicodeDecodeError end.
Definition encode_utf8 (t : text) : outcome bytes :=
  match utf8_encode t with Some b => Ok b | None => Raise UnicodeEncodeError end.

(** ** whad.ble.profile.attribute.UUID (the constructor paths advdata.py uses) *)

Record uuid := { packed : bytes; uty : N }.   (* TYPE_16 = 1, TYPE_128 = 2 *)

(** [UUID(b)] for a [bytes] argument: 2 bytes -> 16-bit, 16 bytes -> 128-bit, other
    lengths are not a valid UUID (lengths 4/32/36 take the text branches in Python and
    fail differently; advdata.py never passes them). *)
Definition uuid_of_bytes (p : bytes) : outcome uuid :=
  if (length p =? 2)%nat then _ <- unpack_H p ;; Ok {| packed := p; uty := 1 |}
  else if (length p =? 16)%nat then Ok {| packed := p; uty := 2 |}
  else Raise InvalidUUIDException.
(** [UUID(n)] for an int: [0 <= n <= 65536] packs '<H' (struct.error at 65536); the
    128-bit integer path is not used by advdata.py and is not modelled. *)
Definition uuid_of_int (n : N) : outcome uuid :=
  if n <=? 65536 then p <- pack_H n ;; Ok {| packed := p; uty := 1 |}
  else Raise InvalidUUIDException.

(** [BDAddress.from_bytes(b)] : value = the 6 bytes, type PUBLIC *)
Definition bdaddr_from_bytes (p : bytes) : outcome bytes :=
  if (length p =? 6)%nat then Ok p else Raise InvalidBDAddressException.

(** ** Records *)

Inductive u16cls := IncSvc16 | CompSvc16 | Sollicit16.
Inductive u128cls := IncSvc128 | CompSvc128 | Sollicit128.
Inductive scheme := Aaa | Aaas | SData | Ftp | Http | Https | Mailto.

(** A record = its class and the state the Python object exposes (public properties,
    items) or serialises. *)
Inductive rec :=
| Flags (limited general bredr lebredr : bool)
| Uuid16s (c : u16cls) (us : list bytes)
| Uuid128s (c : u128cls) (us : list bytes)
| ShortName (name : bytes)
| CompleteName (name : bytes)
| TxPower (level : N)
| Manuf (company : N) (data : bytes)
| ConnRange (mn mx : N)
| SvcData16 (u : bytes) (data : bytes)
| PublicTarget (addrs : list bytes)
| RandomTarget (addrs : list bytes)
| Appearance (a : N)
| AdvInterval (i : N)
| DevAddr (addr : bytes) (public : bool)
| LeRole (role : N)
| SvcData128 (u : bytes) (data : bytes)
| Uri (s : scheme) (uri : text)
| LeFeatures (f0 f1 f2 f3 f4 f5 f6 f7 : bool).

Definition b2n (b : bool) : N := if b then 1 else 0.

Fixpoint cps (s : string) : text :=
  match s with EmptyString => [] | String a r => N_of_ascii a :: cps r end.

Definition scheme_name (s : scheme) : text :=
  cps match s with Aaa => "aaa" | Aaas => "aaas" | SData => "data" | Ftp => "ftp"
           | Http => "http" | Https => "https" | Mailto => "mailto" end.
Definition scheme_code (s : scheme) : N :=
  match s with Aaa => 1 | Aaas => 2 | SData => 12 | Ftp => 17 | Http => 22 | Https => 23 | Mailto => 38 end.
Definition all_schemes : list scheme := [Aaa; Aaas; SData; Ftp; Http; Https; Mailto].
(** [AdvURI.get_scheme(value)] *)
Definition scheme_of_code (c : N) : option scheme :=
  find (fun s => scheme_code s =? c) all_schemes.
(** [url_info.scheme in AdvURI.SUPPORTED_SCHEMES] *)
Definition scheme_of_name (n : text) : option scheme :=
  find (fun s => bytes_eqb (scheme_name s) n) all_schemes.

(** The EIR type each class passes to [AdvDataField.__init__]. *)
Definition tag (r : rec) : N :=
  match r with
  | Flags _ _ _ _ => 1
  | Uuid16s IncSvc16 _ => 2 | Uuid16s CompSvc16 _ => 3 | Uuid16s Sollicit16 _ => 20
  | Uuid128s IncSvc128 _ => 6 | Uuid128s CompSvc128 _ => 7 | Uuid128s Sollicit128 _ => 21
  | ShortName _ => 8 | CompleteName _ => 9 | TxPower _ => 10
  | Manuf _ _ => 255 | ConnRange _ _ => 18 | SvcData16 _ _ => 22
  | PublicTarget _ => 23 | RandomTarget _ => 24 | Appearance _ => 25
  | AdvInterval _ => 26 | DevAddr _ _ => 27 | LeRole _ => 28
  | SvcData128 _ _ => 33 | Uri _ _ => 36 | LeFeatures _ _ _ _ _ _ _ _ => 39
  end.

Definition opt_bytes (o : option bytes) : bytes := match o with Some b => b | None => [] end.

(** The value each constructor hands to [AdvDataField.__init__]. *)
Definition value (r : rec) : bytes :=
  match r with
  | Flags l g b e => [b2n l + 2 * b2n g + 4 * b2n b + 8 * b2n e]
  | Uuid16s _ us => concat us
  | Uuid128s _ us => concat us
  | ShortName n => n
  | CompleteName n => n
  | TxPower v => [v]
  | Manuf c d => le16 (c mod 65536) ++ d
  | ConnRange a b => le16 a ++ le16 b
  | SvcData16 u d => u ++ d
  | PublicTarget a => concat a
  | RandomTarget a => concat a
  | Appearance a => le16 a
  | AdvInterval i => if i <=? 65535 then le16 i else if i <=? 16777215 then le24 i else le32 i
  | DevAddr a p => a ++ [if p then 0 else 1]
  | LeRole r => [r]
  | SvcData128 u d => u ++ d
  | Uri s u => opt_bytes (utf8_enc1 (scheme_code s)) ++ opt_bytes (utf8_encode u)
  | LeFeatures f0 f1 f2 f3 f4 f5 f6 f7 =>
      [b2n f0 + 2 * b2n f1 + 4 * b2n f2 + 8 * b2n f3 + 16 * b2n f4 + 32 * b2n f5 + 64 * b2n f6 + 128 * b2n f7]
  end.

(** [AdvDataField.to_bytes]: [pack('<BB', len(value)+1, type) + value] *)
Definition rec_bytes (r : rec) : bytes := N.of_nat (length (value r) + 1) :: tag r :: value r.
Definition rec_to_bytes (r : rec) : outcome bytes :=
  if (length (value r) + 1 <? 256)%nat then Ok (rec_bytes r) else Raise StructError.

(** [AdvDataFieldList.to_bytes] *)
Fixpoint to_bytes_loop (output : bytes) (l : list rec) : outcome bytes :=
  match l with
  | [] => Ok output
  | r :: rest =>
      fr <- rec_to_bytes r ;;
      if (length output + length fr <=? 31)%nat then to_bytes_loop (output ++ fr) rest
      else Raise AdvDataFieldListOverflow
  end.
Definition to_bytes (l : list rec) : outcome bytes := to_bytes_loop [] l.

(** ** Constructors ([__init__]) with their checks *)

Definition mk_uuid16s (c : u16cls) (us : list uuid) : outcome rec :=
  if forallb (fun u => uty u =? 1) us then Ok (Uuid16s c (map packed us)) else Raise ValueError.
Definition mk_uuid128s (c : u128cls) (us : list uuid) : outcome rec :=
  if forallb (fun u => uty u =? 2) us then Ok (Uuid128s c (map packed us)) else Raise ValueError.
Definition mk_txpower (level : N) : outcome rec := Ok (TxPower (level mod 256)).
Definition mk_connrange (a b : N) : outcome rec :=
  _ <- pack_H a ;; _ <- pack_H b ;; Ok (ConnRange a b).
Definition mk_appearance (a : N) : outcome rec :=
  if a <=? 65535 then Ok (Appearance a) else Raise AdvDataError.
Definition mk_advinterval (i : N) : outcome rec :=
  if i <=? 4294967295 then Ok (AdvInterval i) else Raise AdvDataError.
Definition mk_lerole (r : N) : outcome rec :=
  if r <? 4 then Ok (LeRole r) else Raise AdvDataError.
Definition mk_svcdata128 (u : uuid) (d : bytes) : outcome rec :=
  if uty u =? 2 then Ok (SvcData128 (packed u) d) else Raise AdvDataError.

(** [f"{n:04x}"] *)
Definition hexdigit (d : N) : N := if d <? 10 then 48 + d else 87 + d.
Fixpoint hex_digits (fuel : nat) (n : N) (acc : text) : text :=
  match fuel with
  | O => acc
  | S f => let acc' := hexdigit (n mod 16) :: acc in
           if n / 16 =? 0 then acc' else hex_digits f (n / 16) acc'
  end.
Definition hex04 (n : N) : text :=
  let d := hex_digits 40 n [] in repeat 48 (4 - length d) ++ d.

(** Eddystone-URL: [EddystoneUrl.encode_url] *)
Fixpoint starts_with (pre s : text) : bool :=
  match pre, s with
  | [], _ => true
  | a :: pre', b :: s' => (a =? b) && starts_with pre' s'
  | _ :: _, [] => false
  end.
Fixpoint find_prefix (i : N) (cands : list text) (s : text) : option (N * nat) :=
  match cands with
  | [] => None
  | c :: r => if starts_with c s then Some (i, length c) else find_prefix (i + 1) r s
  end.
Definition eddy_schemes : list text := map cps ["http://www."; "https://www."; "http://"; "https://"]%string.
Definition eddy_exts : list text :=
  map cps [".com/"; ".org/"; ".edu/"; ".net/"; ".info/"; ".biz/"; ".gov/";
           ".com"; ".org"; ".edu"; ".net"; ".info"; ".biz"; ".gov"]%string.
Fixpoint eddy_body (fuel : nat) (s : text) : list N :=
  match fuel, s with
  | S f, c :: s' =>
      if c =? 46 then
        match find_prefix 0 eddy_exts s with
        | Some (e, n) => e :: eddy_body f (skipn n s)
        | None => 46 :: eddy_body f s'
        end
      else c :: eddy_body f s'
  | _, _ => []
  end.
Definition eddy_encode (url : text) : outcome (list N) :=
  match find_prefix 0 eddy_schemes url with
  | Some (s, n) => Ok (s :: eddy_body (length url) (skipn n url))
  | None => Raise AdvDataError
  end.
(** [bytes(list)] : ValueError when an item is not in range(256) *)
Definition bytes_of_ints (l : list N) : outcome bytes :=
  if wf_bytes l then Ok l else Raise ValueError.

(** Result of [urlparse(url)] as used by [AdvURI.__init__]: it raises ValueError, or
    yields [(url_info.scheme, url_info._replace(scheme='').geturl())]. *)
Inductive url_result := UrlValueError | UrlOk (scheme_name : text) (uri : text).
Definition url_result_eqb (a b : url_result) : bool :=
  match a, b with
  | UrlValueError, UrlValueError => true
  | UrlOk s u, UrlOk s' u' => bytes_eqb s s' && bytes_eqb u u'
  | _, _ => false
  end.

(** Constructor calls (what a user of the API writes), for the serialise direction. *)
Inductive call :=
| KFlags (limited general bredr lebredr : bool)
| KUuid16s (c : u16cls) (us : list uuid)
| KUuid128s (c : u128cls) (us : list uuid)
| KShortName (name : bytes)
| KCompleteName (name : bytes)
| KTxPower (level : N)
| KManuf (company : N) (data : bytes)
| KConnRange (mn mx : N)
| KSvcData16 (u : uuid) (data : bytes)
| KPublicTarget (addrs : list bytes)
| KRandomTarget (addrs : list bytes)
| KAppearance (a : N)
| KAdvInterval (i : N)
| KDevAddr (addr : bytes) (public : bool)
| KLeRole (role : N)
| KSvcData128 (u : uuid) (data : bytes)
| KUri (url : text)
| KLeFeatures (f0 f1 f2 f3 f4 f5 f6 f7 : bool)
| KEddystone (url : text).

Section WithUrllib.
(** Third-party: urllib.parse *)
Variable urlnorm : text -> url_result.

(** [AdvURI.__init__(url)] *)
Definition mk_uri (url : text) : outcome rec :=
  match urlnorm url with
  | UrlValueError => Raise ValueError
  | UrlOk sname uri =>
      match (match sname with [] => None | _ => scheme_of_name sname end) with
      | Some s =>
          _ <- encode_utf8 [scheme_code s] ;;
          _ <- encode_utf8 uri ;;
          Ok (Uri s uri)
      | None => Raise AdvDataError
      end
  end.

Definition construct (k : call) : outcome rec :=
  match k with
  | KFlags l g b e => Ok (Flags l g b e)
  | KUuid16s c us => mk_uuid16s c us
  | KUuid128s c us => mk_uuid128s c us
  | KShortName n => Ok (ShortName n)
  | KCompleteName n => Ok (CompleteName n)
  | KTxPower v => mk_txpower v
  | KManuf c d => Ok (Manuf c d)
  | KConnRange a b => mk_connrange a b
  | KSvcData16 u d => Ok (SvcData16 (packed u) d)
  | KPublicTarget a => Ok (PublicTarget a)
  | KRandomTarget a => Ok (RandomTarget a)
  | KAppearance a => mk_appearance a
  | KAdvInterval i => mk_advinterval i
  | KDevAddr a p => Ok (DevAddr a p)
  | KLeRole r => mk_lerole r
  | KSvcData128 u d => mk_svcdata128 u d
  | KUri url => mk_uri url
  | KLeFeatures f0 f1 f2 f3 f4 f5 f6 f7 => Ok (LeFeatures f0 f1 f2 f3 f4 f5 f6 f7)
  | KEddystone url =>
      data <- eddy_encode url ;;
      b <- bytes_of_ints ([16; 248] ++ data) ;;
      u <- uuid_of_int 65194 ;;
      Ok (SvcData16 (packed u) b)
  end.

(** ** Record decoders ([from_bytes] of each class) *)

Definition decode_flags (p : bytes) : outcome rec :=
  if (length p =? 1)%nat then
    b <- index p 0 ;;
    Ok (Flags (N.testbit b 0) (N.testbit b 1) (N.testbit b 2) (N.testbit b 3))
  else Raise AdvDataError.

(** [AdvUuid16List.from_bytes] / [AdvUuid128List.from_bytes]: int(len/k) slices *)
Definition decode_uuid_list (k : nat) (p : bytes) : outcome (list uuid) :=
  mapM (fun i => uuid_of_bytes (slice (i * k) ((i + 1) * k) p)) (seq 0 (length p / k)).
Definition decode_uuid16s (c : u16cls) (p : bytes) : outcome rec :=
  us <- decode_uuid_list 2 p ;; mk_uuid16s c us.
Definition decode_uuid128s (c : u128cls) (p : bytes) : outcome rec :=
  us <- decode_uuid_list 16 p ;; mk_uuid128s c us.

Definition decode_txpower (p : bytes) : outcome rec :=
  if (1 <=? length p)%nat then b <- index p 0 ;; mk_txpower b else Raise AdvDataError.

Definition decode_manuf (p : bytes) : outcome rec :=
  if (2 <=? length p)%nat then c <- unpack_H (slice 0 2 p) ;; Ok (Manuf c (skipn 2 p))
  else Raise AdvDataError.

Definition decode_connrange (p : bytes) : outcome rec :=
  if (length p =? 4)%nat then ab <- unpack_HH p ;; mk_connrange (fst ab) (snd ab)
  else Raise AdvDataError.

Definition decode_svcdata16 (p : bytes) : outcome rec :=
  if (2 <=? length p)%nat then
    n <- unpack_H (slice 0 2 p) ;; u <- uuid_of_int n ;; Ok (SvcData16 (packed u) (skipn 2 p))
  else Raise AdvDataError.

Definition decode_target (mk : list bytes -> rec) (p : bytes) : outcome rec :=
  if (0 <? length p)%nat && (length p mod 6 =? 0)%nat then
    addrs <- mapM (fun i => bdaddr_from_bytes (slice (6 * i) (6 * (i + 1)) p)) (seq 0 (length p / 6)) ;;
    Ok (mk addrs)
  else Raise AdvDataError.

Definition decode_appearance (p : bytes) : outcome rec :=
  if (length p =? 2)%nat then a <- unpack_H p ;; mk_appearance a else Raise AdvDataError.

(** the 3-byte form is [b0 | b1<<8 | b2<<16]: for bytes this is the sum below *)
Definition decode_advinterval (p : bytes) : outcome rec :=
  if (length p =? 2)%nat then i <- unpack_H p ;; mk_advinterval i
  else if (length p =? 3)%nat then
    b0 <- index p 0 ;; b1 <- index p 1 ;; b2 <- index p 2 ;;
    mk_advinterval (b0 + 256 * b1 + 65536 * b2)
  else if (length p =? 4)%nat then i <- unpack_I p ;; mk_advinterval i
  else Raise AdvDataError.

Definition decode_devaddr (p : bytes) : outcome rec :=
  if (length p =? 7)%nat then
    b6 <- index p 6 ;; a <- bdaddr_from_bytes (slice 0 6 p) ;; Ok (DevAddr a (b6 =? 0))
  else Raise AdvDataError.

Definition decode_lerole (p : bytes) : outcome rec :=
  if (length p =? 1)%nat then r <- index p 0 ;; mk_lerole r else Raise AdvDataError.

Definition decode_svcdata128 (p : bytes) : outcome rec :=
  if (16 <=? length p)%nat then
    u <- uuid_of_bytes (slice 0 16 p) ;; mk_svcdata128 u (skipn 16 p)
  else Raise AdvDataError.

(** [features |= record << (8*i)] over all bytes = little-endian integer *)
Fixpoint le_int (p : bytes) : N := match p with [] => 0 | b :: r => b + 256 * le_int r end.
Definition decode_lefeatures (p : bytes) : outcome rec :=
  if (1 <=? length p)%nat then
    let f := le_int p in
    Ok (LeFeatures (N.testbit f 0) (N.testbit f 1) (N.testbit f 2) (N.testbit f 3)
                   (N.testbit f 4) (N.testbit f 5) (N.testbit f 6) (N.testbit f 7))
  else Raise AdvDataError.

(** [AdvURI.from_bytes] (repaired: UnicodeDecodeError and ValueError become AdvDataError,
    a record too short raises AdvDataError, a scheme-only record is accepted) *)
Definition decode_uri (p : bytes) : outcome rec :=
  if (1 <=? length p)%nat then
    sd <- catch_as_adv is_unicode_decode_error (
            decoded <- decode_utf8 p ;;
            c <- match decoded with c :: _ => Ok c | [] => Raise IndexError end ;;
            enc <- encode_utf8 [c] ;;
            decoded_uri <- decode_utf8 (skipn (length enc) p) ;;
            Ok (c, decoded_uri)) ;;
    catch_as_adv is_value_error (
      match scheme_of_code (fst sd) with
      | Some s => mk_uri (scheme_name s ++ 58 :: snd sd)
      | None => mk_uri (cps "<0x" ++ hex04 (fst sd) ++ cps ">:" ++ snd sd)
      end)
  else Raise AdvDataError.

(** [EIR_HANDLERS[eir_tag].from_bytes(payload)]; [None] = tag not in the table *)
Definition decode (t : N) (p : bytes) : option (outcome rec) :=
  match t with
  | 1 => Some (decode_flags p)
  | 2 => Some (decode_uuid16s IncSvc16 p)
  | 3 => Some (decode_uuid16s CompSvc16 p)
  | 6 => Some (decode_uuid128s IncSvc128 p)
  | 7 => Some (decode_uuid128s CompSvc128 p)
  | 8 => Some (Ok (ShortName p))
  | 9 => Some (Ok (CompleteName p))
  | 10 => Some (decode_txpower p)
  | 18 => Some (decode_connrange p)
  | 20 => Some (decode_uuid16s Sollicit16 p)
  | 21 => Some (decode_uuid128s Sollicit128 p)
  | 22 => Some (decode_svcdata16 p)
  | 23 => Some (decode_target PublicTarget p)
  | 24 => Some (decode_target RandomTarget p)
  | 25 => Some (decode_appearance p)
  | 26 => Some (decode_advinterval p)
  | 27 => Some (decode_devaddr p)
  | 28 => Some (decode_lerole p)
  | 33 => Some (decode_svcdata128 p)
  | 36 => Some (decode_uri p)
  | 39 => Some (decode_lefeatures p)
  | 255 => Some (decode_manuf p)
  | _ => None
  end.

(** ** [AdvDataFieldList.from_bytes] *)

(** One iteration of the [while len(adv_data) >= 2] loop per unit of fuel. *)
Fixpoint parse_loop (fuel : nat) (data : bytes) : outcome (list rec) :=
  if (length data <? 2)%nat then Ok []
  else match fuel with
  | O => Raise OutOfFuel
  | S f =>
      lt <- unpack_BB (slice 0 2 data) ;;
      let len := N.to_nat (fst lt) in
      (* len(adv_data[2:]) >= length - 1 *)
      if (len <=? length (skipn 2 data) + 1)%nat then
        (* adv_data[2:2+length-1] ; adv_data[length+1:] *)
        let payload := slice 2 (len + 1) data in
        let rest := skipn (len + 1) data in
        match decode (snd lt) payload with
        | Some o => r <- o ;; l <- parse_loop f rest ;; Ok (r :: l)
        | None => parse_loop f rest
        end
      else Raise AdvDataError
  end.

Definition from_bytes (data : bytes) : outcome (list rec) :=
  if (31 <? length data)%nat then Raise AdvDataFieldListOverflow
  else parse_loop (length data) data.

(** ** Well-formed records: the field values for which the round trip is claimed *)

Definition len_is (k : nat) (b : bytes) : bool := (length b =? k)%nat && wf_bytes b.
Definition nonempty {A} (l : list A) : bool := match l with [] => false | _ => true end.

Definition wf_rec (r : rec) : bool :=
  match r with
  | Flags _ _ _ _ => true
  | Uuid16s _ us => forallb (len_is 2) us
  | Uuid128s _ us => forallb (len_is 16) us
  | ShortName n => wf_bytes n
  | CompleteName n => wf_bytes n
  | TxPower v => v <? 256
  | Manuf c d => (c <? 65536) && wf_bytes d
  | ConnRange a b => (a <? 65536) && (b <? 65536)
  | SvcData16 u d => len_is 2 u && wf_bytes d
  | PublicTarget a => nonempty a && forallb (len_is 6) a
  | RandomTarget a => nonempty a && forallb (len_is 6) a
  | Appearance a => a <? 65536
  | AdvInterval i => i <? 4294967296
  | DevAddr a _ => len_is 6 a
  | LeRole r => r <? 4
  | SvcData128 u d => len_is 16 u && wf_bytes d
  | Uri s u => valid_text u
               && url_result_eqb (urlnorm (scheme_name s ++ 58 :: u)) (UrlOk (scheme_name s) u)
  | LeFeatures _ _ _ _ _ _ _ _ => true
  end.

(** ** Constructor arguments for which the built record is well formed
    (what "arbitrary field values" means at the API: byte strings are byte strings,
    UUID / address objects are consistent, integers are in the range the serialised
    field can hold, and a URI is given in the normal form urlparse maps to itself). *)
Definition uuid_ok (u : uuid) : bool :=
  ((uty u =? 1) && len_is 2 (packed u)) || ((uty u =? 2) && len_is 16 (packed u)).
Definition call_ok (k : call) : bool :=
  match k with
  | KUuid16s _ us => forallb uuid_ok us
  | KUuid128s _ us => forallb uuid_ok us
  | KShortName n => wf_bytes n
  | KCompleteName n => wf_bytes n
  | KManuf c d => (c <? 65536) && wf_bytes d
  | KSvcData16 u d => uuid_ok u && (uty u =? 1) && wf_bytes d
  | KPublicTarget a => nonempty a && forallb (len_is 6) a
  | KRandomTarget a => nonempty a && forallb (len_is 6) a
  | KDevAddr a _ => len_is 6 a
  | KSvcData128 u d => uuid_ok u && wf_bytes d
  | KUri url =>
      match urlnorm url with
      | UrlOk sname uri => valid_text uri
                           && url_result_eqb (urlnorm (sname ++ 58 :: uri)) (UrlOk sname uri)
      | UrlValueError => true
      end
  | _ => true
  end.

(** ** The unrepaired [AdvURI.from_bytes] (tree before the C15 fix commits), kept only
    for the refutation witnesses [C15_legacy_*]: no except clause, [None] for a record
    shorter than 2 bytes, which [AdvDataFieldList.add] rejects with AttributeError. *)
Definition decode_uri_legacy (p : bytes) : outcome (option rec) :=
  if (2 <=? length p)%nat then
    decoded <- decode_utf8 p ;;
    c <- match decoded with c :: _ => Ok c | [] => Raise IndexError end ;;
    enc <- encode_utf8 [c] ;;
    decoded_uri <- decode_utf8 (skipn (length enc) p) ;;
    r <- match scheme_of_code c with
         | Some s => mk_uri (scheme_name s ++ 58 :: decoded_uri)
         | None => mk_uri (cps "<0x" ++ hex04 c ++ cps ">:" ++ decoded_uri)
         end ;;
    Ok (Some r)
  else Ok None.

Fixpoint parse_loop_legacy (fuel : nat) (data : bytes) : outcome (list rec) :=
  if (length data <? 2)%nat then Ok []
  else match fuel with
  | O => Raise OutOfFuel
  | S f =>
      lt <- unpack_BB (slice 0 2 data) ;;
      let len := N.to_nat (fst lt) in
      if (len <=? length (skipn 2 data) + 1)%nat then
        let payload := slice 2 (len + 1) data in
        let rest := skipn (len + 1) data in
        if snd lt =? 36 then
          o <- decode_uri_legacy payload ;;
          match o with
          | Some r => l <- parse_loop_legacy f rest ;; Ok (r :: l)
          | None => Raise AttributeError
          end
        else
        match decode (snd lt) payload with
        | Some o => r <- o ;; l <- parse_loop_legacy f rest ;; Ok (r :: l)
        | None => parse_loop_legacy f rest
        end
      else Raise AdvDataError
  end.
Definition from_bytes_legacy (data : bytes) : outcome (list rec) :=
  if (31 <? length data)%nat then Raise AdvDataFieldListOverflow
  else parse_loop_legacy (length data) data.

End WithUrllib.

(** ** whad/ble/scanning.py: AdvertisingDevicesDB.on_device_found over a TIMED sequence of
    advertisements.  An event is the time elapsed since the previous call (milliseconds of
    the virtual clock the harness installs as [scanning.time]; the clock does not move
    during a call) and what the method reads from the scapy packet: PDU kind, AdvA, TxAdd,
    the rssi argument and the re-joined record bytes
    ([b''.join(bytes(record) for record in pkt.data)], scapy is third-party: the harness
    feeds the model the bytes scapy produced). *)
Inductive pdu := AdvInd | AdvNonconn | ScanRsp | OtherPdu.
Record event := { ev_dt : N; ev_pdu : pdu; ev_addr : N; ev_txadd : N; ev_rssi : N; ev_data : bytes }.

(** AdvertisingDevice: the per-address state.  unknown = no entry, waiting = entry with
    [d_got = false], complete = [d_got = true].  [d_ts] = [__timestamp] (creation time),
    [d_last] = [__last_seen]. *)
Record device := { d_addr : N; d_type : N; d_rssi : N; d_adv : list rec; d_rsp : option (list rec);
                   d_got : bool; d_conn : bool; d_scanned : bool; d_reported : bool;
                   d_ts : N; d_last : N }.
Definition set_rssi (r : N) (d : device) : device :=
  {| d_addr := d_addr d; d_type := d_type d; d_rssi := r; d_adv := d_adv d; d_rsp := d_rsp d;
     d_got := d_got d; d_conn := d_conn d; d_scanned := d_scanned d; d_reported := d_reported d;
     d_ts := d_ts d; d_last := d_last d |}.
(** [seen()] *)
Definition set_last (now : N) (d : device) : device :=
  {| d_addr := d_addr d; d_type := d_type d; d_rssi := d_rssi d; d_adv := d_adv d; d_rsp := d_rsp d;
     d_got := d_got d; d_conn := d_conn d; d_scanned := d_scanned d; d_reported := d_reported d;
     d_ts := d_ts d; d_last := now |}.
Definition set_scanned (d : device) : device :=
  {| d_addr := d_addr d; d_type := d_type d; d_rssi := d_rssi d; d_adv := d_adv d; d_rsp := d_rsp d;
     d_got := d_got d; d_conn := d_conn d; d_scanned := true; d_reported := d_reported d;
     d_ts := d_ts d; d_last := d_last d |}.
(** the tail of [update()]: [if not scanned: if (time() - timestamp) > SCAN_RSP_TIMEOUT (0.5 s)] *)
Definition timed_out (now : N) (d : device) : bool := 500 <? now - d_ts d.
Definition check_timeout (now : N) (d : device) : device :=
  if d_scanned d then d else if timed_out now d then set_scanned d else d.
(** [set_scan_rsp]: only the first scan response is kept *)
Definition set_scan_rsp (l : list rec) (d : device) : device :=
  if d_got d then d else
  {| d_addr := d_addr d; d_type := d_type d; d_rssi := d_rssi d; d_adv := d_adv d; d_rsp := Some l;
     d_got := true; d_conn := d_conn d; d_scanned := true; d_reported := d_reported d;
     d_ts := d_ts d; d_last := d_last d |}.
Definition mark_reported (d : device) : device :=
  {| d_addr := d_addr d; d_type := d_type d; d_rssi := d_rssi d; d_adv := d_adv d; d_rsp := d_rsp d;
     d_got := d_got d; d_conn := d_conn d; d_scanned := d_scanned d; d_reported := true;
     d_ts := d_ts d; d_last := d_last d |}.

(** the dict [__db] in insertion order *)
Definition find_dev (a : N) (db : list device) : option device := find (fun d => d_addr d =? a) db.
Definition update_dev (a : N) (f : device -> device) (db : list device) : list device :=
  map (fun d => if d_addr d =? a then f d else d) db.

(** [register_device(device, update)]: a known device is [seen()], and when the rssi
    differs [update(rssi=...)] (new rssi, then the timeout test) *)
Definition register (now : N) (db : list device) (d : device) (update : bool) : list device * bool :=
  match find_dev (d_addr d) db with
  | None => (db ++ [d], true)
  | Some dev => if d_rssi dev =? d_rssi d then (update_dev (d_addr d) (set_last now) db, false)
                else (update_dev (d_addr d)
                        (fun x => check_timeout now (set_rssi (d_rssi d) (set_last now x))) db, update)
  end.

(** [__apply_scan_rsp_timeout]: every device not yet scanned gets [update()] (timeout
    test); scanned and not yet reported devices are marked reported and yielded *)
Fixpoint timeouts (now : N) (db : list device) : list device * list N :=
  match db with
  | [] => ([], [])
  | d :: r => let '(r', ys) := timeouts now r in
              let d1 := check_timeout now d in
              if d_scanned d1 && negb (d_reported d1) then (mark_reported d1 :: r', d_addr d :: ys)
              else (d1 :: r', ys)
  end.
(** a device the sweep reports now: not reported yet, and scanned (it answered, or a
    previous [update] saw the timeout) or more than 500 ms after its creation *)
Definition due (now : N) (d : device) : bool :=
  (d_scanned d || timed_out now d) && negb (d_reported d).
Definition memN (a : N) (l : list N) : bool := existsb (N.eqb a) l.

Inductive phase := Unknown | Waiting | Complete.
Definition phase_of (a : N) (db : list device) : phase :=
  match find_dev a db with None => Unknown | Some d => if d_got d then Complete else Waiting end.

Section ScanDB.
Variable urlnorm : text -> url_result.
Variable filter : option N.     (* filter_addr *)
Variable updates : bool.

(** [except AdvDataError: pass / except AdvDataFieldListOverflow: pass] around the parse *)
Definition parse_adv (data : bytes) : outcome (option (list rec)) :=
  match from_bytes urlnorm data with
  | Ok l => Ok (Some l)
  | Raise AdvDataError => Ok None
  | Raise AdvDataFieldListOverflow => Ok None
  | Raise e => Raise e
  end.

Definition filter_is (a : N) : bool := match filter with Some f => f =? a | None => false end.
Definition filter_none : bool := match filter with Some _ => false | None => true end.

(** the three branches of [on_device_found] before the timeout sweep: new database and
    the devices appended so far (their addresses) *)
Definition handle (now : N) (db : list device) (ev : event) : outcome (list device * list N) :=
  let a := ev_addr ev in
  let adv (conn : bool) :=
    o <- parse_adv (ev_data ev) ;;
    match o with
    | Some l =>
        let d := {| d_addr := a; d_type := ev_txadd ev; d_rssi := ev_rssi ev; d_adv := l; d_rsp := None;
                    d_got := false; d_conn := conn; d_scanned := false; d_reported := false;
                    d_ts := now; d_last := now |} in
        if filter_is a || filter_none then
          let '(db', r) := register now db d updates in Ok (db', if r && updates then [a] else [])
        else Ok (db, [])
    | None => Ok (db, [])
    end in
  match ev_pdu ev with
  | AdvInd => adv true
  | AdvNonconn => adv false
  | ScanRsp =>
      o <- parse_adv (ev_data ev) ;;
      match o with
      | Some l =>
          match find_dev a db with
          | Some dev => if d_got dev then Ok (db, [])
                        else Ok (update_dev a (set_scan_rsp l) db, if filter_is a || updates then [a] else [])
          | None => Ok (db, [])
          end
      | None => Ok (db, [])
      end
  | OtherPdu => Ok (db, [])
  end.

(** one call at time [now]: (database, returned devices, devices yielded by the sweep) *)
Definition on_device_found (now : N) (db : list device) (ev : event)
  : outcome (list device * list N * list N) :=
  r <- handle now db ev ;;
  let '(db2, ys) := timeouts now (fst r) in
  Ok (db2, fold_left (fun acc y => if memN y acc then acc else acc ++ [y]) ys (snd r), ys).

(** a whole timed scan from clock value [clock]: final database, the returned device
    lists of every call, and what the timeout sweep of every call reported *)
Fixpoint scan (clock : N) (db : list device) (evs : list event)
  : outcome (list device * list (list N) * list (list N)) :=
  match evs with
  | [] => Ok (db, [], [])
  | ev :: r =>
      let now := clock + ev_dt ev in
      x <- on_device_found now db ev ;;
      y <- scan now (fst (fst x)) r ;;
      Ok (fst (fst y), snd (fst x) :: snd (fst y), snd x :: snd y)
  end.

End ScanDB.

(** Serialised size of a list: every record costs 2 + len(value). *)
Definition total_len (l : list rec) : nat := list_sum (map (fun r => 2 + length (value r))%nat l).
Definition fits31 (l : list rec) : Prop := (total_len l <= 31)%nat.

(** ** Correspondence entry points (evaluated by the harness with vm_compute) *)

(** What the harness observes on a Python record object:
    (class id = key of the class in EIR_HANDLERS, [.type], exposed values, [to_bytes()]). *)
Definition obs := (N * N * list (list N) * bytes)%type.

(** the [.type] of a consistent UUID object follows from the size of its packed form *)
Definition uty_of_packed (u : bytes) : N := if (length u =? 16)%nat then 2 else 1.

Definition exposed (r : rec) : list (list N) :=
  match r with
  | Flags _ _ _ _ => []
  | Uuid16s _ us => [N.of_nat (length us)] :: map (fun u => u ++ [1]) us
  | Uuid128s _ us => [N.of_nat (length us)] :: map (fun u => u ++ [2]) us
  | ShortName n => [n]
  | CompleteName n => [n]
  | TxPower _ => []
  | Manuf c d => [[c]; d]
  | ConnRange a b => [[a]; [b]]
  | SvcData16 u d => [u ++ [uty_of_packed u]; d]
  | PublicTarget a => [N.of_nat (length a)] :: map (fun x => x ++ [0]) a
  | RandomTarget a => [N.of_nat (length a)] :: map (fun x => x ++ [0]) a
  | Appearance a => [[a / 64]; [a mod 64]]
  | AdvInterval i => [[i]]
  | DevAddr _ p => [[b2n p]; [b2n (negb p)]]
  | LeRole r => [[r]]
  | SvcData128 u d => [u ++ [2]; d]
  | Uri s u => [scheme_name s; u]
  | LeFeatures f0 f1 f2 f3 f4 f5 f6 f7 =>
      [[b2n f0]; [b2n f1]; [b2n f2]; [b2n f3]; [b2n f4]; [b2n f5]; [b2n f6]; [b2n f7]]
  end.
Definition canon (r : rec) : obs := (tag r, tag r, exposed r, rec_bytes r).

Inductive obs_out (A : Type) := ObsOk (a : A) | ObsRaise (e : exn).
Arguments ObsOk {A} a.
Arguments ObsRaise {A} e.

Definition exn_eqb (a b : exn) : bool :=
  match a, b with
  | AdvDataError, AdvDataError | AdvDataFieldListOverflow, AdvDataFieldListOverflow
  | StructError, StructError | IndexError, IndexError | ValueError, ValueError
  | UnicodeDecodeError, UnicodeDecodeError | UnicodeEncodeError, UnicodeEncodeError
  | AttributeError, AttributeError | InvalidUUIDException, InvalidUUIDException
  | InvalidBDAddressException, InvalidBDAddressException | OtherExn, OtherExn
  | OutOfFuel, OutOfFuel => true
  | _, _ => false
  end.

Fixpoint list_eqb {A} (eq : A -> A -> bool) (a b : list A) : bool :=
  match a, b with
  | [], [] => true
  | x :: a', y :: b' => eq x y && list_eqb eq a' b'
  | _, _ => false
  end.
Definition obs_eqb (a b : obs) : bool :=
  let '(c1, t1, e1, b1) := a in let '(c2, t2, e2, b2) := b in
  (c1 =? c2) && (t1 =? t2) && list_eqb bytes_eqb e1 e2 && bytes_eqb b1 b2.

Definition out_eqb {A B} (eq : A -> B -> bool) (m : outcome A) (o : obs_out B) : bool :=
  match m, o with
  | Ok a, ObsOk b => eq a b
  | Raise e, ObsRaise e' => exn_eqb e e'
  | _, _ => false
  end.

(** The urlparse results recorded on the implementation during the case. A text the
    implementation never passed to urlparse maps to a sentinel no real case produces. *)
Definition url_table := list (text * url_result).
Definition lookup_url (tbl : url_table) (u : text) : url_result :=
  match find (fun e => bytes_eqb (fst e) u) tbl with
  | Some e => snd e
  | None => UrlOk (cps "http") (cps "<<C15-not-recorded>>")
  end.

(** parse case: (input bytes, recorded urlparse calls, observed outcome of from_bytes) *)
Definition check_parse (c : bytes * url_table * obs_out (list obs)) : bool :=
  let '(b, tbl, o) := c in
  out_eqb (fun l lo => list_eqb obs_eqb (map canon l) lo) (from_bytes (lookup_url tbl) b) o.

(** exhaustive sweeps over the last byte, one case per prefix: (prefix, recorded urlparse
    calls of the whole row, the distinct observed outcomes, for x = 0..255 the index of
    the outcome observed on prefix ++ [x]) *)
Definition check_parse_row (c : bytes * url_table * list (obs_out (list obs)) * list N) : bool :=
  let '(pre, tbl, outs, codes) := c in
  (length codes =? 256)%nat &&
  forallb (fun xc =>
             match nth_error outs (N.to_nat (snd xc)) with
             | Some o => check_parse (pre ++ [N.of_nat (fst xc)], tbl, o)
             | None => false
             end)
          (combine (seq 0 256) codes).

(** build case: (constructor calls, recorded urlparse calls,
    observed: constructing all records then [to_bytes()] of the list of these records) *)
Definition build (tbl : url_table) (ks : list call) : outcome (list rec) :=
  mapM (construct (lookup_url tbl)) ks.
Definition check_build (c : list call * url_table * obs_out (list obs * obs_out bytes)) : bool :=
  let '(ks, tbl, o) := c in
  out_eqb (fun l lo => list_eqb obs_eqb (map canon l) (fst lo)
                        && out_eqb bytes_eqb (to_bytes l) (snd lo))
          (build tbl ks) o.

(** scan case: (filter, updates, urlparse table, timed events, observed: per call the
    returned addresses or the escaping class; then find_device of each listed address at the
    end: (address type, rssi, adv records, scan-response records, got_scan_rsp, connectable,
    scanned, reported, timestamp ms, last_seen ms)) *)
Definition dev_obs := (N * N * list obs * option (list obs) * bool * bool * bool * bool * N * N)%type.
Definition canon_dev (d : device) : dev_obs :=
  (d_type d, d_rssi d, map canon (d_adv d), option_map (map canon) (d_rsp d),
   d_got d, d_conn d, d_scanned d, d_reported d, d_ts d, d_last d).
Definition dev_obs_eqb (a b : dev_obs) : bool :=
  let '(t1, r1, a1, s1, g1, c1, x1, p1, ts1, l1) := a in
  let '(t2, r2, a2, s2, g2, c2, x2, p2, ts2, l2) := b in
  (t1 =? t2) && (r1 =? r2) && list_eqb obs_eqb a1 a2
  && match s1, s2 with Some u, Some v => list_eqb obs_eqb u v | None, None => true | _, _ => false end
  && Bool.eqb g1 g2 && Bool.eqb c1 c2 && Bool.eqb x1 x2 && Bool.eqb p1 p2 && (ts1 =? ts2) && (l1 =? l2).
(** run until the first call that raises, as the harness does *)
Fixpoint scan_obs (urlnorm : text -> url_result) (filter : option N) (updates : bool)
         (clock : N) (db : list device) (evs : list event) : list device * list (obs_out (list N)) :=
  match evs with
  | [] => (db, [])
  | ev :: r =>
      let now := clock + ev_dt ev in
      match on_device_found urlnorm filter updates now db ev with
      | Ok x => let '(db', o) := scan_obs urlnorm filter updates now (fst (fst x)) r in
                (db', ObsOk (snd (fst x)) :: o)
      | Raise e => (db, [ObsRaise e])
      end
  end.
Definition check_scan (c : option N * bool * url_table * list event
                           * list (obs_out (list N)) * list (N * option dev_obs)) : bool :=
  let '(filter, updates, tbl, evs, outs, finals) := c in
  let '(db, o) := scan_obs (lookup_url tbl) filter updates 0 [] evs in
  list_eqb (fun m x => match m, x with
                       | ObsOk a, ObsOk b => bytes_eqb a b
                       | ObsRaise e, ObsRaise e' => exn_eqb e e'
                       | _, _ => false end) o outs
  && forallb (fun q => match find_dev (fst q) db, snd q with
                       | Some d, Some x => dev_obs_eqb (canon_dev d) x
                       | None, None => true
                       | _, _ => false end) finals.

(** ** Operation sequences on the API: parse / edit a returned record through a public
    setter / parse again / serialise.  The lists returned by different parses are
    independent values; [from_bytes] has no state. *)
Inductive api_op :=
| ApiParse (b : bytes)                       (* AdvDataFieldList.from_bytes(b); an Ok result is kept as list #k *)
| ApiBuild (ks : list call)                  (* a new AdvDataFieldList holding the records of these constructor calls; kept as list #k when no constructor raises *)
| ApiAdd (i : nat) (k : call)                (* lists[i].add(constructor call) *)
| ApiRemove (i j : nat)                      (* lists[i].remove(lists[i][j]) *)
| ApiSetName (i j : nat) (v : bytes)         (* lists[i][j].name = v      (the two name classes) *)
| ApiSetCompany (i j : nat) (v : N)          (* lists[i][j].company = v   (manufacturer data) *)
| ApiSetData (i j : nat) (v : bytes)         (* lists[i][j].data = v      (manufacturer data) *)
| ApiSerialise (i : nat)                     (* lists[i].to_bytes() *)
| ApiReparse (i : nat).                      (* AdvDataFieldList.from_bytes(lists[i].to_bytes()); result not kept *)
Inductive api_out := OutParse (o : outcome (list rec)) | OutNone | OutBytes (o : outcome bytes).

Definition set_name (v : bytes) (r : rec) : rec :=
  match r with ShortName _ => ShortName v | CompleteName _ => CompleteName v | _ => r end.
Definition set_company (v : N) (r : rec) : rec := match r with Manuf _ d => Manuf v d | _ => r end.
Definition set_data (v : bytes) (r : rec) : rec := match r with Manuf c _ => Manuf c v | _ => r end.
Fixpoint upd_nth {A} (n : nat) (f : A -> A) (l : list A) : list A :=
  match l, n with
  | [], _ => []
  | x :: r, O => f x :: r
  | x :: r, S k => x :: upd_nth k f r
  end.

Fixpoint remove_nth {A} (n : nat) (l : list A) : list A :=
  match l, n with
  | [], _ => []
  | _ :: r, O => r
  | x :: r, S k => x :: remove_nth k r
  end.

(** [to_bytes()] depends on nothing but the records the list holds NOW *)
Definition api_step (urlnorm : text -> url_result) (st : list (list rec)) (op : api_op)
  : list (list rec) * api_out :=
  match op with
  | ApiParse b => let o := from_bytes urlnorm b in
                  (match o with Ok l => st ++ [l] | Raise _ => st end, OutParse o)
  | ApiBuild ks => let o := mapM (construct urlnorm) ks in
                   (match o with Ok l => st ++ [l] | Raise _ => st end, OutParse o)
  | ApiAdd i k => match construct urlnorm k with
                  | Ok r => (upd_nth i (fun l => l ++ [r]) st, OutNone)
                  | Raise e => (st, OutParse (Raise e))
                  end
  | ApiRemove i j => (upd_nth i (remove_nth j) st, OutNone)
  | ApiSetName i j v => (upd_nth i (upd_nth j (set_name v)) st, OutNone)
  | ApiSetCompany i j v => (upd_nth i (upd_nth j (set_company v)) st, OutNone)
  | ApiSetData i j v => (upd_nth i (upd_nth j (set_data v)) st, OutNone)
  | ApiSerialise i => (st, OutBytes (to_bytes (nth i st [])))
  | ApiReparse i => (st, match to_bytes (nth i st []) with
                         | Ok b => OutParse (from_bytes urlnorm b)
                         | Raise e => OutBytes (Raise e)
                         end)
  end.
Definition api_state (urlnorm : text -> url_result) (st : list (list rec)) (ops : list api_op) : list (list rec) :=
  fold_left (fun s op => fst (api_step urlnorm s op)) ops st.
Fixpoint api_run (urlnorm : text -> url_result) (st : list (list rec)) (ops : list api_op) : list api_out :=
  match ops with
  | [] => []
  | op :: r => let '(st', o) := api_step urlnorm st op in o :: api_run urlnorm st' r
  end.

Inductive api_obs := AObsParse (o : obs_out (list obs)) | AObsNone | AObsBytes (o : obs_out bytes).
Definition api_out_eqb (m : api_out) (o : api_obs) : bool :=
  match m, o with
  | OutParse a, AObsParse b => out_eqb (fun l lo => list_eqb obs_eqb (map canon l) lo) a b
  | OutNone, AObsNone => true
  | OutBytes a, AObsBytes b => out_eqb bytes_eqb a b
  | _, _ => false
  end.
Fixpoint list_eqb2 {A B} (eq : A -> B -> bool) (a : list A) (b : list B) : bool :=
  match a, b with
  | [], [] => true
  | x :: a', y :: b' => eq x y && list_eqb2 eq a' b'
  | _, _ => false
  end.
(** api case: (recorded urlparse calls, operations, what the implementation returned for each) *)
Definition check_api (c : url_table * list api_op * list api_obs) : bool :=
  let '(tbl, ops, outs) := c in list_eqb2 api_out_eqb (api_run (lookup_url tbl) [] ops) outs.

(** UUID constructor obligation, checked on the implementation every run over the structured
    corner values of the UUID space (Base-UUID aliases, 32-bit aliases, all-zero, all-FF,
    one-byte neighbours of the base) and random values: [UUID(b)] for 2 / 16 bytes keeps
    [b] as its packed form with type 16-bit / 128-bit - what [uuid_of_bytes] transcribes and
    every theorem about the UUID-bearing records (0x02-0x07, 0x14-0x16, 0x21) relies on.
    case: (bytes handed to UUID(), observed (packed, type) or None when it raised) *)
Definition check_uuid_bytes (c : bytes * option (bytes * N)) : bool :=
  match uuid_of_bytes (fst c), snd c with
  | Ok u, Some (p, t) => bytes_eqb (packed u) p && (uty u =? t)
  | Raise _, None => true
  | _, _ => false
  end.

(** UTF-8 library cases: (bytes, CPython's decode result) and (code point, CPython's encode result) *)
Definition opt_eqb (a b : option (list N)) : bool :=
  match a, b with Some x, Some y => bytes_eqb x y | None, None => true | _, _ => false end.
Definition check_utf8_decode (c : bytes * option text) : bool := opt_eqb (utf8_decode (fst c)) (snd c).
Definition check_utf8_encode (c : text * option bytes) : bool := opt_eqb (utf8_encode (fst c)) (snd c).
(** exhaustive two-byte sweep, one case per first byte: results for second byte 0..255,
    coded 0 = error, 1 + cp = one code point, 2097152 + 256 a + b = two code points *)
Definition code2 (o : option text) : N :=
  match o with
  | Some [c] => 1 + c
  | Some [a; b] => 2097152 + 256 * a + b
  | _ => 0
  end.
Definition check_utf8_row (c : N * list N) : bool :=
  bytes_eqb (map (fun b1 => code2 (utf8_decode [fst c; N.of_nat b1])) (seq 0 256)) (snd c).

(** The boolean form of the theorems' conclusions, for model-side search. *)
Definition total_ok (tbl : url_table) (b : bytes) : bool :=
  match from_bytes (lookup_url tbl) b with
  | Ok _ => true
  | Raise AdvDataError => true
  | Raise AdvDataFieldListOverflow => (31 <? length b)%nat
  | Raise _ => false
  end.
