(** C15 — property theorems only (each closed by [exact]); see Proofs.v.
    [urlnorm] stands for urllib.parse (urlparse + geturl) and is universally quantified:
    the theorems hold whatever urllib does. *)
From Coq Require Import String List NArith Arith Bool.
From Whad Require Import Lib.Bytes Lib.Utf8 C15.Model C15.Proofs.
Import ListNotations.
Open Scope nat_scope.

(** Every list of well-formed records (any of the 22 handled classes, any field values,
    see [wf_rec]) that fits in 31 bytes serialises without error to at most 31 bytes
    that parse back to the SAME list: same classes in the same order, same exposed
    values, hence the same bytes. *)
Theorem C15_parse_serialise :
  forall (urlnorm : text -> url_result) (l : list rec),
    forallb (wf_rec urlnorm) l = true -> fits31 l ->
    exists b, to_bytes l = Ok b /\ length b <= 31 /\ from_bytes urlnorm b = Ok l.
Proof. exact parse_serialise. Qed.

(** Records built by the class constructors from admissible arguments are well formed. *)
Theorem C15_constructed_wf :
  forall (urlnorm : text -> url_result) (k : call) (r : rec),
    call_ok urlnorm k = true -> construct urlnorm k = Ok r -> wf_rec urlnorm r = true.
Proof. exact construct_wf. Qed.

(** FULL STATEMENT of the round trip over ALL arguments the constructors accept. It is
    refuted by the faithful model (two recorded finding classes, witnesses replayed on the
    implementation at every run): a URI whose normal form urllib does not map to itself
    (KNOWN-FINDING uri-not-urlparse-stable) and values the serialised record cannot carry
    (KNOWN-FINDING value-outside-serialisable-domain). *)
Definition C15_roundtrip_all_constructible_statement : Prop :=
  forall (urlnorm : text -> url_result) (ks : list call) (l : list rec),
    mapM (construct urlnorm) ks = Ok l -> fits31 l ->
    exists b, to_bytes l = Ok b /\ from_bytes urlnorm b = Ok l.

Theorem C15_roundtrip_all_constructible_refuted_uri :
  exists urlnorm ks l, mapM (construct urlnorm) ks = Ok l /\ fits31 l
    /\ exists b, to_bytes l = Ok b /\ from_bytes urlnorm b = Raise AdvDataError.
Proof. exact roundtrip_all_constructible_refuted_uri. Qed.

Theorem C15_roundtrip_all_constructible_refuted_domain :
  forall urlnorm, exists ks l, mapM (construct urlnorm) ks = Ok l /\ fits31 l
    /\ exists b l', to_bytes l = Ok b /\ from_bytes urlnorm b = Ok l' /\ l' <> l.
Proof. exact roundtrip_all_constructible_refuted_domain. Qed.

(** The part that holds: constructor calls with admissible arguments ([call_ok], the
    complement of the two finding classes) always round-trip. *)
Theorem C15_roundtrip_constructible_partial :
  forall (urlnorm : text -> url_result) (ks : list call) (l : list rec),
    forallb (call_ok urlnorm) ks = true -> mapM (construct urlnorm) ks = Ok l -> fits31 l ->
    exists b, to_bytes l = Ok b /\ length b <= 31 /\ from_bytes urlnorm b = Ok l.
Proof. exact roundtrip_constructible_partial. Qed.

(** For ALL byte strings: at most 31 bytes parse to a record list or raise
    AdvDataError; longer ones raise AdvDataFieldListOverflow. No other exception class
    (struct.error, IndexError, ValueError, UnicodeDecodeError, UnicodeEncodeError,
    AttributeError, InvalidUUIDException, InvalidBDAddressException) escapes. *)
Theorem C15_parser_total :
  forall (urlnorm : text -> url_result) (b : bytes), wf_bytes b = true ->
    (length b <= 31 ->
       (exists l, from_bytes urlnorm b = Ok l) \/ from_bytes urlnorm b = Raise AdvDataError)
    /\ (31 < length b -> from_bytes urlnorm b = Raise AdvDataFieldListOverflow).
Proof. exact parser_total. Qed.

(** The fuel [from_bytes] gives its loop is never exhausted. *)
Theorem C15_fuel_enough :
  forall (urlnorm : text -> url_result) (b : bytes), wf_bytes b = true ->
    parse_loop urlnorm (length b) b <> Raise OutOfFuel.
Proof. exact parse_loop_fuel_enough. Qed.

(** Records of a type without handler are skipped. *)
Theorem C15_unknown_type_skipped :
  forall (urlnorm : text -> url_result) (f : nat) (t : N) (payload rest : bytes),
    decode urlnorm t payload = None ->
    parse_loop urlnorm (S f) (N.of_nat (length payload + 1) :: t :: payload ++ rest)
    = parse_loop urlnorm f rest.
Proof. exact unknown_type_skipped. Qed.

(** A list that does not fit raises the documented overflow error. *)
Theorem C15_to_bytes_overflow :
  forall l : list rec,
    Forall (fun r => length (value r) + 1 < 256) l -> ~ fits31 l ->
    to_bytes l = Raise AdvDataFieldListOverflow.
Proof. exact to_bytes_overflow. Qed.

(** Lib/Utf8: decoding inverts encoding, and decoded text is always encodable. *)
Theorem C15_utf8_decode_encode :
  forall (t : text) (b : bytes), utf8_encode t = Some b -> utf8_decode b = Some t.
Proof. exact utf8_decode_encode. Qed.

Theorem C15_utf8_decode_valid :
  forall (b : bytes) (t : text), utf8_decode b = Some t -> valid_text t = true.
Proof. exact utf8_decode_valid. Qed.

(** FULL STATEMENT of totality for the tree BEFORE the fix commits (model
    [from_bytes_legacy]); refuted by three witnesses, one per escaping class. Each is
    replayed on the implementation at every run (corpus/C15/fixed-*.json). *)
Definition C15_legacy_parser_total_statement : Prop :=
  forall (urlnorm : text -> url_result) (b : bytes), wf_bytes b = true -> length b <= 31 ->
    (exists l, from_bytes_legacy urlnorm b = Ok l) \/ from_bytes_legacy urlnorm b = Raise AdvDataError.

Theorem C15_legacy_unicode_decode_error_refuted :
  forall urlnorm, from_bytes_legacy urlnorm [3; 36; 255; 254]%N = Raise UnicodeDecodeError.
Proof. exact legacy_unicode_decode_error_escapes. Qed.

Theorem C15_legacy_attribute_error_refuted :
  forall urlnorm, from_bytes_legacy urlnorm [1; 36]%N = Raise AttributeError.
Proof. exact legacy_attribute_error_escapes. Qed.

Theorem C15_legacy_value_error_refuted :
  forall urlnorm, urlnorm (cps "http://[") = UrlValueError ->
    from_bytes_legacy urlnorm [5; 36; 22; 47; 47; 91]%N = Raise ValueError.
Proof. exact legacy_value_error_escapes. Qed.

(** AdvertisingDevicesDB.on_device_found, for ALL TIMED sequences of advertisements (each
    event = time elapsed on the clock + ADV_IND / ADV_NONCONN_IND / SCAN_RSP / other PDU;
    any addresses, any record bytes, any filter / updates setting) from ANY clock value and
    ANY database state: no call raises ("scanning survives any advertisement on the air").
    Induction over the sequence on top of C15_parser_total. *)
Theorem C15_scan_never_raises :
  forall (urlnorm : text -> url_result) (filter : option N) (updates : bool)
         (evs : list event) (clock : N) (db : list device),
    Forall (fun ev => wf_bytes (ev_data ev) = true) evs ->
    exists r, scan urlnorm filter updates clock db evs = Ok r.
Proof. exact scan_never_raises. Qed.

(** ... and what the database holds for an address is what was parsed: the advertising
    records are the parse of an ADV_IND / ADV_NONCONN_IND of that address in the sequence,
    the scan-response records (present iff got_scan_rsp) the parse of a SCAN_RSP of that
    address. *)
Theorem C15_scan_stored_parsed :
  forall (urlnorm : text -> url_result) (filter : option N) (updates : bool) (clock : N)
         (evs : list event) (r : list device * list (list N) * list (list N)),
    scan urlnorm filter updates clock [] evs = Ok r -> Forall (dev_ok urlnorm evs) (fst (fst r)).
Proof. exact scan_stored_parsed. Qed.

(** Malformed records (AdvDataError / overflow) leave the database untouched. *)
Theorem C15_scan_malformed_ignored :
  forall (urlnorm : text -> url_result) (filter : option N) (updates : bool) (now : N)
         (db : list device) (ev : event),
    parse_adv urlnorm (ev_data ev) = Ok None -> handle urlnorm filter updates now db ev = Ok (db, []).
Proof. exact malformed_ignored. Qed.

(** What is reported when.  On EVERY call, whatever the event (also a malformed one or a
    PDU that is ignored), the timeout sweep reports exactly the devices that are [due]
    once the event has been handled: not reported before, and either scanned (they
    answered a scan request, or an earlier rssi update already saw the timeout) or created
    strictly more than 500 ms before this call; all of them are in the returned list, and
    after the call no device is due any more. *)
Theorem C15_sweep_reports_due :
  forall (urlnorm : text -> url_result) (filter : option N) (updates : bool) (now : N)
         (db : list device) (ev : event) (db2 : list device) (ret ys : list N),
    on_device_found urlnorm filter updates now db ev = Ok (db2, ret, ys) ->
    exists db1 app, handle urlnorm filter updates now db ev = Ok (db1, app)
      /\ ys = map d_addr (List.filter (due now) db1)
      /\ (forall y, In y ys -> In y ret)
      /\ forallb (fun d => negb (due now d)) db2 = true.
Proof. exact sweep_reports_due. Qed.

(** ... and over ANY timed sequence the sweep reports an address AT MOST ONCE (from the
    empty database; [C15_scan_reports_once_general]: from any database with unique
    addresses in which the already reported addresses [R] are marked). Together: a device
    is reported exactly once, by the call that delivers its scan response or by the first
    call made more than 500 ms after its first advertisement, whichever comes first -
    provided such a call is made. *)
Theorem C15_scan_reports_once :
  forall (urlnorm : text -> url_result) (filter : option N) (updates : bool) (clock : N)
         (evs : list event) (r : list device * list (list N) * list (list N)),
    scan urlnorm filter updates clock [] evs = Ok r -> NoDup (concat (snd r)).
Proof. exact scan_reports_once_from_empty. Qed.

Theorem C15_scan_reports_once_general :
  forall (urlnorm : text -> url_result) (filter : option N) (updates : bool)
         (evs : list event) (clock : N) (db : list device) (R : list N)
         (r : list device * list (list N) * list (list N)),
    Inv R db -> NoDup R -> scan urlnorm filter updates clock db evs = Ok r ->
    NoDup (R ++ concat (snd r)).
Proof. exact scan_reports_once. Qed.

(** Operation sequences on the API (parse / edit a returned record through its setters /
    parse again / serialise): whatever operations came before, in whatever state, parsing
    [b] returns [from_bytes b] - the parser has no memory, and an edit of one returned list
    never shows in another. (Immediate in the model, where lists are values; what ties the
    implementation to it is the sequence correspondence [check_api] and the oracle.) *)
Theorem C15_from_bytes_pure_in_sequences :
  forall (urlnorm : text -> url_result) (ops : list api_op) (st : list (list rec)) (b : bytes),
    nth (length ops) (api_run urlnorm st (ops ++ [ApiParse b])) OutNone
    = OutParse (from_bytes urlnorm b).
Proof. exact api_parse_pure. Qed.

Theorem C15_api_edit_local :
  forall (urlnorm : text -> url_result) (st : list (list rec)) (op : api_op) (i k : nat),
    (exists j v, op = ApiSetName i j v) \/ (exists j v, op = ApiSetCompany i j v)
    \/ (exists j v, op = ApiSetData i j v) ->
    i <> k -> nth k (fst (api_step urlnorm st op)) [] = nth k st [].
Proof. exact api_edit_local. Qed.

(** Built lists: after ANY sequence of build / add / remove / edit-through-setter /
    serialise / parse operations, [to_bytes()] of list #i is the serialisation of the records
    the list holds at that moment, and (well-formed records that fit) parsing it returns
    exactly those records - never an earlier state of the list. *)
Theorem C15_api_serialise_current :
  forall (urlnorm : text -> url_result) (ops : list api_op) (st : list (list rec)) (i : nat),
    nth (length ops) (api_run urlnorm st (ops ++ [ApiSerialise i])) OutNone
    = OutBytes (to_bytes (nth i (api_state urlnorm st ops) [])).
Proof. exact api_serialise_current. Qed.

Theorem C15_api_reparse_current :
  forall (urlnorm : text -> url_result) (ops : list api_op) (st : list (list rec)) (i : nat),
    let l := nth i (api_state urlnorm st ops) [] in
    forallb (wf_rec urlnorm) l = true -> fits31 l ->
    nth (length ops) (api_run urlnorm st (ops ++ [ApiReparse i])) OutNone = OutParse (Ok l).
Proof. exact api_reparse_current. Qed.

(** Non-vacuity: a concrete list over eight classes (flags, 16-bit UUID list, name, URI,
    appearance, LE role, TX power, LE features) is well formed, fits, and round-trips. *)
Example C15_nonvacuous :
  let urlnorm := fun u : text =>
    if bytes_eqb u (cps "http://a") then UrlOk (cps "http") (cps "//a") else UrlValueError in
  let l := [Flags false true true false; Uuid16s CompSvc16 [[15; 24]%N]; ShortName [119; 104]%N;
            Uri Http (cps "//a"); Appearance 961%N; LeRole 2%N; TxPower 251%N;
            LeFeatures true false false false true false false false] in
  forallb (wf_rec urlnorm) l = true /\ fits31 l
  /\ (exists b, to_bytes l = Ok b /\ length b = 30 /\ from_bytes urlnorm b = Ok l).
Proof.
  cbv zeta. split; [vm_compute; reflexivity|]. split; [unfold fits31; vm_compute; repeat constructor|].
  eexists. split; [vm_compute; reflexivity|]. split; vm_compute; reflexivity.
Qed.
